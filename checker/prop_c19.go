package main

import (
	"fmt"
	"go/constant"
	"go/types"
	"strings"

	"golang.org/x/tools/go/ssa"
)

func init() { props["C19"] = propC19 }

func propC19(c *Ctx, r *Report) {
	r.Explain = "Decides the structure of the version lock: (R1) every committed height records the running build's sync version (InsertSynced -> MarkHeightSynced -> INSERT with PegnetdSyncVersion, on the block tx - shared with C02-R4/R5); (R2) NewPegnetd reaches `return node` only through CheckHardForks, whose error aborts start-up unless the override flag is set (decision table over error x flag); (R3) CheckHardForks decision table over the orderings of its compared quantities per fork event: the minimum-version query is consulted iff ActivationHeight <= highest synced height and refuses iff found version < required; a downgrade is refused iff PegnetdSyncVersion < highest recorded version; a legacy database (synced beyond the first tracked height) gets a -1 marker for every fork height it has already synced (>=), whatever the lowest tracked height is; the version queries are MIN/MAX aggregates over height >= ?; (R4) the fork table is ascending, non-decreasing in version, every height is a config activation and the current sync version satisfies the last fork."
	r.NotDec = "acceptance over arbitrary session histories (the content of pn_sync_version is runtime data)"
	r.Trusted = []string{"SQLite aggregates", "go/ssa"}
	cat := buildSQLCat(c)

	r.rule("C19-R6/markers-storable", 1, "the version table accepts the -1 markers of the fork check")
	ruleSyncVersionAcceptsMarkers(c, r, cat, "C19-R6/markers-storable")
	r.rule("C19-R7/min-max-agreement", 2, "FetchMin/FetchMaxSyncedVersion return the aggregate they are named after")
	ruleMinMaxAgreement(c, r, cat, "C19-R7/min-max-agreement")
	// R1
	r.rule("C19-R1/version-recorded", 3, "each committed height records the build's sync version")
	mhs := c.fn("pegnet.Pegnet.MarkHeightSynced")
	mv := c.fn("pegnet.Pegnet.markHeightSyncedVersion")
	// by position and type, not by name: the scalars handed over (directly or as fields of a small struct) are the
	// transaction and the height MarkHeightSynced was given, and the build's version constant
	for _, ci := range c.findCallsFam(mhs, "pegnet.Pegnet.markHeightSyncedVersion") {
		var srcs []ssa.Value
		for _, a := range ci.Common().Args {
			srcs = append(srcs, a)
			if stt, ok := a.Type().Underlying().(*types.Struct); ok {
				for k := 0; k < stt.NumFields(); k++ {
					srcs = append(srcs, c.structFieldSources(a, k, 0)...)
				}
			}
		}
		hasTx, hasH, hasV := false, false, false
		for _, v := range srcs {
			if p := c.rootParamOf(v, mhs, 0); p != nil {
				if b, ok := p.Type().Underlying().(*types.Basic); ok && b.Kind() == types.Uint32 {
					hasH = true
				} else if _, isBasic := p.Type().Underlying().(*types.Basic); !isBasic && p != mhs.Params[0] {
					hasTx = true
				}
			}
			if typePath(unwrapConv(v)) == "pegnet.PegnetdSyncVersion" || valuePath(unwrapConv(v)) == "pegnet.PegnetdSyncVersion" {
				hasV = true
			}
		}
		r.check(hasTx && hasH && hasV, "C19-R1/version-recorded", "MarkHeightSynced records PegnetdSyncVersion for the given height on the given tx", c.ipos(ci), "", fmt.Sprintf("transaction parameter passed=%v, height parameter passed=%v, PegnetdSyncVersion passed=%v", hasTx, hasH, hasV))
	}
	for _, ci := range c.findCallsFam(mv, "database/sql.Stmt.Exec") {
		els := varargElems(ci.Common().Args[1])
		fromParams := func(v ssa.Value, kind types.BasicKind) bool {
			if mi, ok := v.(*ssa.MakeInterface); ok {
				v = mi.X
			}
			b, ok := unwrapConv(v).Type().Underlying().(*types.Basic)
			if !ok || b.Kind() != kind {
				return false
			}
			return sliceHas(v, func(x ssa.Value) bool {
				p, ok := x.(*ssa.Parameter)
				return ok && p.Parent() == ci.Parent()
			})
		}
		okk := len(els) == 3 && fromParams(els[0], types.Uint32) && fromParams(els[1], types.Int)
		r.check(okk, "C19-R1/version-recorded", "version row = (height, version, now)", c.ipos(ci), "", "the INSERT into pn_sync_version does not bind (height, version, timestamp)")
	}
	is := c.fn("pegnet.Pegnet.InsertSynced")
	r.check(len(c.findCallsFam(is, "pegnet.Pegnet.MarkHeightSynced")) == 1, "C19-R1/version-recorded", "InsertSynced marks the height", c.pos(is.Pos()), "", "InsertSynced does not call MarkHeightSynced")

	// R2 start-up gate
	r.rule("C19-R2/startup-gate", 3, "start-up passes the hard-fork check")
	np := c.Startup
	for _, cs := range []struct {
		name   string
		chk    AVal
		flag   bool
		wantOK bool
	}{
		{"check passes", nilVal, false, true},
		{"check fails, no override", fresh, false, false},
		{"check fails, override flag set", fresh, true, true},
	} {
		sc := &Scenario{Calls: map[string]AVal{"CheckHardForks": cs.chk, "github.com/spf13/viper.Viper.GetBool": cBool(cs.flag), "Init": nilVal,
			"SelectSynced": {K: ATuple, Tup: []AVal{nonNil, nilVal}}}, MaxDepth: 0}
		t := newSCCP(c, sc).analyse(np, nil)
		r.Scen++
		okRet, errRet := false, false
		for _, rv := range t.Returns() {
			if rv[1].isNil() {
				okRet = true
			} else {
				errRet = true
			}
		}
		live := t.Live("CheckHardForks")
		r.check(live && okRet == cs.wantOK && errRet == !cs.wantOK, "C19-R2/startup-gate", cs.name, c.pos(np.Pos()), map[bool]string{true: "node starts", false: "start-up refused"}[cs.wantOK], fmt.Sprintf("CheckHardForks consulted=%v, returns node=%v, returns error=%v", live, okRet, errRet))
	}
	// CheckHardForks lies on every path to the successful return (must-pass in the no-fault scenario)
	{
		sc := &Scenario{MaxDepth: 0, AllErrorsNil: true}
		t := newSCCP(c, sc).analyse(np, nil)
		r.Scen++
		calls := t.CallsTo("CheckHardForks")
		bad := "CheckHardForks not executable"
		if len(calls) > 0 {
			bad = "CheckHardForks is not called from NewPegnetd or a stage called once from it"
			if site := c.liftSite(calls[0].Instr, np); site != nil {
				bad = mustPass(t.Root, site)
			}
		}
		r.check(bad == "", "C19-R2/startup-gate", "CheckHardForks on every successful start-up path", c.pos(np.Pos()), "", bad)
	}

	// R3 CheckHardForks table
	r.rule("C19-R3/fork-table", 12, "refusal conditions of CheckHardForks")
	chf := c.fn("pegnet.Pegnet.CheckHardForks")
	acc := newTableAcc()
	rel := []int{-1, 0, 1}
	relS := map[int]string{-1: "<", 0: "=", 1: ">"}
	mk := func(order map[string]int, bsNil bool) *Scenario {
		calls := map[string]AVal{
			"LowestSynced":          {K: ATuple, Tup: []AVal{sym("minSynced"), nilVal}},
			"HighestSynced":         {K: ATuple, Tup: []AVal{sym("top"), nilVal}},
			"FetchMinSyncedVersion": {K: ATuple, Tup: []AVal{sym("found"), nilVal}},
			"FetchMaxSyncedVersion": {K: ATuple, Tup: []AVal{sym("max"), nilVal}},
		}
		if bsNil {
			calls["SelectSynced"] = AVal{K: ATuple, Tup: []AVal{nilVal, fresh}}
		} else {
			calls["SelectSynced"] = AVal{K: ATuple, Tup: []AVal{nonNil, nilVal}}
		}
		return &Scenario{Calls: calls,
			Paths: map[string]AVal{"pegnet.ForkEvent.ActivationHeight": sym("act"), "pegnet.ForkEvent.MinimumVersion": sym("required"), "pegnet.BlockSync.Synced": sym("synced"), "pegnet.PegnetdSyncVersion": sym("current")},
			Order: func(a, b AVal) (int, bool) {
				if a.K != ASym || b.K != ASym {
					return 0, false
				}
				if v, ok := order[a.Sym+"?"+b.Sym]; ok {
					return v, true
				}
				if v, ok := order[b.Sym+"?"+a.Sym]; ok {
					return -v, true
				}
				return 0, false
			}, MaxDepth: 0}
	}
	// (a) minimum-version rule
	for _, at := range rel {
		for _, fv := range rel {
			sc := mk(map[string]int{"act?top": at, "found?required": fv, "current?max": 0}, true)
			t, _ := acc.run(c, r, chf, sc)
			consulted := t.Live("FetchMinSyncedVersion")
			le := loopOver(t.Root, "pegnet.Hardforks", 2)
			if !le.Found {
				le = loopOver(t.Root, "pegnet.Hardforks", 1)
			}
			refused := false
			exits := le.Returns
			if !le.Found {
				// the fork loop was moved into a helper: what CheckHardForks itself returns in this scenario (the other
				// refusals are switched off by the scenario)
				exits = errorReturns(t.Root)
				for i, x := range exits {
					if x != "nil" {
						exits[i] = "err:fresh" // a helper's merged result: some error, where every other cell of the table gives nil only
					}
				}
			}
			for _, x := range exits {
				if x == "err:fresh" {
					refused = true
				}
			}
			wantC := at <= 0
			wantR := wantC && fv < 0
			cons := fmt.Sprintf("fork height %s highest synced, found version %s required", relS[at], relS[fv])
			r.check(consulted == wantC && refused == wantR, "C19-R3/fork-table", cons, c.pos(chf.Pos()), fmt.Sprintf("consulted=%v refused=%v", wantC, wantR), fmt.Sprintf("version query consulted=%v (expected %v), refused=%v (expected %v)", consulted, wantC, refused, wantR))
		}
	}
	// (b) downgrade rule
	for _, cm := range rel {
		sc := mk(map[string]int{"act?top": 1, "current?max": cm}, true)
		t, _ := acc.run(c, r, chf, sc)
		errs := strings.Join(errorReturns(t.Root), "|")
		want := "nil"
		if cm < 0 {
			want = "err:fresh"
		}
		r.check(errs == want, "C19-R3/fork-table", fmt.Sprintf("build sync version %s highest recorded version", relS[cm]), c.pos(chf.Pos()), want, "returns "+errs+", expected "+want)
	}
	// (c) legacy back-fill
	for _, sm := range rel { // synced ? minSynced
		for _, sa := range rel { // synced ? act
			for _, am := range rel { // act ? minSynced
				sc := mk(map[string]int{"synced?minSynced": sm, "synced?act": sa, "act?minSynced": am, "act?top": 1, "current?max": 0}, false)
				t, _ := acc.run(c, r, chf, sc)
				marked := false
				for _, lc := range t.CallsTo("markHeightSyncedVersion") {
					// the scalars handed over, directly or as the fields of a small struct
					var scalars []AVal
					for _, a := range lc.Args {
						scalars = append(scalars, a)
						if a.K == APtr {
							for _, fv := range t.s.objFields[a.Obj] {
								scalars = append(scalars, fv)
							}
						}
					}
					minusOne, forAct := false, false
					for _, a := range scalars {
						if v, ok := a.intVal(); ok && v == -1 {
							minusOne = true
						}
						if a.String() == "$act" {
							forAct = true
						}
					}
					if minusOne && forAct {
						marked = true
					}
				}
				want := sm > 0 && sa >= 0
				cons := fmt.Sprintf("legacy database: synced %s lowest tracked, synced %s fork height, fork height %s lowest tracked", relS[sm], relS[sa], relS[am])
				r.check(marked == want, "C19-R3/fork-table", cons, c.pos(chf.Pos()), fmt.Sprintf("-1 marker written=%v", want), fmt.Sprintf("-1 marker for the fork height written=%v, expected %v: a database that synced the fork height with a build predating version tracking %s", marked, want, map[bool]string{true: "is not marked and is accepted", false: "is marked although it did not sync that height"}[want]))
			}
		}
	}
	// no legacy marker when there is no sync record
	{
		sc := mk(map[string]int{"act?top": 1, "current?max": 0}, true)
		t, _ := acc.run(c, r, chf, sc)
		r.check(!t.Live("markHeightSyncedVersion"), "C19-R3/fork-table", "fresh database: no marker", c.pos(chf.Pos()), "", "markers are written for a database without a sync record")
	}
	acc.report(c, r, "C19-R3/fork-table", chf)
	// version queries
	for _, spec := range []struct{ fn, agg string }{{"pegnet.Pegnet.FetchMinSyncedVersion", "MIN(VERSION)"}, {"pegnet.Pegnet.FetchMaxSyncedVersion", "MAX(VERSION)"}} {
		f := c.fn(spec.fn)
		for _, st := range cat.Stmts {
			if st.Fn != f {
				continue
			}
			U := strings.ToUpper(strings.Join(strings.Fields(st.Text), " "))
			okk := strings.Contains(U, spec.agg) && strings.Contains(U, "WHERE HEIGHT >= ?") && st.Table == "pn_sync_version" && !st.Limit
			r.check(okk, "C19-R3/fork-table", fname(f)+" aggregates over all heights >= ?", c.ipos(st.Site), spec.agg, "query is `"+oneLine(st.Text)+"`: the check must consider every recorded height at or above the given one, not a single row")
		}
	}
	// the downgrade check asks from height 0, the fork check from the fork's own height
	for _, ci := range findCalls(chf, "pegnet.Pegnet.FetchMaxSyncedVersion") {
		k, ok := ci.Common().Args[2].(*ssa.Const)
		r.check(ok && k.Int64() == 0, "C19-R3/fork-table", "downgrade check covers every height", c.ipos(ci), "", "FetchMaxSyncedVersion is not asked from height 0")
	}
	for _, ci := range findCalls(chf, "pegnet.Pegnet.FetchMinSyncedVersion") {
		r.check(typePath(ci.Common().Args[2]) == "pegnet.ForkEvent.ActivationHeight", "C19-R3/fork-table", "fork check asks from the fork's height", c.ipos(ci), "", "FetchMinSyncedVersion is given "+typePath(ci.Common().Args[2]))
	}

	// the tracked range is read after the legacy markers have been written
	for _, rd := range []string{"pegnet.Pegnet.HighestSynced", "pegnet.Pegnet.FetchMinSyncedVersion", "pegnet.Pegnet.FetchMaxSyncedVersion"} {
		for _, rc := range findCalls(chf, rd) {
			late := ""
			for _, wc := range findCalls(chf, "pegnet.Pegnet.markHeightSyncedVersion") {
				if instrReaches(rc, wc) {
					late = c.ipos(wc)
				}
			}
			r.check(late == "", "C19-R3/fork-table", shortCallee(rc.Common())+" sees the legacy markers", c.ipos(rc), "no marker write can follow the read", "the -1 marker written at "+late+" can follow this read of pn_sync_version: on the first start over a legacy database the check runs on the range as it was before the markers existed and accepts it")
		}
	}

	ruleHeightOnce(c, cat, r, "C19-R5/version-rows-kept")
	// R4 fork table sanity
	r.rule("C19-R4/fork-list", 1, "Hardforks is ordered, consistent with the activations and satisfiable by this build")
	forkList(c, r)
}

func forkList(c *Ctx, r *Report) {
	type ev struct {
		h uint64
		v int64
	}
	evs := map[int64]*ev{}
	for _, f := range c.Funcs {
		if f.Pkg == nil || f.Pkg.Pkg.Name() != "pegnet" || !strings.HasPrefix(f.Name(), "init") {
			continue
		}
		allInstrs(f, func(ins ssa.Instruction) {
			st, ok := ins.(*ssa.Store)
			if !ok {
				return
			}
			fa, ok := st.Addr.(*ssa.FieldAddr)
			if !ok || namedShort(fa.X.Type()) != "pegnet.ForkEvent" {
				return
			}
			ia, ok := fa.X.(*ssa.IndexAddr)
			if !ok {
				return
			}
			ic, ok1 := ia.Index.(*ssa.Const)
			k, ok2 := st.Val.(*ssa.Const)
			if !ok1 || !ok2 || k.Value == nil || k.Value.Kind() != constant.Int {
				return
			}
			e := evs[ic.Int64()]
			if e == nil {
				e = &ev{}
				evs[ic.Int64()] = e
			}
			if derefStruct(fa.X.Type()).Field(fa.Field).Name() == "ActivationHeight" {
				e.h = k.Uint64()
			} else {
				e.v = k.Int64()
			}
		})
	}
	acts := c.activations()
	gi := c.globalInits()
	cur := int64(-999)
	if v, ok := gi[c.global("pegnet", "PegnetdSyncVersion")]; ok {
		cur, _ = v.intVal()
	}
	var bad []string
	n := len(evs)
	for i := int64(0); i < int64(n); i++ {
		e := evs[i]
		if e == nil {
			bad = append(bad, fmt.Sprintf("entry %d not a constant literal", i))
			continue
		}
		if i > 0 && evs[i-1] != nil {
			if e.h <= evs[i-1].h {
				bad = append(bad, fmt.Sprintf("entry %d height %d is not above the previous %d", i, e.h, evs[i-1].h))
			}
			if e.v < evs[i-1].v {
				bad = append(bad, fmt.Sprintf("entry %d requires version %d below the previous %d", i, e.v, evs[i-1].v))
			}
		}
		if e.h != 0 {
			isAct := false
			for _, v := range acts.m {
				if uint64(v) == e.h {
					isAct = true
				}
			}
			if !isAct {
				bad = append(bad, fmt.Sprintf("entry %d height %d is not an activation height of package config", i, e.h))
			}
		}
	}
	if n > 0 && evs[int64(n-1)] != nil && cur < evs[int64(n-1)].v {
		bad = append(bad, fmt.Sprintf("PegnetdSyncVersion %d is below the last fork's minimum %d: this build refuses its own databases", cur, evs[int64(n-1)].v))
	}
	r.check(len(bad) == 0 && n >= 2, "C19-R4/fork-list", "pegnet.Hardforks", "-", fmt.Sprintf("%d entries, current sync version %d", n, cur), strings.Join(bad, "; "))
}
