package main

// E4 whomay — who may write / who may call, over call graph + SQL catalogue.

import (
	"fmt"
	"go/token"
	"go/types"
	"sort"
	"strings"

	"golang.org/x/tools/go/ssa"
)

// qaParamIndex: index of the QueryAble parameter of f used as a statement receiver, or -1.
func qaParamIndex(f *ssa.Function) int {
	for i, p := range f.Params {
		if isNamed(p.Type(), modPath+"/node/pegnet", "QueryAble") {
			return i
		}
	}
	return -1
}

// derivesFromTxParam: value is (a conversion of) a *sql.Tx parameter of its function.
func derivesFromTxParam(v ssa.Value) bool {
	v = unwrap(v)
	if p := spilledParam(v); p != nil {
		v = p
	}
	// inside a closure: the captured slot of the enclosing function's *sql.Tx parameter
	if u, ok := v.(*ssa.UnOp); ok && u.Op == token.MUL {
		if fv, ok := u.X.(*ssa.FreeVar); ok {
			if al, _ := closureBinding(fv); al != nil && al.Referrers() != nil {
				var val ssa.Value
				n := 0
				for _, rf := range *al.Referrers() {
					if st, ok := rf.(*ssa.Store); ok && st.Addr == ssa.Value(al) {
						n++
						val = st.Val
					}
				}
				if n == 1 {
					return derivesFromTxParam(val)
				}
			}
		}
	}
	if fv, ok := v.(*ssa.FreeVar); ok {
		fn := fv.Parent()
		for i, w := range fn.FreeVars {
			if w != fv || fn.Parent() == nil {
				continue
			}
			res := false
			allInstrs(fn.Parent(), func(ins ssa.Instruction) {
				if mc, ok := ins.(*ssa.MakeClosure); ok && mc.Fn == ssa.Value(fn) && i < len(mc.Bindings) {
					res = derivesFromTxParam(mc.Bindings[i])
				}
			})
			return res
		}
	}
	p, ok := v.(*ssa.Parameter)
	return ok && isSQLTxPtr(p.Type())
}

// classifyQAArg says what a call site passes for a QueryAble parameter.
func classifyQAArg(v ssa.Value) string {
	u := unwrap(v)
	if isNilConst(u) {
		return "nil"
	}
	t := u.Type()
	switch {
	case isSQLTxPtr(t):
		return "Tx"
	case isNamed(t, "database/sql", "DB"):
		return "DB"
	case isNamed(t, modPath+"/node/pegnet", "QueryAble"):
		if _, ok := u.(*ssa.Parameter); ok {
			return "QAparam"
		}
		if ph, ok := u.(*ssa.Phi); ok {
			// e.g. `if q == nil { q = p.DB }`
			worst := "QAparam"
			for _, e := range ph.Edges {
				k := classifyQAArg(e)
				if k != "QAparam" && k != "Tx" {
					worst = k
				}
			}
			return worst
		}
	}
	return "other:" + t.String()
}

// blockWriteReceivers: C02-R1.  Every write statement reachable from the BLOCK
// roots must execute on the caller-supplied *sql.Tx.
func ruleBlockWritesOnTx(c *Ctx, cat *SQLCat, r *Report, rule string) {
	scope := map[*ssa.Function]bool{}
	for f := range c.RBlock {
		scope[f] = true
	}
	callers := map[*ssa.Function]bool{c.Sync: true}
	for f := range scope {
		callers[f] = true
	}
	// memo for QA functions: are all in-scope call sites passing a Tx?
	memo := map[*ssa.Function]string{}
	var qaOK func(f *ssa.Function, depth int) string
	qaOK = func(f *ssa.Function, depth int) string {
		if v, ok := memo[f]; ok {
			return v
		}
		memo[f] = "" // assume ok during recursion
		idx := qaParamIndex(f)
		if idx < 0 {
			memo[f] = "no QueryAble parameter"
			return memo[f]
		}
		var bad []string
		n := 0
		for _, e := range c.In[f] {
			if e.Kind != "static" || !callers[e.Caller] {
				continue
			}
			ci := e.Site.(ssa.CallInstruction)
			args := ci.Common().Args
			ai := idx
			if f.Signature.Recv() != nil {
				ai = idx // Params includes receiver as Params[0]; Args too
			}
			if ai >= len(args) {
				continue
			}
			n++
			switch k := classifyQAArg(args[ai]); k {
			case "Tx":
			case "QAparam":
				if depth < 5 {
					if m := qaOK(e.Caller, depth+1); m != "" {
						bad = append(bad, fmt.Sprintf("%s forwards its own QueryAble (%s)", fname(e.Caller), m))
					}
				}
			default:
				bad = append(bad, fmt.Sprintf("%s passes %s at %s", fname(e.Caller), k, c.ipos(e.Site)))
			}
		}
		if n == 0 {
			bad = append(bad, "no call site in the block path found")
		}
		memo[f] = strings.Join(bad, "; ")
		return memo[f]
	}
	ordn := newOrdinals()
	var poolReads []string
	for _, st := range cat.stmtsIn(scope) {
		key := fmt.Sprintf("%s %s %s", fname(st.Fn), st.Verb, st.Table)
		cons := fmt.Sprintf("%s %s", key, ord(ordn.next(key)))
		if !st.isWrite() {
			if st.Recv == "DB" {
				poolReads = append(poolReads, fmt.Sprintf("%s SELECT %s @ %s", fname(st.Fn), st.Table, c.ipos(st.Site)))
			}
			continue
		}
		switch st.Recv {
		case "Tx":
			if derivesFromTxParam(st.RecvVal) {
				r.ok(rule, cons, c.ipos(st.Site), "write issued on the *sql.Tx parameter")
			} else {
				r.viol(rule, cons, c.ipos(st.Site), "write issued on a *sql.Tx that is not the caller-supplied parameter")
			}
		case "QA":
			if m := qaOK(st.Fn, 0); m == "" {
				r.okNT(rule, cons, c.ipos(st.Site), "write on QueryAble parameter; every call site on the block path passes the block's *sql.Tx")
			} else {
				r.viol(rule, cons, c.ipos(st.Site), "write on QueryAble parameter that is not always the block's *sql.Tx: "+m)
			}
		case "DB":
			r.viol(rule, cons, c.ipos(st.Site), "write issued on the connection pool (p.DB) inside block processing: outside the block's transaction, survives a rollback and is visible before commit")
		default:
			r.undecided(rule, cons, c.ipos(st.Site), "unknown receiver class "+st.Recv)
		}
		if st.Unres {
			r.undecided(rule, cons+" text", c.ipos(st.Site), "statement text unresolved: "+oneLine(st.Text))
		}
	}
	sort.Strings(poolReads)
	r.Extra["pool_reads_inside_block"] = poolReads
}

// ruleNoWritesFrom: no write statement, BeginTx or *sql.Tx method reachable from the roots.
func ruleNoWritesFrom(c *Ctx, cat *SQLCat, r *Report, rule string, roots []*ssa.Function, rootName string) {
	for _, root := range roots {
		reach := c.reach(root)
		var probs []string
		for _, st := range cat.stmtsIn(reach) {
			// anything but a SELECT: writes, transaction control, and statements that change the state of the pooled
			// connection they happen to run on (PRAGMA, ATTACH, VACUUM ...), which the sync goroutine's next BeginTx may get
			if st.isWrite() || st.Unres || st.Verb != "SELECT" {
				probs = append(probs, fmt.Sprintf("%s %s %s in %s @ %s via %s", st.Verb, st.Table, st.Recv, fname(st.Fn), c.ipos(st.Site), joinNames(c.pathTo(root, st.Fn))))
			}
		}
		for f := range reach {
			for _, ci := range callsOf(f) {
				n := calleeName(ci.Common())
				if n == "database/sql.DB.BeginTx" || n == "database/sql.DB.Begin" || strings.HasPrefix(n, "database/sql.Tx.") {
					probs = append(probs, fmt.Sprintf("%s called in %s @ %s via %s", n, fname(f), c.ipos(ci), joinNames(c.pathTo(root, f))))
				}
				// a handler calling a function that takes *sql.Tx would need one
			}
		}
		sort.Strings(probs)
		cons := fmt.Sprintf("%s %s", rootName, fname(root))
		if len(probs) == 0 {
			r.okNT(rule, cons, c.pos(root.Pos()), fmt.Sprintf("%d functions reachable; no INSERT/UPDATE/DELETE/REPLACE/DDL statement, no BeginTx, no *sql.Tx method", len(reach)))
		} else {
			r.viol(rule, cons, c.pos(root.Pos()), strings.Join(probs, " | "))
		}
	}
}

// ruleTableWriters: the only statements that write `table` are the listed (function, verb, conflict) triples.
type writerSpec struct{ Fn, Verb, Conflict string }

func ruleTableWriters(c *Ctx, cat *SQLCat, r *Report, rule, table string, allowed []writerSpec, ignoreDDLInStartup bool) {
	found := map[string]bool{}
	ordn := newOrdinals()
	for _, st := range cat.Stmts {
		if st.Table != table || !st.isWrite() {
			continue
		}
		if ignoreDDLInStartup && (st.Verb == "CREATE" || st.Verb == "CREATE-INDEX" || st.Verb == "ALTER") && !c.RSync[st.Fn] && !c.RAPI[st.Fn] {
			continue
		}
		key := fmt.Sprintf("%s %s %s %s", table, fname(st.Fn), st.Verb, st.Conflict)
		okk := false
		for _, a := range allowed {
			if a.Verb != st.Verb || a.Conflict != st.Conflict {
				continue
			}
			own := false
			for _, alt := range strings.Split(a.Fn, "|") { // alternatives: a private helper and the function it may be inlined into
				if alt == fname(st.Fn) {
					own = true
				}
				if !own && isNewHelper(st.Fn) {
					// a helper split off from the allowed writer, callable only from it
					if af := c.fnOpt(alt); af != nil && c.onlyCalledFromFamily(st.Fn, af) {
						own = true
					}
				}
			}
			if own {
				okk = true
				found[a.Fn+a.Verb] = true
			}
		}
		cons := fmt.Sprintf("%s %s", strings.TrimSpace(key), ord(ordn.next(key)))
		if okk {
			r.okNT(rule, cons, c.ipos(st.Site), "expected writer")
		} else {
			r.viol(rule, cons, c.ipos(st.Site), fmt.Sprintf("unexpected statement writing %s: %s", table, oneLine(st.Text)))
		}
	}
	for _, a := range allowed {
		if !found[a.Fn+a.Verb] {
			r.viol(rule, fmt.Sprintf("%s expected writer %s %s", table, a.Fn, a.Verb), "-", "expected writer statement not found (anchor moved?)")
		}
	}
	// statements whose table is unresolved could write anything
	for _, st := range cat.Stmts {
		if st.Unres && (st.isWrite() || st.Verb == "" || strings.HasPrefix(st.Verb, "«")) {
			r.undecided(rule, fmt.Sprintf("%s unresolved statement in %s", table, fname(st.Fn)), c.ipos(st.Site), oneLine(st.Text))
		}
	}
}

// callSitesOf returns static module call sites of target.
func (c *Ctx) callSitesOf(target *ssa.Function) []*Edge {
	var out []*Edge
	for _, e := range c.In[target] {
		if e.Kind == "static" {
			out = append(out, e)
		}
	}
	sort.Slice(out, func(i, j int) bool {
		a, b := out[i], out[j]
		if fname(a.Caller) != fname(b.Caller) {
			return fname(a.Caller) < fname(b.Caller)
		}
		return a.Site.Pos() < b.Site.Pos()
	})
	return out
}

// escapeOfTx: C02-R3 — no *sql.Tx is stored anywhere that outlives the call; Commit/Rollback only in SYNC.
func ruleTxConfinement(c *Ctx, r *Report, rule string) {
	n := 0
	for _, f := range c.Funcs {
		allInstrs(f, func(ins ssa.Instruction) {
			switch x := ins.(type) {
			case *ssa.Store:
				if isSQLTxPtr(x.Val.Type()) {
					n++
					if a, ok := x.Addr.(*ssa.Alloc); ok && !a.Heap {
						return
					}
					// a variable captured by closures that do not escape is still local to the call
					if a, ok := x.Addr.(*ssa.Alloc); ok && a.Heap && onlyCapturedByLocalClosures(a) {
						return
					}
					// heap alloc captured by closure or field/global store
					r.viol(rule, fmt.Sprintf("%s stores *sql.Tx", fname(f)), c.ipos(ins), "a *sql.Tx is stored to memory that may outlive the call ("+x.Addr.String()+"): another goroutine could use the block's transaction")
				}
			case *ssa.MapUpdate:
				if isSQLTxPtr(x.Value.Type()) {
					r.viol(rule, fmt.Sprintf("%s puts *sql.Tx in a map", fname(f)), c.ipos(ins), "")
				}
			case *ssa.Send:
				if isSQLTxPtr(x.X.Type()) {
					r.viol(rule, fmt.Sprintf("%s sends *sql.Tx on a channel", fname(f)), c.ipos(ins), "")
				}
			case *ssa.Go:
				for _, a := range x.Call.Args {
					if isSQLTxPtr(a.Type()) {
						r.viol(rule, fmt.Sprintf("%s passes *sql.Tx to a goroutine", fname(f)), c.ipos(ins), "")
					}
				}
			case *ssa.MakeClosure:
				for _, b := range x.Bindings {
					t := b.Type()
					if p, ok := t.(*types.Pointer); ok && isSQLTxPtr(p.Elem()) || isSQLTxPtr(t) {
						if why := closureEscapes(x); why != "" {
							r.viol(rule, fmt.Sprintf("%s closure captures *sql.Tx", fname(f)), c.ipos(ins), "the closure "+why+": the block's transaction can be used after, or concurrently with, the call that owns it")
						} else {
							r.okNT(rule, fmt.Sprintf("%s closure captures *sql.Tx", fname(f)), c.ipos(ins), "the closure is only called (or deferred) inside the function that created it")
						}
					}
				}
			case ssa.CallInstruction:
				nm := calleeName(x.Common())
				if nm == "database/sql.Tx.Commit" || nm == "database/sql.Tx.Rollback" || nm == "database/sql.DB.BeginTx" || nm == "database/sql.DB.Begin" {
					n++
					top := f
					for top.Parent() != nil {
						top = top.Parent()
					}
					if f == c.Sync {
						r.ok(rule, fmt.Sprintf("%s calls %s", fname(f), nm), c.ipos(ins), "transaction control in the sync root")
					} else if top == c.Sync && closureStaysLocal(f) {
						r.ok(rule, fmt.Sprintf("%s calls %s", fname(f), nm), c.ipos(ins), "transaction control in a closure of the sync root that is only called there (its use is judged by the typestate rule)")
					} else if c.onlyCalledFromFamily(f, c.Sync) {
						r.ok(rule, fmt.Sprintf("%s calls %s", fname(f), nm), c.ipos(ins), "transaction control in a helper that only the sync root calls (its use is judged by the typestate rule)")
					} else {
						r.viol(rule, fmt.Sprintf("%s calls %s", fname(f), nm), c.ipos(ins), "transaction control outside the sync root: a block's transaction could be committed or rolled back elsewhere")
					}
				}
			}
		})
	}
	// functions that take *sql.Tx: count as analysed
	r.Extra["tx_taking_functions"] = func() int {
		k := 0
		for _, f := range c.Funcs {
			for _, p := range f.Params {
				if isSQLTxPtr(p.Type()) {
					k++
					break
				}
			}
		}
		return k
	}()
	_ = n
}

// closureEscapes: "" when the closure value is only called or deferred in the creating function, possibly after being
// kept in a local slice/array/variable; otherwise what lets it out.
func closureEscapes(mc *ssa.MakeClosure) string {
	seen := map[ssa.Value]bool{}
	var walk func(v ssa.Value, depth int) string
	walk = func(v ssa.Value, depth int) string {
		if seen[v] || depth > 8 {
			return ""
		}
		seen[v] = true
		refs := v.Referrers()
		if refs == nil {
			return ""
		}
		for _, rf := range *refs {
			switch y := rf.(type) {
			case *ssa.Call:
				if y.Call.Value == v {
					continue // called
				}
				if b, ok := y.Call.Value.(*ssa.Builtin); ok {
					switch b.Name() {
					case "len", "cap":
						continue
					case "append":
						if w := walk(y, depth+1); w != "" {
							return w
						}
						continue
					}
				}
				return "is passed to " + calleeName(y.Common())
			case *ssa.Defer:
				if y.Call.Value == v {
					continue
				}
				return "is passed to a deferred call"
			case *ssa.Go:
				return "is started as a goroutine"
			case *ssa.Return:
				return "is returned"
			case *ssa.Send:
				return "is sent on a channel"
			case *ssa.MapUpdate:
				return "is stored in a map"
			case *ssa.Store:
				if y.Val != v {
					continue // v is the address being stored to
				}
				root := y.Addr
				for {
					switch z := root.(type) {
					case *ssa.IndexAddr:
						root = z.X
						continue
					case *ssa.FieldAddr:
						root = z.X
						continue
					}
					break
				}
				a, ok := root.(*ssa.Alloc)
				if !ok {
					return "is stored outside the function's locals"
				}
				if w := walk(a, depth+1); w != "" {
					return w
				}
			case *ssa.IndexAddr, *ssa.FieldAddr, *ssa.Slice, *ssa.UnOp, *ssa.Range, *ssa.Next, *ssa.Extract, *ssa.Phi, *ssa.Index, *ssa.ChangeType:
				if w := walk(y.(ssa.Value), depth+1); w != "" {
					return w
				}
			case *ssa.MakeInterface:
				return "is converted to an interface"
			case *ssa.DebugRef:
			case *ssa.MakeClosure:
				return "is captured by another closure"
			}
		}
		return ""
	}
	return walk(mc, 0)
}

// onlyCapturedByLocalClosures: every use of the (heap) local is a load, a store, or a capture by a closure that
// does not escape.
func onlyCapturedByLocalClosures(a *ssa.Alloc) bool {
	if a.Referrers() == nil {
		return true
	}
	for _, rf := range *a.Referrers() {
		switch y := rf.(type) {
		case *ssa.Store, *ssa.UnOp, *ssa.DebugRef:
		case *ssa.MakeClosure:
			if closureEscapes(y) != "" {
				return false
			}
		default:
			return false
		}
	}
	return true
}

// closureStaysLocal: the closure f is made in its parent and only called (or deferred) there - it is not stored in a
// field, returned, sent, started as a goroutine or handed to another function.
func closureStaysLocal(f *ssa.Function) bool {
	p := f.Parent()
	if p == nil {
		return false
	}
	ok := true
	found := false
	allInstrs(p, func(ins ssa.Instruction) {
		mc, isMC := ins.(*ssa.MakeClosure)
		if !isMC || mc.Fn != ssa.Value(f) {
			return
		}
		found = true
		if why := closureEscapes(mc); why != "" {
			ok = false
		}
	})
	return found && ok
}
