package main

// Parameter order of the reference functions.  A refactoring may reorder the parameters of an unexported function
// (and every caller consistently).  The rules address arguments by position, so the loaded program is presented in
// the reference order: where a function of reference_sigs.txt has the same parameter types in another order, its
// parameter list and the argument lists of all its static call sites are permuted accordingly (parameters of equal
// type keep their relative order).  The program analysed is the same program; only the order in which the analyser
// sees the parameters changes.  DESIGN.md §9.3 (ninth refactoring wave).

import (
	_ "embed"
	"strings"

	"golang.org/x/tools/go/ssa"
)

//go:embed reference_sigs.txt
var referenceSigsTxt string

func canonParamOrder(c *Ctx) int {
	ref := map[string][]string{}
	for _, l := range strings.Split(referenceSigsTxt, "\n") {
		parts := strings.SplitN(strings.TrimSpace(l), "\t", 2)
		if len(parts) == 2 {
			ref[parts[0]] = strings.Split(parts[1], "|")
		}
	}
	n := 0
	for _, f := range c.Funcs {
		want, ok := ref[fname(f)]
		if !ok || f.Parent() != nil || len(want) != len(f.Params) {
			continue
		}
		have := make([]string, len(f.Params))
		same := true
		for i, p := range f.Params {
			have[i] = p.Type().String()
			if have[i] != want[i] {
				same = false
			}
		}
		if same {
			continue
		}
		// perm[k] = index in the current list of the parameter that belongs at position k
		used := make([]bool, len(have))
		perm := make([]int, len(want))
		okPerm := true
		for k, t := range want {
			perm[k] = -1
			for i, h := range have {
				if !used[i] && h == t {
					perm[k] = i
					used[i] = true
					break
				}
			}
			if perm[k] < 0 {
				okPerm = false
			}
		}
		if !okPerm {
			continue // a parameter was added, removed or retyped: not a reordering
		}
		np := make([]*ssa.Parameter, len(f.Params))
		for k, i := range perm {
			np[k] = f.Params[i]
		}
		f.Params = np
		for _, g := range c.Funcs {
			for _, b := range g.Blocks {
				for _, ins := range b.Instrs {
					ci, ok := ins.(ssa.CallInstruction)
					if !ok {
						continue
					}
					cc := ci.Common()
					if cc.StaticCallee() != f || len(cc.Args) != len(perm) {
						continue
					}
					na := make([]ssa.Value, len(cc.Args))
					for k, i := range perm {
						na[k] = cc.Args[i]
					}
					cc.Args = na
				}
			}
		}
		n++
	}
	return n
}
