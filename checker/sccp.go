package main

// E6 dtable — sparse conditional constant propagation specialised per abstract
// scenario ("decision tables").  DESIGN.md §2.6.

import (
	"fmt"
	"go/constant"
	"go/token"
	"go/types"
	"sort"
	"strings"
	"sync"

	"golang.org/x/tools/go/ssa"
)

type AKind int

const (
	ABot AKind = iota
	AConst
	ASym
	ASentinel // load of a package-level error variable
	AFresh    // freshly constructed non-nil error
	ANonNil   // unknown but non-nil (make, new, closure)
	ATuple
	APtr       // pointer to a local struct object (Obj): identity flows through calls, fields are read from the per-object field table
	AContainer // a non-nil map/slice/array whose elements are known abstractly: Tup[0] is the default element, Keys the elements at constant keys; flows through calls with the container value
	ATop
)

type AVal struct {
	K    AKind
	C    constant.Value // AConst; nil means the nil constant
	Sym  string
	G    *ssa.Global
	Tup  []AVal
	Keys map[string]AVal
	Obj  *ssa.Alloc
	// Alts: for the result tuple of an analysed callee with several executable returns, the tuple of each return
	// (the components of Tup are their joins). Lets a test on one component (err != nil) narrow another (skip).
	Alts [][]AVal
}

// containerOf builds a container value: every element is def except those at the given constant keys.
func containerOf(def AVal, keys map[string]AVal) AVal {
	return AVal{K: AContainer, Tup: []AVal{def}, Keys: keys}
}

// sliceOfStructs: a non-nil slice of n elements whose struct fields have the given abstract values.
func sliceOfStructs(n int64, fields map[string]AVal) AVal {
	fk := map[string]AVal{}
	for k, v := range fields {
		fk["."+k] = v
	}
	return AVal{K: AContainer, Tup: []AVal{{K: AContainer, Tup: []AVal{top}, Keys: fk}}, Keys: map[string]AVal{"#len": cInt(n)}}
}

func (a AVal) elemAt(idx AVal) AVal {
	if a.K != AContainer {
		return top
	}
	if idx.isConst() {
		if v, ok := a.Keys[idx.C.ExactString()]; ok {
			return v
		}
		return a.Tup[0]
	}
	// unknown key: the default joined with every special element
	v := a.Tup[0]
	for n, k := range a.Keys {
		if n != "#len" {
			v = join(v, k)
		}
	}
	return v
}

var (
	bot    = AVal{K: ABot}
	top    = AVal{K: ATop}
	nilVal = AVal{K: AConst}
	fresh  = AVal{K: AFresh}
	nonNil = AVal{K: ANonNil}
)

func cInt(i int64) AVal      { return AVal{K: AConst, C: constant.MakeInt64(i)} }
func cUint(i uint64) AVal    { return AVal{K: AConst, C: constant.MakeUint64(i)} }
func cBool(b bool) AVal      { return AVal{K: AConst, C: constant.MakeBool(b)} }
func sym(name string) AVal   { return AVal{K: ASym, Sym: name} }
func cStr(s string) AVal     { return AVal{K: AConst, C: constant.MakeString(s)} }
func (a AVal) isNil() bool   { return a.K == AConst && a.C == nil }
func (a AVal) isConst() bool { return a.K == AConst && a.C != nil }
func (a AVal) boolVal() (bool, bool) {
	if a.isConst() && a.C.Kind() == constant.Bool {
		return constant.BoolVal(a.C), true
	}
	return false, false
}
func (a AVal) intVal() (int64, bool) {
	if a.isConst() && a.C.Kind() == constant.Int {
		v, ok := constant.Int64Val(a.C)
		return v, ok
	}
	return 0, false
}

func (a AVal) String() string {
	switch a.K {
	case ABot:
		return "⊥"
	case AConst:
		if a.C == nil {
			return "nil"
		}
		return a.C.ExactString()
	case ASym:
		return "$" + a.Sym
	case ASentinel:
		return "err:" + a.G.Name()
	case AFresh:
		return "err:fresh"
	case ANonNil:
		return "nonnil"
	case APtr:
		return fmt.Sprintf("&obj@%s#%d", a.Obj.Parent().Name(), a.Obj.Pos())
	case AContainer:
		var ks []string
		for k, v := range a.Keys {
			ks = append(ks, k+":"+v.String())
		}
		sort.Strings(ks)
		return "{*:" + a.Tup[0].String() + " " + strings.Join(ks, " ") + "}"
	case ATuple:
		var s []string
		for _, t := range a.Tup {
			s = append(s, t.String())
		}
		return "(" + strings.Join(s, ",") + ")"
	}
	return "⊤"
}

func aEq(a, b AVal) bool {
	if a.K != b.K {
		return false
	}
	switch a.K {
	case AConst:
		if a.C == nil || b.C == nil {
			return a.C == nil && b.C == nil
		}
		if a.C.Kind() != b.C.Kind() {
			return false
		}
		return constant.Compare(a.C, token.EQL, b.C)
	case ASym:
		return a.Sym == b.Sym
	case ASentinel:
		return a.G == b.G
	case AContainer:
		return a.String() == b.String()
	case APtr:
		return a.Obj == b.Obj
	case ATuple:
		if len(a.Tup) != len(b.Tup) {
			return false
		}
		for i := range a.Tup {
			if !aEq(a.Tup[i], b.Tup[i]) {
				return false
			}
		}
		return altsKey(a.Alts) == altsKey(b.Alts)
	}
	return true
}

func altsKey(alts [][]AVal) string {
	var ks []string
	for _, a := range alts {
		ks = append(ks, AVal{K: ATuple, Tup: a}.String())
	}
	sort.Strings(ks)
	return strings.Join(ks, "|")
}

// mergeAlts: union of the alternatives of two tuples (a tuple without alternatives counts as its own single one).
func mergeAlts(a, b AVal) [][]AVal {
	var out [][]AVal
	seen := map[string]bool{}
	add := func(t AVal) {
		alts := t.Alts
		if len(alts) == 0 {
			alts = [][]AVal{t.Tup}
		}
		for _, x := range alts {
			k := AVal{K: ATuple, Tup: x}.String()
			if !seen[k] {
				seen[k] = true
				out = append(out, x)
			}
		}
	}
	add(a)
	add(b)
	if len(out) > 8 {
		return nil
	}
	return out
}

func join(a, b AVal) AVal {
	if a.K == ABot {
		return b
	}
	if b.K == ABot {
		return a
	}
	if aEq(a, b) {
		return a
	}
	if a.K == ATuple && b.K == ATuple && len(a.Tup) == len(b.Tup) {
		t := AVal{K: ATuple, Tup: make([]AVal, len(a.Tup))}
		for i := range a.Tup {
			t.Tup[i] = join(a.Tup[i], b.Tup[i])
		}
		t.Alts = mergeAlts(a, b)
		return t
	}
	// non-nil-ness survives the join of non-nil things
	nn := func(x AVal) bool {
		return x.K == ANonNil || x.K == AContainer || x.K == APtr || x.K == AFresh || x.K == ASentinel || (x.K == AConst && x.C != nil && x.C.Kind() == constant.String)
	}
	if nn(a) && nn(b) {
		return nonNil
	}
	return top
}

// Scenario binds SSA values to abstract values.
type Scenario struct {
	Name     string
	Params   map[string]AVal // parameter name (of the entry function, or "fn:param")
	Paths    map[string]AVal // access path of a load / field read ("tx.Conversion", or "fn:path")
	Calls    map[string]AVal // callee: full name, short name, or "recvpath.Method()"
	Lookups  map[string]AVal // access path of a map lookup ("rates[tx.Conversion]")
	Lens     map[string]AVal // len(path)
	Globals  map[string]AVal // overrides "pkg.Name"
	Phis     map[string]AVal // loop/merge variable by source name (Phi.Comment), e.g. induction variable "i"
	Order    func(a, b AVal) (int, bool)
	MaxDepth int
	NoInline map[string]bool // callees never analysed recursively
	// AllErrorsNil: the "no fault, nothing rejected" scenario - every error result
	// of a call that is not bound explicitly is nil.
	AllErrorsNil bool
}

type LiveCall struct {
	Caller *ssa.Function
	Callee string
	Short  string
	Args   []AVal
	Instr  ssa.CallInstruction
	Depth  int
	Result AVal
}

type fnState struct {
	fn      *ssa.Function
	args    []AVal
	val     map[ssa.Value]AVal
	execB   map[*ssa.BasicBlock]bool
	execE   map[[2]int]bool
	rets    map[*ssa.Return][]AVal
	result  AVal
	escapes []string
	free    map[*ssa.FreeVar]AVal        // values of captured variables at the closure's creation (closures called in place)
	callees map[ssa.Instruction]*fnState // state of the callee analysed for a call site (last evaluation)
	// calleesDyn: for a call through a function value that can only be one of the closures of this function (the
	// elements of a local slice of steps run in a loop), the state of each closure
	calleesDyn map[ssa.Instruction][]*fnState
}

type SCCP struct {
	objFields    map[*ssa.Alloc]map[int]AVal // values stored into the fields of local struct objects (flow-insensitive per object)
	rootFn       *ssa.Function
	nextFree     map[*ssa.FreeVar]AVal
	c            *Ctx
	sc           *Scenario
	globals      map[*ssa.Global]AVal
	memo         map[string]*fnState
	busy         map[string]bool
	Escapes      []string
	used         map[string]bool // binding keys that matched at least once
	hasQualified bool            // some binding key is function-qualified ("fn:key")
}

// globalInits reads constant initialisers of module package variables from the init functions.
var (
	giOnce sync.Once
	giMap  map[*ssa.Global]AVal
)

func (c *Ctx) globalInits() map[*ssa.Global]AVal {
	giOnce.Do(func() { giMap = c.globalInits1() })
	return giMap
}

func (c *Ctx) globalInits1() map[*ssa.Global]AVal {
	out := map[*ssa.Global]AVal{}
	multi := map[*ssa.Global]bool{}
	for _, f := range c.Funcs {
		if f.Name() != "init" && !strings.HasPrefix(f.Name(), "init#") {
			continue
		}
		allInstrs(f, func(ins ssa.Instruction) {
			st, ok := ins.(*ssa.Store)
			if !ok {
				return
			}
			g, ok := st.Addr.(*ssa.Global)
			if !ok {
				return
			}
			k, ok := st.Val.(*ssa.Const)
			if !ok {
				return
			}
			if _, dup := out[g]; dup {
				multi[g] = true
			}
			out[g] = AVal{K: AConst, C: k.Value}
		})
	}
	for g := range multi {
		delete(out, g)
	}
	return out
}

func newSCCP(c *Ctx, sc *Scenario) *SCCP {
	if sc.MaxDepth == 0 {
		sc.MaxDepth = 3
	}
	s := &SCCP{c: c, sc: sc, globals: c.globalInits(), memo: map[string]*fnState{}, busy: map[string]bool{}, used: map[string]bool{}}
	for _, m := range []map[string]AVal{sc.Params, sc.Paths, sc.Calls, sc.Lookups, sc.Lens, sc.Phis} {
		for k := range m {
			if strings.Contains(k, ":") && !strings.HasPrefix(k, "init:") && !strings.HasPrefix(k, "type:") {
				s.hasQualified = true
			}
		}
	}
	return s
}

func argsKey(fn *ssa.Function, args []AVal) string {
	var s []string
	for _, a := range args {
		s = append(s, a.String())
	}
	return fname(fn) + "(" + strings.Join(s, ",") + ")"
}

func wrapInt(v constant.Value, t types.Type) constant.Value {
	b, ok := t.Underlying().(*types.Basic)
	if !ok || v == nil || v.Kind() != constant.Int {
		return v
	}
	var bits uint
	signed := false
	switch b.Kind() {
	case types.Int8:
		bits, signed = 8, true
	case types.Int16:
		bits, signed = 16, true
	case types.Int32:
		bits, signed = 32, true
	case types.Int64, types.Int:
		bits, signed = 64, true
	case types.Uint8:
		bits = 8
	case types.Uint16:
		bits = 16
	case types.Uint32:
		bits = 32
	case types.Uint64, types.Uint, types.Uintptr:
		bits = 64
	default:
		return v
	}
	mod := constant.Shift(constant.MakeInt64(1), token.SHL, bits)
	// r = v mod 2^bits (non-negative)
	q := constant.BinaryOp(v, token.QUO_ASSIGN, mod)
	r := constant.BinaryOp(v, token.SUB, constant.BinaryOp(q, token.MUL, mod))
	if constant.Sign(r) < 0 {
		r = constant.BinaryOp(r, token.ADD, mod)
	}
	if signed {
		half := constant.Shift(constant.MakeInt64(1), token.SHL, bits-1)
		if constant.Compare(r, token.GEQ, half) {
			r = constant.BinaryOp(r, token.SUB, mod)
		}
	}
	return r
}

func isFloatType(t types.Type) bool {
	b, ok := t.Underlying().(*types.Basic)
	return ok && b.Info()&types.IsFloat != 0
}

func roundFloat(v constant.Value, t types.Type) constant.Value {
	if v == nil || !isFloatType(t) {
		return v
	}
	f, _ := constant.Float64Val(constant.ToFloat(v))
	if b := t.Underlying().(*types.Basic); b.Kind() == types.Float32 {
		f = float64(float32(f))
	}
	return constant.MakeFloat64(f)
}

func (s *SCCP) compare(op token.Token, a, b AVal) AVal {
	if a.K == ABot || b.K == ABot {
		return bot
	}
	res := func(eq bool) AVal {
		if op == token.EQL {
			return cBool(eq)
		}
		return cBool(!eq)
	}
	if op == token.EQL || op == token.NEQ {
		nonnil := func(x AVal) bool {
			return x.K == ASentinel || x.K == AFresh || x.K == ANonNil || x.K == AContainer || x.K == APtr
		}
		if a.isNil() && b.isNil() {
			return res(true)
		}
		if (a.isNil() && nonnil(b)) || (b.isNil() && nonnil(a)) {
			return res(false)
		}
		if a.K == ASentinel && b.K == ASentinel {
			return res(a.G == b.G)
		}
		if (a.K == ASentinel && b.K == AFresh) || (a.K == AFresh && b.K == ASentinel) {
			return res(false)
		}
	}
	if a.isConst() && b.isConst() && a.C.Kind() == b.C.Kind() || (a.isConst() && b.isConst() && isNumKind(a.C) && isNumKind(b.C)) {
		if a.C.Kind() == constant.Bool {
			if op == token.EQL || op == token.NEQ {
				return res(constant.BoolVal(a.C) == constant.BoolVal(b.C))
			}
			return top
		}
		return cBool(constant.Compare(a.C, op, b.C))
	}
	if (a.K == ASym || b.K == ASym) && s.sc.Order != nil {
		c, ok := s.sc.Order(a, b)
		if !ok {
			// the oracle is written for one orientation; a mirrored comparison (b ? a) is the same question
			if c2, ok2 := s.sc.Order(b, a); ok2 {
				c, ok = -c2, true
			}
		}
		if ok {
			switch op {
			case token.EQL:
				return cBool(c == 0)
			case token.NEQ:
				return cBool(c != 0)
			case token.LSS:
				return cBool(c < 0)
			case token.LEQ:
				return cBool(c <= 0)
			case token.GTR:
				return cBool(c > 0)
			case token.GEQ:
				return cBool(c >= 0)
			}
		}
	}
	if a.K == ASym && b.K == ASym && a.Sym == b.Sym {
		switch op {
		case token.EQL, token.LEQ, token.GEQ:
			return cBool(true)
		case token.NEQ, token.LSS, token.GTR:
			return cBool(false)
		}
	}
	return top
}

func isNumKind(v constant.Value) bool {
	return v.Kind() == constant.Int || v.Kind() == constant.Float
}

func (s *SCCP) binop(x *ssa.BinOp, a, b AVal) AVal {
	switch x.Op {
	case token.EQL, token.NEQ, token.LSS, token.LEQ, token.GTR, token.GEQ:
		return s.compare(x.Op, a, b)
	}
	if a.K == ABot || b.K == ABot {
		return bot
	}
	if a.isConst() && b.isConst() {
		defer func() { recover() }()
		var v constant.Value
		switch x.Op {
		case token.SHL, token.SHR:
			n, ok := constant.Uint64Val(b.C)
			if !ok || n > 128 {
				return top
			}
			v = constant.Shift(a.C, x.Op, uint(n))
		case token.QUO:
			if constant.Sign(b.C) == 0 {
				return top
			}
			if isIntType(x.Type()) {
				v = constant.BinaryOp(a.C, token.QUO_ASSIGN, b.C) // integer division
			} else {
				v = constant.BinaryOp(a.C, token.QUO, b.C)
			}
		case token.REM:
			if constant.Sign(b.C) == 0 {
				return top
			}
			v = constant.BinaryOp(a.C, token.REM, b.C)
		case token.ADD, token.SUB, token.MUL, token.AND, token.OR, token.XOR, token.AND_NOT:
			if a.C.Kind() == constant.String && x.Op != token.ADD {
				return top
			}
			v = constant.BinaryOp(a.C, x.Op, b.C)
		case token.LAND, token.LOR:
			v = constant.BinaryOp(a.C, x.Op, b.C)
		default:
			return top
		}
		if v == nil || v.Kind() == constant.Unknown {
			return top
		}
		v = wrapInt(v, x.Type())
		v = roundFloat(v, x.Type())
		return AVal{K: AConst, C: v}
	}
	// symbolic product sym*const (band edges): a derived symbol the scenario's order oracle can place
	if x.Op == token.MUL {
		if a.K == ASym && b.isConst() && isNumKind(b.C) {
			f, _ := constant.Float64Val(constant.ToFloat(b.C))
			return sym(fmt.Sprintf("%s*%g", a.Sym, f))
		}
		if b.K == ASym && a.isConst() && isNumKind(a.C) {
			f, _ := constant.Float64Val(constant.ToFloat(a.C))
			return sym(fmt.Sprintf("%s*%g", b.Sym, f))
		}
	}
	return top
}

func (s *SCCP) lookupBinding(m map[string]AVal, fn *ssa.Function, key string) (AVal, bool) {
	if m == nil || key == "" {
		return bot, false
	}
	if s.hasQualified {
		if v, ok := m[fname(fn)+":"+key]; ok {
			s.used[key] = true
			return v, true
		}
		if v, ok := m[fn.Name()+":"+key]; ok {
			s.used[key] = true
			return v, true
		}
	}
	v, ok := m[key]
	if ok {
		s.used[key] = true
	}
	return v, ok
}

// phiBinding: a merge/loop variable can be bound by its source name, by the type path of one of its
// incoming values ("init:fat2.TypedAddressAmountTuple.Amount") or by its named type ("type:fat2.PTicker").
func (s *SCCP) phiBinding(fn *ssa.Function, x *ssa.Phi) (AVal, bool) {
	if len(s.sc.Phis) == 0 {
		return bot, false
	}
	if x.Comment != "" {
		if b, ok := s.lookupBinding(s.sc.Phis, fn, x.Comment); ok {
			return b, true
		}
	}
	for _, e := range x.Edges {
		if tp := typePath(e); tp != "" {
			if b, ok := s.lookupBinding(s.sc.Phis, fn, "init:"+tp); ok {
				return b, true
			}
		}
	}
	if tn := namedShort(x.Type()); tn != "" {
		if b, ok := s.lookupBinding(s.sc.Phis, fn, "type:"+tn); ok {
			return b, true
		}
	}
	return bot, false
}

// bindingFor tries the variable-name path first and the type-qualified path second
// ("fat2.Transaction.Conversion"): the latter survives renaming of locals.
var (
	vpCache sync.Map // ssa.Value -> string
	tpCache sync.Map
)

func valuePathC(v ssa.Value) string {
	if s, ok := vpCache.Load(v); ok {
		return s.(string)
	}
	s := valuePath(v)
	vpCache.Store(v, s)
	return s
}

func typePathC(v ssa.Value) string {
	if s, ok := tpCache.Load(v); ok {
		return s.(string)
	}
	s := typePath(v)
	tpCache.Store(v, s)
	return s
}

func (s *SCCP) bindingFor(m map[string]AVal, fn *ssa.Function, v ssa.Value) (AVal, bool) {
	if len(m) == 0 {
		return bot, false
	}
	if p := valuePathC(v); p != "" {
		if b, ok := s.lookupBinding(m, fn, p); ok {
			return b, true
		}
	}
	if p := typePathC(v); p != "" {
		if b, ok := s.lookupBinding(m, fn, p); ok {
			return b, true
		}
		if i := strings.LastIndex(p, "["); i > 0 {
			if b, ok := s.lookupBinding(m, fn, p[i:]); ok {
				return b, true
			}
		}
	}
	return bot, false
}

// typePath names a field read by the struct type that declares the field: "pkg.Type.Field".
func typePath(v ssa.Value) string {
	switch x := v.(type) {
	case *ssa.UnOp:
		if x.Op == token.MUL {
			return typePath(x.X)
		}
	case *ssa.FieldAddr:
		st := derefStruct(x.X.Type())
		tn := namedShort(x.X.Type())
		if st != nil && tn != "" {
			return tn + "." + st.Field(x.Field).Name()
		}
	case *ssa.Field:
		st, _ := x.X.Type().Underlying().(*types.Struct)
		tn := namedShort(x.X.Type())
		if st != nil && tn != "" {
			return tn + "." + st.Field(x.Field).Name()
		}
	case *ssa.IndexAddr:
		if tp := typePath(x.X); tp != "" {
			if k, ok := x.Index.(*ssa.Const); ok {
				return fmt.Sprintf("%s[%s]", tp, k.Value)
			}
			return tp + "[]"
		}
	case *ssa.Index:
		if tp := typePath(x.X); tp != "" {
			if k, ok := x.Index.(*ssa.Const); ok {
				return fmt.Sprintf("%s[%s]", tp, k.Value)
			}
			return tp + "[]"
		}
	case *ssa.Lookup:
		m := valuePath(x.X)
		if m == "" {
			m = typePath(x.X)
		}
		k := typePath(x.Index)
		if m != "" && k != "" {
			return m + "[" + k + "]"
		}
		if k != "" {
			return "[" + k + "]" // map without a name (local make): keyed by the key's type path only
		}
	case *ssa.Extract:
		if lk, ok := x.Tuple.(*ssa.Lookup); ok && x.Index == 0 {
			return typePath(lk)
		}
	case *ssa.ChangeType:
		return typePath(x.X)
	case *ssa.Convert:
		return typePath(x.X)
	case *ssa.Global:
		return x.Pkg.Pkg.Name() + "." + x.Name()
	}
	return ""
}

// run analyses fn with the given abstract arguments.
func (s *SCCP) run(fn *ssa.Function, args []AVal, depth int) *fnState {
	if depth == 0 && s.rootFn == nil {
		s.rootFn = fn
	}
	free := s.nextFree
	s.nextFree = nil
	key := argsKey(fn, args)
	if len(free) > 0 {
		var fk []string
		for _, fv := range fn.FreeVars {
			if v, ok := free[fv]; ok {
				fk = append(fk, fv.Name()+"="+v.String())
			}
		}
		key += "{" + strings.Join(fk, ",") + "}"
	}
	if st, ok := s.memo[key]; ok {
		return st
	}
	if s.busy[key] {
		return nil // recursion: unknown
	}
	s.busy[key] = true
	defer delete(s.busy, key)
	st := &fnState{fn: fn, args: args, val: map[ssa.Value]AVal{}, execB: map[*ssa.BasicBlock]bool{}, execE: map[[2]int]bool{}, rets: map[*ssa.Return][]AVal{}, free: free}
	for i, p := range fn.Params {
		v := top
		if i < len(args) {
			v = args[i]
		}
		if b, ok := s.lookupBinding(s.sc.Params, fn, p.Name()); ok {
			v = b
		} else if depth == 0 && (s.rootFn == nil || s.rootFn == fn) {
			// name-free keys for the root function: "type:<T>" (unique parameter of that type) or "type:<T>#k"
			for _, k := range paramTypeKeys(fn, i) {
				if b, ok := s.lookupBinding(s.sc.Params, fn, k); ok {
					v = b
					break
				}
			}
		}
		st.val[p] = v
	}
	if len(fn.Blocks) == 0 {
		return nil
	}
	st.execB[fn.Blocks[0]] = true
	get := func(v ssa.Value) AVal {
		switch x := v.(type) {
		case *ssa.Const:
			if x.Value == nil {
				// nil or zero value of a struct/array type
				switch x.Type().Underlying().(type) {
				case *types.Pointer, *types.Interface, *types.Map, *types.Slice, *types.Chan, *types.Signature:
					return nilVal
				}
				if b, ok := x.Type().Underlying().(*types.Basic); ok && b.Kind() == types.UntypedNil {
					return nilVal
				}
				return top
			}
			return AVal{K: AConst, C: x.Value}
		case *ssa.Global:
			return nonNil
		case *ssa.Function:
			return nonNil
		case *ssa.Builtin:
			return nonNil
		}
		if a, ok := st.val[v]; ok {
			return a
		}
		if _, ok := v.(*ssa.FreeVar); ok {
			return top
		}
		return bot
	}
	set := func(v ssa.Value, a AVal) bool {
		old := st.val[v]
		n := join(old, a)
		if _, had := st.val[v]; had && aEq(old, n) && old.K == n.K {
			return false
		}
		st.val[v] = n
		return true
	}
	for iter := 0; iter < 200; iter++ {
		changed := false
		for _, b := range fn.Blocks {
			if !st.execB[b] {
				continue
			}
			for _, ins := range b.Instrs {
				switch x := ins.(type) {
				case *ssa.Phi:
					if pb, ok := s.phiBinding(fn, x); ok {
						if set(x, pb) {
							changed = true
						}
						continue
					}
					a := bot
					for i, e := range x.Edges {
						if st.execE[[2]int{b.Preds[i].Index, b.Index}] {
							a = join(a, get(e))
						}
					}
					if a.K != ABot && set(x, a) {
						changed = true
					}
				case *ssa.If:
					c := get(x.Cond)
					if _, known := c.boolVal(); !known && c.K != ABot {
						if rc, ok := s.refinedCond(x.Cond, b, get); ok {
							c = rc
						}
					}
					t, f := true, true
					if bv, ok := c.boolVal(); ok {
						t, f = bv, !bv
					} else if c.K == ABot {
						t, f = false, false
					}
					for i, take := range []bool{t, f} {
						if take {
							e := [2]int{b.Index, b.Succs[i].Index}
							if !st.execE[e] {
								st.execE[e] = true
								changed = true
							}
							if !st.execB[b.Succs[i]] {
								st.execB[b.Succs[i]] = true
								changed = true
							}
						}
					}
				case *ssa.Jump:
					e := [2]int{b.Index, b.Succs[0].Index}
					if !st.execE[e] {
						st.execE[e] = true
						changed = true
					}
					if !st.execB[b.Succs[0]] {
						st.execB[b.Succs[0]] = true
						changed = true
					}
				case *ssa.Return:
					var rv []AVal
					for _, r := range x.Results {
						rv = append(rv, get(resolveSpill(r)))
					}
					st.rets[x] = rv
				case *ssa.Panic:
				case ssa.Value:
					a := s.eval(st, x, get, depth)
					if a.K != ABot && set(x, a) {
						changed = true
					}
				default:
					// a store into a field of a local struct object: remembered per object for readers elsewhere
					if sto, ok := ins.(*ssa.Store); ok {
						if fa, ok := sto.Addr.(*ssa.FieldAddr); ok {
							if pv := get(fa.X); pv.K == APtr {
								if s.objFields == nil {
									s.objFields = map[*ssa.Alloc]map[int]AVal{}
								}
								if s.objFields[pv.Obj] == nil {
									s.objFields[pv.Obj] = map[int]AVal{}
								}
								nv := get(sto.Val)
								if old, had := s.objFields[pv.Obj][fa.Field]; had {
									nv = join(old, nv)
								}
								if old, had := s.objFields[pv.Obj][fa.Field]; !had || !aEq(old, nv) || old.K != nv.K {
									s.objFields[pv.Obj][fa.Field] = nv
									changed = true
								}
							}
						}
					}
					// Store, MapUpdate, Send, Defer, Go, RunDefers, DebugRef: no value
					if ci, ok := ins.(ssa.CallInstruction); ok {
						_ = ci
					}
					// successor edges of a block ending without If/Jump/Return are handled below
				}
			}
			// blocks ending in a no-return call still have Succs in SSA; treat log.Fatal/panic as terminating
		}
		if !changed {
			break
		}
	}
	// function result: the componentwise join of the returns, and - for tuples - the returns one by one (Alts), there
	// with an error that is returned behind the non-nil edge of its own nil test known to be non-nil
	res := bot
	var alts [][]AVal
	altSeen := map[string]bool{}
	for rt, rv := range st.rets {
		var a AVal
		if len(rv) == 1 {
			a = rv[0]
		} else {
			a = AVal{K: ATuple, Tup: rv}
		}
		allBot := false
		for _, x := range rv {
			if x.K == ABot {
				allBot = true
			}
		}
		if allBot {
			continue
		}
		res = join(res, AVal{K: a.K, C: a.C, Sym: a.Sym, G: a.G, Tup: a.Tup, Keys: a.Keys, Obj: a.Obj})
		if len(rv) > 1 {
			alt := append([]AVal{}, rv...)
			for i := range alt {
				if alt[i].K == ATop && isErrorType(rt.Results[i].Type()) && s.retNonNil(rt, i) {
					alt[i] = nonNil
				}
			}
			if k := (AVal{K: ATuple, Tup: alt}).String(); !altSeen[k] {
				altSeen[k] = true
				alts = append(alts, alt)
			}
		}
	}
	if res.K == ATuple {
		res.Alts = nil
		if len(alts) >= 2 && len(alts) <= 8 {
			sort.Slice(alts, func(i, j int) bool {
				return AVal{K: ATuple, Tup: alts[i]}.String() < AVal{K: ATuple, Tup: alts[j]}.String()
			})
			res.Alts = alts
		}
	}
	st.result = res
	s.memo[key] = st
	return st
}

func (s *SCCP) eval(st *fnState, v ssa.Value, get func(ssa.Value) AVal, depth int) AVal {
	fn := st.fn
	switch x := v.(type) {
	case *ssa.BinOp:
		return s.binop(x, get(x.X), get(x.Y))
	case *ssa.UnOp:
		switch x.Op {
		case token.MUL:
			if b, ok := s.bindingFor(s.sc.Paths, fn, x); ok {
				return b
			}
			if ia, ok := x.X.(*ssa.IndexAddr); ok {
				if cv := get(ia.X); cv.K == AContainer {
					return cv.elemAt(get(ia.Index))
				}
			}
			// field of a struct element of a container: the element is itself a container keyed by field name
			if fa, ok := x.X.(*ssa.FieldAddr); ok {
				if ia, ok := fa.X.(*ssa.IndexAddr); ok {
					if cv := get(ia.X); cv.K == AContainer {
						if el := cv.elemAt(get(ia.Index)); el.K == AContainer {
							if st := derefStruct(fa.X.Type()); st != nil {
								if v, ok := el.Keys["."+st.Field(fa.Field).Name()]; ok {
									return v
								}
								return el.Tup[0]
							}
						}
					}
				}
			}
			if b, ok := s.elemsBinding(fn, x); ok {
				return b
			}
			if g, ok := x.X.(*ssa.Global); ok {
				if b, ok := s.sc.Globals[g.Pkg.Pkg.Name()+"."+g.Name()]; ok {
					return b
				}
				if a, ok := s.globals[g]; ok {
					return a
				}
				if isErrorType(g.Type().(*types.Pointer).Elem()) {
					return AVal{K: ASentinel, G: g}
				}
				return top
			}
			if fa, ok := x.X.(*ssa.FieldAddr); ok {
				// a field of a local struct object reached through a pointer that is not the object's own Alloc
				// (a parameter of a helper, a phi): read the per-object field table
				if _, own := fa.X.(*ssa.Alloc); !own {
					if pv := get(fa.X); pv.K == APtr {
						if v, ok := s.objFields[pv.Obj][fa.Field]; ok {
							return v
						}
					}
				} else if al := fa.X.(*ssa.Alloc); s.objFields[al] == nil {
					// the slot of a struct parameter handed over by value: the whole value stored into it stands for the
					// caller's literal (struct values are represented by the object they were read from)
					wv := bot
					if refs := al.Referrers(); refs != nil {
						for _, rf := range *refs {
							if sto, ok := rf.(*ssa.Store); ok && sto.Addr == ssa.Value(al) && st.execB[sto.Block()] {
								wv = join(wv, get(sto.Val))
							}
						}
					}
					if wv.K == APtr && wv.Obj != al && plainLiteral(wv.Obj) {
						if v, ok := s.objField(wv.Obj, fa.Field); ok {
							return v
						}
					}
				}
			}
			if fv, ok := x.X.(*ssa.FreeVar); ok {
				if v, ok := st.free[fv]; ok {
					return v
				}
				return top
			}
			// load of a local that is only stored once with a known value (spilled variable)
			if al, ok := x.X.(*ssa.Alloc); ok {
				if _, isStruct := x.Type().Underlying().(*types.Struct); isStruct && plainLiteral(al) && structLocalHasFieldUse(al) {
					return AVal{K: APtr, Obj: al} // the value of a local struct literal: represented by the object
				}
				return s.loadLocal(st, al, get)
			}
			return top
		case token.NOT:
			a := get(x.X)
			if b, ok := a.boolVal(); ok {
				return cBool(!b)
			}
			if a.K == ABot {
				return bot
			}
			return top
		case token.SUB:
			a := get(x.X)
			if a.isConst() {
				return AVal{K: AConst, C: wrapInt(constant.UnaryOp(token.SUB, a.C, 0), x.Type())}
			}
			if a.K == ABot {
				return bot
			}
			return top
		}
		return top
	case *ssa.Convert:
		a := get(x.X)
		if a.isConst() {
			c := a.C
			if isIntType(x.Type()) {
				if c.Kind() == constant.Float {
					f, _ := constant.Float64Val(c)
					if f >= 0 {
						c = constant.MakeUint64(uint64(f))
					} else {
						c = constant.MakeInt64(int64(f))
					}
				}
				if c.Kind() == constant.Int {
					return AVal{K: AConst, C: wrapInt(c, x.Type())}
				}
				return top
			}
			if isFloatType(x.Type()) && isNumKind(c) {
				return AVal{K: AConst, C: roundFloat(constant.ToFloat(c), x.Type())}
			}
			return top
		}
		if a.K == ASym {
			return a // numeric conversions preserve the symbol's order relations (documented assumption)
		}
		return a
	case *ssa.ChangeType:
		return get(x.X)
	case *ssa.ChangeInterface:
		return get(x.X)
	case *ssa.MakeInterface:
		a := get(x.X)
		if a.isNil() {
			return nonNil // typed nil in an interface is not the nil interface
		}
		return a
	case *ssa.Extract:
		t := get(x.Tuple)
		if t.K == ATuple && x.Index < len(t.Tup) {
			return t.Tup[x.Index]
		}
		if t.K == ABot {
			return bot
		}
		if lk, ok := x.Tuple.(*ssa.Lookup); ok && x.Index == 0 {
			if b, ok := s.bindingFor(s.sc.Lookups, fn, lk); ok {
				return b
			}
		}
		return top
	case *ssa.Lookup:
		if b, ok := s.bindingFor(s.sc.Lookups, fn, x); ok {
			if x.CommaOk {
				return AVal{K: ATuple, Tup: []AVal{b, top}}
			}
			return b
		}
		if cv := get(x.X); cv.K == AContainer {
			if x.CommaOk {
				return AVal{K: ATuple, Tup: []AVal{cv.elemAt(get(x.Index)), top}}
			}
			return cv.elemAt(get(x.Index))
		}
		if x.CommaOk {
			return AVal{K: ATuple, Tup: []AVal{top, top}}
		}
		return top
	case *ssa.Field:
		if b, ok := s.bindingFor(s.sc.Paths, fn, x); ok {
			return b
		}
		if sv := get(x.X); sv.K == APtr && plainLiteral(sv.Obj) {
			if v, ok := s.objField(sv.Obj, x.Field); ok {
				return v
			}
		}
		return top
	case *ssa.Index:
		if b, ok := s.bindingFor(s.sc.Paths, fn, x); ok {
			return b
		}
		if cv := get(x.X); cv.K == AContainer {
			return cv.elemAt(get(x.Index))
		}
		return top
	case *ssa.Alloc:
		if p, ok := x.Type().Underlying().(*types.Pointer); ok {
			if _, isStruct := p.Elem().Underlying().(*types.Struct); isStruct {
				return AVal{K: APtr, Obj: x}
			}
		}
		return nonNil
	case *ssa.FieldAddr, *ssa.IndexAddr, *ssa.MakeMap, *ssa.MakeSlice, *ssa.MakeChan, *ssa.MakeClosure:
		return nonNil
	case *ssa.Slice:
		if cv := get(x.X); cv.K == AContainer {
			return cv
		}
		if b, ok := s.elemsBinding(fn, x.X); ok {
			return b
		}
		return top
	case *ssa.Call:
		return s.evalCall(st, x, get, depth)
	case *ssa.TypeAssert:
		if x.CommaOk {
			return AVal{K: ATuple, Tup: []AVal{top, top}}
		}
		return top
	case *ssa.Next:
		return AVal{K: ATuple, Tup: []AVal{top, top, top}}
	case *ssa.Select:
		return top
	}
	return top
}

func tupleOfTop(sig *types.Signature) AVal {
	n := sig.Results().Len()
	if n <= 1 {
		return top
	}
	t := AVal{K: ATuple}
	for i := 0; i < n; i++ {
		t.Tup = append(t.Tup, top)
	}
	return t
}

func (s *SCCP) callBinding(fn *ssa.Function, cc *ssa.CallCommon) (AVal, bool) {
	if len(s.sc.Calls) == 0 {
		return bot, false
	}
	name := calleeName(cc)
	short := shortCallee(cc)
	keys := []string{fname(fn) + ":" + name, fname(fn) + ":" + short, name, short}
	// receiver-path form
	var recv ssa.Value
	if cc.IsInvoke() {
		recv = cc.Value
	} else if sc := cc.StaticCallee(); sc != nil && sc.Signature.Recv() != nil && len(cc.Args) > 0 {
		recv = cc.Args[0]
	}
	if recv != nil {
		if p := valuePath(recv); p != "" {
			keys = append([]string{p + "." + short + "()"}, keys...)
		}
	}
	for _, k := range keys {
		if v, ok := s.sc.Calls[k]; ok {
			return v, true
		}
	}
	return bot, false
}

func (s *SCCP) evalCall(st *fnState, x *ssa.Call, get func(ssa.Value) AVal, depth int) AVal {
	cc := x.Common()
	if b, ok := s.callBinding(st.fn, cc); ok {
		return b
	}
	v := s.evalCall1(st, x, get, depth)
	isHelper := false
	if sc := cc.StaticCallee(); sc != nil && sameLogicalFunction(sc, st.fn) {
		_, bound := s.callBinding(st.fn, cc)
		isHelper = !bound // its result was computed from its body under the same scenario
	}
	if n := calleeName(cc); s.sc.AllErrorsNil && !isHelper && v.K != ABot && n != "fmt.Errorf" && n != "errors.New" {
		sig := cc.Signature()
		if ei := errResultIndex(sig); ei >= 0 {
			if sig.Results().Len() == 1 {
				return nilVal
			}
			if v.K == ATuple && ei < len(v.Tup) {
				t := AVal{K: ATuple, Tup: append([]AVal{}, v.Tup...)}
				t.Tup[ei] = nilVal
				return t
			}
		}
	}
	return v
}

func (s *SCCP) evalCall1(st *fnState, x *ssa.Call, get func(ssa.Value) AVal, depth int) AVal {
	cc := x.Common()
	if bi, ok := cc.Value.(*ssa.Builtin); ok {
		switch bi.Name() {
		case "len":
			if b, ok := s.bindingFor(s.sc.Lens, st.fn, cc.Args[0]); ok {
				return b
			}
			if ms, isMS := cc.Args[0].(*ssa.MakeSlice); isMS {
				if l := get(ms.Len); l.isConst() {
					return l // len(make([]T, n)) == n
				}
			}
			if _, isMM := cc.Args[0].(*ssa.MakeMap); isMM {
				if b, ok := s.lookupBinding(s.sc.Lens, st.fn, "<local map>"); ok {
					return b
				}
			}
			a := get(cc.Args[0])
			if a.isConst() && a.C.Kind() == constant.String {
				return cInt(int64(len(constant.StringVal(a.C))))
			}
			if a.isNil() {
				return cInt(0)
			}
			if a.K == AContainer {
				if l, ok := a.Keys["#len"]; ok {
					return l
				}
			}
			return top
		case "append":
			return nonNil
		}
		return top
	}
	name := calleeName(cc)
	switch name {
	case "fmt.Errorf", "errors.New":
		return fresh
	}
	sc := cc.StaticCallee()
	if sc != nil && fname(sc) == "pegnet.IsRejectedTx" && len(cc.Args) == 1 {
		// the classification written as a scan over a local table: answered from the table (E6 does not unroll loops)
		if tbl, ok := tableScanCodesMemo(s.c, sc); ok {
			a := get(cc.Args[0])
			switch {
			case a.K == ABot:
				return bot
			case a.isNil():
				return AVal{K: ATuple, Tup: []AVal{cInt(1), nilVal}}
			case a.K == ASentinel:
				if code, has := tbl[a.G]; has {
					return AVal{K: ATuple, Tup: []AVal{cInt(code), nilVal}}
				}
				return AVal{K: ATuple, Tup: []AVal{cInt(0), a}}
			case a.K == AFresh:
				return AVal{K: ATuple, Tup: []AVal{cInt(0), a}}
			}
			return tupleOfTop(cc.Signature())
		}
	}
	if sc == nil && !cc.IsInvoke() {
		// a step taken from a local list of closures: every element is analysed as part of this function, results joined
		if steps := localClosureSteps(cc.Value, st.fn); len(steps) > 0 {
			res := bot
			var states []*fnState
			for _, mc := range steps {
				g := mc.Fn.(*ssa.Function)
				fv := map[*ssa.FreeVar]AVal{}
				for i, b := range mc.Bindings {
					if i >= len(g.FreeVars) {
						break
					}
					if al, ok := b.(*ssa.Alloc); ok && !closureWrites(mc, al) {
						fv[g.FreeVars[i]] = s.loadLocal(st, al, get)
					}
				}
				s.nextFree = fv
				var args []AVal
				for _, a := range cc.Args {
					args = append(args, get(a))
				}
				if cs := s.run(g, args, depth); cs != nil {
					states = append(states, cs)
					if cs.result.K != ABot {
						res = join(res, cs.result)
					}
				} else {
					res = join(res, tupleOfTop(cc.Signature()))
				}
			}
			if st.calleesDyn == nil {
				st.calleesDyn = map[ssa.Instruction][]*fnState{}
			}
			st.calleesDyn[x] = states
			if res.K == ABot {
				return tupleOfTop(cc.Signature())
			}
			return res
		}
	}
	if sc != nil && fnInModule(sc) && sc.Blocks != nil && (depth < s.sc.MaxDepth || sameLogicalFunction(sc, st.fn)) && !s.sc.NoInline[name] && !s.sc.NoInline[shortCallee(cc)] {
		var args []AVal
		for _, a := range cc.Args {
			args = append(args, get(a))
		}
		for _, a := range args {
			if a.K == ABot {
				return bot
			}
		}
		if mc, ok := cc.Value.(*ssa.MakeClosure); ok && mc.Parent() == st.fn {
			fv := map[*ssa.FreeVar]AVal{}
			for i, b := range mc.Bindings {
				if i >= len(sc.FreeVars) {
					break
				}
				if al, ok := b.(*ssa.Alloc); ok && !closureWrites(mc, al) {
					// the captured variable as the creating function sees it (single-assignment locals and spilled parameters)
					fv[sc.FreeVars[i]] = s.loadLocal(st, al, get)
				}
			}
			s.nextFree = fv
		}
		nd := depth + 1
		if sameLogicalFunction(sc, st.fn) {
			nd = depth // a helper split off from a reference function, or a closure of the caller, is analysed as part of its caller
		}
		if cs := s.run(sc, args, nd); cs != nil {
			if st.callees == nil {
				st.callees = map[ssa.Instruction]*fnState{}
			}
			st.callees[x] = cs
			if cs.result.K == ABot {
				// callee never returns under these arguments (or only via panic)
				return tupleOfTop(cc.Signature())
			}
			return cs.result
		}
	}
	return tupleOfTop(cc.Signature())
}

// ---------- results ----------

type Trace struct {
	s     *SCCP
	Root  *fnState
	Calls []LiveCall
}

// analyse runs the scenario on fn and collects the live calls (recursively through inlined callees).
func (s *SCCP) analyse(fn *ssa.Function, args []AVal) *Trace {
	root := s.run(fn, args, 0)
	t := &Trace{s: s, Root: root}
	if root == nil {
		return t
	}
	seen := map[*fnState]bool{}
	var walk func(st *fnState, depth int)
	walk = func(st *fnState, depth int) {
		if st == nil || seen[st] {
			return
		}
		seen[st] = true
		for _, b := range st.fn.Blocks {
			if !st.execB[b] {
				continue
			}
			for _, ins := range b.Instrs {
				ci, ok := ins.(ssa.CallInstruction)
				if !ok {
					continue
				}
				cc := ci.Common()
				lc := LiveCall{Caller: st.fn, Callee: calleeName(cc), Short: shortCallee(cc), Instr: ci, Depth: depth}
				for _, a := range cc.Args {
					lc.Args = append(lc.Args, s.valueIn(st, a))
				}
				if v, ok := ci.(ssa.Value); ok {
					lc.Result = st.val[v]
				}
				t.Calls = append(t.Calls, lc)
				for _, cs := range st.calleesDyn[ins] {
					walk(cs, depth) // the steps of a local list of closures
				}
				if sc := cc.StaticCallee(); sc != nil && fnInModule(sc) && sc.Blocks != nil && (depth < s.sc.MaxDepth || sameLogicalFunction(sc, st.fn)) {
					if _, bound := s.callBinding(st.fn, cc); bound || s.sc.NoInline[lc.Callee] || s.sc.NoInline[lc.Short] {
						continue
					}
					cs, ok := st.callees[ins]
					if !ok {
						cs, ok = s.memo[argsKey(sc, lc.Args)]
					}
					if ok {
						if sameLogicalFunction(sc, st.fn) {
							walk(cs, depth)
						} else {
							walk(cs, depth+1)
						}
					}
				}
			}
		}
	}
	walk(root, 0)
	return t
}

func (s *SCCP) valueIn(st *fnState, v ssa.Value) AVal {
	switch x := v.(type) {
	case *ssa.Const:
		if x.Value == nil {
			return nilVal
		}
		return AVal{K: AConst, C: x.Value}
	case *ssa.Global, *ssa.Function:
		return nonNil
	}
	if a, ok := st.val[v]; ok {
		return a
	}
	return bot
}

// Live reports whether a call whose callee name ends with name is executable.
func (t *Trace) Live(name string) bool { return len(t.CallsTo(name)) > 0 }

func (t *Trace) CallsTo(name string) []LiveCall {
	var out []LiveCall
	for _, c := range t.Calls {
		if c.Callee == name || c.Short == name || strings.HasSuffix(c.Callee, "."+name) {
			out = append(out, c)
		}
	}
	return out
}

// Returns lists the abstract results of the executable returns of the entry function.
func (t *Trace) Returns() [][]AVal {
	var out [][]AVal
	if t.Root == nil {
		return nil
	}
	var rets []*ssa.Return
	for r := range t.Root.rets {
		if t.Root.execB[r.Block()] {
			rets = append(rets, r)
		}
	}
	sort.Slice(rets, func(i, j int) bool { return rets[i].Pos() < rets[j].Pos() })
	for _, r := range rets {
		out = append(out, t.Root.rets[r])
	}
	return out
}

// ErrorReturns summarises the error position of the executable returns of st: set of strings.
func errorReturns(st *fnState) []string {
	idx := errResultIndex(st.fn.Signature)
	set := map[string]bool{}
	for r, rv := range st.rets {
		if !st.execB[r.Block()] || idx < 0 || idx >= len(rv) {
			continue
		}
		if rv[idx].K == ABot {
			continue
		}
		// `return helper(...)`: one outcome per return of the helper instead of their join
		if ex, ok := resolveSpill(r.Results[idx]).(*ssa.Extract); ok && rv[idx].K == ATop {
			if tv, had := st.val[ex.Tuple]; had && tv.K == ATuple && len(tv.Alts) >= 2 {
				for _, alt := range tv.Alts {
					if ex.Index < len(alt) && alt[ex.Index].K != ABot {
						a := alt[ex.Index]
						if a.K == ANonNil && isErrorType(ex.Type()) {
							a = top // an error known only to be non-nil: reported as before the helper existed
						}
						set[a.String()] = true
					}
				}
				continue
			}
		}
		// a return of a variable merged in the returning block (`return failed` after `failed = err; break`): one
		// outcome per executable incoming edge instead of their join
		if ph, ok := resolveSpill(r.Results[idx]).(*ssa.Phi); ok && (ph.Block() == r.Block() || ph.Block().Dominates(r.Block())) && rv[idx].K == ATop {
			split := true
			// `if failed != nil { return failed }`: behind the non-nil edge of the merged variable's own test the nil
			// edges do not arrive
			dropNil := false
			if ph.Block() != r.Block() {
				for _, tb := range st.fn.Blocks {
					cond, ts, fs := condEdge(tb)
					bo, isBO := cond.(*ssa.BinOp)
					if !isBO || (bo.Op != token.NEQ && bo.Op != token.EQL) {
						continue
					}
					if !((bo.X == ssa.Value(ph) && isNilConst(bo.Y)) || (bo.Y == ssa.Value(ph) && isNilConst(bo.X))) {
						continue
					}
					nonNilS := ts
					if bo.Op == token.EQL {
						nonNilS = fs
					}
					if len(nonNilS.Preds) == 1 && blockOrDom(nonNilS, r.Block()) {
						dropNil = true
					}
				}
				if !dropNil {
					split = false
				}
			}
			var parts []string
			for i, e := range ph.Edges {
				if !st.execE[[2]int{ph.Block().Preds[i].Index, ph.Block().Index}] {
					continue
				}
				var a AVal
				if k, isK := e.(*ssa.Const); isK {
					if k.Value != nil {
						split = false
						break
					}
					a = nilVal
				} else if v, had := st.val[e]; had {
					a = v
				} else {
					split = false
					break
				}
				if a.K != ABot && !(dropNil && a.isNil()) {
					parts = append(parts, a.String())
				}
			}
			if split && len(parts) > 0 {
				for _, p := range parts {
					set[p] = true
				}
				continue
			}
		}
		set[rv[idx].String()] = true
	}
	var out []string
	for k := range set {
		out = append(out, k)
	}
	sort.Strings(out)
	return out
}

// loopRegion describes the executable exits of a loop body.
type loopExits struct {
	Latch   bool     // the back edge is executable
	Returns []string // error position of executable returns inside the body
	Found   bool
}

// loopOver finds the loop in st.fn that iterates over the slice with the given access path
// (ordinal n among such loops) and reports which of its exits are executable.
func loopOver(st *fnState, path string, n int) loopExits {
	le, _ := loopOverAt(st, path, n, errResultIndex(st.fn.Signature))
	return le
}

// loopOverFam is loopOver for a loop that may have been moved into a single-result helper of the function (a
// predicate or a validator): the exits of the loop are then results of the helper, and each is carried through
// the caller by analysing it again with the helper bound to that result.
func loopOverFam(c *Ctx, sc *Scenario, fn *ssa.Function, st *fnState, path string, n int) loopExits {
	le := loopOver(st, path, n)
	if le.Found || st == nil {
		return le
	}
	var sites []ssa.Instruction
	for s := range st.callees {
		sites = append(sites, s)
	}
	sort.Slice(sites, func(i, j int) bool { return sites[i].Pos() < sites[j].Pos() })
	for _, site := range sites {
		hs := st.callees[site]
		if hs == nil || !st.execB[site.Block()] || !sameLogicalFunction(hs.fn, st.fn) || hs.fn.Signature.Results().Len() != 1 {
			continue
		}
		hle, vals := loopOverAt(hs, path, n, 0)
		if !hle.Found {
			continue
		}
		out := loopExits{Found: true, Latch: hle.Latch}
		set := map[string]bool{}
		for _, v := range vals {
			sc2 := *sc
			sc2.Calls = map[string]AVal{fname(hs.fn): v}
			for k, b := range sc.Calls {
				sc2.Calls[k] = b
			}
			st2 := newSCCP(c, &sc2).run(fn, st.args, 0)
			for _, e := range errorReturns(st2) {
				set[e] = true
			}
		}
		for e := range set {
			out.Returns = append(out.Returns, e)
		}
		sort.Strings(out.Returns)
		return out
	}
	return le
}

func loopOverAt(st *fnState, path string, n int, idx int) (loopExits, []AVal) {
	fn := st.fn
	var vals []AVal
	k := 0
	for _, b := range fn.Blocks {
		// header of an index loop: contains a phi, ends with If on `i < len(path)`
		cond, body, _ := condEdge(b)
		bo, ok := cond.(*ssa.BinOp)
		if !ok || bo.Op != token.LSS {
			continue
		}
		lc, ok := bo.Y.(*ssa.Call)
		if !ok {
			continue
		}
		if bi, ok := lc.Call.Value.(*ssa.Builtin); !ok || bi.Name() != "len" || (valuePath(lc.Call.Args[0]) != path && typePath(lc.Call.Args[0]) != path) {
			continue
		}
		// the len() call may live in the preheader; ensure b is a loop header (has a back edge)
		isHeader := false
		for _, p := range b.Preds {
			if b.Dominates(p) {
				isHeader = true
			}
		}
		if !isHeader {
			continue
		}
		k++
		if k != n {
			continue
		}
		le := loopExits{Found: true}
		set := map[string]bool{}
		for _, x := range fn.Blocks {
			if !(x == body || body.Dominates(x)) || !st.execB[x] {
				continue
			}
			for _, s := range x.Succs {
				if s == b && st.execE[[2]int{x.Index, b.Index}] {
					le.Latch = true
				}
			}
			for _, ins := range x.Instrs {
				if r, ok := ins.(*ssa.Return); ok && idx >= 0 {
					if rv, ok := st.rets[r]; ok && rv[idx].K != ABot {
						if !set[rv[idx].String()] {
							vals = append(vals, rv[idx])
						}
						set[rv[idx].String()] = true
					}
				}
			}
			// an exit by `break` (the verdict is kept in a variable and returned after the loop): follow the edge to
			// the return it leads to, with the values the merged variables take on this edge
			for _, sx := range x.Succs {
				if sx == b || sx == body || body.Dominates(sx) || !st.execE[[2]int{x.Index, sx.Index}] || idx < 0 {
					continue
				}
				if v, ok := st.followExit(x, sx, idx); ok {
					if !set[v.String()] {
						vals = append(vals, v)
					}
					set[v.String()] = true
				}
			}
		}
		for s := range set {
			le.Returns = append(le.Returns, s)
		}
		sort.Strings(le.Returns)
		return le, vals
	}
	return loopExits{}, nil
}

func (le loopExits) String() string {
	s := strings.Join(le.Returns, "|")
	if le.Latch {
		if s != "" {
			s += "|"
		}
		s += "next"
	}
	if s == "" {
		s = "none"
	}
	return s
}

func fmtArgs(a []AVal) string {
	var s []string
	for _, x := range a {
		s = append(s, x.String())
	}
	return fmt.Sprintf("(%s)", strings.Join(s, ", "))
}

// mustPass: in the sub-CFG executable under the scenario, every path from entry to an
// executable Return passes through ins (its block).  Returns a description of an avoiding path or "".
func mustPass(st *fnState, ins ssa.Instruction) string {
	if st == nil || !st.execB[ins.Block()] {
		return "the call is not executable in this scenario"
	}
	target := ins.Block()
	if h := stepLoopHeader(st, ins); h != nil {
		target = h
	}
	seen := map[*ssa.BasicBlock]bool{}
	var stack []*ssa.BasicBlock
	entry := st.fn.Blocks[0]
	if entry == target {
		return ""
	}
	seen[entry] = true
	stack = append(stack, entry)
	for len(stack) > 0 {
		b := stack[len(stack)-1]
		stack = stack[:len(stack)-1]
		for _, i := range b.Instrs {
			if r, ok := i.(*ssa.Return); ok {
				return fmt.Sprintf("a return at block %d (line of %v) is reachable without executing it", b.Index, r.Pos())
			}
		}
		for _, sc := range b.Succs {
			if sc == target || seen[sc] || !st.execE[[2]int{b.Index, sc.Index}] {
				continue
			}
			seen[sc] = true
			stack = append(stack, sc)
		}
	}
	return ""
}

// mustPassDeep is mustPass for a call that may sit in a helper, a closure or one of the steps of a local list of
// closures analysed as part of the root: the call must lie on every path of its own function, and the place that
// runs that function on every path of the next one up, through to the root.
func mustPassDeep(root *fnState, ins ssa.Instruction) string {
	var chain func(st *fnState, seen map[*fnState]bool) []struct {
		st  *fnState
		ins ssa.Instruction
	}
	type link = struct {
		st  *fnState
		ins ssa.Instruction
	}
	chain = func(st *fnState, seen map[*fnState]bool) []link {
		if st == nil || seen[st] {
			return nil
		}
		seen[st] = true
		if ins.Parent() == st.fn && st.execB[ins.Block()] {
			return []link{{st, ins}}
		}
		var sites []ssa.Instruction
		for s := range st.callees {
			sites = append(sites, s)
		}
		for s := range st.calleesDyn {
			sites = append(sites, s)
		}
		sort.Slice(sites, func(i, j int) bool { return sites[i].Pos() < sites[j].Pos() })
		for _, site := range sites {
			if !st.execB[site.Block()] {
				continue
			}
			subs := append([]*fnState{}, st.calleesDyn[site]...)
			if cs := st.callees[site]; cs != nil {
				subs = append(subs, cs)
			}
			for _, cs := range subs {
				if rest := chain(cs, seen); rest != nil {
					return append([]link{{st, site}}, rest...)
				}
			}
		}
		return nil
	}
	links := chain(root, map[*fnState]bool{})
	if links == nil {
		return "the call is not executable in this scenario"
	}
	for _, l := range links {
		if m := mustPass(l.st, l.ins); m != "" {
			if l.st != root {
				m += " (in " + fname(l.st.fn) + ")"
			}
			return m
		}
	}
	return ""
}

// stepLoopHeader: ins is the call of the current element in `for _, step := range steps` over a local list of
// closures, the loop can only be left (in this scenario) through the header's range-done edge, and the call lies
// on every path of one iteration; then every step runs whenever the header is reached.
func stepLoopHeader(st *fnState, ins ssa.Instruction) *ssa.BasicBlock {
	ci, ok := ins.(ssa.CallInstruction)
	if !ok || len(st.calleesDyn[ins]) == 0 {
		return nil
	}
	u, ok := ci.Common().Value.(*ssa.UnOp)
	if !ok {
		return nil
	}
	ia, ok := u.X.(*ssa.IndexAddr)
	if !ok {
		return nil
	}
	idx, ok := ia.Index.(*ssa.BinOp)
	if !ok || idx.Op != token.ADD {
		return nil
	}
	ph, ok := idx.X.(*ssa.Phi)
	if !ok || len(ph.Edges) != 2 {
		return nil
	}
	if k, ok := idx.Y.(*ssa.Const); !ok || k.Value == nil || k.Value.ExactString() != "1" {
		return nil
	}
	start, back := false, false
	for _, e := range ph.Edges {
		if k, ok := e.(*ssa.Const); ok && k.Value != nil && k.Value.ExactString() == "-1" {
			start = true
		}
		if e == ssa.Value(idx) {
			back = true
		}
	}
	if !start || !back {
		return nil
	}
	header := ph.Block()
	iff, ok := header.Instrs[len(header.Instrs)-1].(*ssa.If)
	if !ok {
		return nil
	}
	cond, ok := iff.Cond.(*ssa.BinOp)
	if !ok || cond.Op != token.LSS || cond.X != ssa.Value(idx) {
		return nil
	}
	ln, ok := cond.Y.(*ssa.Call)
	if !ok {
		return nil
	}
	if b, ok := ln.Call.Value.(*ssa.Builtin); !ok || b.Name() != "len" || len(ln.Call.Args) != 1 || ln.Call.Args[0] != ia.X {
		return nil
	}
	var loop *natLoop
	for _, l := range naturalLoops(st.fn) {
		if l.header == header {
			loop = l
		}
	}
	if loop == nil || !loop.blocks[ins.Block()] {
		return nil
	}
	for b := range loop.blocks {
		for _, sc := range b.Succs {
			if !loop.blocks[sc] && b != header && st.execB[b] && st.execE[[2]int{b.Index, sc.Index}] {
				return nil // an executable way out of the loop other than running out of steps
			}
		}
		if b != header {
			for _, i := range b.Instrs {
				if _, ok := i.(*ssa.Return); ok && st.execB[b] {
					return nil
				}
			}
		}
	}
	// one iteration: from the body entry back to the header only through the call
	seen := map[*ssa.BasicBlock]bool{}
	stack := []*ssa.BasicBlock{header.Succs[0]}
	if header.Succs[0] != ins.Block() {
		seen[header.Succs[0]] = true
		for len(stack) > 0 {
			b := stack[len(stack)-1]
			stack = stack[:len(stack)-1]
			for _, sc := range b.Succs {
				if !st.execE[[2]int{b.Index, sc.Index}] || sc == ins.Block() || seen[sc] {
					continue
				}
				if sc == header {
					return nil
				}
				seen[sc] = true
				stack = append(stack, sc)
			}
		}
	}
	return header
}

// execReaches: in the executable sub-CFG, instruction a can be followed by instruction b.
func execReaches(st *fnState, a, b ssa.Instruction) bool {
	if a.Block() == b.Block() && instrIndex(a) < instrIndex(b) {
		return true
	}
	seen := map[*ssa.BasicBlock]bool{}
	stack := []*ssa.BasicBlock{a.Block()}
	for len(stack) > 0 {
		x := stack[len(stack)-1]
		stack = stack[:len(stack)-1]
		for _, sc := range x.Succs {
			if !st.execE[[2]int{x.Index, sc.Index}] || seen[sc] {
				continue
			}
			if sc == b.Block() {
				return true
			}
			seen[sc] = true
			stack = append(stack, sc)
		}
	}
	return false
}

// unusedBindings lists scenario keys that never matched a value: the anchor moved.
func (s *SCCP) unusedBindings() []string {
	var out []string
	for _, m := range []map[string]AVal{s.sc.Paths, s.sc.Lookups, s.sc.Lens} {
		for k := range m {
			kk := k
			if i := strings.Index(k, ":"); i >= 0 {
				kk = k[i+1:]
			}
			if !s.used[kk] && !s.used[k] {
				out = append(out, k)
			}
		}
	}
	sort.Strings(out)
	return out
}

// tableAcc accumulates, over all scenarios of one decision table, which scenario keys matched a
// value at least once; a key that never matches means the anchor moved (rename, refactor) and the
// table would be vacuous.
type tableAcc struct {
	all, used map[string]bool
	optional  map[string]bool // keys that refine the table when present but are not required to exist
	n         int
}

func newTableAcc() *tableAcc {
	return &tableAcc{all: map[string]bool{}, used: map[string]bool{}, optional: map[string]bool{}}
}

func (a *tableAcc) run(c *Ctx, r *Report, fn *ssa.Function, sc *Scenario) (*Trace, *SCCP) {
	s := newSCCP(c, sc)
	t := s.analyse(fn, nil)
	a.absorb(s)
	if r != nil {
		r.Scen++
	}
	return t, s
}

func (a *tableAcc) absorb(s *SCCP) {
	a.n++
	for _, m := range []map[string]AVal{s.sc.Paths, s.sc.Lookups, s.sc.Lens, s.sc.Phis} {
		for k := range m {
			a.all[k] = true
			kk := k
			if i := strings.Index(k, ":"); i >= 0 {
				kk = k[i+1:]
			}
			if s.used[kk] || s.used[k] {
				a.used[k] = true
			}
		}
	}
}

// report emits an UNDECIDED obligation for keys that never matched.
func (a *tableAcc) report(c *Ctx, r *Report, rule string, fn *ssa.Function) bool {
	var un []string
	for k := range a.all {
		if !a.used[k] && !a.optional[k] {
			un = append(un, k)
		}
	}
	sort.Strings(un)
	if len(un) > 0 {
		r.undecided(rule, "scenario bindings of "+fname(fn), c.pos(fn.Pos()), "scenario keys matched no value in any scenario (anchor moved, table would be vacuous): "+strings.Join(un, ", "))
		return false
	}
	return true
}

// paramTypeKeys: name-free binding keys of parameter i of fn: "type:T" when it is the only parameter of type T,
// and "type:T#k" (k-th parameter of that type, from 0) always. T is written with package names, not paths.
func paramTypeKeys(fn *ssa.Function, i int) []string {
	q := func(p *types.Package) string { return p.Name() }
	T := types.TypeString(fn.Params[i].Type(), q)
	n, k := 0, 0
	for j, p := range fn.Params {
		if types.TypeString(p.Type(), q) == T {
			if j < i {
				k++
			}
			n++
		}
	}
	keys := []string{fmt.Sprintf("type:%s#%d", T, k)}
	if n == 1 {
		keys = append(keys, "type:"+T)
	}
	return keys
}

// elemsBinding: a container-typed value whose elements are bound by a path "X[]" (and no binding for X itself)
// evaluates to a container of that element, so the binding follows the value into helpers.
func (s *SCCP) elemsBinding(fn *ssa.Function, v ssa.Value) (AVal, bool) {
	if len(s.sc.Paths) == 0 {
		return bot, false
	}
	t := v.Type()
	if u, ok := v.(*ssa.UnOp); ok && u.Op == token.MUL {
		t = u.Type()
	} else if p, ok := t.Underlying().(*types.Pointer); ok {
		t = p.Elem()
	}
	switch t.Underlying().(type) {
	case *types.Slice, *types.Array, *types.Map:
	default:
		return bot, false
	}
	for _, p := range []string{valuePathC(v), typePathC(v)} {
		if p == "" {
			continue
		}
		if b, ok := s.lookupBinding(s.sc.Paths, fn, p+"[]"); ok {
			return containerOf(b, nil), true
		}
	}
	return bot, false
}

// closureWrites: the closure (or a closure nested in it) stores to the captured variable bound to al.
func closureWrites(mc *ssa.MakeClosure, al ssa.Value) bool {
	fn, ok := mc.Fn.(*ssa.Function)
	if !ok {
		return true
	}
	for i, b := range mc.Bindings {
		if b != al || i >= len(fn.FreeVars) {
			continue
		}
		fv := fn.FreeVars[i]
		if fv.Referrers() == nil {
			continue
		}
		for _, rf := range *fv.Referrers() {
			switch y := rf.(type) {
			case *ssa.Store:
				if y.Addr == ssa.Value(fv) {
					return true
				}
			case *ssa.UnOp, *ssa.DebugRef:
			case *ssa.MakeClosure:
				if closureWrites(y, fv) {
					return true
				}
			default:
				return true // address used in some other way
			}
		}
	}
	return false
}

// sameLogicalFunction: callee is a helper the reference tree does not have, or a closure declared inside the caller
// (or inside the caller's enclosing function): its body is analysed as part of the caller.
func sameLogicalFunction(callee, caller *ssa.Function) bool {
	if isNewHelper(callee) {
		return true
	}
	return callee.Parent() != nil && sameTop(callee, caller)
}

// loadLocal: the value of a local slot as the function sees it: the join of the executed stores, provided its address
// goes nowhere except loads, stores and closures that only read it.
func (s *SCCP) loadLocal(st *fnState, al *ssa.Alloc, get func(ssa.Value) AVal) AVal {
	a := bot
	n := 0
	if refs := al.Referrers(); refs != nil {
		for _, r := range *refs {
			switch y := r.(type) {
			case *ssa.Store:
				if y.Addr == al && st.execB[y.Block()] {
					a = join(a, get(y.Val))
					n++
				}
			case *ssa.UnOp, *ssa.DebugRef:
			case *ssa.MakeClosure:
				// captured by a closure that only reads it: still assigned once
				if closureWrites(y, al) {
					return top
				}
			default:
				return top // address escapes (field access, call argument)
			}
		}
	}
	if n > 0 && a.K != ABot {
		return a
	}
	return top
}

var retNonNilMemo sync.Map // [2]interface{}{*ssa.Return, idx} -> bool

func (s *SCCP) retNonNil(rt *ssa.Return, i int) bool {
	type key struct {
		rt *ssa.Return
		i  int
	}
	k := key{rt, i}
	if v, ok := retNonNilMemo.Load(k); ok {
		return v.(bool)
	}
	v := s.c.errNonNilAt(rt.Results[i], rt.Block(), 0)
	retNonNilMemo.Store(k, v)
	return v
}

// refinedCond evaluates a branch condition on one component of a result tuple with alternatives, keeping only the
// alternatives that agree with the tests on the other components that dominate the branch
// (`skip, err := helper(); if err != nil { return err }; if skip { continue }`).
func (s *SCCP) refinedCond(cond ssa.Value, at *ssa.BasicBlock, get func(ssa.Value) AVal) (AVal, bool) {
	neg := false
	for {
		if u, ok := cond.(*ssa.UnOp); ok && u.Op == token.NOT {
			cond, neg = u.X, !neg
			continue
		}
		break
	}
	var ext *ssa.Extract
	nilCmp := token.ILLEGAL
	switch x := cond.(type) {
	case *ssa.Extract:
		ext = x
	case *ssa.BinOp:
		if x.Op == token.EQL || x.Op == token.NEQ {
			if e, ok := x.X.(*ssa.Extract); ok && isNilConst(x.Y) {
				ext, nilCmp = e, x.Op
			} else if e, ok := x.Y.(*ssa.Extract); ok && isNilConst(x.X) {
				ext, nilCmp = e, x.Op
			}
		}
	}
	if ext == nil {
		return bot, false
	}
	tv := get(ext.Tuple)
	if tv.K != ATuple || len(tv.Alts) < 2 || ext.Tuple.Referrers() == nil {
		return bot, false
	}
	alts := tv.Alts
	keep := func(pred func(alt []AVal) bool) {
		var out [][]AVal
		for _, a := range alts {
			if pred(a) {
				out = append(out, a)
			}
		}
		alts = out
	}
	defNonNil := func(a AVal) bool {
		switch a.K {
		case ANonNil, AFresh, ASentinel, APtr, AContainer:
			return true
		}
		return a.isConst()
	}
	f := at.Parent()
	for _, rf := range *ext.Tuple.Referrers() {
		sib, ok := rf.(*ssa.Extract)
		if !ok || sib == ext || sib.Index >= len(tv.Tup) {
			continue
		}
		j := sib.Index
		for _, tb := range f.Blocks {
			if tb == at {
				continue
			}
			c2, ts, fs := condEdge(tb)
			if c2 == nil {
				continue
			}
			n2 := false
			for {
				if u, ok := c2.(*ssa.UnOp); ok && u.Op == token.NOT {
					c2, n2 = u.X, !n2
					continue
				}
				break
			}
			if n2 {
				ts, fs = fs, ts
			}
			domBy := func(succ *ssa.BasicBlock) bool { return len(succ.Preds) == 1 && blockOrDom(succ, at) }
			if c2 == ssa.Value(sib) {
				if domBy(ts) {
					keep(func(a []AVal) bool { v, k := a[j].boolVal(); return !k || v })
				} else if domBy(fs) {
					keep(func(a []AVal) bool { v, k := a[j].boolVal(); return !k || !v })
				}
				continue
			}
			if bo, ok := c2.(*ssa.BinOp); ok && (bo.Op == token.EQL || bo.Op == token.NEQ) {
				if !((bo.X == ssa.Value(sib) && isNilConst(bo.Y)) || (bo.Y == ssa.Value(sib) && isNilConst(bo.X))) {
					continue
				}
				nilS, nonNilS := ts, fs
				if bo.Op == token.NEQ {
					nilS, nonNilS = fs, ts
				}
				if domBy(nilS) {
					keep(func(a []AVal) bool { return !defNonNil(a[j]) })
				} else if domBy(nonNilS) {
					keep(func(a []AVal) bool { return !a[j].isNil() })
				}
			}
		}
	}
	if len(alts) == 0 || len(alts) == len(tv.Alts) {
		return bot, false
	}
	v := bot
	for _, a := range alts {
		v = join(v, a[ext.Index])
	}
	var res AVal
	if nilCmp == token.ILLEGAL {
		bv, ok := v.boolVal()
		if !ok {
			return bot, false
		}
		res = cBool(bv != neg)
	} else {
		switch {
		case v.isNil():
			res = cBool((nilCmp == token.EQL) != neg)
		case defNonNil(v):
			res = cBool((nilCmp == token.NEQ) != neg)
		default:
			return bot, false
		}
	}
	return res, true
}

// followExit: control leaves a loop over the edge from->to; follow it through blocks that only merge variables and
// test them (`if failed != nil { return failed }`) to a return, and give the abstract error that return carries on
// this path (a test that cannot be decided is followed both ways; a way that does more than merge and return is dropped).
func (st *fnState) followExit(from, to *ssa.BasicBlock, idx int) (AVal, bool) {
	var results []AVal
	var walk func(prev, cur *ssa.BasicBlock, env map[ssa.Value]AVal, hop int)
	walk = func(prev, cur *ssa.BasicBlock, env map[ssa.Value]AVal, hop int) {
		if hop > 6 {
			return
		}
		val := func(v ssa.Value) (AVal, bool) {
			if a, ok := env[v]; ok {
				return a, true
			}
			if k, ok := v.(*ssa.Const); ok {
				if k.Value == nil {
					return nilVal, true
				}
				return AVal{K: AConst, C: k.Value}, true
			}
			if a, ok := st.val[v]; ok {
				return a, true
			}
			return bot, false
		}
		pi := -1
		for i, p := range cur.Preds {
			if p == prev {
				pi = i
			}
		}
		for _, ins := range cur.Instrs {
			switch x := ins.(type) {
			case *ssa.Phi:
				if pi >= 0 {
					if a, ok := val(x.Edges[pi]); ok {
						env[x] = a
					}
				}
			case *ssa.DebugRef, *ssa.RunDefers:
			case *ssa.BinOp:
				if x.Op == token.EQL || x.Op == token.NEQ {
					a, ok1 := val(x.X)
					b, ok2 := val(x.Y)
					if ok1 && ok2 {
						nn := func(v AVal) bool {
							return v.K == ASentinel || v.K == AFresh || v.K == ANonNil || v.K == APtr || v.K == AContainer
						}
						switch {
						case a.isNil() && b.isNil():
							env[x] = cBool(x.Op == token.EQL)
						case (a.isNil() && nn(b)) || (b.isNil() && nn(a)):
							env[x] = cBool(x.Op == token.NEQ)
						}
					}
				}
			case *ssa.UnOp:
				if x.Op == token.NOT {
					if a, ok := val(x.X); ok {
						if bv, isB := a.boolVal(); isB {
							env[x] = cBool(!bv)
						}
					}
				}
			case *ssa.If:
				a, ok := val(x.Cond)
				bv, isB := a.boolVal()
				cp := func() map[ssa.Value]AVal {
					m := map[ssa.Value]AVal{}
					for k, v := range env {
						m[k] = v
					}
					return m
				}
				if ok && isB {
					if bv {
						walk(cur, cur.Succs[0], cp(), hop+1)
					} else {
						walk(cur, cur.Succs[1], cp(), hop+1)
					}
				} else {
					walk(cur, cur.Succs[0], cp(), hop+1)
					walk(cur, cur.Succs[1], cp(), hop+1)
				}
				return
			case *ssa.Jump:
				walk(cur, cur.Succs[0], env, hop+1)
				return
			case *ssa.Return:
				if idx < len(x.Results) {
					if a, ok := val(resolveSpill(x.Results[idx])); ok && a.K != ABot {
						results = append(results, a)
					}
				}
				return
			default:
				return // this way does more than merge and return
			}
		}
	}
	walk(from, to, map[ssa.Value]AVal{}, 0)
	if len(results) == 0 {
		return bot, false
	}
	v := results[0]
	for _, a := range results[1:] {
		if !aEq(v, a) {
			v = join(v, a)
		}
	}
	return v, true
}

var plainLiteralMemo sync.Map

// plainLiteral: the local struct is only ever filled by stores into its fields and read (a composite literal or a
// record assembled field by field): no field address is handed to a call (rows.Scan(&rec.f)) or kept, so the values
// stored are the values it holds. Only such objects stand for their value when the struct is copied.
func plainLiteral(al *ssa.Alloc) bool {
	if v, ok := plainLiteralMemo.Load(al); ok {
		return v.(bool)
	}
	ok := true
	if al.Referrers() != nil {
		for _, rf := range *al.Referrers() {
			switch x := rf.(type) {
			case *ssa.FieldAddr:
				if x.Referrers() == nil {
					continue
				}
				for _, r2 := range *x.Referrers() {
					switch y := r2.(type) {
					case *ssa.Store:
						if y.Addr != ssa.Value(x) {
							ok = false
						}
					case *ssa.UnOp, *ssa.DebugRef:
					default:
						ok = false
					}
				}
			case *ssa.UnOp, *ssa.DebugRef:
			case *ssa.Store:
				if x.Addr != ssa.Value(al) {
					ok = false // the address of the struct is stored somewhere
				}
			default:
				ok = false
			}
		}
	}
	plainLiteralMemo.Store(al, ok)
	return ok
}

// localClosureSteps: v is an element of a local array/slice literal all of whose elements are closures made in f
// (`steps := []func() error{...}; for _, step := range steps { step() }`); returns those closures.
func localClosureSteps(v ssa.Value, f *ssa.Function) []*ssa.MakeClosure {
	u, ok := v.(*ssa.UnOp)
	if !ok || u.Op != token.MUL {
		return nil
	}
	ia, ok := u.X.(*ssa.IndexAddr)
	if !ok {
		return nil
	}
	var arr *ssa.Alloc
	switch y := ia.X.(type) {
	case *ssa.Slice:
		arr, _ = y.X.(*ssa.Alloc)
	case *ssa.Alloc:
		arr = y
	case *ssa.Phi:
		// the ranged slice kept in a variable: all edges the same literal
		for _, e := range y.Edges {
			if sl, ok := e.(*ssa.Slice); ok {
				if a, ok := sl.X.(*ssa.Alloc); ok && (arr == nil || arr == a) {
					arr = a
					continue
				}
			}
			return nil
		}
	}
	if arr == nil || arr.Referrers() == nil || arr.Parent() != f {
		return nil
	}
	var out []*ssa.MakeClosure
	for _, rf := range *arr.Referrers() {
		switch y := rf.(type) {
		case *ssa.IndexAddr:
			if y == ia || y.Referrers() == nil {
				continue
			}
			for _, r2 := range *y.Referrers() {
				switch z := r2.(type) {
				case *ssa.Store:
					mc, ok := z.Val.(*ssa.MakeClosure)
					if !ok || z.Addr != ssa.Value(y) {
						return nil
					}
					if g, ok := mc.Fn.(*ssa.Function); !ok || g.Parent() != f {
						return nil
					}
					out = append(out, mc)
				case *ssa.UnOp, *ssa.DebugRef:
				default:
					return nil
				}
			}
		case *ssa.Slice, *ssa.DebugRef:
		default:
			return nil
		}
	}
	return out
}

// objField: the value of field k of the plain local struct obj as a copy of it sees it - what was stored into the field,
// joined with the zero value when the field may still be unset (no store at all, or stores outside the straight-line
// code that follows the declaration: `var w T; if c { w.f = x }`).
func (s *SCCP) objField(obj *ssa.Alloc, k int) (AVal, bool) {
	v, has := s.objFields[obj][k]
	needZero := !has
	if has && obj.Referrers() != nil {
		for _, rf := range *obj.Referrers() {
			fa, ok := rf.(*ssa.FieldAddr)
			if !ok || fa.Field != k || fa.Referrers() == nil {
				continue
			}
			for _, r2 := range *fa.Referrers() {
				if st, ok := r2.(*ssa.Store); ok && st.Addr == ssa.Value(fa) && st.Block() != obj.Block() {
					needZero = true
				}
			}
		}
	}
	if !needZero {
		return v, true
	}
	stt := derefStruct(obj.Type())
	if stt == nil || k >= stt.NumFields() {
		return top, false
	}
	var z AVal
	switch t := stt.Field(k).Type().Underlying().(type) {
	case *types.Pointer, *types.Slice, *types.Map, *types.Interface, *types.Chan, *types.Signature:
		z = nilVal
	case *types.Basic:
		switch {
		case t.Info()&types.IsBoolean != 0:
			z = cBool(false)
		case t.Info()&types.IsInteger != 0:
			z = cInt(0)
		case t.Info()&types.IsString != 0:
			z = AVal{K: AConst, C: constant.MakeString("")}
		default:
			return top, false
		}
	default:
		return top, false
	}
	if !has {
		return z, true
	}
	return join(z, v), true
}

// structLocalHasFieldUse: the local struct is built or filled field by field (it has field addresses).
func structLocalHasFieldUse(al *ssa.Alloc) bool {
	if al.Referrers() == nil {
		return false
	}
	for _, rf := range *al.Referrers() {
		if _, ok := rf.(*ssa.FieldAddr); ok {
			return true
		}
	}
	return false
}
