package main

import (
	"bufio"
	"bytes"
	"fmt"
	"go/constant"
	"go/token"
	"go/types"
	"os"
	"os/exec"
	"regexp"
	"sort"
	"strconv"
	"strings"

	"golang.org/x/tools/go/ssa"
)

func init() { props["C08"] = propC08 }

var bceRe = regexp.MustCompile(`^(.+\.go):(\d+):(\d+): Found (IsInBounds|IsSliceInBounds)`)

// bceResidue runs the Go compiler's prove pass over the module and returns the source lines whose
// bounds checks it could not eliminate: file (relative to repo) -> line -> count.
func bceResidue(c *Ctx) (map[string]map[int]int, int, error) {
	cmd := exec.Command("go", "build", "-gcflags="+modPath+"/...=-d=ssa/check_bce/debug=1", "./...")
	cmd.Dir = c.Repo
	cmd.Env = append(os.Environ(), "GOFLAGS=-mod=mod", "GOPROXY=off", "GOSUMDB=off", "GOTOOLCHAIN=local", "GOWORK=off")
	var out bytes.Buffer
	cmd.Stdout = &out
	cmd.Stderr = &out
	err := cmd.Run()
	res := map[string]map[int]int{}
	n := 0
	sc := bufio.NewScanner(&out)
	sc.Buffer(make([]byte, 1<<20), 1<<24)
	for sc.Scan() {
		m := bceRe.FindStringSubmatch(sc.Text())
		if m == nil {
			continue
		}
		f := strings.TrimPrefix(m[1], "./")
		if strings.HasPrefix(f, "/") {
			if !strings.HasPrefix(f, c.Repo+"/") {
				continue // inlined dependency code reported at its own position
			}
			f = strings.TrimPrefix(f, c.Repo+"/")
		}
		ln, _ := strconv.Atoi(m[2])
		if res[f] == nil {
			res[f] = map[int]int{}
		}
		res[f][ln]++
		n++
	}
	if err != nil && n == 0 {
		return nil, 0, fmt.Errorf("go build failed: %v: %s", err, firstLine(out.String()))
	}
	return res, n, nil
}

func firstLine(s string) string {
	for _, l := range strings.Split(s, "\n") {
		if strings.Contains(l, ".go:") && !strings.Contains(l, "Found Is") && !strings.Contains(l, "sqlite3") {
			return l
		}
	}
	return ""
}

// chainDerived: the value (collection or index) comes from chain content: entry fields, decoded
// transactions, factoid transactions, raw JSON handed to an unmarshaler.
func chainDerived(v ssa.Value) (bool, string) {
	why := ""
	found := sliceHas(v, func(x ssa.Value) bool {
		tp := typePath(x)
		for _, p := range []string{"factom.Entry.", "factom.EBlock.Entries", "factom.FactoidTransaction.", "factom.FactoidTransactionIO.", "factom.FBlock.Transactions", "fat2.Transaction.", "fat2.TransactionBatch.Transactions", "fat2.TypedAddressAmountTuple.", "fat2.AddressAmountTuple."} {
			if strings.HasPrefix(tp, p) {
				why = tp
				return true
			}
		}
		if p, ok := x.(*ssa.Parameter); ok && p.Name() == "data" && p.Parent().Name() == "UnmarshalJSON" {
			why = "raw JSON bytes"
			return true
		}
		return false
	})
	return found, why
}

type idxSite struct {
	ins  ssa.Instruction
	coll ssa.Value
	idx  []ssa.Value // index, or low/high of a slice expression
	desc string
}

func indexSites(f *ssa.Function) []idxSite {
	var out []idxSite
	allInstrs(f, func(ins ssa.Instruction) {
		switch x := ins.(type) {
		case *ssa.IndexAddr:
			out = append(out, idxSite{ins, x.X, []ssa.Value{x.Index}, valueDesc2(x.X) + "[" + idxDesc(x.Index) + "]"})
		case *ssa.Index:
			if _, isMap := x.X.Type().Underlying().(*types.Map); !isMap {
				out = append(out, idxSite{ins, x.X, []ssa.Value{x.Index}, valueDesc2(x.X) + "[" + idxDesc(x.Index) + "]"})
			}
		case *ssa.Slice:
			var is []ssa.Value
			d := valueDesc2(x.X) + "["
			if x.Low != nil {
				is = append(is, x.Low)
				d += idxDesc(x.Low)
			}
			d += ":"
			if x.High != nil {
				is = append(is, x.High)
				d += idxDesc(x.High)
			}
			out = append(out, idxSite{ins, x.X, is, d + "]"})
		}
	})
	return out
}

func idxDesc(v ssa.Value) string {
	if k, ok := v.(*ssa.Const); ok && k.Value != nil {
		return k.Value.ExactString()
	}
	return ""
}

// lenLowerBound: on the way to ins, len(coll) is known to be >= the returned bound (−1 if unknown),
// from dominating comparisons of len(coll') with constants where coll' is the same expression.
func lenLowerBound(ins ssa.Instruction, coll ssa.Value) int64 {
	f := ins.Parent()
	best := int64(-1)
	for _, b := range f.Blocks {
		cond, tb, fb := condEdge(b)
		cb, ok := cond.(*ssa.BinOp)
		if !ok {
			continue
		}
		lc, ok := cb.X.(*ssa.Call)
		if !ok {
			continue
		}
		bi, ok := lc.Call.Value.(*ssa.Builtin)
		if !ok || bi.Name() != "len" || !sameExpr(lc.Call.Args[0], coll) {
			continue
		}
		k, ok := cb.Y.(*ssa.Const)
		if !ok || k.Value == nil || k.Value.Kind() != constant.Int {
			continue
		}
		n := k.Int64()
		// which edge reaches ins, and what does it imply?
		reachT := blockOrDom(tb, ins.Block()) && len(tb.Preds) == 1
		reachF := blockOrDom(fb, ins.Block()) && len(fb.Preds) == 1
		// "leave on true" shape: true branch cannot reach ins at all
		if !reachT && !reachF && b.Dominates(ins.Block()) {
			if !reachAvoiding(tb, map[*ssa.BasicBlock]bool{b: true})[ins.Block()] {
				reachF = true
			} else if !reachAvoiding(fb, map[*ssa.BasicBlock]bool{b: true})[ins.Block()] {
				reachT = true
			}
		}
		var lb int64 = -1
		switch cb.Op {
		case token.LSS: // len < n
			if reachF {
				lb = n
			}
		case token.LEQ:
			if reachF {
				lb = n + 1
			}
		case token.GTR:
			if reachT {
				lb = n + 1
			}
		case token.GEQ:
			if reachT {
				lb = n
			}
		case token.EQL:
			if reachT {
				lb = n
			}
		case token.NEQ:
			if reachF {
				lb = n
			}
		}
		if lb > best {
			best = lb
		}
	}
	return best
}

// rangeIndexOver: idx is the induction value of a loop bounded by len(Y) with Y the same expression as coll
// (or coll was made with len(Y)).
func rangeIndexOver(idx ssa.Value, coll ssa.Value) bool {
	var ph *ssa.Phi
	switch x := idx.(type) {
	case *ssa.Phi:
		ph = x
	case *ssa.BinOp:
		if p, ok := x.X.(*ssa.Phi); ok && x.Op == token.ADD {
			ph = p
		}
	}
	if ph == nil {
		return false
	}
	f := ph.Parent()
	for _, b := range f.Blocks {
		cond, _, _ := condEdge(b)
		cb, ok := cond.(*ssa.BinOp)
		if !ok || cb.Op != token.LSS {
			continue
		}
		if cb.X != idx && cb.X != ssa.Value(ph) {
			if bo, ok := cb.X.(*ssa.BinOp); !ok || bo.X != ssa.Value(ph) {
				continue
			}
		}
		var bound ssa.Value
		if lc, ok := cb.Y.(*ssa.Call); ok {
			if bi, ok := lc.Call.Value.(*ssa.Builtin); ok && bi.Name() == "len" {
				bound = lc.Call.Args[0]
			}
		}
		// a range over an array: the bound is the array's length as a constant
		if k, ok := cb.Y.(*ssa.Const); ok && bound == nil && k.Value != nil {
			t := coll.Type().Underlying()
			if p, isP := t.(*types.Pointer); isP {
				t = p.Elem().Underlying()
			}
			if at, isArr := t.(*types.Array); isArr && k.Int64() == at.Len() {
				return true
			}
		}
		if bound == nil {
			continue
		}
		if sameExpr(bound, coll) {
			return true
		}
		// coll = make([]T, len(bound))
		if ms, ok := coll.(*ssa.MakeSlice); ok {
			if lc, ok := ms.Len.(*ssa.Call); ok {
				if bi, ok := lc.Call.Value.(*ssa.Builtin); ok && bi.Name() == "len" && sameExpr(lc.Call.Args[0], bound) {
					return true
				}
			}
		}
	}
	return false
}

// slotOf: v is a load of a local variable kept in memory (because closures capture it) - directly in the function
// that declares it, or through the free variable a closure sees it by.
func slotOf(v ssa.Value) *ssa.Alloc {
	u, ok := unwrapConv(v).(*ssa.UnOp)
	if !ok || u.Op != token.MUL {
		return nil
	}
	switch x := u.X.(type) {
	case *ssa.Alloc:
		return x
	case *ssa.FreeVar:
		al, _ := closureBinding(x)
		return al
	}
	return nil
}

// slotStores: every store into the variable, in its function or in a closure that captured it; ok is false when
// its address goes anywhere else (so that it may be written out of sight).
func slotStores(al *ssa.Alloc) (stores []*ssa.Store, ok bool) {
	ok = true
	var visit func(addr ssa.Value, d int)
	visit = func(addr ssa.Value, d int) {
		if addr.Referrers() == nil || d > 4 {
			ok = false
			return
		}
		for _, rf := range *addr.Referrers() {
			switch y := rf.(type) {
			case *ssa.Store:
				if y.Addr == addr {
					stores = append(stores, y)
				} else {
					ok = false
				}
			case *ssa.UnOp, *ssa.DebugRef:
			case *ssa.MakeClosure:
				fn, isFn := y.Fn.(*ssa.Function)
				if !isFn {
					ok = false
					continue
				}
				for i, b := range y.Bindings {
					if b == addr && i < len(fn.FreeVars) {
						visit(fn.FreeVars[i], d+1)
					}
				}
			default:
				ok = false
			}
		}
	}
	visit(al, 0)
	return
}

// capturedRangeIndex: the index is a loop variable kept in memory because closures made in the loop body capture
// it (go 1.13 semantics: one variable per loop); it is only ever assigned the induction value of `for i := range
// coll`, coll is a variable assigned once, and the use is in the loop body or in such a closure.
func capturedRangeIndex(ins ssa.Instruction, idx, coll ssa.Value) bool {
	is := slotOf(idx)
	if is == nil {
		return false
	}
	stores, ok := slotStores(is)
	if !ok || len(stores) == 0 {
		return false
	}
	cs := slotOf(coll)
	if cs != nil {
		cst, ok := slotStores(cs)
		if !ok || len(cst) != 1 {
			return false
		}
	}
	f := is.Parent()
	for _, st := range stores {
		if st.Parent() != f {
			return false
		}
		// the stored value is the induction value of a loop bounded by len() of the same collection
		okSt := false
		for _, b := range f.Blocks {
			cond, body, _ := condEdge(b)
			cb, isB := cond.(*ssa.BinOp)
			if !isB || cb.Op != token.LSS || cb.X != st.Val {
				continue
			}
			lc, isC := cb.Y.(*ssa.Call)
			if !isC {
				continue
			}
			if bi, isBi := lc.Call.Value.(*ssa.Builtin); !isBi || bi.Name() != "len" {
				continue
			}
			bound := lc.Call.Args[0]
			same := false
			if cs != nil {
				same = slotOf(bound) == cs
			} else {
				same = coll.Parent() == f && sameExpr(bound, coll)
			}
			if !same || !rangeIndexOver(st.Val, bound) || !(st.Block() == body || body.Dominates(st.Block())) {
				continue
			}
			// the use: after the store in the loop body, or in a closure made there
			use := ins.Block()
			if ins.Parent() != f {
				g := ins.Parent()
				for g.Parent() != nil && g.Parent() != f {
					g = g.Parent()
				}
				use = nil
				allInstrs(f, func(x ssa.Instruction) {
					if mc, isMC := x.(*ssa.MakeClosure); isMC && mc.Fn == ssa.Value(g) {
						use = mc.Block()
					}
				})
			}
			if use != nil && (use == st.Block() || st.Block().Dominates(use)) && (use == body || body.Dominates(use)) {
				okSt = true
			}
		}
		if !okSt {
			return false
		}
	}
	return true
}

// audited index expressions: safe for a reason outside the function (cross-function length facts, library contracts).
var auditedIndex = map[string]string{
	"conversions.ConversionSupplySet.Payouts SortTxIDS()[0]":                                            "top is non-empty when there is at least one request (the max loop appends at least the first maximum)",
	"fat2.PTicker.UnmarshalJSON (parameter []byte #0)[0]":                                               "encoding/json never hands an empty token to UnmarshalJSON; the slice is only indexed at 0",
	"fat2.PTicker.String fat2.validPTickerStrings[expr]":                                                "guarded by 0 < t < PTickerMax; the table has PTickerMax-1 entries (C20/ticker-table)",
	"node.Pegnetd.ApplyFactoidBlock factom.FactoidTransaction.FCTInputs[0]":                             "a registered burn passed len(FCTInputs) == 1 and len(ECOutputs) == 1",
	"node.Pegnetd.GetPegNetRateAverages$2 ratesOverPeriod[ratesOverPeriod.key][1:]":                     "the shift runs under len(x) >= AveragePeriod >= 1",
	"node.Pegnetd.GetPegNetRateAverages$2 ratesOverPeriod[ratesOverPeriod.key][:expr]":                  "the shift runs under len(x) >= AveragePeriod >= 1",
	"node.Pegnetd.SnapshotPayouts bal.Balances[i]":                                                      "bal.Balances has PTickerMax+1 slots (allocated in SelectSnapshotBalances), i < PTickerMax",
	"node.Pegnetd.SnapshotPayouts$1 list[i]":                                                            "sort.Slice passes indices inside the slice it was given",
	"node.Pegnetd.SnapshotPayouts$1 list[j]":                                                            "sort.Slice passes indices inside the slice it was given",
	"node.Pegnetd.recordPegnetRequests fat2.TransactionBatch.Transactions[]":                            "TxIndex was recorded while enumerating the same batch's transactions",
	"node.multiFetch$1 factom.EBlock.Entries[]":                                                         "indices are produced by ranging over the same Entries slice",
	"pegnet.Pegnet.InsertFCTBurn factom.FactoidTransaction.FCTInputs[0]":                                "only called with registered burns (exactly one FCT input)",
	"pegnet.Pegnet.SetTransactionHistoryPEGConvertedRequestAmount fat2.TransactionBatch.Transactions[]": "index is the position recorded while enumerating the same batch",
}

func propC08(c *Ctx, r *Report) {
	r.Explain = "Two obligation families over block processing. Panics: the Go compiler's own prove pass (go build -d=ssa/check_bce) enumerates every bounds check it cannot eliminate; each residual index/slice expression on the consensus path is discharged by a local rule (range index over the same collection or a make() of its length; constant index under a dominating len() guard; fixed-size array) or needs an audited reason; an undischarged expression whose collection or index derives from chain content is a violation. Explicit panics, unchecked type assertions and divisions by non-constants are enumerated. Wedges (a deterministic error returned for chain-controlled content makes the block unsyncable): every plain INSERT into a uniquely keyed table on the block path needs an audited reason why its key is new; every error constructed on the block path is enumerated against an audited message table; malformed entries are skipped, not fatal (NewTransactionBatch / AddOPR / AddSPR error branches); sentinels the immediate executor can receive are tolerated by it, and every reject sentinel has a code."
	r.NotDec = "termination time of loops over chain data; behaviour inside the graders and fat103; nil-map and nil-pointer dereferences (nilaway reported only infeasible paths)"
	r.Trusted = []string{"Go compiler prove pass (bounds-check elimination)", "go/ssa", "audited tables in the checker"}
	cat := buildSQLCat(c)

	// ---- panics: bounds ----
	r.rule("C08/bounds", 15, "residual bounds checks on the consensus path are discharged or audited")
	res, nres, err := bceResidue(c)
	if err != nil {
		r.undecided("C08/bounds", "compiler BCE residue", "-", err.Error())
		return
	}
	r.Extra["compiler_bce_residue_positions"] = nres
	scope := map[*ssa.Function]bool{}
	for f := range c.RSync {
		scope[f] = true
	}
	for _, f := range c.Funcs {
		if f.Pkg != nil && (f.Pkg.Pkg.Name() == "fat2" || f.Pkg.Pkg.Name() == "conversions") {
			scope[f] = true
		}
		if f.Parent() != nil && scope[f.Parent()] {
			scope[f] = true
		}
	}
	total, byCompiler := 0, 0
	for _, f := range sortedFuncs(scope) {
		ordn := newOrdinals()
		for _, s := range indexSites(f) {
			total++
			p := c.Fset.Position(s.ins.Pos())
			file := strings.TrimPrefix(p.Filename, c.Repo+"/")
			if !s.ins.Pos().IsValid() || res[file][p.Line] == 0 {
				byCompiler++
				continue // proved by the compiler
			}
			key := fmt.Sprintf("%s %s", fname(f), s.desc)
			cons := key
			if n := ordn.next(key); n > 1 {
				cons = fmt.Sprintf("%s %s", key, ord(n))
			}
			// local discharge rules
			how := ""
			if _, isArr := derefArray(s.coll.Type()); isArr {
				okAll := true
				for _, i := range s.idx {
					if _, ok := i.(*ssa.Const); !ok {
						okAll = false
					}
				}
				if okAll {
					how = "fixed-size array, constant bounds"
				}
			}
			if how == "" && len(s.idx) == 1 {
				if rangeIndexOver(s.idx[0], s.coll) {
					how = "index is the induction variable of a loop bounded by len() of the same collection"
				} else if capturedRangeIndex(s.ins, s.idx[0], s.coll) {
					how = "index is the loop variable of a range over the same collection, kept in memory for the closures of the loop body"
				} else if k, ok := s.idx[0].(*ssa.Const); ok && k.Value != nil {
					if lb := lenLowerBound(s.ins, s.coll); lb > k.Int64() {
						how = fmt.Sprintf("constant index %d under a dominating guard len >= %d", k.Int64(), lb)
					}
				}
			}
			if how != "" {
				r.okNT("C08/bounds", cons, c.ipos(s.ins), how)
				continue
			}
			audited := false
			for _, on := range c.ownerNames(f) {
				if why, ok := auditedIndex[on+" "+s.desc]; ok && !audited {
					r.audited("C08/bounds", cons, c.ipos(s.ins), why)
					audited = true
				}
			}
			if why, ok := auditedIndex[key]; ok && !audited {
				r.audited("C08/bounds", cons, c.ipos(s.ins), why)
				audited = true
			}
			if audited {
				continue
			}
			cd, what := chainDerived(s.coll)
			if !cd {
				for _, i := range s.idx {
					if d, w := chainDerived(i); d {
						cd, what = true, w
					}
				}
			}
			if cd {
				r.viol("C08/bounds", cons, c.ipos(s.ins), "bounds check not eliminated by the compiler, not discharged by a len() guard or range rule, and the collection or index derives from chain content ("+what+"): an entry shaped to miss the bound panics the sync goroutine on every node at every retry")
			} else {
				r.add(&Obl{Rule: "C08/bounds", Construct: cons, Pos: c.ipos(s.ins), Status: INFO, Detail: "residual bounds check on data that does not derive from chain content (not an obligation of this property)"})
			}
		}
	}
	r.Extra["index_expressions_in_scope"] = total
	r.Extra["index_expressions_proved_by_compiler"] = byCompiler

	// ---- panics: explicit panic, type assertions, divisions ----
	r.rule("C08/panic-sites", 2, "explicit panics, unchecked assertions and data-dependent divisions on the block path")
	auditedPanic := map[string]string{
		"node.Pegnetd.GetPegNetRateAverages panic":             "database error while reading rates: the property assumes a healthy database (abort, I5)",
		"node.Pegnetd.ApplyTransactionBatchesInHolding assert": "GetPegNetRateAverages always returns map[fat2.PTicker]uint64",
		"node.Pegnetd.GetPegNetRateAverages div":               "guarded: entries with fewer than AverageRequired samples are skipped, so len(v) > 0",
		"node.Pegnetd.DBlockSync div":                          "iterations >= 1 after the increment above it",
		"node.Pegnetd.RateAveragesAt assert":                   "GetPegNetRateAverages always returns map[fat2.PTicker]uint64",
	}
	for _, f := range sortedFuncs(c.RSync) {
		ordn := newOrdinals()
		allInstrs(f, func(ins ssa.Instruction) {
			kind := ""
			switch x := ins.(type) {
			case *ssa.Panic:
				kind = "panic"
			case *ssa.TypeAssert:
				if !x.CommaOk {
					kind = "assert"
				}
			case *ssa.BinOp:
				if (x.Op == token.QUO || x.Op == token.REM) && isIntType(x.Type()) {
					if _, ok := x.Y.(*ssa.Const); !ok {
						kind = "div"
					}
				}
			}
			if kind == "" {
				return
			}
			key := fmt.Sprintf("%s %s", fname(f), kind)
			cons := key
			if n := ordn.next(key); n > 1 {
				cons = fmt.Sprintf("%s %s", key, ord(n))
			}
			for _, on := range c.ownerNames(f) {
				if why, ok := auditedPanic[on+" "+kind]; ok {
					r.audited("C08/panic-sites", cons, c.ipos(ins), why)
					return
				}
			}
			cd := false
			for _, op := range ins.Operands(nil) {
				if op != nil && *op != nil {
					if d, _ := chainDerived(*op); d {
						cd = true
					}
				}
			}
			if kind == "panic" || cd {
				r.viol("C08/panic-sites", cons, c.ipos(ins), "a "+kind+" on the block path without an audited reason: it aborts the sync goroutine")
			} else {
				r.add(&Obl{Rule: "C08/panic-sites", Construct: cons, Pos: c.ipos(ins), Status: INFO, Detail: kind + " on non-chain data"})
			}
		})
	}

	// ---- wedges: unique-key inserts ----
	r.rule("C08/unique-inserts", 10, "plain INSERTs into uniquely keyed tables on the block path")
	auditedInsert := map[string]string{
		"pegnet.Pegnet.InsertRates pn_rate":                                  "as for insertRate (the same statement issued by InsertRates itself)",
		"pegnet.Pegnet.insertRate pn_rate":                                   "key (height, token): one call per asset name of the winning record, names unique in the graders' asset lists; height applied once (C02-R5)",
		"pegnet.Pegnet.InsertGradeBlock pn_grade":                            "key height: a height is applied once (C02-R5)",
		"pegnet.Pegnet.InsertGradeBlock pn_winners":                          "key (height, position): positions are assigned 1..n by the grader",
		"pegnet.Pegnet.InsertBankAmount pn_bank":                             "key height: once per rated block",
		"pegnet.Pegnet.markHeightSyncedVersion pn_sync_version":              "key height: must fail when a height is applied twice (C02-R5)",
		"pegnet.Pegnet.InsertCoinbase pn_history_txbatch":                    "key (winning OPR entry hash, height): the grader keeps one record per entry hash",
		"pegnet.Pegnet.InsertCoinbase pn_history_transaction":                "key (winning OPR entry hash, 0)",
		"pegnet.Pegnet.InsertStaking100Coinbase pn_history_txbatch":          "key (winning SPR entry hash, height)",
		"pegnet.Pegnet.InsertStaking100Coinbase pn_history_transaction":      "key (winning SPR entry hash, 0)",
		"pegnet.Pegnet.InsertFCTBurn pn_history_txbatch":                     "key (factoid transaction id, height): unique per factoid block",
		"pegnet.Pegnet.InsertFCTBurn pn_history_transaction":                 "key (factoid transaction id, 0)",
		"pegnet.Pegnet.InsertStakingCoinbase pn_history_txbatch":             "mock txid = zero-padded height: one snapshot per height",
		"pegnet.Pegnet.InsertStakingCoinbase pn_history_transaction":         "key (mock txid, list index): indices distinct",
		"pegnet.Pegnet.InsertDeveloperRewardCoinbase pn_history_txbatch":     "mock txid = developer ordinal + height",
		"pegnet.Pegnet.InsertDeveloperRewardCoinbase pn_history_transaction": "key (mock txid, ordinal mod 10): one row per mock txid",
		"pegnet.Pegnet.InsertZeroingCoinbase pn_history_txbatch":             "one-time, height 260118 only: mock txids height-j; a collision with the staking txid of snapshot 260064 (j=54) is possible and its error is dropped by the caller (recorded under C10)",
		"pegnet.Pegnet.InsertZeroingCoinbase pn_history_transaction":         "see above",
	}
	ordn := newOrdinals()
	for _, st := range cat.stmtsIn(c.RBlock) {
		if st.Verb != "INSERT" || st.Conflict != "" {
			continue
		}
		t := cat.Tables[st.Table]
		if t == nil || len(t.Uniques) == 0 {
			continue
		}
		realKey := false
		for _, u := range t.Uniques {
			if !(len(u) == 1 && u[0] == t.RowID) {
				realKey = true
			}
		}
		if !realKey || st.From != "" && st.Verb == "INSERT" && strings.Contains(strings.ToUpper(st.Text), "SELECT") {
			continue
		}
		key := fmt.Sprintf("%s %s", fname(st.Fn), st.Table)
		if isNewHelper(st.Fn) {
			// a statement moved into a stage of one reference function is named after that function (the key of a
			// recorded finding must not depend on how the function is cut into stages)
			if on := c.ownerNames(st.Fn); len(on) == 1 {
				key = fmt.Sprintf("%s %s", on[0], st.Table)
			}
		}
		cons := key
		if n := ordn.next(key); n > 1 {
			cons = fmt.Sprintf("%s %s", key, ord(n))
		}
		if why, ok := auditedInsert[key]; ok {
			r.audited("C08/unique-inserts", cons, c.ipos(st.Site), why)
			continue
		}
		// the statement moved into a helper shared by audited functions: covered when every owner is
		if isNewHelper(st.Fn) {
			var whys []string
			all := true
			for _, on := range c.ownerNames(st.Fn) {
				if why, ok := auditedInsert[on+" "+st.Table]; ok {
					whys = append(whys, why)
				} else {
					all = false
				}
			}
			if all && len(whys) > 0 {
				r.audited("C08/unique-inserts", strings.Join(c.ownerNames(st.Fn), "/")+" "+st.Table, c.ipos(st.Site), strings.Join(dedupStrings(whys), "; "))
				continue
			}
		}
		r.viol("C08/unique-inserts", cons, c.ipos(st.Site), fmt.Sprintf("plain INSERT into %s (unique key %v) with a key taken from chain content and no guard that the key is new: the only duplicate guard, IsReplayTransaction, consults pn_address_transactions, which is written on execution only. An entry written twice in one block, or again while its first copy is pending or after it was rejected, makes this INSERT fail and with it the block, at every retry", st.Table, t.Uniques))
	}

	// ---- wedges: error constructors ----
	r.rule("C08/error-constructors", 15, "errors constructed on the block path are enumerated and audited")
	auditedMsg := map[string]string{
		"uncaught: %s": "KNOWN", // handled below as a finding
		"rates must exist if TransactionBatch contains conversions": "unreachable: immediate batches contain no conversion (HasConversions false => IsConversion false) and held batches run only with rates",
		"txid already exists in the this set":                       "txids are (index, entry hash) of distinct held entries / distinct list indices",
		"undefined PEG phase":                                       "phase is a constant 1..3 at every call site (C12 era table)",
		"%s has balance that is not uint64: %s":                     "sum of at most 61 int64 conversions of one address; needs > 2^64 pUSD-units of stake",
		"trying to grade a non-opr chain":                           "the eblock is looked up by config.OPRChain",
		"trying to grade a non-spr chain":                           "the eblock is looked up by config.SPRChain",
		"SPR & OPR use different assets version":                    "DROPPED: winners of one height are graded with versions of the same era; returned error is dropped by the errRate bug (C10 finding) so it cannot wedge",
		"opr is out side of tolerance band":                         "DROPPED: before 2.0.2 only; returned through errRate and dropped (C10 finding), so the block is committed without rates rather than wedged",
		"opr is out side of spr's tolerance band":                   "DROPPED: see above",
		"no winners":             "unreachable: called only when at least one winner list is non-empty",
		"bank entry not added":   "database anomaly (RowsAffected != 1), not chain content",
		"bank entry not updated": "the row of this height is inserted by SyncBank earlier in the same block",
		"invalid token type":     "ticker values come from decoded (valid) tickers or loops over 1..62; the legacy second-pass exception is recorded under C04-R5",
		"ht %d, pos %d :%s":      "wraps a database error",
		"integer overflow":       "Convert: callers drop the batch silently in the checking loop (status stays pending: C17 finding); recordBatch re-runs the same Convert so it cannot fail there",
		"invalid rate: 0":        "Convert: same as above",
		"invalid amount: must be greater than or equal to zero":          "amounts are <= MaxInt64 by TransactionBatch.Validate",
		"txid does not match txid format, format: [TxIndex]-[EntryHash]": "mock txids are generated in that format",
		"index must be a valid integer":                                  "same",
		"hash must be 32 bytes (64 hex characters)":                      "same",
		"hash must be a valid hex string":                                "mock txids are decimal digits, valid hex",
		"createTables: %v":                                               "start-up only",
		"migrations: %v":                                                 "start-up only",
	}
	seen := map[string]bool{}
	for _, f := range sortedFuncs(c.RBlock) {
		for _, ci := range callsOf(f) {
			n := calleeName(ci.Common())
			if n != "fmt.Errorf" && n != "errors.New" {
				continue
			}
			k, ok := ci.Common().Args[0].(*ssa.Const)
			if !ok || k.Value == nil || k.Value.Kind() != constant.String {
				r.viol("C08/error-constructors", fname(f)+" non-constant error message", c.ipos(ci), "")
				continue
			}
			msg := constant.StringVal(k.Value)
			cons := fmt.Sprintf("%s: %q", strings.Join(c.ownerNames(f), "/"), msg) // keyed by the reference function the code belongs to
			if seen[cons] {
				continue
			}
			seen[cons] = true
			why, ok := auditedMsg[msg]
			if f.Pkg != nil && f.Pkg.Pkg.Name() == "fat2" {
				r.audited("C08/error-constructors", cons, c.ipos(ci), "validation verdict: the entry is skipped by ApplyTransactionBlock (bad-entry rule below)")
				continue
			}
			switch {
			case ok && why == "KNOWN":
				r.viol("C08/error-constructors", cons, c.ipos(ci), "recordBatch fails the block when a debit fails after the dry run accepted the batch. The dry run credits conversion outputs immediately, but from the conversion-limit activation to 2.0 recordBatch defers PEG outputs: a legacy batch from one address [pUSD->PEG 100; transfer 30 PEG; transfer 30 PEG] with 100 pUSD and 30 PEG passes the dry run (30+yield covers 60) and then fails at the third debit, so the block is unsyncable for ever")
			case ok:
				r.audited("C08/error-constructors", cons, c.ipos(ci), why)
			default:
				r.viol("C08/error-constructors", cons, c.ipos(ci), "an error constructed on the block path that is not in the audited table: if chain content can trigger it, SyncBlock fails deterministically at every retry")
			}
		}
	}

	// ---- wedges: a conversion verdict must not become a block failure ----
	// amounts above MaxInt64 never reach a statement: database/sql refuses uint64 parameters with the high bit set,
	// which would fail the block for good (shared with C20)
	r.rule("C08/amount-range", 2, "input amounts are bounded by MaxInt64 for every kind of transaction")
	ruleInputAmountBound(c, r, "C08/amount-range")
	ruleU64Params(c, r, "C08/uint64-sql-params", c.RSync, 5)
	// a second copy of an entry inside one block is recognised before it reaches the uniquely keyed history tables
	ruleReplayGuard(c, r, "C08/replay-guard")
	ruleReplaySameTx(c, r, cat, "C08/replay-guard")
	// transfer amounts cannot wrap past the input (a wrapped sum lets an amount >= 2^63 reach a statement)
	ruleValidateBounds(c, r, "C08/transfer-sum-exact")
	{
		dropped := map[string]bool{}
		for m, why := range auditedMsg {
			if strings.HasPrefix(why, "DROPPED: ") {
				dropped[m] = true
			}
		}
		ruleRateVerdictDropped(c, r, "C08/rate-verdict-not-fatal", dropped)
	}
	ruleUnpricedNotValued(c, r, "C08/unpriced-not-valued")
	rulePnWinnersGuard(c, r, cat, "C08/winners-insert-guarded")
	ruleBankRowHeight(c, r, "C08/bank-row-height")
	r.rule("C08/replay-predicate", 1, "the replay check asks for any relation row of the entry hash")
	ruleReplayPredicate(c, r, cat, "C08/replay-predicate")
	r.rule("C08/convert-verdicts", 2, "a Convert error that is propagated was ruled out by an identical, dropped pre-check")
	convertVerdicts(c, r, "C08/convert-verdicts")

	// ---- bad entries are skipped ----
	r.rule("C08/bad-entries-skipped", 3, "a malformed entry does not fail the block")
	atbk := c.fn("node.Pegnetd.ApplyTransactionBlock")
	{
		sc := &Scenario{Calls: map[string]AVal{"NewTransactionBatch": {K: ATuple, Tup: []AVal{nilVal, fresh}}}, MaxDepth: 0, AllErrorsNil: true}
		t := newSCCP(c, sc).analyse(atbk, nil)
		r.Scen++
		le := loopOver(t.Root, "factom.EBlock.Entries", 1)
		if !le.Found {
			le = loopOver(t.Root, "eblock.Entries", 1)
		}
		r.check(le.Found && le.String() == "next", "C08/bad-entries-skipped", "ApplyTransactionBlock: entry that fails NewTransactionBatch", c.pos(atbk.Pos()), "skipped", "loop exits {"+le.String()+"}, expected the entry to be skipped")
	}
	for _, spec := range []struct{ fn, add string }{{"node.Pegnetd.Grade", "AddOPR"}, {"node.Pegnetd.GradeS", "AddSPR"}} {
		f := c.fn(spec.fn)
		sc := &Scenario{Calls: map[string]AVal{spec.add: fresh, "IsIncludedTopPEGAddress": {K: ATuple, Tup: []AVal{cBool(true), nilVal}}}, MaxDepth: 0, AllErrorsNil: true}
		t := newSCCP(c, sc).analyse(f, nil)
		r.Scen++
		errs := errorReturns(t.Root)
		bad := false
		for _, e := range errs {
			if e == "err:fresh" && t.Live(spec.add) {
				// the fresh error of NewGrader/non-chain is possible too; make sure the AddXPR error itself is not returned
				for _, ci := range findCalls(f, "github.com/pegnet/pegnet/modules/grader.BlockGrader."+spec.add) {
					_ = ci
				}
			}
		}
		// structural: the error of AddOPR/AddSPR never reaches a Return
		for _, ci := range callsOf(f) {
			if shortCallee(ci.Common()) != spec.add {
				continue
			}
			if ev, _ := errValueOf(ci); ev != nil {
				ef := &errflow{c: c}
				for v := range ef.carriers(ev) {
					if v.Referrers() == nil {
						continue
					}
					for _, rf := range *v.Referrers() {
						if _, ok := rf.(*ssa.Return); ok {
							bad = true
						}
					}
				}
				for _, t := range nilTestsOf(c, ev) {
					// the non-nil branch must stay inside the loop (no return)
					for b := range reachAvoiding(t.S, map[*ssa.BasicBlock]bool{t.If.Block(): true}) {
						_ = b
					}
				}
			}
		}
		r.check(!bad, "C08/bad-entries-skipped", fname(f)+": record rejected by "+spec.add, c.pos(f.Pos()), "ignored", "the grader's rejection of one record is returned as an error and fails the block")
	}
	// immediate executor: sentinels it can receive are tolerated
	atb := c.fn("node.Pegnetd.applyTransactionBatch")
	{
		sc := &Scenario{Params: map[string]AVal{"type:map[fat2.PTicker]uint64#0": nilVal, "type:map[fat2.PTicker]uint64#1": nilVal}, Calls: map[string]AVal{"fat2.Transaction.IsConversion": cBool(false)}, MaxDepth: 0}
		st := newSCCP(c, sc).run(atb, nil, 0)
		r.Scen++
		var sent []string
		for _, e := range errorReturns(st) {
			if strings.HasPrefix(e, "err:") && e != "err:fresh" {
				sent = append(sent, e)
			}
		}
		sort.Strings(sent)
		r.check(strings.Join(sent, ",") == "err:InsufficientBalanceErr", "C08/bad-entries-skipped", "sentinels an immediate (conversion-free) batch can be rejected with", c.pos(atb.Pos()), "InsufficientBalanceErr only, which ApplyTransactionBlock tolerates", "sentinels: "+strings.Join(sent, ",")+" - ApplyTransactionBlock tolerates InsufficientBalanceErr only; any other rejection fails the block")
	}
	rejectCodes(c, r, "C08/bad-entries-skipped")
}

func derefArray(t types.Type) (*types.Array, bool) {
	if p, ok := t.Underlying().(*types.Pointer); ok {
		t = p.Elem()
	}
	a, ok := t.Underlying().(*types.Array)
	return a, ok
}

// convertVerdicts: conversions.Convert fails for chain-controlled reasons (overflow, zero average). Every
// call site on the batch path whose error is returned to the caller (and so fails the block) must be preceded,
// in applyTransactionBatch's checking loop, by a Convert call with the same argument expressions whose error
// makes the batch be dropped instead.
func convertVerdicts(c *Ctx, r *Report, rule string) {
	atb := c.fn("node.Pegnetd.applyTransactionBatch")
	argKey := func(ci ssa.CallInstruction) string {
		var ks []string
		for _, a := range ci.Common().Args {
			ks = append(ks, stablePath(unwrapConv(a), 0)) // fields by declaring type, parameters by type and position
		}
		return strings.Join(ks, ",")
	}
	dropped := map[string]bool{}
	ef := &errflow{c: c}
	for _, ci := range c.findCallsFam(atb, "conversions.Convert") {
		ev, _ := errValueOf(ci)
		if ev == nil {
			continue
		}
		C := ef.carriers(ev)
		propagates := false
		for v := range C {
			if v.Referrers() == nil {
				continue
			}
			for _, rf := range *v.Referrers() {
				if _, ok := rf.(*ssa.Return); ok {
					propagates = true
				}
			}
		}
		if propagates {
			continue
		}
		for _, t := range nilTestsOf(c, ev) {
			// the verdict may be kept in a flag and acted on after the loop (`drop = true; break` ... `if drop { return nil }`)
			if c.dropsByFlag(t.If.Block(), t.S) {
				dropped[argKey(ci)] = true
			}
			// the error branch returns nil or a sentinel: the batch is dropped, the block goes on
			for _, ins := range t.S.Instrs {
				if ret, ok := ins.(*ssa.Return); ok {
					ei := errResultIndex(ret.Parent().Signature)
					if ei < 0 || ei >= len(ret.Results) {
						continue
					}
					op := resolveSpill(ret.Results[ei]) // the error result (a verdict helper also returns a flag)
					if _, isSent := isGlobalErrLoad(op); isNilConst(op) || isSent {
						// must precede the simulation/recording: it lies in the first loop over the transactions
						dropped[argKey(ci)] = true
					}
				}
			}
		}
	}
	n := 0
	for _, f := range sortedFuncs(c.RBlock) {
		if f != atb && !c.reach(atb)[f] {
			continue
		}
		ordn := newOrdinals()
		for _, ci := range findCalls(f, "conversions.Convert") {
			ev, _ := errValueOf(ci)
			if ev == nil {
				continue // result error deliberately unused (second pass: 'we caught the error earlier')
			}
			C := ef.carriers(ev)
			propagates := false
			for v := range C {
				if v.Referrers() == nil {
					continue
				}
				for _, rf := range *v.Referrers() {
					if _, ok := rf.(*ssa.Return); ok {
						propagates = true
					}
				}
			}
			if !propagates {
				continue
			}
			n++
			cons := fmt.Sprintf("%s -> Convert %s (error propagated)", strings.Join(c.ownerNames(f), "/"), ord(ordn.next("c")))
			if fname(f) == "conversions.Refund" {
				continue
			}
			r.check(dropped[argKey(ci)], rule, cons, c.ipos(ci), "an identical Convert call in the checking loop drops the batch when it fails", "the error of this Convert call is returned and fails the block, but no earlier Convert call with the same arguments drops the batch on failure: a held conversion that overflows int64 or (from PIP-10) involves an asset without an average makes the block unsyncable for ever")
		}
	}
	if n == 0 {
		r.ok(rule, "no propagated Convert error on the batch path", "-", "")
	}
}

// ruleU64Params enumerates every uint64-typed value bound as a SQL parameter on the block path and classifies
// where it comes from. database/sql rejects a uint64 with the high bit set, so an unbounded chain-derived value
// here is a statement that fails on every retry.
func ruleU64Params(c *Ctx, r *Report, rule string, scope map[*ssa.Function]bool, floor int) {
	r.rule(rule, floor, "uint64 SQL parameters on the block path are widened 32-bit values, validated amounts or non-negative int64 results")
	ordn := newOrdinals()
	nsites := 0
	u64c.c = c
	for _, f := range sortedFuncs(scope) {
		for _, ci := range callsOf(f) {
			cc := ci.Common()
			var mname string
			if cc.IsInvoke() {
				mname = cc.Method.Name()
			} else if sc := cc.StaticCallee(); sc != nil {
				mname = sc.Name()
			}
			switch mname {
			case "Exec", "Query", "QueryRow", "ExecContext", "QueryContext", "QueryRowContext":
			default:
				continue
			}
			if cls, _ := recvClass(cc); cls == "" {
				continue
			}
			nsites++
			vals, resolved := sqlParamValues(cc)
			if !resolved {
				r.undecided(rule, fname(f)+" parameter list", c.ipos(ci), "the variadic parameter slice is not built at the call site")
				continue
			}
			for _, a := range vals {
				b, ok := a.Type().Underlying().(*types.Basic)
				if !ok || (b.Kind() != types.Uint64 && b.Kind() != types.Uint) {
					continue
				}
				for _, lf := range u64Leaves(a) {
					key := fmt.Sprintf("%s binds %s", stmtLabel(c, ci), lf.desc)
					cons := fmt.Sprintf("%s %s", key, ord(ordn.next(key)))
					if lf.ok {
						r.ok(rule, cons, c.ipos(ci), lf.desc)
					} else if why, ok := u64Audited[lf.desc]; ok {
						r.audited(rule, cons, c.ipos(ci), why)
					} else {
						r.viol(rule, cons, c.ipos(ci), "a uint64 that can have the high bit set ("+lf.desc+") is bound as a SQL parameter: database/sql refuses such a value (\"uint64 values with high bit set are not supported\"), so the statement fails on every attempt")
					}
				}
			}
		}
	}
	r.Extra["sql_param_sites_scanned"] = nsites
}

// sqlParamValues returns the values packed into the variadic ...interface{} argument of a database/sql call.
func sqlParamValues(cc *ssa.CallCommon) ([]ssa.Value, bool) {
	if len(cc.Args) == 0 {
		return nil, true
	}
	last := cc.Args[len(cc.Args)-1]
	if _, ok := last.Type().Underlying().(*types.Slice); !ok {
		return nil, true
	}
	if k, ok := last.(*ssa.Const); ok && k.Value == nil {
		return nil, true // no parameters
	}
	sl, ok := last.(*ssa.Slice)
	if !ok {
		return nil, false
	}
	al, ok := sl.X.(*ssa.Alloc)
	if !ok || al.Referrers() == nil {
		return nil, false
	}
	var out []ssa.Value
	for _, rf := range *al.Referrers() {
		ia, ok := rf.(*ssa.IndexAddr)
		if !ok || ia.Referrers() == nil {
			continue
		}
		for _, r2 := range *ia.Referrers() {
			if st, ok := r2.(*ssa.Store); ok && st.Addr == ia {
				v := st.Val
				if mi, ok := v.(*ssa.MakeInterface); ok {
					v = mi.X
				}
				out = append(out, v)
			}
		}
	}
	return out, true
}

// u64Leaves lists where a uint64 can come from; ok means the source cannot have the high bit set. Parameters are
// followed to every static call site on the block path, phis to every edge (bounded depth).
type u64Leaf struct {
	desc string
	ok   bool
}

func u64Leaves(v ssa.Value) []u64Leaf {
	m := map[string]bool{}
	u64c.walk(v, 0, map[ssa.Value]bool{}, m)
	var keys []string
	for k := range m {
		keys = append(keys, k)
	}
	sort.Strings(keys)
	var out []u64Leaf
	allOK := true
	for _, k := range keys {
		if !m[k] {
			allOK = false
		}
	}
	if allOK {
		return []u64Leaf{{strings.Join(keys, "; "), true}}
	}
	for _, k := range keys {
		if !m[k] {
			out = append(out, u64Leaf{k, false})
		}
	}
	return out
}

type u64Classifier struct{ c *Ctx }

var u64c = &u64Classifier{}

// fields that validation bounds: the input amount (<= MaxInt64, rule C08/amount-range) and the transfer amounts
// (their exact sum equals the input, rule C03-R7).
var u64BoundedFields = map[string]string{
	"fat2.TypedAddressAmountTuple.Amount": "input amount, <= MaxInt64 by TransactionBatch.Validate (C08/amount-range)",
	"fat2.AddressAmountTuple.Amount":      "transfer amount, <= the input by Transaction.Validate (C03-R7)",
}

// values read back from an INTEGER column: SQLite integers are signed 64-bit and the columns carry CHECK(>= 0)
var u64DatabaseReads = map[string]bool{"SelectBalances": true, "SelectBalance": true, "SelectPendingBalance": true, "SelectBankEntry": true, "SelectSnapshotBalances": true}

func (u *u64Classifier) walk(v ssa.Value, depth int, seen map[ssa.Value]bool, out map[string]bool) {
	leaf := func(d string, ok bool) {
		if prev, had := out[d]; had {
			ok = ok && prev
		}
		out[d] = ok
	}
	if depth > 8 {
		leaf("expression deeper than the analysis bound", false)
		return
	}
	if seen[v] {
		return
	}
	seen[v] = true
	defer delete(seen, v)
	if why, ok := u64BoundedFields[typePath(v)]; ok {
		leaf(why, true)
		return
	}
	switch x := v.(type) {
	case *ssa.Const:
		leaf("constant", true)
		return
	case *ssa.Convert:
		if b, ok := x.X.Type().Underlying().(*types.Basic); ok {
			switch b.Kind() {
			case types.Uint32, types.Uint16, types.Uint8:
				leaf("widened "+b.Name(), true)
				return
			case types.Int, types.Int64, types.Int32:
				if nonNegInt(x.X) {
					leaf("non-negative "+b.Name()+" (index, length or counter)", true)
				} else {
					leaf("converted "+b.Name()+": "+describeVal(x.X), false)
				}
				return
			}
		}
		u.walk(x.X, depth+1, seen, out)
		return
	case *ssa.ChangeType:
		u.walk(x.X, depth+1, seen, out)
		return
	case *ssa.Phi:
		for _, e := range x.Edges {
			u.walk(e, depth+1, seen, out)
		}
		return
	case *ssa.BinOp:
		switch x.Op {
		case token.QUO, token.REM, token.SHR, token.AND:
			u.walk(x.X, depth+1, seen, out) // not larger than the dividend
			return
		}
		leaf("arithmetic: "+describeVal(x), false)
		return
	case *ssa.Call:
		if u64DatabaseReads[shortCallee(x.Common())] {
			leaf("value read from an INTEGER column (signed 64-bit, CHECK >= 0)", true)
			return
		}
		leaf("result of "+shortCallee(x.Common()), false)
		return
	case *ssa.Extract:
		if call, ok := x.Tuple.(*ssa.Call); ok {
			if u64DatabaseReads[shortCallee(call.Common())] {
				leaf("value read from an INTEGER column (signed 64-bit, CHECK >= 0)", true)
				return
			}
			leaf(fmt.Sprintf("result #%d of %s", x.Index, shortCallee(call.Common())), false)
			return
		}
		if nx, ok := x.Tuple.(*ssa.Next); ok && x.Index == 2 {
			if rg, ok := nx.Iter.(*ssa.Range); ok {
				u.element(rg.X, depth, seen, out)
				return
			}
		}
	case *ssa.Field:
		// a field of a private struct handed over by value: what the callers stored into that field
		if srcs := u.c.structFieldSources(x.X, x.Field, 0); len(srcs) > 0 {
			for _, src := range srcs {
				u.walk(src, depth+1, seen, out)
			}
			return
		}
	case *ssa.UnOp:
		if x.Op == token.MUL {
			if ia, ok := x.X.(*ssa.IndexAddr); ok {
				u.element(ia.X, depth, seen, out)
				return
			}
			if fa, ok := x.X.(*ssa.FieldAddr); ok {
				if al, ok := fa.X.(*ssa.Alloc); ok {
					if _, named := u64BoundedFields[typePath(v)]; !named {
						if srcs := u.c.structFieldSources(&ssa.UnOp{Op: token.MUL, X: al}, fa.Field, 0); len(srcs) > 0 {
							for _, src := range srcs {
								u.walk(src, depth+1, seen, out)
							}
							return
						}
					}
				}
			}
		}
		if x.Op == token.SUB {
			leaf("negated unsigned value (two's complement: >= 2^63 for every operand in [1, 2^63])", false)
			return
		}
	case *ssa.Lookup:
		u.element(x.X, depth, seen, out)
		return
	case *ssa.Index:
		u.element(x.X, depth, seen, out)
		return
	case *ssa.Parameter:
		f := x.Parent()
		idx := -1
		for i, p := range f.Params {
			if p == x {
				idx = i
			}
		}
		n := 0
		for _, e := range u.c.callSitesOf(f) {
			if !u.c.RSync[e.Caller] {
				continue // API/CLI callers are outside the block path
			}
			ci, ok := e.Site.(ssa.CallInstruction)
			if !ok || idx < 0 || idx >= len(ci.Common().Args) {
				continue
			}
			n++
			u.walk(ci.Common().Args[idx], depth+1, seen, out)
		}
		if n == 0 {
			leaf("parameter "+x.Name()+" of "+fname(f)+" (no static call site on the block path)", false)
		}
		return
	}
	if d := describeVal(v); dbReadPath.MatchString(d) {
		leaf("value read from an INTEGER column (signed 64-bit, CHECK >= 0)", true)
	} else {
		leaf(d, false)
	}
}

var dbReadPath = regexp.MustCompile(`^(SelectBalances|SelectBalance|SelectPendingBalance|SelectSnapshotBalances)\(\)`)

// element: an element of a container value; containers obtained from database reads are bounded.
func (u *u64Classifier) element(cv ssa.Value, depth int, seen map[ssa.Value]bool, out map[string]bool) {
	root := cv
	for {
		switch y := root.(type) {
		case *ssa.Lookup:
			root = y.X
			continue
		case *ssa.UnOp:
			if ia, ok := y.X.(*ssa.IndexAddr); ok && y.Op == token.MUL {
				root = ia.X
				continue
			}
		case *ssa.Slice:
			root = y.X
			continue
		}
		break
	}
	if ex, ok := root.(*ssa.Extract); ok {
		if call, ok := ex.Tuple.(*ssa.Call); ok && u64DatabaseReads[shortCallee(call.Common())] {
			out["value read from an INTEGER column (signed 64-bit, CHECK >= 0)"] = out["value read from an INTEGER column (signed 64-bit, CHECK >= 0)"] || true
			return
		}
	}
	if call, ok := root.(*ssa.Call); ok && u64DatabaseReads[shortCallee(call.Common())] {
		out["value read from an INTEGER column (signed 64-bit, CHECK >= 0)"] = true
		return
	}
	d := "element of " + describeVal(root)
	if prev, had := out[d]; !had || prev {
		out[d] = false
	}
}

// describeVal names a value stably (type path, else value path, else the defining call), never by position.
func describeVal(v ssa.Value) string {
	if p := typePath(v); p != "" {
		return p
	}
	if p := valuePath(v); p != "" {
		return p
	}
	switch x := v.(type) {
	case *ssa.BinOp:
		return describeVal(x.X) + " " + x.Op.String() + " " + describeVal(x.Y)
	case *ssa.Convert:
		return describeVal(x.X)
	case *ssa.Call:
		return shortCallee(x.Common()) + "()"
	case *ssa.Const:
		return x.String()
	case *ssa.Parameter:
		return "parameter " + x.Name() + " of " + fname(x.Parent())
	}
	if ins, ok := v.(ssa.Instruction); ok {
		return v.Type().String() + " value of " + strings.SplitN(ins.String(), "(", 2)[0]
	}
	return v.Type().String() + " value"
}

func dedupStrings(a []string) []string {
	var out []string
	for i, s := range a {
		if i == 0 || s != a[i-1] {
			out = append(out, s)
		}
	}
	return out
}

// nonNegInt: a range index, a len()/cap() result, or a counter that starts at a non-negative constant and only grows.
func nonNegInt(v ssa.Value) bool {
	switch x := v.(type) {
	case *ssa.Const:
		return x.Value != nil && x.Int64() >= 0
	case *ssa.Extract:
		if _, ok := x.Tuple.(*ssa.Next); ok && x.Index == 1 {
			return true
		}
	case *ssa.Call:
		if b, ok := x.Call.Value.(*ssa.Builtin); ok && (b.Name() == "len" || b.Name() == "cap") {
			return true
		}
	case *ssa.BinOp:
		if x.Op == token.ADD {
			// rotated range loop: i = phi(-1, i+1) + 1
			if ph, ok := x.X.(*ssa.Phi); ok {
				if k, ok := x.Y.(*ssa.Const); ok && k.Value != nil && k.Int64() == 1 {
					idiom := true
					for _, e := range ph.Edges {
						if kc, ok := e.(*ssa.Const); ok && kc.Value != nil && kc.Int64() >= -1 {
							continue
						}
						if e == ssa.Value(x) {
							continue
						}
						idiom = false
					}
					if idiom {
						return true
					}
				}
			}
		}
		if x.Op == token.ADD || x.Op == token.MUL || x.Op == token.QUO || x.Op == token.REM {
			return nonNegInt(x.X) && nonNegInt(x.Y)
		}
	case *ssa.Parameter:
		f := x.Parent()
		n := 0
		for i, p := range f.Params {
			if p != x {
				continue
			}
			for _, e := range u64c.c.callSitesOf(f) {
				ci, ok := e.Site.(ssa.CallInstruction)
				if !ok || i >= len(ci.Common().Args) {
					return false
				}
				if a := ci.Common().Args[i]; a != x && !nonNegInt(a) {
					return false
				}
				n++
			}
		}
		return n > 0
	case *ssa.Phi:
		for _, e := range x.Edges {
			if k, ok := e.(*ssa.Const); ok && k.Value != nil && k.Int64() >= 0 {
				continue
			}
			if bo, ok := e.(*ssa.BinOp); ok && bo.Op == token.ADD && bo.X == x {
				if k, ok := bo.Y.(*ssa.Const); ok && k.Value != nil && k.Int64() >= 0 {
					continue
				}
			}
			return false
		}
		return true
	}
	return false
}

func typePathOr(v ssa.Value) string {
	if p := typePath(v); p != "" {
		return p
	}
	return valuePath(v)
}

// audited sources: each is bounded by construction, not by a test the analysis can see; one reason per source.
var u64Audited = map[string]string{
	"converted int64: Convert()#0":                                          "conversions.Convert returns a non-negative int64: its inputs are a validated non-negative amount and unsigned rates, and the result passed IsInt64",
	"converted int64: Refund()":                                             "conversions.Refund = input - Convert(yield back to the input asset); the yield never exceeds the floor-converted request, so the refund is in [0, input]",
	"converted int64: Payout()":                                             "grader payout table: compile-time constants of the grading module",
	"element of Payouts()":                                                  "ConversionSupplySet.Payouts: each value is at most the request it was computed from (a converted int64)",
	"factom.FactoidTransactionIO.Amount":                                    "factoid amounts come from an fblock validated by factomd; the whole FCT supply is far below 2^63 factoshis",
	"element of payouts":                                                    "staking payouts: shares of the constant per-block staking reward",
	"arithmetic: node.MintSupply.Amount * 100000000:uint64":                 "one-time mint table: compile-time amounts times 1e8, all far below 2^63",
	"arithmetic: 2e+09:float64 * node.DevReward.DevRewardPct":               "developer reward: constant times a table percentage <= 1",
	"arithmetic: 2e+09:float64 * node.DevReward.DevRewardPct * 144:float64": "developer reward: constant times a table percentage <= 1 times the snapshot rate",
}

// stmtLabel names a statement by what it does ("INSERT pn_rate"), not by the function it sits in, so that a
// finding follows the statement when a helper is inlined or split off. Prepared statements are named through
// the Prepare call that produced the receiver.
func stmtLabel(c *Ctx, ci ssa.CallInstruction) string {
	cat := buildSQLCat(c)
	site := ci
	if cls, rv := recvClass(ci.Common()); cls == "Stmt" {
		backSlice(rv, func(v ssa.Value) bool {
			if call, ok := v.(*ssa.Call); ok {
				if n := shortCallee(call.Common()); n == "Prepare" || n == "PrepareContext" {
					site = call
					return false
				}
			}
			return true
		})
	}
	for _, st := range cat.Stmts {
		if st.Site == site {
			return st.Verb + " " + st.Table
		}
	}
	return "statement in " + fname(ci.Parent())
}

// dropsByFlag: every way on from the edge from->to - following merged variables with the values they take on this
// way, and tests on them - ends in a return of a nil or sentinel error without any statement or upstream call on the way.
func (c *Ctx) dropsByFlag(from, to *ssa.BasicBlock) bool {
	eff := computeEffectsCached(c)
	okAll, any := true, false
	var resolve func(v ssa.Value, env map[ssa.Value]ssa.Value, d int) ssa.Value
	resolve = func(v ssa.Value, env map[ssa.Value]ssa.Value, d int) ssa.Value {
		if d > 6 {
			return v
		}
		if w, ok := env[v]; ok && w != v {
			return resolve(w, env, d+1)
		}
		if ph, ok := v.(*ssa.Phi); ok {
			// a loop variable that is only ever (re)assigned one constant
			var k ssa.Value
			for _, e := range ph.Edges {
				if e == ssa.Value(ph) {
					continue
				}
				if p2, isP := e.(*ssa.Phi); isP {
					e = resolve(p2, env, d+1)
				}
				if _, isK := e.(*ssa.Const); !isK {
					return v
				}
				if k != nil && k.(*ssa.Const).Value != e.(*ssa.Const).Value {
					return v
				}
				k = e
			}
			if k != nil {
				return k
			}
		}
		return v
	}
	var walk func(prev, cur *ssa.BasicBlock, env map[ssa.Value]ssa.Value, hop int)
	walk = func(prev, cur *ssa.BasicBlock, env map[ssa.Value]ssa.Value, hop int) {
		if hop > 8 || !okAll {
			okAll = okAll && hop <= 8
			return
		}
		pi := -1
		for i, p := range cur.Preds {
			if p == prev {
				pi = i
			}
		}
		for _, ins := range cur.Instrs {
			switch x := ins.(type) {
			case *ssa.Phi:
				if pi >= 0 {
					env[x] = x.Edges[pi]
				}
			case ssa.CallInstruction:
				if primEffect(x.Common()) != "" {
					okAll = false
					return
				}
				if sc := x.Common().StaticCallee(); sc != nil && fnInModule(sc) && eff.Effectful[sc] {
					okAll = false
					return
				}
			case *ssa.If:
				cond := x.Cond
				neg := false
				if u, ok := cond.(*ssa.UnOp); ok && u.Op == token.NOT {
					cond, neg = u.X, true
				}
				known, val := false, false
				if k, ok := resolve(cond, env, 0).(*ssa.Const); ok && k.Value != nil && k.Value.Kind() == constant.Bool {
					known, val = true, constant.BoolVal(k.Value) != neg
				} else if bo, ok := cond.(*ssa.BinOp); ok && (bo.Op == token.NEQ || bo.Op == token.EQL) {
					var other ssa.Value
					if isNilConst(bo.Y) {
						other = bo.X
					} else if isNilConst(bo.X) {
						other = bo.Y
					}
					if other != nil {
						rv := resolve(other, env, 0)
						if isNilConst(rv) {
							known, val = true, (bo.Op == token.EQL) != neg
						}
					}
				}
				cp := func() map[ssa.Value]ssa.Value {
					m := map[ssa.Value]ssa.Value{}
					for k, v := range env {
						m[k] = v
					}
					return m
				}
				if known {
					if val {
						walk(cur, cur.Succs[0], cp(), hop+1)
					} else {
						walk(cur, cur.Succs[1], cp(), hop+1)
					}
				} else {
					walk(cur, cur.Succs[0], cp(), hop+1)
					walk(cur, cur.Succs[1], cp(), hop+1)
				}
				return
			case *ssa.Jump:
				walk(cur, cur.Succs[0], env, hop+1)
				return
			case *ssa.Return:
				any = true
				ei := errResultIndex(x.Parent().Signature)
				if ei < 0 || ei >= len(x.Results) {
					okAll = false
					return
				}
				op := resolve(resolveSpill(x.Results[ei]), env, 0)
				if _, isSent := isGlobalErrLoad(op); !(isNilConst(op) || isSent) {
					okAll = false
				}
				return
			}
		}
	}
	walk(from, to, map[ssa.Value]ssa.Value{}, 0)
	return okAll && any
}

var effMemo *Effects

func computeEffectsCached(c *Ctx) *Effects {
	if effMemo == nil {
		effMemo = computeEffects(c)
	}
	return effMemo
}
