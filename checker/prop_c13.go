package main

import (
	"fmt"
	"go/constant"
	"go/token"
	"go/types"
	"sort"
	"strings"
	"sync"

	"golang.org/x/tools/go/ssa"
)

func init() { props["C13"] = propC13 }

// tickers reads the PTicker enum: name -> value, and PTickerMax.
func (c *Ctx) tickers() (map[string]int64, int64) {
	out := map[string]int64{}
	var max int64
	for name, m := range c.pkg("fat2").Members {
		k, ok := m.(*ssa.NamedConst)
		if !ok || !strings.HasPrefix(name, "PTicker") {
			continue
		}
		v := k.Value.Int64()
		if name == "PTickerMax" {
			max = v
			continue
		}
		if name == "PTickerInvalid" {
			continue
		}
		out[strings.TrimPrefix(name, "PTicker")] = v
	}
	if max == 0 || len(out) < 10 {
		die(2, "unresolved anchor: fat2.PTicker enum")
	}
	return out, max
}

// the small-cap one-way destination set, from the doc comment of config.OneWaySmallAssetsConversions
// plus PEG (comment in applyTransactionBatch; conversions into PEG are invalid from 2.0 anyway).
var smallOneWay = []string{"DCR", "DGB", "DOGE", "HBAR", "ONT", "RVN", "BAT", "ALGO", "BIF", "ETB", "KES", "NGN", "RWF", "TZS", "UGX", "PEG"}

func propC13(c *Ctx, r *Report) {
	r.Explain = "Admission decision table of applyTransactionBatch's checking loop computed by specialised constant propagation over height class x destination ticker (all 62) x zero/non-zero pattern of the two rates: which exits of the loop body are executable (reject sentinel returned, silent drop, or proceed to the next transaction). Expected: ZeroRatesError iff a rate is 0; PFCTOneWayError iff height >= OneWaypFCTConversions and destination pFCT; PSMALLOneWayError iff height >= OneWaySmallAssetsConversions and destination in the 15 small-cap assets or PEG; otherwise proceed. Holding path: ValidatePegTx consulted iff height >= V20HeightActivation, rejects any batch with a conversion into PEG, rejection recorded as -2 and the batch skipped. Convert table: a zero average rejects from PIP-10 on. Sentinel/code table of IsRejectedTx: every sentinel maps to a distinct negative code."
	r.NotDec = "that every other well-formed conversion is executed, beyond the fall-through reaching recordBatch in the table; 'leaves balances untouched' is the write-before-reject rule of C03"
	r.Trusted = []string{"mainnet activation constants", "go/ssa", "expected one-way set transcribed from the doc comment of config.OneWaySmallAssetsConversions (the comment is not parsed at check time)"}
	e := newEraCtx(c, r)
	// "average unavailable" is decided on the window: after skipped heights the incremental path must hold what a
	// reload would (shared with C07-R3/C09)
	r.rule("C13/average-window", 1, "the incrementally maintained averaging window equals a reloaded one in size and membership")
	windowSize(c, r, "C13/average-window")
	// no rates, no execution: held conversions run only in a block with winners (shared with C12/C06)
	winnerTable(c, r, e, "C13/winners-gate-execution")
	// the averages that decide "unavailable" are those of the last rated height (shared with C07-R3/C09)
	ruleHoldingWindow(c, r, "C13/averages-height")
	ruleAverageAvailability(c, r, "C13/average-availability")
	// a forbidden batch has no effect: it is not handed to the PEG settlement either (shared with C03/C16)
	ruleRejectedNotCollected(c, r, e, "C13/rejected-not-collected")
	tick, _ := c.tickers()
	names := map[int64]string{}
	for n, v := range tick {
		names[v] = n
	}
	ruleAdmissionTable(c, r, e, "C13/admission-table")
	// height plumbing: the height checked is the executing block's height (both executors)
	ruleHeightPlumbing(c, r, "C13/height-plumbing")
	hold := c.fn("node.Pegnetd.ApplyTransactionBatchesInHolding")

	// PEG destination invalid from 2.0 (holding path)
	ruleRatesReadOnly(c, r, "C13/rates-read-only")
	ruleRatesReadComplete(c, r, "C13/rates-read-complete")
	// averages handed to Convert are not themselves gated by an era (shared with C07)
	ruleAveragesEraFree(c, r, "C13/averages-era-free")
	r.rule("C13/peg-disabled", 3, "conversions into PEG are rejected from PegNet 2.0 on")
	var bad []string
	for _, h := range e.reps {
		for _, pegErr := range []bool{false, true} {
			calls := map[string]AVal{"isDone": cBool(false)}
			if pegErr {
				calls["ValidatePegTx"] = fresh
			} else {
				calls["ValidatePegTx"] = nilVal
			}
			sc := &Scenario{Params: map[string]AVal{"type:uint32": hconst(h)}, Calls: calls, MaxDepth: 0}
			t := newSCCP(c, sc).analyse(hold, nil)
			r.Scen++
			live := t.Live("ValidatePegTx")
			if live != e.a.isV20(h) {
				bad = append(bad, fmt.Sprintf("h=%d: ValidatePegTx consulted=%v, expected %v", h, live, e.a.isV20(h)))
			}
			if live {
				for _, lc := range t.CallsTo("ValidatePegTx") {
					if hv, ok := lc.Args[1].intVal(); !ok || uint32(hv) != h {
						bad = append(bad, fmt.Sprintf("h=%d: ValidatePegTx given height %s", h, lc.Args[1]))
					}
				}
			}
			if e.a.isV20(h) && pegErr {
				// the rejection must be recorded as -2 and the batch skipped: with the error forced, applyTransactionBatch must be dead
				if t.Live("applyTransactionBatch") {
					bad = append(bad, fmt.Sprintf("h=%d: batch rejected by ValidatePegTx still reaches applyTransactionBatch", h))
				}
				okCode := false
				for _, lc := range t.CallsTo("SetTransactionHistoryExecuted") {
					if v, ok := lc.Args[3].intVal(); ok && v == -2 {
						okCode = true
					}
				}
				if !okCode {
					bad = append(bad, fmt.Sprintf("h=%d: rejection by ValidatePegTx is not recorded with status -2", h))
				}
			}
		}
	}
	if len(bad) > 4 {
		bad = bad[:4]
	}
	r.check(len(bad) == 0, "C13/peg-disabled", "ValidatePegTx gating in the holding executor", c.pos(hold.Pos()), "consulted iff height >= V20HeightActivation, with the executing height; rejection recorded as -2 and the batch skipped", strings.Join(bad, "; "))
	// ValidatePegTx itself: a PEG destination yields an error
	vp := c.fn("fat2.TransactionBatch.ValidatePegTx")
	for _, dest := range []int64{tick["PEG"], tick["USD"]} {
		sc := &Scenario{Paths: map[string]AVal{"fat2.Transaction.Conversion": cInt(dest)}, Calls: map[string]AVal{"ValidData": nilVal}, MaxDepth: 0}
		st := newSCCP(c, sc).run(vp, nil, 0)
		r.Scen++
		le := loopOverFam(c, sc, vp, st, "fat2.TransactionBatch.Transactions", 1)
		want := "next"
		if dest == tick["PEG"] {
			want = "err:fresh"
		}
		r.check(le.Found && le.String() == want, "C13/peg-disabled", fmt.Sprintf("ValidatePegTx with conversion destination %s", names[dest]), c.pos(vp.Pos()), "loop exits: "+want, "loop exits: "+le.String()+" (expected "+want+")")
	}

	// Convert: zero average rejects from PIP-10
	r.rule("C13/convert-zero", 4, "Convert rejects zero rates always and zero averages from PIP-10")
	cv := c.fn("conversions.Convert")
	pip := e.a.get("PIP10AverageActivation")
	for _, h := range []uint32{pip - 1, pip, pip + 1} {
		for _, z := range []string{"none", "fromRate", "toRate", "fromAvg", "toAvg"} {
			v := func(n string) AVal {
				if n == z {
					return cUint(0)
				}
				return cUint(1000)
			}
			sc := &Scenario{Params: map[string]AVal{"type:uint32": hconst(h), "type:int64": cInt(5), "type:uint64#0": v("fromRate"), "type:uint64#1": v("fromAvg"), "type:uint64#2": v("toRate"), "type:uint64#3": v("toAvg")}, MaxDepth: 0}
			st := newSCCP(c, sc).run(cv, nil, 0)
			r.Scen++
			got := strings.Join(errorReturns(st), "|")
			want := "nil"
			if z == "fromRate" || z == "toRate" || (h >= pip && (z == "fromAvg" || z == "toAvg")) {
				want = "err:fresh"
			}
			// the overflow return is also live when the quotient is unknown; amounts are constants here so it folds
			if got != want && !(want == "nil" && got == "err:fresh|nil") {
				r.viol("C13/convert-zero", fmt.Sprintf("Convert height=%d zero=%s", h, z), c.pos(cv.Pos()), fmt.Sprintf("expected error result %s, code gives %s", want, got))
			} else {
				r.okNT("C13/convert-zero", fmt.Sprintf("Convert height=%d zero=%s", h, z), c.pos(cv.Pos()), "error result "+got)
			}
		}
	}

	// sentinels and codes
	r.rule("C13/reject-codes", 4, "every reject sentinel maps to a distinct negative code")
	rejectCodes(c, r, "C13/reject-codes")
}

// rejectCodes evaluates IsRejectedTx on every error sentinel of package pegnet.
func rejectCodes(c *Ctx, r *Report, rule string) map[string]int64 {
	irt := c.fn("pegnet.IsRejectedTx")
	codes := map[string]int64{}
	used := map[int64]string{-2: "invalid tx (literal -2)"}
	var names []string
	for n, m := range c.pkg("pegnet").Members {
		g, ok := m.(*ssa.Global)
		if !ok {
			continue
		}
		if g.Type().String() != "*error" {
			continue
		}
		names = append(names, n)
	}
	sort.Strings(names)
	// the classification written as a scan over a local table of (sentinel, code) pairs: read off the table
	if tbl, ok := tableScanCodes(c, irt); ok {
		for _, n := range names {
			g := c.global("pegnet", n)
			code, has := tbl[g]
			switch {
			case !has:
				r.viol(rule, "IsRejectedTx("+n+")", c.pos(irt.Pos()), "sentinel is not in the table IsRejectedTx scans: a batch rejected with it fails the block")
			case code >= 0:
				r.viol(rule, "IsRejectedTx("+n+")", c.pos(irt.Pos()), fmt.Sprintf("code %d is not negative", code))
			case used[code] != "":
				r.viol(rule, "IsRejectedTx("+n+")", c.pos(irt.Pos()), fmt.Sprintf("code %d already used by %s", code, used[code]))
			default:
				used[code] = n
				codes[n] = code
				r.okNT(rule, "IsRejectedTx("+n+")", c.pos(irt.Pos()), fmt.Sprintf("code %d (row of the scanned table)", code))
			}
		}
		r.okNT(rule, "IsRejectedTx(nil)", c.pos(irt.Pos()), "returns (1, nil) before the scan")
		r.okNT(rule, "IsRejectedTx(other error)", c.pos(irt.Pos()), "returns (0, err) after the scan")
		return codes
	}
	for _, n := range names {
		g := c.global("pegnet", n)
		sc := &Scenario{Params: map[string]AVal{"type:error": {K: ASentinel, G: g}}, MaxDepth: 0}
		t := newSCCP(c, sc).analyse(irt, nil)
		r.Scen++
		rets := t.Returns()
		if len(rets) != 1 {
			r.viol(rule, "IsRejectedTx("+n+")", c.pos(irt.Pos()), fmt.Sprintf("%d executable returns", len(rets)))
			continue
		}
		code, ok := rets[0][0].intVal()
		switch {
		case !ok || !rets[0][1].isNil():
			r.viol(rule, "IsRejectedTx("+n+")", c.pos(irt.Pos()), fmt.Sprintf("sentinel is not classified as a rejection: returns (%s, %s); a batch rejected with it fails the block", rets[0][0], rets[0][1]))
		case code >= 0:
			r.viol(rule, "IsRejectedTx("+n+")", c.pos(irt.Pos()), fmt.Sprintf("code %d is not negative", code))
		case used[code] != "":
			r.viol(rule, "IsRejectedTx("+n+")", c.pos(irt.Pos()), fmt.Sprintf("code %d already used by %s", code, used[code]))
		default:
			used[code] = n
			codes[n] = code
			r.okNT(rule, "IsRejectedTx("+n+")", c.pos(irt.Pos()), fmt.Sprintf("code %d", code))
		}
	}
	for _, v := range []struct {
		name string
		in   AVal
		c0   string
		e    string
	}{{"nil", nilVal, "1", "nil"}, {"other error", fresh, "0", "err:fresh"}} {
		sc := &Scenario{Params: map[string]AVal{"type:error": v.in}, MaxDepth: 0}
		t := newSCCP(c, sc).analyse(irt, nil)
		r.Scen++
		rets := t.Returns()
		okk := len(rets) == 1 && rets[0][0].String() == v.c0 && rets[0][1].String() == v.e
		got := ""
		if len(rets) > 0 {
			got = fmtArgs(rets[0])
		}
		r.check(okk, rule, "IsRejectedTx("+v.name+")", c.pos(irt.Pos()), "returns ("+v.c0+", "+v.e+")", "returns "+got)
	}
	return codes
}

// ruleHeightPlumbing: the executors are given the executing block's height (shared with C06: the deferral of a PEG
// output and its settlement are decided from the same height).
func ruleHeightPlumbing(c *Ctx, r *Report, rule string) {
	r.rule(rule, 2, "admission is decided with the executing block's height")
	hold := c.fn("node.Pegnetd.ApplyTransactionBatchesInHolding")
	for _, ci := range c.findCallsFam(hold, "node.Pegnetd.applyTransactionBatch") {
		a := ci.Common().Args
		r.check(c.isExecHeight(a[5]), rule, "holding executor passes the executing height", c.ipos(ci), "", "applyTransactionBatch is given "+c.describeOrigin(a[5])+" instead of the executing height")
	}
	for _, ci := range c.findCallsFam(c.fn("node.Pegnetd.SyncBlock"), "node.Pegnetd.ApplyTransactionBatchesInHolding") {
		a := ci.Common().Args
		r.check(c.isExecHeight(a[3]), rule, "SyncBlock passes its height to the holding executor", c.ipos(ci), "", "holding executor is given "+c.describeOrigin(a[3]))
	}
}

// ruleAdmissionTable: exits of the admission loop of applyTransactionBatch per (height class, destination, rate
// pattern) against the oracle (shared by C13 and C07: every other well-formed conversion is executed).
func ruleAdmissionTable(c *Ctx, r *Report, e *eraCtx, rule string) {
	tick, max := c.tickers()
	small := map[int64]bool{}
	for _, n := range smallOneWay {
		v, ok := tick[n]
		if !ok {
			die(2, "unresolved anchor: ticker %s", n)
		}
		small[v] = true
	}
	fct := tick["FCT"]
	atb := c.fn("node.Pegnetd.applyTransactionBatch")
	r.rule(rule, 50, "exits of the admission loop per (height class, destination, rate pattern)")
	names := map[int64]string{}
	for n, v := range tick {
		names[v] = n
	}
	type cell struct{ zin, zout bool }
	patterns := []cell{{false, false}, {true, false}, {false, true}, {true, true}}
	nsc := 0
	type tres struct {
		bad   []string
		n     int
		found bool
	}
	results := make([]tres, max)
	var wg sync.WaitGroup
	sem := make(chan struct{}, 16)
	for t := int64(1); t < max; t++ {
		wg.Add(1)
		sem <- struct{}{}
		go func(t int64) {
			defer wg.Done()
			defer func() { <-sem }()
			res := tres{found: true}
			for _, h := range e.reps {
				for pi, p := range patterns {
					if pi > 0 && c.Tier != "thorough" && !(t == fct || t == tick["PEG"] || t == tick["USD"] || t == tick["RVN"]) {
						continue
					}
					if pi > 0 && !e.repsQ[h] {
						continue // zero-rate patterns on the class representatives; the +-150 windows re-check the non-zero pattern
					}
					in := int64(2) // pUSD
					if t == 2 {
						in = 3
					}
					rate := func(z bool) AVal {
						if z {
							return cUint(0)
						}
						return cUint(123456)
					}
					sc := &Scenario{
						Params:   map[string]AVal{"type:uint32": hconst(h), "type:map[fat2.PTicker]uint64#0": nonNil},
						Calls:    map[string]AVal{"fat2.Transaction.IsConversion": cBool(true)},
						Paths:    map[string]AVal{"fat2.Transaction.Conversion": cInt(t), "fat2.TypedAddressAmountTuple.Type": cInt(in)},
						Lookups:  map[string]AVal{"rates[fat2.TypedAddressAmountTuple.Type]": rate(p.zin), "rates[fat2.Transaction.Conversion]": rate(p.zout)},
						Lens:     map[string]AVal{"rates": cInt(62)},
						MaxDepth: 1,
					}
					st := newSCCP(c, sc).run(atb, nil, 0)
					res.n++
					le := loopOver(st, "fat2.TransactionBatch.Transactions", 1)
					if !le.Found {
						res.found = false
						results[t] = res
						return
					}
					// always possible: insufficient balance, and a database error reading the balance (unknown error)
					want := []string{"err:InsufficientBalanceErr", "⊤"}
					switch {
					case p.zin || p.zout:
						want = append(want, "err:ZeroRatesError")
					case h >= e.a.get("OneWaypFCTConversions") && t == fct:
						want = append(want, "err:PFCTOneWayError")
					case h >= e.a.get("OneWaySmallAssetsConversions") && small[t]:
						want = append(want, "err:PSMALLOneWayError")
					default:
						want = append(want, "nil", "next")
					}
					sort.Strings(want)
					got := append([]string{}, le.Returns...)
					if le.Latch {
						got = append(got, "next")
					}
					sort.Strings(got)
					if strings.Join(want, "|") != strings.Join(got, "|") && len(res.bad) < 4 {
						res.bad = append(res.bad, fmt.Sprintf("h=%d in-rate-zero=%v out-rate-zero=%v: expected exits {%s}, code gives {%s}", h, p.zin, p.zout, strings.Join(want, ","), strings.Join(got, ",")))
					}
				}
			}
			results[t] = res
		}(t)
	}
	wg.Wait()
	for t := int64(1); t < max; t++ {
		res := results[t]
		nsc += res.n
		if !res.found {
			r.undecided(rule, "admission loop", c.pos(atb.Pos()), "loop over txBatch.Transactions not found")
			return
		}
		cons := fmt.Sprintf("destination p%s (%d)", names[t], t)
		if t == 1 {
			cons = "destination PEG (1)"
		}
		if len(res.bad) == 0 {
			r.okNT(rule, cons, c.pos(atb.Pos()), "all height classes and rate patterns agree with the oracle")
		} else {
			r.viol(rule, cons, c.pos(atb.Pos()), strings.Join(res.bad, "; "))
		}
	}
	r.Scen += nsc

}

// tableScanCodes recognises `for _, row := range [...]{ {SentinelA, codeA}, ... } { if err == row.sentinel { return
// row.code, nil } }; return 0, err` (with `err == nil -> 1, nil` in front) and returns the table. ok is false unless
// every part of that shape is found.
func tableScanCodes(c *Ctx, irt *ssa.Function) (map[*ssa.Global]int64, bool) {
	if len(irt.Params) != 1 {
		return nil, false
	}
	param := irt.Params[0]
	isParam := func(v ssa.Value) bool { return v == ssa.Value(param) || spilledParam(v) == param }
	type row struct {
		sent *ssa.Global
		code *int64
	}
	rows := map[string]*row{}
	fSent, fCode := -1, -1
	var elemT types.Type
	gi := c.globalInits()
	var famInstrs []ssa.Instruction
	for _, g := range c.family(irt) { // the table may be built by a helper split off from IsRejectedTx
		allInstrs(g, func(ins ssa.Instruction) { famInstrs = append(famInstrs, ins) })
	}
	each := func(fn func(ssa.Instruction)) {
		for _, ins := range famInstrs {
			fn(ins)
		}
	}
	each(func(ins ssa.Instruction) {
		st, ok := ins.(*ssa.Store)
		if !ok {
			return
		}
		fa, ok := st.Addr.(*ssa.FieldAddr)
		if !ok {
			return
		}
		ia, ok := fa.X.(*ssa.IndexAddr)
		if !ok {
			return
		}
		k, ok := ia.Index.(*ssa.Const)
		if !ok {
			return
		}
		key := fmt.Sprintf("%p/%d", ia.X, k.Int64())
		rw := rows[key]
		if rw == nil {
			rw = &row{}
			rows[key] = rw
		}
		elemT = deref(fa.X.Type())
		switch v := st.Val.(type) {
		case *ssa.UnOp:
			g, isG := v.X.(*ssa.Global)
			if !isG || v.Op != token.MUL {
				return
			}
			if isErrorType(v.Type()) {
				rw.sent, fSent = g, fa.Field
			} else if a, has := gi[g]; has {
				if n, isInt := a.intVal(); isInt {
					rw.code, fCode = &n, fa.Field
				}
			}
		case *ssa.Const:
			if v.Value != nil && v.Value.Kind() == constant.Int {
				n := v.Int64()
				rw.code, fCode = &n, fa.Field
			}
		}
	})
	if len(rows) == 0 || fSent < 0 || fCode < 0 || elemT == nil {
		return nil, false
	}
	tbl := map[*ssa.Global]int64{}
	for _, rw := range rows {
		if rw.sent == nil || rw.code == nil {
			return nil, false
		}
		tbl[rw.sent] = *rw.code
	}
	// a field of an element of that struct type
	fieldOf := func(v ssa.Value, f int) bool {
		switch x := v.(type) {
		case *ssa.Field:
			return x.Field == f && types.Identical(x.X.Type(), elemT)
		case *ssa.UnOp:
			if fa, ok := x.X.(*ssa.FieldAddr); ok && x.Op == token.MUL {
				return fa.Field == f && types.Identical(deref(fa.X.Type()), elemT)
			}
		}
		return false
	}
	// the comparison and the return behind its equal edge
	scanOK, restOK, nilOK := false, false, false
	for _, b := range irt.Blocks {
		bo, _, eq := eqEdges(b)
		if bo == nil {
			continue
		}
		if (isParam(bo.X) && fieldOf(bo.Y, fSent)) || (isParam(bo.Y) && fieldOf(bo.X, fSent)) {
			for _, rt := range returnsIn(blockSet(irt)) {
				if len(rt.Results) == 2 && fieldOf(resolveSpill(rt.Results[0]), fCode) && isNilConst(rt.Results[1]) && edgeTargetDom(eq, rt.Block()) {
					scanOK = true
				}
			}
		}
		if (isParam(bo.X) && isNilConst(bo.Y)) || (isParam(bo.Y) && isNilConst(bo.X)) {
			for _, rt := range returnsIn(blockSet(irt)) {
				if k, ok := rt.Results[0].(*ssa.Const); ok && len(rt.Results) == 2 && k.Value != nil && k.Int64() == 1 && isNilConst(rt.Results[1]) && edgeTargetDom(eq, rt.Block()) {
					nilOK = true
				}
			}
		}
	}
	for _, rt := range returnsIn(blockSet(irt)) {
		if k, ok := rt.Results[0].(*ssa.Const); ok && len(rt.Results) == 2 && k.Value != nil && k.Int64() == 0 && isParam(rt.Results[1]) {
			restOK = true
		}
	}
	// nothing else returns
	if n := len(returnsIn(blockSet(irt))); n != 3 {
		return nil, false
	}
	return tbl, scanOK && restOK && nilOK
}

func deref(t types.Type) types.Type {
	if p, ok := t.Underlying().(*types.Pointer); ok {
		return p.Elem()
	}
	return t
}

var tableScanMemo sync.Map

// tableScanCodesMemo caches tableScanCodes per function.
func tableScanCodesMemo(c *Ctx, irt *ssa.Function) (map[*ssa.Global]int64, bool) {
	type res struct {
		tbl map[*ssa.Global]int64
		ok  bool
	}
	if v, ok := tableScanMemo.Load(irt); ok {
		r := v.(res)
		return r.tbl, r.ok
	}
	tbl, ok := tableScanCodes(c, irt)
	tableScanMemo.Store(irt, res{tbl, ok})
	return tbl, ok
}
