package main

import (
	"fmt"
	"go/types"
	"sort"
	"strings"

	"golang.org/x/tools/go/ssa"
)

func init() { props["C18"] = propC18; props["C09"] = propC09 }

func propC18(c *Ctx, r *Report) {
	r.Explain = "Decides two footprints: (R1) no JSON-RPC handler (roots = the function values in the jrpc.MethodMap literal) can reach an INSERT/UPDATE/DELETE/REPLACE/DDL statement, BeginTx, or any *sql.Tx method, and the block transaction never escapes (so handlers see committed state only); (R2) no memory location reachable through the shared singletons (*node.Pegnetd, *pegnet.Pegnet, *srv.APIServer) or a package variable is written by one of the two concurrently running roots (sync goroutine, API handler goroutines) and accessed by the other without a common mutex; (R3) the in-memory sync height that handlers read is published only after the block's Commit succeeded."
	r.NotDec = "linearisability of multi-statement read handlers against commits; SQLite locking behaviour (SQLITE_BUSY)"
	r.Trusted = []string{"database/sql: reads through the pool never see another connection's uncommitted transaction", "x/tools go/ssa", "module call graph (static + module-interface CHA + closures + json callbacks)"}
	cat := buildSQLCat(c)
	r.rule("C18-R1/api-read-only", 7, "API roots reach no SQL write, BeginTx or *sql.Tx method")
	ruleNoWritesFrom(c, cat, r, "C18-R1/api-read-only", c.API, "API root")
	r.rule("C18-R1/tx-confinement", 3, "the block transaction is confined to the sync goroutine")
	ruleTxConfinement(c, r, "C18-R1/tx-confinement")
	sa := newSharedAnalysis(c)
	r.rule("C18-R2/shared-state", 2, "no unsynchronised location shared between the sync goroutine and API handlers")
	ruleSharedConflicts(c, sa, r, "C18-R2/shared-state")
	// R3 publish-after-commit
	r.rule("C18-R3/publish-after-commit", 1, "the sync height read by API handlers is advanced only after Commit succeeded")
	rulePublishAfterCommit(c, sa, r, "C18-R3/publish-after-commit")
	ruleAPIWritesNothingSyncReads(c, newSharedAnalysis(c), r, "C18-R5/api-leaves-no-state")
	ruleOneSnapshotPerResponse(c, r, cat, "C18-R7/one-snapshot-per-listing")
	ruleDSNLocking(c, r, "C18-R8/handles-lock")
	ruleGlobalAddressEscapes(c, r, "C18-R9/globals-not-exposed")
	ruleMarshalNoRecursion(c, r, "C18-R10/marshal-no-recursion")
	{
		scope := map[*ssa.Function]bool{}
		for f := range c.RSync {
			scope[f] = true
		}
		for f := range c.RAPI {
			scope[f] = true
		}
		ruleNoRecursiveLock(c, r, "C18-R6/no-recursive-lock", scope)
	}
	r.rule("C18-R4/handler-goroutines", 1, "a goroutine started while serving a request cannot panic unrecovered")
	{
		panics := map[*ssa.Function]bool{}
		for _, f := range c.Funcs {
			allInstrs(f, func(ins ssa.Instruction) {
				if _, ok := ins.(*ssa.Panic); ok {
					panics[f] = true
				}
			})
		}
		n := 0
		for _, f := range sortedFuncs(c.RAPI) {
			allInstrs(f, func(ins ssa.Instruction) {
				g, ok := ins.(*ssa.Go)
				if !ok {
					return
				}
				n++
				var tgt *ssa.Function
				if mc, ok := g.Call.Value.(*ssa.MakeClosure); ok {
					tgt, _ = mc.Fn.(*ssa.Function)
				} else {
					tgt = g.Call.StaticCallee()
				}
				if tgt == nil {
					r.undecided("C18-R4/handler-goroutines", fname(f)+" go statement", c.ipos(ins), "target not resolved")
					return
				}
				recovers := false
				for _, ci := range callsOf(tgt) {
					if _, isDefer := ci.(*ssa.Defer); isDefer {
						if sc := ci.Common().StaticCallee(); sc != nil {
							for _, cj := range callsOf(sc) {
								if calleeName(cj.Common()) == "builtin.recover" {
									recovers = true
								}
							}
						}
					}
				}
				var p []string
				for x := range c.reach(tgt) {
					if panics[x] {
						p = append(p, fname(x))
					}
				}
				sort.Strings(p)
				r.check(len(p) == 0 || recovers, "C18-R4/handler-goroutines", fname(f)+" go "+fname(tgt), c.ipos(ins), "", "a goroutine started while serving an API request can reach an explicit panic ("+strings.Join(p, ", ")+") without a recover of its own: unlike a panic on the handler goroutine (recovered by the json-rpc layer) it ends the whole process")
			})
		}
		if n == 0 {
			r.okNT("C18-R4/handler-goroutines", "no go statement reachable from an API handler", "-", fmt.Sprintf("%d functions scanned", len(c.RAPI)))
		}
	}
	// thorough: cross-check the reachable sets against x/tools VTA; a function only VTA reaches (through
	// library callbacks) must not be able to write the database
	if c.Tier == "thorough" {
		r.rule("C18-R1/callgraph-crosscheck", 1, "functions reached only in the VTA call graph cannot write")
		writers := map[*ssa.Function]bool{}
		for t := range cat.Tables {
			for f := range tableWriters(c, cat, t) {
				writers[f] = true
			}
		}
		missing, extra := crossCheckReach(c, c.API, c.RAPI)
		var bad []string
		for _, n := range missing {
			for f := range writers {
				if fname(f) == n {
					bad = append(bad, n)
				}
			}
		}
		r.Extra["vta_only_reachable_from_api"] = missing
		r.Extra["module_graph_only_reachable_from_api"] = extra
		r.check(len(bad) == 0, "C18-R1/callgraph-crosscheck", "API roots: VTA-only reachable functions", "-", fmt.Sprintf("%d functions reached only by VTA (library callbacks: sort comparators, String/MarshalJSON, cobra), none writes the database; %d reached only by the module graph", len(missing), len(extra)), "VTA reaches database-writing functions the module graph does not: "+strings.Join(bad, ", "))
	}
	// the API goroutine really is separate from the sync goroutine
	r.Extra["api_roots"] = func() []string {
		var s []string
		for _, f := range c.API {
			s = append(s, fname(f))
		}
		return s
	}()
}

// rulePublishAfterCommit: every store in the sync root to a location that API
// handlers read must be dominated by the nil-error edge of Commit.
func rulePublishAfterCommit(c *Ctx, sa *sharedAnalysis, r *Report, rule string) {
	sum := sa.summarize()
	f := c.Sync
	commits := findCalls(f, "database/sql.Tx.Commit")
	n := 0
	for _, s := range sum {
		if len(s.APIR) == 0 {
			continue
		}
		for _, w := range s.SyncW {
			if w.Fn != f {
				continue
			}
			st, ok := w.Ins.(*ssa.Store)
			if !ok {
				continue
			}
			n++
			okk := false
			for _, cm := range commits {
				ev, _ := errValueOf(cm)
				if ev == nil {
					continue
				}
				for _, t := range nilTestsOf(c, ev) {
					if nilEdgeDom(t, st.Block()) && t.N != t.S {
						okk = true
					}
				}
			}
			// a compensating decrement inside an error branch is not a publication
			if isDecrement(st) {
				r.ok(rule, "store to "+s.Loc+" (compensation)", c.ipos(st), "decrement on an error path")
				continue
			}
			r.check(okk, rule, "store to "+s.Loc+" in the sync root", c.ipos(st), "dominated by the nil-error edge of Commit", s.Loc+" is advanced before the block's transaction is committed while API handlers ("+accDesc(c, s.APIR, 3)+") read it: a response can report a height whose block is not committed (or is later rolled back)")
		}
	}
	if n == 0 {
		r.ok(rule, "no store in the sync root to an API-read location", "-", "")
	}
	heightWriters(c, sa, r, rule)
}

// heightWriters: the in-memory sync height is written by the sync root only (a helper that bumps it is a
// publication the typestate rule cannot see).
func heightWriters(c *Ctx, sa *sharedAnalysis, r *Report, rule string) {
	bad := ""
	for _, a := range sa.Acc {
		if a.Write && a.Loc == "pegnet.BlockSync.Synced" && a.Root == "sync" && a.Fn != c.Sync {
			bad += fmt.Sprintf("%s writes the shared sync height at %s; ", fname(a.Fn), c.ipos(a.Ins))
		}
	}
	r.check(bad == "", rule, "only the sync root writes the in-memory sync height", c.pos(c.Sync.Pos()), "", bad+"the height can move before the block is committed (and is not restored when it fails)")
}

func isDecrement(st *ssa.Store) bool {
	bo, ok := st.Val.(*ssa.BinOp)
	return ok && bo.Op.String() == "-" && valuePath(bo.X) == valuePath(st.Addr)
}

func propC09(c *Ctx, r *Report) {
	r.Explain = "Decides a sufficient structural condition with hand triage of its exceptions: the set of in-memory locations (fields of the shared singletons, package variables, and containers reachable from them) that are written by functions reachable from the sync root and read by them — i.e. state carried from one block to the next inside the process — must be exactly the persisted sync height. Plus the necessary conditions: start-up resumes from the persisted height and runs the hard-fork check (shared with C02-R6/C19)."
	r.NotDec = "equality of ledgers across restart placements (runtime); a semantically transparent cache would be reported and would need an audit entry"
	r.Trusted = []string{"x/tools go/ssa", "module call graph", "field-based location abstraction (all objects of one struct type share a location per field)"}
	sa := newSharedAnalysis(c)
	r.rule("C09/carried-state", 2, "in-memory state written and read across blocks by the sync path")
	ruleCarriedState(c, sa, r, "C09/carried-state", map[string]string{
		"pegnet.BlockSync.Synced": "the sync height: persisted in pn_metadata inside every block transaction and restored at start-up (C02-R4, C02-R6)",
	})
	// package-level variables written in R(SYNC): activation globals must be stable
	// window size: the incremental path must leave the same number of entries as a reload
	r.rule("C09/window-size", 1, "the incrementally maintained averaging window has the size of a reloaded one")
	windowSize(c, r, "C09/window-size")
	r.rule("C09/cache-fill-errors", 1, "a failed rate read while filling the averaging window is not skipped")
	{
		g := c.fn("node.Pegnetd.GetPegNetRateAverages")
		scope := map[*ssa.Function]bool{}
		for _, f := range c.family(g) {
			scope[f] = true
		}
		runErrflow(c, computeEffects(c), r, scope, "C09/cache-fill-errors", false)
	}
	// a restart by itself changes nothing in the ledger: the statements reachable from NewPegnetd that write are the
	// schema set-up and the legacy fork markers, nothing else
	ruleStartupWrites(c, r, "C09/startup-writes")
	// the averages do not depend on an era test or on the wrong height (shared with C07): both make the cache state,
	// and with it the pricing, depend on where the process was started
	ruleAveragesEraFree(c, r, "C09/averages-era-free")
	ruleHoldingWindow(c, r, "C09/averages-height")
	ruleLoopCarriedDecisions(c, r, computeEffects(c), "C09/loop-carried-decisions")
	ruleAveragesCacheReaders(c, sa, r, "C09/cache-readers")
	r.rule("C09/config-stable", 1, "no activation/config global is written while the daemon runs")
	n := 0
	for _, a := range sa.Acc {
		if a.Write && (c.RSync[a.Fn] || c.RAPI[a.Fn]) {
			if g, ok := baseOf(addrOf(a.Ins)).(*ssa.Global); ok && g.Pkg.Pkg.Name() == "config" {
				n++
				r.viol("C09/config-stable", "store to config."+g.Name()+" in "+fname(a.Fn), c.ipos(a.Ins), "an activation/config global is modified while blocks are being applied")
			}
		}
	}
	if n == 0 {
		r.okNT("C09/config-stable", "no store to package config reachable from SYNC or API", "-", "activation heights are constants for the life of the process")
	}
}

func addrOf(ins ssa.Instruction) ssa.Value {
	if st, ok := ins.(*ssa.Store); ok {
		return st.Addr
	}
	return nil
}

// windowSize: in GetPegNetRateAverages the incremental path trims each series while len >= AveragePeriod
// before appending one entry (so it holds at most AveragePeriod entries, like the reload path, which collects
// the heights height-AveragePeriod+1 .. height).
func windowSize(c *Ctx, r *Report, rule string) {
	g := c.fn("node.Pegnetd.GetPegNetRateAverages")
	var bad []string
	trimOK := false
	isLen := func(v ssa.Value) bool {
		lc, ok := v.(*ssa.Call)
		if !ok {
			return false
		}
		bi, ok := lc.Call.Value.(*ssa.Builtin)
		return ok && bi.Name() == "len"
	}
	isPeriod := func(v ssa.Value) bool {
		return sliceHas(v, func(x ssa.Value) bool { return valuePath(x) == "node.AveragePeriod" })
	}
	for _, f := range c.family(g) { // the closures of GetPegNetRateAverages and helpers split off from it
		if f == g {
			continue
		}
		for _, l := range naturalLoops(f) {
			x, y, lt, ge := ordEdges(l.header)
			if x == nil {
				continue
			}
			// normal form: loop while len(series) >= AveragePeriod; the strict form reads AveragePeriod < len(series)
			var body *ssa.BasicBlock
			opStr := ""
			switch {
			case isLen(x) && isPeriod(y) && l.blocks[ge] && !l.blocks[lt]:
				body, opStr = ge, ">="
			case isPeriod(x) && isLen(y) && l.blocks[lt] && !l.blocks[ge]:
				body, opStr = lt, ">"
			default:
				continue
			}
			bo := l.header.Instrs[len(l.header.Instrs)-1].(*ssa.If).Cond
			// the loop body shrinks the series (a Slice with High = len-1)
			shr := false
			for b := range l.blocks {
				if b == body || body.Dominates(b) {
					for _, ins := range b.Instrs {
						if _, ok := ins.(*ssa.Slice); ok {
							shr = true
						}
					}
				}
			}
			if !shr {
				continue
			}
			if opStr == ">=" {
				// every series of the window is trimmed, not only those that receive a value: an enclosing map range
				// must iterate the window (not the freshly read rates)
				overRates := false
				for _, ol := range naturalLoops(f) {
					if ol == l || !ol.blocks[l.header] {
						continue
					}
					for _, ins := range ol.header.Instrs {
						nx, ok := ins.(*ssa.Next)
						if !ok {
							continue
						}
						if rg, ok := nx.Iter.(*ssa.Range); ok {
							if sliceHas(rg.X, func(v ssa.Value) bool { return isCallTo(v, "SelectRates") }) {
								overRates = true
							}
						}
					}
				}
				if overRates {
					bad = append(bad, fmt.Sprintf("the trim loop at %s runs only for the assets present in the rates just read: a series that misses a block keeps an entry a reloaded window would have dropped", c.pos(bo.Pos())))
				} else {
					trimOK = true
				}
			} else {
				bad = append(bad, fmt.Sprintf("the trim loop at %s runs while len %s AveragePeriod: after the following append the incremental window holds AveragePeriod+1 entries while a reload collects AveragePeriod", c.pos(bo.Pos()), opStr))
			}
		}
	}
	if !trimOK && len(bad) == 0 {
		bad = append(bad, "no trim loop `for len(series) >= AveragePeriod` found in the incremental path")
	}
	// every collection of a height either follows the truncation of the window (reload) or is the single step
	// taken when the requested height is exactly the cached height + 1
	var truncBlocks []*ssa.BasicBlock
	allInstrs(g, func(ins ssa.Instruction) {
		if mu, ok := ins.(*ssa.MapUpdate); ok {
			if sl, ok := mu.Value.(*ssa.Slice); ok && sl.Low == nil {
				if k, ok := sl.High.(*ssa.Const); ok && k.Int64() == 0 {
					if l := innermostLoop(g, mu.Block()); l != nil {
						truncBlocks = append(truncBlocks, l.header)
					}
				}
			}
		}
	})
	nCollect := 0
	for _, ci := range callsOf(g) {
		call, ok := ci.(*ssa.Call)
		if !ok {
			continue
		}
		sc := call.Call.StaticCallee()
		if sc == nil || !fnInModule(sc) || !reachesCallee(c, sc, "SelectRates") {
			continue
		}
		nCollect++
		okk := false
		for _, tb := range truncBlocks {
			if tb != call.Block() && tb.Dominates(call.Block()) {
				okk = true // reload: the window was emptied first
			}
		}
		for _, b := range g.Blocks {
			bo, _, eq := eqEdges(b) // `cached+1 == height` in either orientation, `!=` with the branches swapped
			if bo == nil || !blockOrDom(eq, call.Block()) || len(eq.Preds) != 1 {
				continue
			}
			for _, pair := range [][2]ssa.Value{{bo.X, bo.Y}, {bo.Y, bo.X}} {
				if add, ok := pair[0].(*ssa.BinOp); ok && add.Op.String() == "+" && typePath(add.X) == "node.Pegnetd.LastAveragesHeight" {
					if k, ok := add.Y.(*ssa.Const); ok && k.Int64() == 1 {
						if paramOrSpill(pair[1], g) && innermostLoop(g, call.Block()) == nil {
							okk = true
						}
					}
				}
			}
		}
		if !okk {
			bad = append(bad, "the rates of a height are added to the cached window at "+c.ipos(call)+" neither after emptying it nor under `LastAveragesHeight+1 == height`: after a gap the window keeps heights a reloaded window would not have")
		}
	}
	if nCollect == 0 {
		bad = append(bad, "no call that collects the rates of a height found in GetPegNetRateAverages")
	}
	// reload path: start height = height - AveragePeriod + 1
	startOK := false
	startScan := func(ins ssa.Instruction) {
		bo, ok := ins.(*ssa.BinOp)
		if !ok || bo.Op.String() != "+" {
			return
		}
		if k, ok := bo.Y.(*ssa.Const); ok && k.Int64() == 1 {
			if sub, ok := bo.X.(*ssa.BinOp); ok && sub.Op.String() == "-" && sliceHas(sub.Y, func(v ssa.Value) bool { return valuePath(v) == "node.AveragePeriod" }) && sliceHas(sub.X, func(v ssa.Value) bool {
				// the requested height: the uint32 parameter of GetPegNetRateAverages, or of a helper it hands it to
				p, ok := v.(*ssa.Parameter)
				if !ok {
					return false
				}
				b, isB := p.Type().Underlying().(*types.Basic)
				return isB && b.Kind() == types.Uint32
			}) {
				startOK = true
			}
		}
	}
	for _, f := range c.family(g) { // GetPegNetRateAverages, its closures, helpers split off from it
		allInstrs(f, startScan)
	}
	if !startOK {
		bad = append(bad, "the reload path does not start at height - AveragePeriod + 1")
	}
	r.check(len(bad) == 0, rule, "GetPegNetRateAverages window bounds", c.pos(g.Pos()), "trim while len >= AveragePeriod, then append; reload from height-AveragePeriod+1", strings.Join(bad, "; "))
}

// start-up statements that write something other than schema objects, each with the reason it cannot change a result
var startupWriteAudited = map[string]string{
	"pegnet.txhistoryMigrateLookup1 INSERT pn_history_lookup": "one-off schema migration: copies the rows of the renamed lookup table into its replacement (same rows, new unique key); the lookup table is not read by block processing",
}

// ruleStartupWrites: the statements reachable from NewPegnetd that write are the schema set-up and the legacy fork
// markers, nothing else (shared by C09 and C01).
func ruleStartupWrites(c *Ctx, r *Report, rule string) {
	r.rule(rule, 1, "start-up writes only schema objects and legacy fork markers")
	{
		cat := buildSQLCat(c)
		rs := c.reach(c.Startup)
		rs[c.Startup] = true
		n := 0
		ordn := newOrdinals()
		for _, st := range cat.Stmts {
			if !rs[st.Fn] || !st.isWrite() {
				continue
			}
			n++
			key := fmt.Sprintf("%s %s %s", fname(st.Fn), st.Verb, st.Table)
			cons := fmt.Sprintf("%s %s", key, ord(ordn.next(key)))
			switch {
			case st.Verb == "DROP" && cat.Tables[st.Table] != nil:
				r.viol(rule, cons, c.ipos(st.Site), "start-up executes `"+oneLine(st.Text)+"`: "+st.Table+" is a table of the schema, its rows are discarded by a restart, so what block processing computes from them afterwards depends on where the daemon was restarted")
			case st.Verb == "CREATE" || st.Verb == "CREATE-INDEX" || st.Verb == "ALTER" || st.Verb == "DROP":
				r.okNT(rule, cons, c.ipos(st.Site), "schema object")
			case st.Table == "pn_sync_version" && st.Verb == "INSERT":
				r.okNT(rule, cons, c.ipos(st.Site), "legacy fork marker / version row")
			default:
				if why, ok := startupWriteAudited[fname(st.Fn)+" "+st.Verb+" "+st.Table]; ok {
					r.audited(rule, cons, c.ipos(st.Site), why)
				} else {
					r.viol(rule, cons, c.ipos(st.Site), "start-up executes `"+oneLine(st.Text)+"`: restarting the daemon changes ledger state, so the result of a sync depends on where it was restarted")
				}
			}
		}
		r.Extra["startup_write_statements"] = n
	}
}
