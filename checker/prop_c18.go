package main

import (
	"fmt"
	"strings"

	"golang.org/x/tools/go/ssa"
)

func init() { props["C18"] = propC18; props["C09"] = propC09 }

func propC18(c *Ctx, r *Report) {
	r.Explain = "Decides two footprints: (R1) no JSON-RPC handler (roots = the function values in the jrpc.MethodMap literal) can reach an INSERT/UPDATE/DELETE/REPLACE/DDL statement, BeginTx, or any *sql.Tx method, and the block transaction never escapes (so handlers see committed state only); (R2) no memory location reachable through the shared singletons (*node.Pegnetd, *pegnet.Pegnet, *srv.APIServer) or a package variable is written by one of the two concurrently running roots (sync goroutine, API handler goroutines) and accessed by the other without a common mutex; (R3) the in-memory sync height that handlers read is published only after the block's Commit succeeded."
	r.NotDec = "linearisability of multi-statement read handlers against commits; SQLite locking behaviour (SQLITE_BUSY)"
	r.Trusted = []string{"database/sql: reads through the pool never see another connection's uncommitted transaction", "x/tools go/ssa", "module call graph (static + module-interface CHA + closures + json callbacks)"}
	cat := buildSQLCat(c)
	r.rule("C18-R1/api-read-only", 10, "API roots reach no SQL write, BeginTx or *sql.Tx method")
	ruleNoWritesFrom(c, cat, r, "C18-R1/api-read-only", c.API, "API root")
	r.rule("C18-R1/tx-confinement", 4, "the block transaction is confined to the sync goroutine")
	ruleTxConfinement(c, r, "C18-R1/tx-confinement")
	sa := newSharedAnalysis(c)
	r.rule("C18-R2/shared-state", 2, "no unsynchronised location shared between the sync goroutine and API handlers")
	ruleSharedConflicts(c, sa, r, "C18-R2/shared-state")
	// R3 publish-after-commit
	r.rule("C18-R3/publish-after-commit", 1, "the sync height read by API handlers is advanced only after Commit succeeded")
	rulePublishAfterCommit(c, sa, r, "C18-R3/publish-after-commit")
	// thorough: cross-check the reachable sets against x/tools VTA; a function only VTA reaches (through
	// library callbacks) must not be able to write the database
	if c.Tier == "thorough" {
		r.rule("C18-R1/callgraph-crosscheck", 1, "functions reached only in the VTA call graph cannot write")
		writers := map[*ssa.Function]bool{}
		for t := range cat.Tables {
			for f := range tableWriters(c, cat, t) {
				writers[f] = true
			}
		}
		missing, extra := crossCheckReach(c, c.API, c.RAPI)
		var bad []string
		for _, n := range missing {
			for f := range writers {
				if fname(f) == n {
					bad = append(bad, n)
				}
			}
		}
		r.Extra["vta_only_reachable_from_api"] = missing
		r.Extra["module_graph_only_reachable_from_api"] = extra
		r.check(len(bad) == 0, "C18-R1/callgraph-crosscheck", "API roots: VTA-only reachable functions", "-", fmt.Sprintf("%d functions reached only by VTA (library callbacks: sort comparators, String/MarshalJSON, cobra), none writes the database; %d reached only by the module graph", len(missing), len(extra)), "VTA reaches database-writing functions the module graph does not: "+strings.Join(bad, ", "))
	}
	// the API goroutine really is separate from the sync goroutine
	r.Extra["api_roots"] = func() []string {
		var s []string
		for _, f := range c.API {
			s = append(s, fname(f))
		}
		return s
	}()
}

// rulePublishAfterCommit: every store in the sync root to a location that API
// handlers read must be dominated by the nil-error edge of Commit.
func rulePublishAfterCommit(c *Ctx, sa *sharedAnalysis, r *Report, rule string) {
	sum := sa.summarize()
	f := c.Sync
	commits := findCalls(f, "database/sql.(*Tx).Commit")
	n := 0
	for _, s := range sum {
		if len(s.APIR) == 0 {
			continue
		}
		for _, w := range s.SyncW {
			if w.Fn != f {
				continue
			}
			st, ok := w.Ins.(*ssa.Store)
			if !ok {
				continue
			}
			n++
			okk := false
			for _, cm := range commits {
				ev, _ := errValueOf(cm)
				if ev == nil {
					continue
				}
				for _, t := range nilTestsOf(c, ev) {
					if nilEdgeDom(t, st.Block()) && t.N != t.S {
						okk = true
					}
				}
			}
			// a compensating decrement inside an error branch is not a publication
			if isDecrement(st) {
				r.ok(rule, "store to "+s.Loc+" (compensation)", c.ipos(st), "decrement on an error path")
				continue
			}
			r.check(okk, rule, "store to "+s.Loc+" in the sync root", c.ipos(st), "dominated by the nil-error edge of Commit", s.Loc+" is advanced before the block's transaction is committed while API handlers ("+accDesc(c, s.APIR, 3)+") read it: a response can report a height whose block is not committed (or is later rolled back)")
		}
	}
	if n == 0 {
		r.ok(rule, "no store in the sync root to an API-read location", "-", "")
	}
}

func isDecrement(st *ssa.Store) bool {
	bo, ok := st.Val.(*ssa.BinOp)
	return ok && bo.Op.String() == "-" && valuePath(bo.X) == valuePath(st.Addr)
}

func propC09(c *Ctx, r *Report) {
	r.Explain = "Decides a sufficient structural condition with hand triage of its exceptions: the set of in-memory locations (fields of the shared singletons, package variables, and containers reachable from them) that are written by functions reachable from the sync root and read by them — i.e. state carried from one block to the next inside the process — must be exactly the persisted sync height. Plus the necessary conditions: start-up resumes from the persisted height and runs the hard-fork check (shared with C02-R6/C19)."
	r.NotDec = "equality of ledgers across restart placements (runtime); a semantically transparent cache would be reported and would need an audit entry"
	r.Trusted = []string{"x/tools go/ssa", "module call graph", "field-based location abstraction (all objects of one struct type share a location per field)"}
	sa := newSharedAnalysis(c)
	r.rule("C09/carried-state", 2, "in-memory state written and read across blocks by the sync path")
	ruleCarriedState(c, sa, r, "C09/carried-state", map[string]string{
		"pegnet.BlockSync.Synced": "the sync height: persisted in pn_metadata inside every block transaction and restored at start-up (C02-R4, C02-R6)",
	})
	// package-level variables written in R(SYNC): activation globals must be stable
	// window size: the incremental path must leave the same number of entries as a reload
	r.rule("C09/window-size", 1, "the incrementally maintained averaging window has the size of a reloaded one")
	windowSize(c, r, "C09/window-size")
	r.rule("C09/config-stable", 1, "no activation/config global is written while the daemon runs")
	n := 0
	for _, a := range sa.Acc {
		if a.Write && (c.RSync[a.Fn] || c.RAPI[a.Fn]) {
			if g, ok := baseOf(addrOf(a.Ins)).(*ssa.Global); ok && g.Pkg.Pkg.Name() == "config" {
				n++
				r.viol("C09/config-stable", "store to config."+g.Name()+" in "+fname(a.Fn), c.ipos(a.Ins), "an activation/config global is modified while blocks are being applied")
			}
		}
	}
	if n == 0 {
		r.okNT("C09/config-stable", "no store to package config reachable from SYNC or API", "-", "activation heights are constants for the life of the process")
	}
}

func addrOf(ins ssa.Instruction) ssa.Value {
	if st, ok := ins.(*ssa.Store); ok {
		return st.Addr
	}
	return nil
}

// windowSize: in GetPegNetRateAverages the incremental path trims each series while len >= AveragePeriod
// before appending one entry (so it holds at most AveragePeriod entries, like the reload path, which collects
// the heights height-AveragePeriod+1 .. height).
func windowSize(c *Ctx, r *Report, rule string) {
	g := c.fn("node.Pegnetd.GetPegNetRateAverages")
	var bad []string
	trimOK := false
	for f := range c.reach(g) {
		if f.Parent() != g {
			continue
		}
		for _, l := range naturalLoops(f) {
			cond, body, _ := condEdge(l.header)
			bo, ok := cond.(*ssa.BinOp)
			if !ok {
				continue
			}
			lc, ok := bo.X.(*ssa.Call)
			if !ok {
				continue
			}
			if bi, ok := lc.Call.Value.(*ssa.Builtin); !ok || bi.Name() != "len" {
				continue
			}
			if !sliceHas(bo.Y, func(v ssa.Value) bool { return valuePath(v) == "node.AveragePeriod" }) {
				continue
			}
			// the loop body shrinks the series (a Slice with High = len-1)
			shr := false
			for b := range l.blocks {
				if b == body || body.Dominates(b) {
					for _, ins := range b.Instrs {
						if _, ok := ins.(*ssa.Slice); ok {
							shr = true
						}
					}
				}
			}
			if !shr {
				continue
			}
			if bo.Op.String() == ">=" {
				trimOK = true
			} else {
				bad = append(bad, fmt.Sprintf("the trim loop at %s runs while len %s AveragePeriod: after the following append the incremental window holds AveragePeriod+1 entries while a reload collects AveragePeriod", c.ipos(bo), bo.Op))
			}
		}
	}
	if !trimOK && len(bad) == 0 {
		bad = append(bad, "no trim loop `for len(series) >= AveragePeriod` found in the incremental path")
	}
	// reload path: start height = height - AveragePeriod + 1
	startOK := false
	allInstrs(g, func(ins ssa.Instruction) {
		bo, ok := ins.(*ssa.BinOp)
		if !ok || bo.Op.String() != "+" {
			return
		}
		if k, ok := bo.Y.(*ssa.Const); ok && k.Int64() == 1 {
			if sub, ok := bo.X.(*ssa.BinOp); ok && sub.Op.String() == "-" && sliceHas(sub.Y, func(v ssa.Value) bool { return valuePath(v) == "node.AveragePeriod" }) && sliceHas(sub.X, func(v ssa.Value) bool { p, ok := v.(*ssa.Parameter); return ok && p.Name() == "height" }) {
				startOK = true
			}
		}
	})
	if !startOK {
		bad = append(bad, "the reload path does not start at height - AveragePeriod + 1")
	}
	r.check(len(bad) == 0, rule, "GetPegNetRateAverages window bounds", c.pos(g.Pos()), "trim while len >= AveragePeriod, then append; reload from height-AveragePeriod+1", strings.Join(bad, "; "))
}
