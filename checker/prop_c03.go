package main

import (
	"fmt"
	"go/constant"
	"go/token"
	"go/types"
	"regexp"
	"sort"
	"strings"

	"golang.org/x/tools/go/ssa"
)

func init() { props["C03"] = propC03 }

func sameExpr(a, b ssa.Value) bool {
	a, b = unwrapConv(a), unwrapConv(b)
	if a == b {
		return true
	}
	if pa, pb := valuePath(a), valuePath(b); pa != "" && pa == pb {
		return true
	}
	if pa, pb := typePath(a), typePath(b); pa != "" && pa == pb && strings.Count(pa, ".") >= 2 {
		return true
	}
	return false
}

func isUnsigned(t types.Type) bool {
	b, ok := t.Underlying().(*types.Basic)
	return ok && b.Info()&types.IsUnsigned != 0
}

// guardedSub: the unsigned subtraction x - y is dominated by the safe side of a comparison of x and y.
func guardedSub(bo *ssa.BinOp) (bool, string) {
	f := bo.Parent()
	for _, b := range f.Blocks {
		cond, tb, fb := condEdge(b)
		cb, ok := cond.(*ssa.BinOp)
		if !ok {
			continue
		}
		var safe *ssa.BasicBlock
		switch {
		case cb.Op == token.LSS && sameExpr(cb.X, bo.X) && sameExpr(cb.Y, bo.Y): // x < y -> unsafe on true
			safe = fb
		case cb.Op == token.GTR && sameExpr(cb.X, bo.Y) && sameExpr(cb.Y, bo.X): // y > x -> unsafe on true
			safe = fb
		case cb.Op == token.GEQ && sameExpr(cb.X, bo.X) && sameExpr(cb.Y, bo.Y): // x >= y safe on true
			safe = tb
		case cb.Op == token.LEQ && sameExpr(cb.X, bo.Y) && sameExpr(cb.Y, bo.X):
			safe = tb
		case cb.Op == token.GTR && sameExpr(cb.X, bo.X) && sameExpr(cb.Y, bo.Y): // x > y safe on true
			safe = tb
		case cb.Op == token.LSS && sameExpr(cb.X, bo.Y) && sameExpr(cb.Y, bo.X): // y < x safe on true
			safe = tb
		case cb.Op == token.GEQ && sameExpr(cb.X, bo.Y) && sameExpr(cb.Y, bo.X): // y >= x: false side has x > y
			safe = fb
		case cb.Op == token.LEQ && sameExpr(cb.X, bo.X) && sameExpr(cb.Y, bo.Y): // x <= y: false side has x > y
			safe = fb
		}
		if safe == nil {
			continue
		}
		// the subtraction must be reachable only through the safe edge
		unsafe := tb
		if safe == tb {
			unsafe = fb
		}
		if blockOrDom(safe, bo.Block()) && len(safe.Preds) == 1 {
			return true, "dominated by the safe edge of the comparison"
		}
		// unsafe branch leaves (return/continue) and the subtraction follows the test
		if b.Dominates(bo.Block()) && !reachAvoiding(unsafe, map[*ssa.BasicBlock]bool{b: true})[bo.Block()] {
			return true, "the failing side of the comparison cannot reach it"
		}
	}
	return false, ""
}

// auditedSubs: unsigned subtractions that are safe for a reason outside the function.
var auditedSubs = map[string]string{
	"conversions.ConversionSupplySet.Payouts conversions.ConversionSupplySet.Bank-(variable uint64)": "totalPaid = sum of floor(c*Bank/total) over requests <= Bank (total >= Bank on this path)",
	"node.Pegnetd.NullifyBurnAddress (parameter uint32 #0)-(variable int)":                           "j <= 62 and height is an activation height > 200000",
	"node.Pegnetd.GetPegNetRateAverages node.AveragePeriod-numberMissing()":                          "numberMissing counts zeros of a window of at most AveragePeriod entries plus the missing entries, so it is <= AveragePeriod",
}

func propC03(c *Ctx, r *Report) {
	r.Explain = "Decides the guards without which an overdraft or a half-applied batch is possible: (R1) in SubFromBalance the debit UPDATE is dominated by the passing side of `balance < value` on the pending balance of the same address/ticker; (R2) every ticker has a <ticker>_balance column with CHECK(col >= 0) in the address-table template (pn_addresses, snapshot_*) and in the migrations; (R3) funds-check decision table of both passes of applyTransactionBatch under the orderings amount ? balance: reject iff amount > balance; (R4) no database write can precede a rejection in applyTransactionBatch; (R5) a debit failure inside recordBatch is turned into a non-sentinel error (fails the block) and IsRejectedTx classifies by identity, unknown errors are not rejections; (R6) every unsigned subtraction on the consensus path is dominated by the comparison that makes it safe (or audited); (R7) Transaction.Validate bounds every transfer by the remaining input and requires the remainder to be zero."
	r.NotDec = "that the in-memory simulation equals what the database does over arbitrary in-batch credit/debit interleavings (a known divergence for deferred PEG outputs in the legacy era is recorded under C08)"
	r.Trusted = []string{"SQLite CHECK constraints", "go/ssa"}
	cat := buildSQLCat(c)
	tick, max := c.tickers()
	// applied completely: the per-transaction loop of recordBatch is left only at its end or with an error that fails
	// the block (shared shape with C06-R10)
	r.rule("C03-R13/batch-loop-completes", 1, "recordBatch applies every transaction of the batch or fails")
	ruleLoopCompletes(c, r, "C03-R13/batch-loop-completes", c.fn("node.Pegnetd.recordBatch"), "pegnet.Pegnet.SubFromBalance", "every transaction of an accepted batch is applied")
	// applied completely, second phase: every deferred PEG request gets a payout entry, the settlement pays and
	// refunds by walking that map (shared with C16)
	r.rule("C03-R14/payout-entry-per-request", 1, "every deferred PEG request has an entry in the payout map")
	rulePayoutEntryPerRequest(c, r, "C03-R14/payout-entry-per-request")
	r.rule("C03-R15/loopvar-alias", 1, "no address of a per-loop variable is retained across iterations in block processing")
	ruleLoopVarAlias(c, r, "C03-R15/loopvar-alias", c.RSync)
	r.rule("C03-R16/debit-own-input", 1, "recordBatch debits the asset and amount of the transaction it is applying")
	ruleDebitOwnInput(c, r, "C03-R16/debit-own-input")
	ruleAnyOfFlags(c, r, "C03-R17/any-of-flags")

	// R1
	r.rule("C03-R1/debit-guard", 2, "the debit statement is guarded by the pending-balance comparison")
	sfb := c.fn("pegnet.Pegnet.SubFromBalance")
	{
		var upd *SQLStmt
		var updSite ssa.Instruction // the UPDATE, or the call in SubFromBalance to the helper that now issues it
		for _, st := range cat.Stmts {
			if st.Verb == "UPDATE" && st.Table == "pn_addresses" && c.inFamily(st.Fn, sfb) {
				upd = st
				updSite = c.liftSite(st.Site, sfb)
			}
		}
		sel := findCalls(sfb, "pegnet.Pegnet.SelectPendingBalance")
		var bad []string
		if upd == nil || updSite == nil || len(sel) != 1 {
			bad = append(bad, "anchors not found (UPDATE statement / SelectPendingBalance call)")
		} else {
			sc := sel[0].(*ssa.Call)
			okArgs := unwrap(sc.Call.Args[1]) == sfb.Params[1] && sc.Call.Args[2] == ssa.Value(sfb.Params[2]) && sc.Call.Args[3] == ssa.Value(sfb.Params[3])
			if !okArgs {
				bad = append(bad, "the balance compared is not the pending balance of the same (tx, address, ticker)")
			}
			var balV ssa.Value
			for _, rf := range *sc.Referrers() {
				if ex, ok := rf.(*ssa.Extract); ok && ex.Index == 0 {
					balV = ex
				}
			}
			guarded := false
			for _, b := range sfb.Blocks {
				x, y, lt, ge := ordEdges(b) // balance < value / balance >= value in any spelling
				if x != balV || y != ssa.Value(sfb.Params[4]) {
					continue
				}
				if blockOrDom(ge, updSite.Block()) && !blockOrDom(lt, updSite.Block()) {
					guarded = true
				}
			}
			// the value debited by the statement is the value compared
			if updSite != upd.Site {
				okVal := false
				if ci, ok := updSite.(ssa.CallInstruction); ok {
					for _, a := range ci.Common().Args {
						if a == ssa.Value(sfb.Params[4]) {
							okVal = true
						}
					}
				}
				if !okVal {
					bad = append(bad, "the helper issuing the UPDATE is not given the value that was compared")
				}
			}
			if !guarded {
				bad = append(bad, "the UPDATE `balance - ?` is not confined to the branch where balance >= value")
			}
			if !strings.Contains(upd.Text, "_balance - ?") || upd.Recv != "Tx" {
				bad = append(bad, "debit statement shape changed: "+oneLine(upd.Text))
			}
		}
		r.check(len(bad) == 0, "C03-R1/debit-guard", "SubFromBalance", c.pos(sfb.Pos()), "UPDATE dominated by the false edge of balance < value (pending balance, same address and ticker)", strings.Join(bad, "; "))
		// zero-value path credits 0 instead of debiting
		z := findCalls(sfb, "pegnet.Pegnet.AddToBalance")
		okZ := len(z) == 1
		if okZ {
			k, ok := z[0].Common().Args[4].(*ssa.Const)
			okZ = ok && k.Uint64() == 0
		}
		r.check(okZ, "C03-R1/debit-guard", "SubFromBalance zero-value path adds 0", c.pos(sfb.Pos()), "", "the value==0 shortcut credits a non-zero amount")
	}

	// R2
	r.rule("C03-R2/check-constraints", 4, "CHECK(balance >= 0) on every ticker column of every address table")
	var names []string
	for n := range tick {
		names = append(names, n)
	}
	sort.Strings(names)
	for _, tn := range []string{"pn_addresses", "snapshot_current", "snapshot_past"} {
		t := cat.Tables[tn]
		var bad []string
		if t == nil {
			bad = append(bad, "table not found in the catalogue")
		} else {
			for _, n := range names {
				col := strings.ToLower("p"+n) + "_balance"
				if n == "PEG" {
					col = "peg_balance"
				}
				chk, ok := t.Checks[col]
				if !ok {
					bad = append(bad, col+": no CHECK")
					continue
				}
				norm := strings.ReplaceAll(strings.ReplaceAll(chk, "\"", ""), " ", "")
				if !strings.Contains(norm, "("+col+">=0)") {
					bad = append(bad, col+": "+chk)
				}
			}
		}
		if len(bad) > 5 {
			bad = append(bad[:5], fmt.Sprintf("… %d more", len(bad)-5))
		}
		r.check(len(bad) == 0, "C03-R2/check-constraints", "table "+tn, "-", fmt.Sprintf("%d ticker columns with CHECK(col >= 0)", len(names)), strings.Join(bad, "; "))
	}
	{
		n, bad := 0, 0
		for _, st := range cat.Stmts {
			if st.Verb == "ALTER" && st.Table == "pn_addresses" && strings.Contains(strings.ToUpper(st.Text), " ADD ") || strings.Contains(strings.ToUpper(st.Text), "\nADD ") || strings.Contains(strings.ToUpper(st.Text), "\tADD ") {
				n++
				norm := strings.ReplaceAll(strings.ReplaceAll(st.Text, "\"", ""), " ", "")
				if !strings.Contains(norm, "_balance>=0)") {
					bad++
				}
			}
		}
		r.check(n >= 10 && bad == 0, "C03-R2/check-constraints", "migrations add balance columns with CHECK(col >= 0)", "-", fmt.Sprintf("%d ALTER TABLE statements", n), fmt.Sprintf("%d of %d migration columns lack the CHECK", bad, n))
	}
	_ = max

	// R3 funds-check table
	r.rule("C03-R3/funds-table", 6, "reject iff amount > balance, in both passes")
	atb := c.fn("node.Pegnetd.applyTransactionBatch")
	acc := newTableAcc()
	for _, pass := range []int{1, 2} {
		for _, rel := range []int{-1, 0, 1} {
			rel := rel
			sc := &Scenario{
				Params: map[string]AVal{"type:map[fat2.PTicker]uint64#0": nilVal},
				Calls:  map[string]AVal{"fat2.Transaction.IsConversion": cBool(false)},
				Paths:  map[string]AVal{"fat2.TypedAddressAmountTuple.Amount": sym("amount")},
				Lookups: map[string]AVal{
					"SelectPendingBalances()#0[fat2.TypedAddressAmountTuple.Type]": sym("bal1"),
					"[fat2.TypedAddressAmountTuple.Type]":                          sym("bal2"),
				},
				Order: func(a, b AVal) (int, bool) {
					if a.K != ASym || b.K != ASym {
						return 0, false
					}
					k := a.Sym + "?" + b.Sym
					switch k {
					case "amount?bal1":
						if pass == 1 {
							return rel, true
						}
						return -1, true
					case "bal2?amount":
						if pass == 2 {
							return -rel, true
						}
						return 1, true
					}
					return 0, false
				},
				MaxDepth: 0, AllErrorsNil: true,
			}
			s := newSCCP(c, sc)
			st := s.run(atb, nil, 0)
			acc.absorb(s)
			r.Scen++
			le := loopOver(st, "fat2.TransactionBatch.Transactions", pass)
			want := "next"
			if rel > 0 {
				want = "err:InsufficientBalanceErr"
			}
			got := le.String()
			cons := fmt.Sprintf("pass %d amount %s balance", pass, map[int]string{-1: "<", 0: "=", 1: ">"}[rel])
			r.check(le.Found && got == want, "C03-R3/funds-table", cons, c.pos(atb.Pos()), "loop exits: "+want, "loop exits {"+got+"}, expected {"+want+"}")
		}
	}
	acc.report(c, r, "C03-R3/funds-table", atb)

	// R4 no write before reject
	r.rule("C03-R4/no-write-before-reject", 1, "a rejected batch has not written anything")
	writers := map[*ssa.Function]bool{}
	for t := range cat.Tables {
		for f := range tableWriters(c, cat, t) {
			writers[f] = true
		}
	}
	{
		var wcalls []*ssa.Call
		for _, ci := range callsOf(atb) {
			if call, ok := ci.(*ssa.Call); ok {
				if sc := call.Call.StaticCallee(); sc != nil && writers[sc] {
					wcalls = append(wcalls, call)
				}
			}
		}
		var bad []string
		n := 0
		allInstrs(atb, func(ins ssa.Instruction) {
			ret, ok := ins.(*ssa.Return)
			if !ok {
				return
			}
			n++
			op := resolveSpill(ret.Results[0])
			for _, w := range wcalls {
				if !instrReaches(w, ret) {
					continue
				}
				ev, _ := errValueOf(w)
				ef := &errflow{c: c}
				C := map[ssa.Value]bool{}
				if ev != nil {
					C = ef.carriers(ev)
				}
				switch {
				case C[op]:
				case isNilConst(op):
					okNil := false
					if ev != nil {
						for _, t := range nilTestsOf(c, ev) {
							if nilEdgeDom(t, ret.Block()) {
								okNil = true
							}
						}
					}
					if !okNil {
						bad = append(bad, fmt.Sprintf("return nil at %s is reachable after the write %s without its error being checked", c.ipos(ret), calleeName(w.Common())))
					}
				default:
					bad = append(bad, fmt.Sprintf("return at %s (a rejection) is reachable after the write %s: the caller keeps the block and skips the batch, so the partial write survives", c.ipos(ret), calleeName(w.Common())))
				}
			}
		})
		var wn []string
		for _, w := range wcalls {
			wn = append(wn, shortCallee(w.Common()))
		}
		r.check(len(bad) == 0 && len(wcalls) >= 1, "C03-R4/no-write-before-reject", "applyTransactionBatch", c.pos(atb.Pos()), fmt.Sprintf("%d returns; writing calls: %s; every return after a write propagates its error or is the success return", n, strings.Join(wn, ",")), strings.Join(bad, "; "))
		// reads before: only SELECTs
	}
	ruleMidBatchFailure(c, r, "C03-R5/mid-batch-failure-fails-block")

	// R6 unsigned subtraction guards
	r.rule("C03-R6/unsigned-underflow", 4, "unsigned subtractions are guarded")
	scope := map[*ssa.Function]bool{}
	for f := range c.RSync {
		scope[f] = true
	}
	for _, f := range c.Funcs {
		if f.Pkg != nil && f.Pkg.Pkg.Name() == "fat2" {
			scope[f] = true
		}
	}
	for _, f := range sortedFuncs(scope) {
		ordn := newOrdinals()
		allInstrs(f, func(ins ssa.Instruction) {
			bo, ok := ins.(*ssa.BinOp)
			if !ok || bo.Op != token.SUB || !isUnsigned(bo.Type()) {
				return
			}
			if _, isC := bo.Y.(*ssa.Const); isC {
				return // x - constant: heights and lengths above their activation/guard; not a data-dependent underflow
			}
			desc := fmt.Sprintf("%s-%s", valueDesc2(bo.X), valueDesc2(bo.Y))
			key := fmt.Sprintf("%s %s", fname(f), desc)
			cons := key
			if n := ordn.next(key); n > 1 {
				cons = fmt.Sprintf("%s %s", key, ord(n))
			}
			if okk, why := guardedSub(bo); okk {
				r.okNT("C03-R6/unsigned-underflow", cons, c.ipos(bo), why)
				return
			}
			if why, ok := auditedSubs[key]; ok {
				r.audited("C03-R6/unsigned-underflow", cons, c.ipos(bo), why)
				return
			}
			// the same subtraction in a helper split off from the audited function (its operands may have become
			// parameters of the helper): keyed by the owning reference function and the operands' types
			audited := false
			for _, on := range c.ownerNames(f) {
				for k, why := range auditedSubs {
					if looseSubKey(k) == looseSubKey(on+" "+desc) {
						r.audited("C03-R6/unsigned-underflow", cons, c.ipos(bo), why)
						audited = true
					}
				}
			}
			if audited {
				return
			}
			r.viol("C03-R6/unsigned-underflow", cons, c.ipos(bo), "unsigned subtraction without a dominating comparison of its operands: wraps to a huge value when the subtrahend is larger")
		})
	}

	ruleValidateBounds(c, r, "C03-R7/validate-bounds")
	// applied completely: a PEG request, whose output recordBatch defers, is either rejected before anything is
	// written (PegNet 2.0 on) or handed to the settlement that credits it (before) - at every height class
	rulePegRequestComplete(c, r, "C03-R9/peg-request-complete")
	// a rejected batch leaves every balance as it was: it is not handed to the PEG settlement (shared with C16)
	ruleRejectedNotCollected(c, r, newEraCtx(c, r), "C03-R11/rejected-not-collected")
	// an accepted batch is applied completely: its deferred PEG output reaches the pooled settlement (shared with C16)
	rulePooledListAccumulates(c, r, newEraCtx(c, r), "C03-R12/pooled-list")
	// applied completely: no statement error inside recordBatch is lost (same engine as C10)
	r.rule("C03-R10/record-errors", 5, "every error while recording a batch reaches the caller")
	{
		scope := map[*ssa.Function]bool{}
		for _, g := range c.family(c.fn("node.Pegnetd.recordBatch")) {
			scope[g] = true
		}
		runErrflow(c, computeEffects(c), r, scope, "C03-R10/record-errors", false)
	}
	// applied completely: every transfer output of an executed batch is credited (shared with C04-R3)
	r.rule("C03-R8/outputs-credited", 1, "only the burn address is exempt from being credited")
	ruleOutputsCredited(c, r, "C03-R8/outputs-credited")
}

// ruleOutputsCredited: every transfer output of a recorded batch is credited with its own amount at its own
// address, the burn address being the one exemption.
func ruleOutputsCredited(c *Ctx, r *Report, rule string) {
	rb := c.fn("node.Pegnetd.recordBatch")
	n := 0
	for _, a := range c.findCallsFam(rb, "pegnet.Pegnet.AddToBalance") {
		if typePath(a.Common().Args[4]) == "fat2.AddressAmountTuple.Amount" {
			n++
			burnExemptionRule(c, r, a.Parent(), a, rule, "")
		}
	}
	if n == 0 {
		r.viol(rule, "transfer outputs credited one by one", c.pos(rb.Pos()), "no credit in recordBatch takes the amount of a transfer output itself: outputs are no longer credited one by one with the amount the batch lists for them (a sum kept across outputs or transactions pays amounts the input was not debited for)")
	}
}

// valueDesc2 names a value for constructs and audit keys without using the names of locals or parameters:
// fields by the type that declares them, everything else by kind and type.
func valueDesc2(v ssa.Value) string {
	return stablePath(unwrapConv(v), 0)
}

func shortType(t types.Type) string {
	return types.TypeString(t, func(p *types.Package) string { return p.Name() })
}

func stablePath(v ssa.Value, depth int) string {
	if depth > 8 {
		return "expr"
	}
	switch x := v.(type) {
	case *ssa.Const:
		if x.Value != nil {
			return x.Value.ExactString()
		}
		return "nil"
	case *ssa.Global:
		return x.Pkg.Pkg.Name() + "." + x.Name()
	case *ssa.Parameter:
		// ordinal among the parameters of the same type, so that e.g. the two rate maps stay distinct
		k := 0
		if f := x.Parent(); f != nil {
			for _, p := range f.Params {
				if p == x {
					break
				}
				if types.Identical(p.Type(), x.Type()) {
					k++
				}
			}
		}
		return fmt.Sprintf("(parameter %s #%d)", shortType(x.Type()), k)
	case *ssa.FreeVar:
		t := x.Type()
		if p, ok := t.(*types.Pointer); ok {
			t = p.Elem()
		}
		return "(captured " + shortType(t) + ")"
	case *ssa.Alloc:
		t := x.Type()
		if p, ok := t.(*types.Pointer); ok {
			t = p.Elem()
		}
		return "(local " + shortType(t) + ")"
	case *ssa.FieldAddr:
		st := derefStruct(x.X.Type())
		if tn := namedShort(x.X.Type()); tn != "" && st != nil {
			return tn + "." + st.Field(x.Field).Name()
		}
		if st != nil {
			return stablePath(x.X, depth+1) + "." + st.Field(x.Field).Name()
		}
	case *ssa.Field:
		st, _ := x.X.Type().Underlying().(*types.Struct)
		if tn := namedShort(x.X.Type()); tn != "" && st != nil {
			return tn + "." + st.Field(x.Field).Name()
		}
		if st != nil {
			return stablePath(x.X, depth+1) + "." + st.Field(x.Field).Name()
		}
	case *ssa.UnOp:
		if x.Op == token.MUL {
			if p := spilledParam(x); p != nil {
				return stablePath(p, depth+1) // a parameter kept in a local slot because a closure captures it
			}
			if fv, ok := x.X.(*ssa.FreeVar); ok {
				// inside the closure: the captured variable is the enclosing function's parameter slot
				if al, _ := closureBinding(fv); al != nil && al.Referrers() != nil {
					var val ssa.Value
					n := 0
					for _, rf := range *al.Referrers() {
						if st, ok := rf.(*ssa.Store); ok && st.Addr == ssa.Value(al) {
							n++
							val = st.Val
						}
					}
					if p, ok := val.(*ssa.Parameter); ok && n == 1 {
						return stablePath(p, depth+1)
					}
				}
			}
			return stablePath(x.X, depth+1)
		}
		return x.Op.String() + stablePath(x.X, depth+1)
	case *ssa.IndexAddr:
		return stablePath(x.X, depth+1) + "[" + idxStable(x.Index, depth) + "]"
	case *ssa.Index:
		return stablePath(x.X, depth+1) + "[" + idxStable(x.Index, depth) + "]"
	case *ssa.Lookup:
		return stablePath(x.X, depth+1) + "[" + idxStable(x.Index, depth) + "]"
	case *ssa.Slice:
		return stablePath(x.X, depth+1)
	case *ssa.Convert:
		return stablePath(x.X, depth+1)
	case *ssa.ChangeType:
		return stablePath(x.X, depth+1)
	case *ssa.MakeInterface:
		return stablePath(x.X, depth+1)
	case *ssa.Call:
		if d := helperResultDesc(x, 0, depth); d != "" {
			return d
		}
		return shortCallee(x.Common()) + "()"
	case *ssa.Extract:
		switch y := x.Tuple.(type) {
		case *ssa.Call:
			if d := helperResultDesc(y, x.Index, depth); d != "" {
				return d
			}
			return fmt.Sprintf("%s()#%d", shortCallee(y.Common()), x.Index)
		case *ssa.Lookup:
			return stablePath(y, depth+1)
		case *ssa.Next:
			if rg, ok := y.Iter.(*ssa.Range); ok {
				if x.Index == 1 {
					return "key of " + stablePath(rg.X, depth+1)
				}
				return stablePath(rg.X, depth+1) + "[]"
			}
		case *ssa.TypeAssert:
			return stablePath(y.X, depth+1)
		}
	case *ssa.TypeAssert:
		return stablePath(x.X, depth+1)
	case *ssa.Phi:
		return "(variable " + shortType(x.Type()) + ")"
	case *ssa.BinOp:
		return "(" + stablePath(x.X, depth+1) + x.Op.String() + stablePath(x.Y, depth+1) + ")"
	}
	return "(" + shortType(v.Type()) + " value)"
}

// helperResultDesc: the result of a helper split off from a reference function is described by what the helper
// returns (when all its returns agree), so that extracting a block into a helper does not rename the value.
func helperResultDesc(call *ssa.Call, idx, depth int) string {
	sc := call.Call.StaticCallee()
	if sc == nil || !isNewHelper(sc) {
		return ""
	}
	d := ""
	agree := true
	allInstrs(sc, func(ins ssa.Instruction) {
		if ret, ok := ins.(*ssa.Return); ok && idx < len(ret.Results) {
			x := stablePath(unwrapConv(resolveSpill(ret.Results[idx])), depth+1)
			if d == "" {
				d = x
			} else if d != x {
				agree = false
			}
		}
	})
	if !agree {
		return ""
	}
	return d
}

func idxStable(v ssa.Value, depth int) string {
	if k, ok := v.(*ssa.Const); ok && k.Value != nil {
		return k.Value.ExactString()
	}
	return ""
}

func ruleMidBatchFailure(c *Ctx, r *Report, rule string) {
	// recordBatch never returns a tolerated sentinel
	r.rule(rule, 3, "a failure inside recordBatch is not classified as a rejection")
	rb := c.fn("node.Pegnetd.recordBatch")
	{
		var bad []string
		fam := c.family(rb) // recordBatch, its closures and helpers split off from it
		for _, g := range fam {
			if errResultIndex(g.Signature) < 0 {
				continue
			}
			allInstrs(g, func(ins ssa.Instruction) {
				ret, ok := ins.(*ssa.Return)
				if !ok {
					return
				}
				op := resolveSpill(ret.Results[len(ret.Results)-1])
				if g, ok := isGlobalErrLoad(op); ok {
					bad = append(bad, fmt.Sprintf("recordBatch returns the sentinel %s at %s: the caller treats it as a clean rejection although transactions of the batch were already written", g.Name(), c.ipos(ret)))
				}
				// the txErr of SubFromBalance must not be returned as is
				if ex, ok := op.(*ssa.Extract); ok {
					if call, ok := ex.Tuple.(*ssa.Call); ok && shortCallee(call.Common()) == "SubFromBalance" && ex.Index == 1 {
						bad = append(bad, "recordBatch returns SubFromBalance's insufficient-balance error unchanged at "+c.ipos(ret))
					}
				}
			})
		}
		for _, ci := range c.findCallsFam(rb, "fmt.Errorf") {
			if k, ok := ci.Common().Args[0].(*ssa.Const); ok && k.Value != nil && strings.Contains(constant.StringVal(k.Value), "%w") {
				bad = append(bad, "recordBatch wraps an error with %w at "+c.ipos(ci)+": a wrapped sentinel can be recognised as a rejection")
			}
		}
		// the txErr is tested
		tested := false
		for _, ci := range c.findCallsFam(rb, "pegnet.Pegnet.SubFromBalance") {
			call := ci.(*ssa.Call)
			for _, rf := range *call.Referrers() {
				if ex, ok := rf.(*ssa.Extract); ok && ex.Index == 1 {
					if len(nilTestsOf(c, ex)) > 0 {
						tested = true
					}
				}
			}
		}
		if !tested {
			bad = append(bad, "the insufficient-balance result of SubFromBalance is not tested in recordBatch")
		}
		r.check(len(bad) == 0, rule, "recordBatch error results", c.pos(rb.Pos()), "debit failure tested and converted into a fresh, unwrapped error", strings.Join(bad, "; "))
	}
	rejectCodes(c, r, rule)

}

func ruleValidateBounds(c *Ctx, r *Report, rule string) {
	// R7 Validate bounds transfers
	r.rule(rule, 1, "Transaction.Validate bounds the transfers by the input")
	tv := c.fn("fat2.Transaction.Validate")
	{
		hasGuardedSub := false
		allInstrs(tv, func(ins ssa.Instruction) {
			if bo, ok := ins.(*ssa.BinOp); ok && bo.Op == token.SUB && isUnsigned(bo.Type()) {
				if okk, _ := guardedSub(bo); okk && strings.HasSuffix(typePath(bo.Y), "AddressAmountTuple.Amount") {
					hasGuardedSub = true
				}
			}
		})
		// alternative accepted form: checked addition (sum < addend test after the add, or math/bits.Add64)
		checkedAdd := len(findCalls(tv, "math/bits.Add64")) > 0
		allInstrs(tv, func(ins ssa.Instruction) {
			if bo, ok := ins.(*ssa.BinOp); ok && bo.Op == token.ADD && isUnsigned(bo.Type()) {
				for _, b := range tv.Blocks {
					cond, _, _ := condEdge(b)
					if cb, ok := cond.(*ssa.BinOp); ok && (cb.Op == token.LSS || cb.Op == token.GTR) && (cb.X == ssa.Value(bo) || cb.Y == ssa.Value(bo)) && (sameExpr(cb.X, bo.Y) || sameExpr(cb.Y, bo.Y) || sameExpr(cb.X, bo.X) || sameExpr(cb.Y, bo.X)) {
						checkedAdd = true
					}
				}
			}
		})
		r.check(hasGuardedSub || checkedAdd, rule, "every transfer amount is bounded by the remaining input without wrap-around", c.pos(tv.Pos()), "guarded running subtraction", "Transaction.Validate has neither a guarded running subtraction of the transfer amounts nor an overflow-checked sum: amounts whose sum wraps modulo 2^64 pass, and a batch can credit more than it debits")
		// decision table: non-conversion with a non-zero remainder is rejected (only meaningful for the
		// running-subtraction form, whose remainder variable the table binds)
		for _, rem := range []int64{0, 5} {
			if !hasGuardedSub {
				break
			}
			sc := &Scenario{Calls: map[string]AVal{"fat2.Transaction.IsConversion": cBool(false)}, Phis: map[string]AVal{"init:fat2.TypedAddressAmountTuple.Amount": cUint(uint64(rem))},
				Lens: map[string]AVal{"fat2.Transaction.Transfers": cInt(2)}, Paths: map[string]AVal{"fat2.Transaction.Conversion": cInt(0)}, MaxDepth: 0}
			st := newSCCP(c, sc).run(tv, nil, 0)
			r.Scen++
			errs := errorReturns(st)
			hasNil := false
			for _, e := range errs {
				if e == "nil" {
					hasNil = true
				}
			}
			r.check(hasNil == (rem == 0), rule, fmt.Sprintf("transfer with remainder %d", rem), c.pos(tv.Pos()), map[bool]string{true: "accepted", false: "rejected"}[rem == 0], fmt.Sprintf("results %v", errs))
		}
	}
}

// rulePegRequestComplete: per height class a batch with a deferred PEG output is either collected for the settlement or
// rejected before anything is written (shared by C03 and C04).
func rulePegRequestComplete(c *Ctx, r *Report, rule string) {
	r.rule(rule, 1, "a batch with a deferred PEG output is either collected for settlement or rejected up front")
	{
		e := newEraCtx(c, r)
		hold := c.fn("node.Pegnetd.ApplyTransactionBatchesInHolding")
		limitAct := e.a.get("PegnetConversionLimitActivation")
		acc := newTableAcc()
		var bad []string
		n := 0
		for _, h := range e.reps {
			if h < limitAct {
				continue // the PEG output is credited immediately in recordBatch (C16 era table)
			}
			n++
			sc := &Scenario{Params: map[string]AVal{"type:uint32": hconst(h)},
				Calls: map[string]AVal{"HasPEGRequest": cBool(true), "isDone": cBool(false), "applyTransactionBatch": nilVal, "IsReplayTransaction": {K: ATuple, Tup: []AVal{cBool(false), nilVal}},
					"SelectBankEntry": {K: ATuple, Tup: []AVal{top, nilVal}}},
				MaxDepth: 1, AllErrorsNil: true, NoInline: map[string]bool{"recordPegnetRequests": true, "GetPegNetRateAverages": true}}
			t, _ := acc.run(c, r, hold, sc)
			collected := false
			for _, lc := range t.Calls {
				if lc.Callee == "builtin.append" && lc.Depth == 0 {
					collected = true
				}
			}
			gated := t.Live("ValidatePegTx")
			executed := t.Live("applyTransactionBatch")
			if executed && !collected && !gated && len(bad) < 5 {
				bad = append(bad, fmt.Sprintf("h=%d: the batch is executed (input debited, PEG output deferred) but neither collected for the PEG settlement nor checked by ValidatePegTx", h))
			}
		}
		acc.report(c, r, rule, hold)
		r.check(len(bad) == 0, rule, "ApplyTransactionBatchesInHolding, batches with a PEG request", c.pos(hold.Pos()), fmt.Sprintf("%d height classes", n), strings.Join(bad, "; ")+": only the debit half of the conversion is applied")
	}
}

var looseOperand = regexp.MustCompile(`\((parameter|variable|captured|local) ([^)#]*?)( #\d+)?\)`)

// looseSubKey drops the distinction between a parameter, a local and a captured variable from an audit key.
func looseSubKey(k string) string { return looseOperand.ReplaceAllString(k, "($2)") }
