package main

// Obligations, known findings, evidence.  DESIGN.md §3.

import (
	"encoding/json"
	"fmt"
	"os"
	"path/filepath"
	"regexp"
	"sort"
	"strings"
	"time"
)

var procStart = time.Now()

type Status string

const (
	OK        Status = "discharged"
	VIOL      Status = "violation"
	KNOWN     Status = "known-finding"
	AUDITED   Status = "audited"
	UNDECIDED Status = "undecided"
	INFO      Status = "info"
)

// Obl is one obligation of one rule on one construct.
type Obl struct {
	Rule      string `json:"rule"`
	Construct string `json:"construct"` // rule-specific stable key, never a line number
	Pos       string `json:"pos,omitempty"`
	Status    Status `json:"status"`
	Detail    string `json:"detail,omitempty"`
	Path      string `json:"path,omitempty"`
	NonTriv   bool   `json:"-"` // needed a non-default discharge rule
}

type KnownFinding struct {
	Property      string `json:"property"`
	Rule          string `json:"rule"`
	Construct     string `json:"construct"`
	WhatFails     string `json:"what_fails"`
	Demonstration string `json:"demonstration,omitempty"`
	Status        string `json:"status"` // known | fixed
	Commit        string `json:"commit,omitempty"`
	Text          string `json:"text,omitempty"`
}

type Report struct {
	Prop     string
	Tier     string
	Start    time.Time
	Obls     []*Obl
	Rules    map[string]*RuleStat
	Explain  string
	NotDec   string
	Trusted  []string
	Assume   []string
	Extra    map[string]interface{}
	Samples  []interface{}
	Scen     int // abstract scenarios evaluated
	floorErr []string
}

type RuleStat struct {
	Rule      string `json:"rule"`
	Instances int    `json:"instances"`
	Floor     int    `json:"floor"`
	Doc       string `json:"doc"`
}

func newReport(prop, tier string) *Report {
	return &Report{Prop: prop, Tier: tier, Start: time.Now(), Rules: map[string]*RuleStat{}, Extra: map[string]interface{}{}}
}

// rule registers a rule with a floor on the number of instances it must match.
func (r *Report) rule(name string, floor int, doc string) {
	if _, ok := r.Rules[name]; !ok {
		r.Rules[name] = &RuleStat{Rule: name, Floor: floor, Doc: doc}
	}
}

func (r *Report) add(o *Obl) *Obl {
	if _, ok := r.Rules[o.Rule]; !ok {
		r.Rules[o.Rule] = &RuleStat{Rule: o.Rule}
	}
	r.Rules[o.Rule].Instances++
	r.Obls = append(r.Obls, o)
	return o
}

func (r *Report) ok(rule, construct, pos, detail string) *Obl {
	return r.add(&Obl{Rule: rule, Construct: construct, Pos: pos, Status: OK, Detail: detail})
}
func (r *Report) okNT(rule, construct, pos, detail string) *Obl {
	return r.add(&Obl{Rule: rule, Construct: construct, Pos: pos, Status: OK, Detail: detail, NonTriv: true})
}
func (r *Report) viol(rule, construct, pos, detail string) *Obl {
	return r.add(&Obl{Rule: rule, Construct: construct, Pos: pos, Status: VIOL, Detail: detail, NonTriv: true})
}
func (r *Report) audited(rule, construct, pos, detail string) *Obl {
	return r.add(&Obl{Rule: rule, Construct: construct, Pos: pos, Status: AUDITED, Detail: detail, NonTriv: true})
}
func (r *Report) undecided(rule, construct, pos, detail string) *Obl {
	return r.add(&Obl{Rule: rule, Construct: construct, Pos: pos, Status: UNDECIDED, Detail: detail, NonTriv: true})
}

// check adds OK or VIOL depending on cond.
func (r *Report) check(cond bool, rule, construct, pos, okDetail, violDetail string) *Obl {
	if cond {
		return r.okNT(rule, construct, pos, okDetail)
	}
	return r.viol(rule, construct, pos, violDetail)
}

func (r *Report) sample(v interface{}) {
	if len(r.Samples) < 40 {
		r.Samples = append(r.Samples, v)
	}
}

var keyRe = regexp.MustCompile(`[^A-Za-z0-9_.$()*-]+`)

func fileKey(rule, construct string) string {
	k := keyRe.ReplaceAllString(rule+"__"+construct, "_")
	if len(k) > 180 {
		k = k[:180]
	}
	return k
}

func loadKnown(verif string) []KnownFinding {
	b, err := os.ReadFile(filepath.Join(verif, "known_findings.json"))
	if err != nil {
		return nil
	}
	var kf struct {
		Findings []KnownFinding `json:"findings"`
	}
	if err := json.Unmarshal(b, &kf); err != nil {
		die(2, "known_findings.json: %v", err)
	}
	return kf.Findings
}

// finish matches violations against the known-findings file, prints the
// protocol lines, writes evidence and replay files, and returns the exit code.
func (r *Report) finish(verif string, seed int64) int {
	known := loadKnown(verif)
	vdir := filepath.Join(verif, "evidence", "violations", r.Prop)
	os.RemoveAll(vdir)
	nviol, nknown, nund := 0, 0, 0
	var knownOut []map[string]string
	seenKey := map[string]int{}
	for _, o := range r.Obls {
		// make constructs unique within a rule
		k := o.Rule + "|" + o.Construct
		seenKey[k]++
		if seenKey[k] > 1 {
			o.Construct = fmt.Sprintf("%s #%d", o.Construct, seenKey[k])
		}
	}
	for _, o := range r.Obls {
		if o.Status != VIOL {
			continue
		}
		for _, kf := range known {
			if kf.Status == "known" && kf.Property == r.Prop && kf.Rule == o.Rule && kf.Construct == o.Construct {
				o.Status = KNOWN
				fmt.Printf("KNOWN-FINDING: property=%s %s [%s | %s @ %s]\n", r.Prop, kf.WhatFails, o.Rule, o.Construct, o.Pos)
				knownOut = append(knownOut, map[string]string{"rule": o.Rule, "construct": o.Construct, "what_fails": kf.WhatFails, "pos": o.Pos})
				nknown++
				break
			}
		}
	}
	for _, o := range r.Obls {
		switch o.Status {
		case VIOL:
			nviol++
			if os.Getenv("PEGCHECK_EMIT_KNOWN") != "" {
				b, _ := json.Marshal(KnownFinding{Property: r.Prop, Rule: o.Rule, Construct: o.Construct, WhatFails: o.Detail, Status: "known"})
				fmt.Printf("EMIT-KNOWN %s\n", b)
			}
			os.MkdirAll(vdir, 0o755)
			p := filepath.Join(vdir, fileKey(o.Rule, o.Construct)+".json")
			b, _ := json.MarshalIndent(map[string]interface{}{
				"property": r.Prop, "rule": o.Rule, "construct": o.Construct, "pos": o.Pos,
				"detail": o.Detail, "path": o.Path, "rule_doc": r.ruleDoc(o.Rule),
			}, "", " ")
			os.WriteFile(p, b, 0o644)
			fmt.Printf("  violation: [%s] %s @ %s: %s\n", o.Rule, o.Construct, o.Pos, o.Detail)
			fmt.Printf("VIOLATION property=%s replay=%s\n", r.Prop, p)
		case UNDECIDED:
			nund++
			fmt.Printf("UNDECIDED property=%s [%s] %s @ %s: %s\n", r.Prop, o.Rule, o.Construct, o.Pos, o.Detail)
		}
	}
	// floors
	var names []string
	for n := range r.Rules {
		names = append(names, n)
	}
	sort.Strings(names)
	var stats []*RuleStat
	for _, n := range names {
		rs := r.Rules[n]
		stats = append(stats, rs)
		if rs.Instances < rs.Floor {
			r.floorErr = append(r.floorErr, fmt.Sprintf("rule %s matched %d instances, floor %d", n, rs.Instances, rs.Floor))
		}
	}
	for _, e := range r.floorErr {
		fmt.Printf("ANALYSIS-ERROR: %s\n", e)
	}
	// evidence
	total, disch, nontriv := 0, 0, 0
	distinct := map[string]bool{}
	for _, o := range r.Obls {
		if o.Status == INFO {
			continue
		}
		total++
		if o.Status == OK || o.Status == AUDITED || o.Status == KNOWN {
			disch++
		}
		if o.NonTriv {
			k := o.Rule + "|" + o.Construct
			if !distinct[k] {
				distinct[k] = true
				nontriv++
			}
		}
	}
	var samples []interface{}
	samples = append(samples, r.Samples...)
	// include a spread of obligations as samples: all non-OK first, then OK ones
	cnt := 0
	for _, o := range r.Obls {
		if o.Status != OK && cnt < 60 {
			samples = append(samples, o)
			cnt++
		}
	}
	perRule := map[string]int{}
	for _, o := range r.Obls {
		if o.Status == OK && perRule[o.Rule] < 3 {
			perRule[o.Rule]++
			samples = append(samples, o)
		}
	}
	cov := map[string]interface{}{
		"explanation":         r.Explain,
		"not_decided":         r.NotDec,
		"obligations":         total,
		"discharged":          disch,
		"evaluations":         total + r.Scen,
		"distinct_nontrivial": nontriv,
		"rule":                "one obligation per (rule, construct) enumerated from the type-checked SSA program of /repo; non-trivial = needed a rule-specific discharge argument (dominance, provenance, idiom, table cell) or is a finding; distinct by rule+construct",
		"scenarios":           r.Scen,
		"rule_instances":      stats,
		"known_findings":      knownOut,
		"samples":             samples,
		"trusted_base":        r.Trusted,
		"checker_cmd":         fmt.Sprintf("bin/check %s %s", r.Prop, r.Tier),
		"exhaustive":          true,
	}
	for k, v := range r.Extra {
		cov[k] = v
	}
	ev := map[string]interface{}{
		"property_id": r.Prop,
		"tier":        r.Tier,
		"seed":        seed,
		"level":       "other",
		"coverage":    cov,
		"assumptions": r.Assume,
		"wall_s":      time.Since(procStart).Seconds(),
		"violations":  nviol,
	}
	if r.Assume == nil {
		ev["assumptions"] = append([]string{}, r.Trusted...)
	}
	if r.Trusted == nil {
		cov["trusted_base"] = []string{}
	}
	os.MkdirAll(filepath.Join(verif, "evidence"), 0o755)
	b, _ := json.MarshalIndent(ev, "", " ")
	if err := os.WriteFile(filepath.Join(verif, "evidence", r.Prop+".json"), b, 0o644); err != nil {
		die(2, "write evidence: %v", err)
	}
	fmt.Printf("SUMMARY property=%s tier=%s obligations=%d discharged=%d known=%d violations=%d undecided=%d scenarios=%d wall=%.1fs\n",
		r.Prop, r.Tier, total, disch, nknown, nviol, nund, r.Scen, time.Since(procStart).Seconds())
	if len(r.floorErr) > 0 || nund > 0 {
		if nviol > 0 {
			return 1
		}
		return 2
	}
	if nviol > 0 {
		return 1
	}
	return 0
}

func (r *Report) ruleDoc(rule string) string {
	if rs, ok := r.Rules[rule]; ok {
		return rs.Doc
	}
	return ""
}

func ord(n int) string { return fmt.Sprintf("#%d", n) }

func joinNames(xs []string) string { return strings.Join(xs, " -> ") }
