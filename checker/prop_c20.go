package main

import (
	"fmt"
	"go/ast"
	"go/constant"
	"go/token"
	"go/types"
	"reflect"
	"regexp"
	"sort"
	"strconv"
	"strings"

	"golang.org/x/tools/go/ssa"
)

func init() { props["C20"] = propC20 }

var jsonKeyRe = regexp.MustCompile(`"([a-z_]+)":`)

// templateAgreement: in every UnmarshalJSON of package fat2 the keys of the expected-length template literals
// must be json tags of the raw struct, and every tag without omitempty must occur in a template.
func templateAgreement(c *Ctx, r *Report, rule string) {
	pkg := c.PPkg["fat2"]
	n := 0
	// package-level functions the reference tree does not have: a template may have moved into one of them
	helpers := map[string]*ast.FuncDecl{}
	for _, file := range pkg.Syntax {
		for _, d := range file.Decls {
			if fd, ok := d.(*ast.FuncDecl); ok && fd.Recv == nil && fd.Body != nil && !referenceFuncs["fat2."+fd.Name.Name] {
				helpers[fd.Name.Name] = fd
			}
		}
	}
	// ... or into a method the reference tree does not have
	helperMethods := map[string]*ast.FuncDecl{}
	for _, file := range pkg.Syntax {
		for _, d := range file.Decls {
			if fd, ok := d.(*ast.FuncDecl); ok && fd.Recv != nil && fd.Body != nil && len(fd.Recv.List) == 1 {
				rt := strings.TrimPrefix(types_ExprString(fd.Recv.List[0].Type), "*")
				if !referenceFuncs["fat2."+rt+"."+fd.Name.Name] {
					helperMethods[fd.Name.Name] = fd
				}
			}
		}
	}
	for _, file := range pkg.Syntax {
		for _, d := range file.Decls {
			fd, ok := d.(*ast.FuncDecl)
			if !ok || fd.Name.Name != "UnmarshalJSON" || fd.Recv == nil || fd.Body == nil {
				continue
			}
			recv := types_ExprString(fd.Recv.List[0].Type)
			// raw struct: composite literal of an anonymous struct type assigned to tRaw
			tags := map[string]bool{}
			optional := map[string]bool{}
			var templates []string
			seenHelper := map[string]bool{}
			var inspect func(nd ast.Node) bool
			inspect = func(nd ast.Node) bool {
				if call, ok := nd.(*ast.CallExpr); ok {
					if id, ok := call.Fun.(*ast.Ident); ok {
						if h := helpers[id.Name]; h != nil && !seenHelper[id.Name] {
							seenHelper[id.Name] = true
							ast.Inspect(h.Body, inspect)
						}
					}
				}
				// the raw record: a value of an anonymous struct type (written in place, or through an alias) with json tags
				addTags := func(t types.Type) {
					if t == nil {
						return
					}
					t = types.Unalias(t)
					if p, ok := t.(*types.Pointer); ok {
						t = types.Unalias(p.Elem())
					}
					st, ok := t.(*types.Struct)
					if !ok {
						return
					}
					for i := 0; i < st.NumFields(); i++ {
						jt := reflect.StructTag(st.Tag(i)).Get("json")
						parts := strings.Split(jt, ",")
						if parts[0] == "" || parts[0] == "-" {
							continue
						}
						tags[parts[0]] = true
						for _, p := range parts[1:] {
							if p == "omitempty" {
								optional[parts[0]] = true
							}
						}
					}
				}
				if call, ok := nd.(*ast.CallExpr); ok {
					if sel, ok := call.Fun.(*ast.SelectorExpr); ok {
						if h := helperMethods[sel.Sel.Name]; h != nil && !seenHelper["."+sel.Sel.Name] {
							seenHelper["."+sel.Sel.Name] = true
							ast.Inspect(h.Body, inspect)
						}
					}
				}
				switch x := nd.(type) {
				case *ast.CompositeLit:
					addTags(pkg.TypesInfo.TypeOf(x))
				case *ast.ValueSpec:
					for _, nm := range x.Names {
						if obj := pkg.TypesInfo.Defs[nm]; obj != nil {
							addTags(obj.Type())
						}
					}
				case *ast.CallExpr:
					if id, ok := x.Fun.(*ast.Ident); ok && id.Name == "len" && len(x.Args) == 1 {
						if bl, ok := x.Args[0].(*ast.BasicLit); ok && bl.Kind == token.STRING {
							s, _ := strconv.Unquote(bl.Value)
							if strings.Contains(s, "\":") {
								templates = append(templates, s)
							}
						} else if tv, ok := pkg.TypesInfo.Types[x.Args[0]]; ok && tv.Value != nil && tv.Value.Kind() == constant.String {
							// a named constant holding the template
							if s := constant.StringVal(tv.Value); strings.Contains(s, "\":") {
								templates = append(templates, s)
							}
						}
					}
				}
				return true
			}
			ast.Inspect(fd.Body, inspect)
			if len(tags) == 0 {
				continue
			}
			n++
			inTemplates := map[string]bool{}
			var bad []string
			for _, t := range templates {
				for _, m := range jsonKeyRe.FindAllStringSubmatch(t, -1) {
					inTemplates[m[1]] = true
					if !tags[m[1]] {
						bad = append(bad, fmt.Sprintf("template `%s` counts key %q which the raw struct does not decode", t, m[1]))
					}
				}
			}
			for t := range tags {
				if !optional[t] && !inTemplates[t] {
					bad = append(bad, fmt.Sprintf("required key %q is decoded but never counted in an expected-length template: its presence or duplication is not checked", t))
				}
			}
			sort.Strings(bad)
			var tl []string
			for t := range tags {
				tl = append(tl, t)
			}
			sort.Strings(tl)
			r.check(len(bad) == 0 && len(templates) > 0, rule, recv+".UnmarshalJSON template vs raw struct", c.pos(fd.Pos()), fmt.Sprintf("%d template(s); tags %v", len(templates), tl), strings.Join(bad, "; ")+fmt.Sprintf(" (%d templates)", len(templates)))
		}
	}
	if n < 4 {
		r.viol(rule, "fat2 unmarshalers", "-", fmt.Sprintf("only %d UnmarshalJSON methods with a raw struct found (expected 4)", n))
	}
}

func types_ExprString(e ast.Expr) string {
	switch x := e.(type) {
	case *ast.StarExpr:
		return "*" + types_ExprString(x.X)
	case *ast.Ident:
		return x.Name
	}
	return "?"
}

func propC20(c *Ctx, r *Report) {
	r.Explain = "Thin by nature (the property quantifies over every byte string). Decided clauses: the ticker string table has exactly one name per enum constant in enum order (p-prefixed, PEG as is), so every known ticker and only those parse; every expected-JSON-length template of the four unmarshalers counts exactly keys the raw struct decodes and every non-optional key is counted (duplicate/unknown-key rejection rests on that length comparison); Transaction.Validate / IsConversion table: exactly one of transfers or a valid conversion, same-type conversion rejected, zero input rejected; TransactionBatch.Validate rejects an input amount above MaxInt64; ValidData table (shared with C05); Transaction.Validate bounds the transfers without wrap-around (shared with C03). Command line: FactoidToFactoshi checks the error of every numeric parse, guards the scaling multiplication against overflow and uses no floating-point arithmetic."
	r.NotDec = "that exactly the canonical language is accepted (jsonlen.Compact and encoding/json are trusted) and decode(encode(x)) = x"
	r.Trusted = []string{"encoding/json", "factom/jsonlen", "go/ssa", "go/ast"}
	tick, max := c.tickers()
	ruleCompactOrigin(c, r, "C20/compact-origin")
	ruleEncoderGate(c, r, "C20/encoder-gate")
	r.rule("C20/decimal-parse", 1, "the command line's amounts are parsed as decimal numbers")
	ruleDecimalParse(c, r, "C20/decimal-parse")
	{
		scope := map[*ssa.Function]bool{}
		for _, f := range c.Funcs {
			if f.Pkg != nil && f.Pkg.Pkg.Name() == "fat2" {
				scope[f] = true
			}
		}
		ruleAppendedRecordFresh(c, r, "C20/decoded-record-fresh", scope)
	}

	// ticker table
	r.rule("C20/ticker-table", 1, "validPTickerStrings[i] is the name of enum constant i+1")
	{
		strs := map[int64]string{}
		for _, f := range c.Funcs {
			if f.Pkg == nil || f.Pkg.Pkg.Name() != "fat2" || !strings.HasPrefix(f.Name(), "init") {
				continue
			}
			allInstrs(f, func(ins ssa.Instruction) {
				st, ok := ins.(*ssa.Store)
				if !ok {
					return
				}
				ia, ok := st.Addr.(*ssa.IndexAddr)
				if !ok {
					return
				}
				k, ok1 := st.Val.(*ssa.Const)
				ic, ok2 := ia.Index.(*ssa.Const)
				if !ok1 || !ok2 || k.Value == nil || k.Value.Kind() != constant.String {
					return
				}
				// the backing array of validPTickerStrings: element type string, stored in init
				s := constant.StringVal(k.Value)
				if len(s) >= 3 && (s == "PEG" || s[0] == 'p') {
					strs[ic.Int64()] = s
				}
			})
		}
		var bad []string
		if int64(len(strs)) != max-1 {
			bad = append(bad, fmt.Sprintf("%d ticker strings for %d enum constants", len(strs), max-1))
		}
		for name, v := range tick {
			want := "p" + name
			if name == "PEG" {
				want = "PEG"
			}
			if got := strs[v-1]; got != want {
				bad = append(bad, fmt.Sprintf("string %d is %q, expected %q (PTicker%s)", v-1, got, want, name))
			}
		}
		sort.Strings(bad)
		if len(bad) > 4 {
			bad = bad[:4]
		}
		r.check(len(bad) == 0, "C20/ticker-table", "fat2.validPTickerStrings vs PTicker constants", "-", fmt.Sprintf("%d tickers", len(strs)), strings.Join(bad, "; "))
		// the lookup table the decoder reads holds exactly those spellings: every key put into it is an element of
		// validPTickerStrings itself (not a transformed copy), the value its position + 1
		nput := 0
		var badKeys []string
		for _, f := range c.Funcs {
			if f.Pkg == nil || f.Pkg.Pkg.Name() != "fat2" {
				continue
			}
			allInstrs(f, func(ins ssa.Instruction) {
				mu, ok := ins.(*ssa.MapUpdate)
				if !ok {
					return
				}
				mt, ok := mu.Map.Type().Underlying().(*types.Map)
				if !ok || shortType(mt.Elem()) != "fat2.PTicker" || shortType(mt.Key()) != "string" {
					return
				}
				nput++
				k := mu.Key
				direct := false
				switch x := k.(type) {
				case *ssa.Extract: // range value over validPTickerStrings
					if nx, ok := x.Tuple.(*ssa.Next); ok && x.Index == 2 {
						if rg, ok := nx.Iter.(*ssa.Range); ok && valuePath(rg.X) == tickerStringsVar(c) {
							direct = true
						}
					}
				case *ssa.UnOp:
					if ia, ok := x.X.(*ssa.IndexAddr); ok && sliceHas(ia.X, func(v ssa.Value) bool { return valuePath(v) == tickerStringsVar(c) }) {
						direct = true
					}
				}
				if !direct {
					badKeys = append(badKeys, fmt.Sprintf("%s puts a key that is not an element of validPTickerStrings (%s) at %s", fname(f), stablePath(k, 0), c.ipos(mu)))
				}
			})
		}
		r.check(len(badKeys) == 0 && nput >= 1, "C20/ticker-table", "the ticker lookup table holds the canonical spellings only", "-", fmt.Sprintf("%d insertions", nput), strings.Join(badKeys, "; ")+": PTicker.UnmarshalJSON reads this table, so another spelling of a ticker is accepted in a signed batch")
		// StringToTicker looks the name up in the map built from that table as index+1
		vt := c.pkg("fat2").Func("init")
		_ = vt
	}

	r.rule("C20/json-templates", 4, "expected-length templates agree with the decoded keys")
	templateAgreement(c, r, "C20/json-templates")

	// mutually exclusive keys are never counted together
	r.rule("C20/exclusive-keys", 1, "the expected length never counts both transfers and conversion")
	exclusiveKeys(c, r, "C20/exclusive-keys")

	// Validate table
	r.rule("C20/validate-table", 8, "exactly one of transfers or conversion; same-type conversion rejected")
	tv := c.fn("fat2.Transaction.Validate")
	isc := c.fn("fat2.Transaction.IsConversion")
	acc := newTableAcc()
	acc.optional["init:fat2.TypedAddressAmountTuple.Amount"] = true // the running remainder, if the implementation has one
	for _, ntr := range []int64{0, 2} {
		for _, conv := range []int64{0, 5, max - 1} {
			for _, same := range []bool{false, true} {
				inType := int64(7)
				if same {
					inType = conv
				}
				sc := &Scenario{
					Lens:  map[string]AVal{"fat2.Transaction.Transfers": cInt(ntr)},
					Paths: map[string]AVal{"fat2.Transaction.Conversion": cInt(conv), "fat2.TypedAddressAmountTuple.Type": cInt(inType), "fat2.TypedAddressAmountTuple.Address": sym("addr"), fat2VarOfType(c, func(t types.Type) bool { return strings.HasSuffix(t.String(), "factom.FAAddress") }, "fat2.coinbase"): sym("coinbase"), "fat2.Transaction.Input": sym("input")},
					Phis:  map[string]AVal{"init:fat2.TypedAddressAmountTuple.Amount": cUint(0)},
					Order: func(a, b AVal) (int, bool) {
						if a.K == ASym && b.K == ASym {
							return 1, true // input address is not the coinbase address
						}
						return 0, false
					},
					MaxDepth: 1,
				}
				s := newSCCP(c, sc)
				st := s.run(tv, nil, 0)
				acc.absorb(s)
				r.Scen++
				errs := errorReturns(st)
				accepted := false
				for _, e := range errs {
					if e == "nil" {
						accepted = true
					}
				}
				validConv := conv > 0 && conv < max
				want := (ntr > 0 && conv == 0) || (ntr == 0 && validConv && !same)
				// transfers with an out-of-range conversion value: conversion > 0 -> "mutually exclusive" error
				if ntr > 0 && conv > 0 {
					want = false
				}
				cons := fmt.Sprintf("transfers=%d conversion=%d input type %s", ntr, conv, map[bool]string{true: "= conversion", false: "differs"}[same])
				r.check(accepted == want, "C20/validate-table", cons, c.pos(tv.Pos()), map[bool]string{true: "accepted", false: "rejected"}[want], fmt.Sprintf("results %v, expected %s", errs, map[bool]string{true: "accepted", false: "rejected"}[want]))
			}
		}
	}
	acc.report(c, r, "C20/validate-table", tv)
	_ = isc
	// a decoded ticker is always a table value (so Conversion >= PTickerMax cannot come out of the parser)
	{
		um := c.fn("fat2.PTicker.UnmarshalJSON")
		var bad []string
		n := 0
		allInstrs(um, func(ins ssa.Instruction) {
			st, ok := ins.(*ssa.Store)
			if !ok || st.Addr != ssa.Value(um.Params[0]) {
				return
			}
			n++
			if k, ok := st.Val.(*ssa.Const); ok && k.Int64() == 0 {
				return
			}
			fromTable := func(v ssa.Value) bool {
				lk, ok := v.(*ssa.Lookup)
				return ok && valuePath(lk.X) == tickerMapVar(c)
			}
			okSrc := sliceHas(st.Val, fromTable)
			if !okSrc {
				// through a module function of the package every return of which is a table value or the Invalid constant
				// (StringToTicker)
				if call, ok := unwrapConv(st.Val).(*ssa.Call); ok {
					if sc := call.Common().StaticCallee(); sc != nil && sc.Pkg != nil && sc.Pkg.Pkg.Name() == "fat2" && sc.Blocks != nil {
						all := true
						for _, rt := range returnsIn(blockSet(sc)) {
							if len(rt.Results) != 1 {
								all = false
								continue
							}
							rv := rt.Results[0]
							if k, ok := rv.(*ssa.Const); ok && k.Value != nil && k.Int64() == 0 {
								continue
							}
							if !sliceHas(rv, fromTable) {
								all = false
							}
						}
						okSrc = all
					}
				}
			}
			if !okSrc {
				bad = append(bad, "a value not taken from validPTickers is stored at "+c.ipos(ins))
			}
		})
		r.check(len(bad) == 0 && n > 0, "C20/validate-table", "PTicker.UnmarshalJSON yields only table values or Invalid", c.pos(um.Pos()), "", strings.Join(bad, "; "))
	}
	ruleInputAmountBound(c, r, "C20/validate-table")
	ruleValidDataTable(c, r, "C20/valid-data")
	ruleValidateBounds(c, r, "C20/transfer-sum-exact")

	// the string converted is the string the user typed
	r.rule("C20/cli-amount-provenance", 2, "amount strings reach FactoidToFactoshi untransformed")
	for _, e := range c.callSitesOf(c.fn("cmd.FactoidToFactoshi")) {
		ci := e.Site.(ssa.CallInstruction)
		var trans []string
		backSlice(ci.Common().Args[0], func(v ssa.Value) bool {
			if call, ok := v.(*ssa.Call); ok {
				n := calleeName(call.Common())
				if b, ok := call.Call.Signature().Results().At(0).Type().Underlying().(*types.Basic); call.Call.Signature().Results().Len() > 0 && ok && b.Kind() == types.String {
					if !strings.Contains(n, "pflag.") && !strings.Contains(n, "cobra.") && !strings.Contains(n, "viper.") {
						trans = append(trans, n)
					}
				}
			}
			return true
		})
		r.check(len(trans) == 0, "C20/cli-amount-provenance", fmt.Sprintf("%s -> FactoidToFactoshi", fname(e.Caller)), c.ipos(ci), "argument is the command-line string itself", "the amount string is rewritten by "+strings.Join(uniq(trans), ", ")+" before it is converted: what is signed need not be what the user typed")
	}

	// command line amounts
	r.rule("C20/cli-amounts", 2, "FactoidToFactoshi converts exactly or rejects")
	ftf := c.fn("cmd.FactoidToFactoshi")
	{
		// every numeric parse has its error checked
		n := 0
		fam := c.family(ftf) // the conversion may be split into stages
		for _, g := range fam {
			for _, ci := range callsOf(g) {
				name := calleeName(ci.Common())
				if !strings.HasPrefix(name, "strconv.") || errResultIndex(ci.Common().Signature()) < 0 {
					continue
				}
				n++
				ef := &errflow{c: c, sync: c.Sync}
				site := &ErrSite{Fn: g, Call: ci, Callee: name, Ord: n}
				ef.analyse(g, ci, site)
				r.check(site.Problem == "", "C20/cli-amounts", fmt.Sprintf("FactoidToFactoshi -> %s %s", name, ord(n)), c.ipos(ci), "error checked", "the error of "+name+" is discarded ("+site.Problem+"): an amount that does not fit is silently replaced (e.g. \"99999999999999999999\" becomes 0)")
			}
			if g != ftf {
				// a stage's own error must reach the caller of FactoidToFactoshi too
				for _, cs := range c.familyCallSites(g) {
					if errResultIndex(cs.Common().Signature()) < 0 {
						continue
					}
					ef := &errflow{c: c, sync: c.Sync}
					site := &ErrSite{Fn: cs.Parent(), Call: cs, Callee: fname(g), Ord: 1}
					ef.analyse(cs.Parent(), cs, site)
					r.check(site.Problem == "", "C20/cli-amounts", fmt.Sprintf("%s -> %s", fname(cs.Parent()), fname(g)), c.ipos(cs), "error checked", "the error of the stage is discarded ("+site.Problem+")")
				}
			}
		}
		if n == 0 {
			r.viol("C20/cli-amounts", "numeric parses in FactoidToFactoshi", c.pos(ftf.Pos()), "no strconv parse call found")
		}
		// the scaling multiplication by 1e8 is overflow-guarded
		var muls []*ssa.BinOp
		floatOps := 0
		for _, g := range fam {
			allInstrs(g, func(ins ssa.Instruction) {
				if bo, ok := ins.(*ssa.BinOp); ok {
					if bo.Op == token.MUL && isIntType(bo.Type()) {
						muls = append(muls, bo)
					}
					if isFloatType(bo.Type()) {
						floatOps++
					}
				}
				if ci, ok := ins.(ssa.CallInstruction); ok {
					nm := calleeName(ci.Common())
					if nm == "strconv.ParseFloat" || strings.HasPrefix(nm, "math.") {
						floatOps++
					}
				}
				if cv, ok := ins.(*ssa.Convert); ok && isFloatType(cv.X.Type()) {
					floatOps++
				}
			})
		}
		r.check(floatOps == 0, "C20/cli-amounts", "no floating-point arithmetic in the amount conversion", c.pos(ftf.Pos()), "", fmt.Sprintf("%d floating-point operations/calls: a float64 has 53 bits of mantissa, so large amounts are rounded silently", floatOps))
		for i, m := range muls {
			guarded := false
			// a dominating comparison of the multiplicand with a constant bound, failing side returns an error
			for _, b := range m.Parent().Blocks {
				cond, _, _ := condEdge(b)
				cb, ok := cond.(*ssa.BinOp)
				if !ok || !(cb.Op == token.GTR || cb.Op == token.LSS || cb.Op == token.GEQ || cb.Op == token.LEQ) {
					continue
				}
				if (sameExpr(cb.X, m.X) || sameExpr(cb.Y, m.X) || sameExpr(cb.X, m.Y) || sameExpr(cb.Y, m.Y)) && b.Dominates(m.Block()) {
					guarded = true
				}
			}
			// multiplications whose operands are both bounded by construction (fraction digits < 1e8) are accepted when an operand is < 1e8 by a length test
			r.check(guarded, "C20/cli-amounts", fmt.Sprintf("scaling multiplication %s overflow-guarded", ord(i+1)), c.ipos(m), "", "integer multiplication "+valueDesc2(m.X)+" * "+valueDesc2(m.Y)+" without a dominating range check: the product wraps modulo 2^64 (e.g. \"184467440738\" FCT becomes a small number)")
		}
	}
}

// exclusiveKeys: in Transaction.UnmarshalJSON the value compared with len(data) is a sum of lengths; on no
// path may it contain both len(tRaw.Transfers) and len(tRaw.Conversion).
func exclusiveKeys(c *Ctx, r *Report, rule string) {
	um := c.fn("fat2.Transaction.UnmarshalJSON")
	// the comparison expectedJSONLen != len(data)
	var sum ssa.Value
	isBytes := func(t types.Type) bool {
		sl, ok := t.Underlying().(*types.Slice)
		if !ok {
			return false
		}
		b, ok := sl.Elem().Underlying().(*types.Basic)
		return ok && b.Kind() == types.Uint8
	}
	for _, g := range c.family(um) { // the comparison may have been moved into a helper shared by the unmarshalers
		allInstrs(g, func(ins ssa.Instruction) {
			bo, ok := ins.(*ssa.BinOp)
			if !ok || (bo.Op != token.NEQ && bo.Op != token.EQL) {
				return
			}
			for _, pair := range [][2]ssa.Value{{bo.X, bo.Y}, {bo.Y, bo.X}} {
				lc, ok := pair[1].(*ssa.Call)
				if !ok {
					continue
				}
				bi, ok := lc.Call.Value.(*ssa.Builtin)
				if !ok || bi.Name() != "len" || !isIntType(pair[0].Type()) || !isBytes(lc.Call.Args[0].Type()) {
					continue
				}
				if g == um {
					sum = pair[0]
					continue
				}
				// in a helper: the expected length is one of its parameters; take what Transaction.UnmarshalJSON passes
				if i := ownParam(pair[0], g); i >= 0 {
					for _, cs := range c.familyCallSites(g) {
						if cs.Parent() == um && i < len(cs.Common().Args) {
							sum = cs.Common().Args[i]
						}
					}
				}
			}
		})
	}
	if sum == nil {
		r.viol(rule, "Transaction.UnmarshalJSON length comparison", c.pos(um.Pos()), "no comparison of an expected length with len(data) found: duplicate and unknown keys are not rejected")
		return
	}
	// alternatives: sets of raw fields whose length contributes
	type set map[string]bool
	paramSub := map[*ssa.Parameter]ssa.Value{}
	var alts func(v ssa.Value, depth int) []set
	alts = func(v ssa.Value, depth int) []set {
		if depth > 12 {
			return []set{{"?": true}}
		}
		switch x := v.(type) {
		case *ssa.Const:
			return []set{{}}
		case *ssa.BinOp:
			if x.Op == token.ADD {
				var out []set
				for _, a := range alts(x.X, depth+1) {
					for _, b := range alts(x.Y, depth+1) {
						m := set{}
						for k := range a {
							m[k] = true
						}
						for k := range b {
							m[k] = true
						}
						out = append(out, m)
					}
				}
				return out
			}
		case *ssa.Phi:
			// a phi that depends on itself is a loop accumulation: everything added in the loop can be counted together
			var out []set
			for _, e := range x.Edges {
				if e == v {
					continue
				}
				out = append(out, alts(e, depth+1)...)
			}
			return out
		case *ssa.Call:
			// the expected length computed by a helper split off from the unmarshaler: its return value(s), with the
			// helper's parameters standing for what the caller passes
			if sc := x.Call.StaticCallee(); sc != nil && isNewHelper(sc) && sc.Blocks != nil && depth < 6 {
				for i, a := range x.Call.Args {
					if i < len(sc.Params) {
						if p, isP := a.(*ssa.Parameter); isP {
							if prev, had := paramSub[p]; had {
								a = prev
							}
						}
						paramSub[sc.Params[i]] = a
					}
				}
				var out []set
				for _, rt := range returnsIn(blockSet(sc)) {
					if len(rt.Results) == 1 {
						out = append(out, alts(rt.Results[0], depth+1)...)
					}
				}
				if len(out) > 0 {
					return out
				}
			}
			if bi, ok := x.Call.Value.(*ssa.Builtin); ok && bi.Name() == "len" {
				arg := x.Call.Args[0]
				if p, isP := arg.(*ssa.Parameter); isP {
					if a, had := paramSub[p]; had {
						arg = a
					}
				}
				tp := typePath(arg)
				if tp == "" {
					tp = valuePath(arg)
				}
				if i := strings.LastIndex(tp, "."); i >= 0 {
					tp = tp[i+1:]
				}
				return []set{{tp: true}}
			}
		case *ssa.Convert:
			return alts(x.X, depth+1)
		}
		return []set{{"?": true}}
	}
	var bad []string
	n := 0
	for _, a := range alts(sum, 0) {
		n++
		if a["Transfers"] && a["Conversion"] {
			bad = append(bad, "an accepted length counts both the transfers and the conversion key: a transaction carrying both keys can be accepted")
		}
		if a["?"] {
			bad = append(bad, "the expected length is not a sum of constant template lengths and raw field lengths (computed in a loop or by a helper): which keys may occur together is not decided by the length test")
		}
		if !a["Input"] {
			bad = append(bad, "an accepted length does not count the input")
		}
	}
	r.check(len(bad) == 0 && n >= 2, rule, "Transaction.UnmarshalJSON expected length alternatives", c.pos(um.Pos()), fmt.Sprintf("%d alternatives, none with both keys", n), strings.Join(uniq(bad), "; "))
}

// ruleInputAmountBound: TransactionBatch.Validate rejects any input amount above MaxInt64 (whatever the kind of
// transaction): larger values cannot be bound as SQL parameters and cannot be converted.
func ruleInputAmountBound(c *Ctx, r *Report, rule string) {
	// input amount bound
	tbv := c.fn("fat2.TransactionBatch.Validate")
	for _, cs := range []struct {
		amt  string
		ok   bool
		name string
	}{{"9223372036854775807", true, "MaxInt64"}, {"9223372036854775808", false, "MaxInt64+1"}} {
		v := constant.MakeFromLiteral(cs.amt, token.INT, 0)
		sc := &Scenario{Paths: map[string]AVal{"fat2.TypedAddressAmountTuple.Amount": {K: AConst, C: v}}, Calls: map[string]AVal{"ValidData": nilVal, "ValidExtIDs": nilVal}, MaxDepth: 0}
		st := newSCCP(c, sc).run(tbv, nil, 0)
		r.Scen++
		le := loopOverFam(c, sc, tbv, st, "fat2.TransactionBatch.Transactions", 1)
		got := le.String()
		want := "next"
		if !cs.ok {
			want = "err:fresh"
		}
		r.check(le.Found && got == want, rule, "input amount "+cs.name, c.pos(tbv.Pos()), want, "loop exits {"+got+"}, expected {"+want+"}")
	}
}

// tickerStringsVar / tickerMapVar: the package-level list of ticker names and the name -> ticker lookup table of
// package fat2, found by their types (there is one of each), not by their names.
func tickerStringsVar(c *Ctx) string {
	return fat2VarOfType(c, func(t types.Type) bool {
		switch x := t.Underlying().(type) {
		case *types.Slice:
			b, ok := x.Elem().Underlying().(*types.Basic)
			return ok && b.Kind() == types.String
		case *types.Array:
			b, ok := x.Elem().Underlying().(*types.Basic)
			return ok && b.Kind() == types.String
		}
		return false
	}, "fat2.validPTickerStrings")
}

func tickerMapVar(c *Ctx) string {
	return fat2VarOfType(c, func(t types.Type) bool {
		m, ok := t.Underlying().(*types.Map)
		if !ok {
			return false
		}
		b, ok := m.Key().Underlying().(*types.Basic)
		return ok && b.Kind() == types.String && strings.HasSuffix(m.Elem().String(), "fat2.PTicker")
	}, "fat2.validPTickers")
}

func fat2VarOfType(c *Ctx, match func(types.Type) bool, fallback string) string {
	p := c.SPkg["fat2"]
	if p == nil {
		return fallback
	}
	var found []string
	for name, m := range p.Members {
		if g, ok := m.(*ssa.Global); ok {
			if pt, ok := g.Type().(*types.Pointer); ok && match(pt.Elem()) {
				found = append(found, "fat2."+name)
			}
		}
	}
	if len(found) == 1 {
		return found[0]
	}
	return fallback
}
