package main

import (
	"fmt"
	"go/token"
	"sort"
	"strings"

	"golang.org/x/tools/go/ssa"
)

func init() { props["C04"] = propC04 }

// protocol events: the calls made by the sync root / SyncBlock below which balance mutation is allowed.
var eventRoots = map[string]string{
	"node.Pegnetd.NullifyBurnAddress":               "one-time adjustment: burn-address zeroing",
	"node.Pegnetd.MintTokensForBalance":             "one-time adjustment: 2.0.4 mint",
	"node.Pegnetd.NullifyMintedTokens":              "one-time adjustment: burn of the 2.0.4 remainder",
	"node.Pegnetd.SnapshotPayouts":                  "holder staking payouts",
	"node.Pegnetd.ApplyTransactionBatchesInHolding": "transfers and conversions (held batches)",
	"node.Pegnetd.ApplyTransactionBlock":            "transfers (immediate batches)",
	"node.Pegnetd.ApplyFactoidBlock":                "FCT burns",
	"node.Pegnetd.ApplyGradedOPRBlock":              "mining rewards",
	"node.Pegnetd.ApplyGradedSPRBlock":              "staking (SPR) rewards",
	"node.Pegnetd.DevelopersPayouts":                "developer rewards",
}

func propC04(c *Ctx, r *Report) {
	r.Explain = "Decides the structural conditions of supply conservation: (R1) the only statements that write pn_addresses are the upsert in AddToBalance and the guarded UPDATE in SubFromBalance (DDL at start-up aside); (R2) every call of a balance mutator is reachable from the sync root only below one of the ten enumerated protocol-event functions, and from no API handler or CLI command; (R3) transfer conservation in recordBatch: one debit of (tx.Input.Address, tx.Input.Type, tx.Input.Amount) per transaction and, per transfer, one credit of the same ticker with the amount and address of that same transfer, the only uncredited output being the burn address, whose exemption must be confined to its activation era; (R4) a conversion credits exactly once: tx.Input.Address, ticker tx.Conversion, amount = the Convert result that is recorded in history; (R5) the legacy second pass credits PEG requests only. Together with C03-R7 (input = sum of transfers, no wrap) R3 gives debit = sum of credits."
	r.NotDec = "per-block numeric equality of supply deltas with the events' amounts (runtime values)"
	r.Trusted = []string{"go/ssa", "module call graph", "SQL catalogue"}
	cat := buildSQLCat(c)
	// exactly its own amounts: a recorded request must not alias the loop variable it was read from (go 1.13
	// semantics: one variable per loop), shared with C11/C16
	r.rule("C04-R12/loopvar-alias", 1, "no address of a per-loop variable is retained across iterations in block processing")
	ruleLoopVarAlias(c, r, "C04-R12/loopvar-alias", c.RSync)
	r.rule("C04-R13/payout-entry-per-request", 1, "every deferred PEG request has an entry in the payout map (its refund is computed from it)")
	rulePayoutEntryPerRequest(c, r, "C04-R13/payout-entry-per-request")
	// a debited PEG request is either settled or was rejected before the debit (shared with C03-R9)
	rulePegRequestComplete(c, r, "C04-R14/peg-request-complete")
	// a one-time issuance is decided from the height, not from what this process remembers (shared engine)
	ruleNoCarriedReads(c, newSharedAnalysis(c), r, "C04-R15/no-carried-state", c.RSync, carriedAllowedAverages, "block processing")
	ruleBurnTransferEra(c, r, "C04-R16/burn-transfer-era")
	rulePayoutsPure(c, r, "C04-R17/payouts-pure")
	ruleBurnTable(c, r, "C04-R18/burn-table")

	r.rule("C04-R1/balance-writers", 2, "only the two mutators write pn_addresses")
	ruleTableWriters(c, cat, r, "C04-R1/balance-writers", "pn_addresses", []writerSpec{
		{"pegnet.Pegnet.AddToBalance", "INSERT", "ON CONFLICT DO UPDATE"},
		{"pegnet.Pegnet.SubFromBalance", "UPDATE", ""},
	}, true)
	// the upsert adds, never overwrites
	for _, st := range cat.Stmts {
		if fname(st.Fn) == "pegnet.Pegnet.AddToBalance" && st.Verb == "INSERT" {
			norm := strings.Join(strings.Fields(st.Text), " ")
			okAdd := strings.Contains(norm, "_balance\" = \"") && strings.Contains(norm, "_balance\" + \"excluded\".")
			r.check(okAdd, "C04-R1/balance-writers", "AddToBalance upsert adds the new value to the old", c.ipos(st.Site), "", "ON CONFLICT clause is not `balance = balance + excluded.balance`: "+oneLine(st.Text))
		}
	}

	// R2 event roots
	r.rule("C04-R2/event-roots", 7, "balance mutators are reachable only below the enumerated protocol events")
	add := c.fn("pegnet.Pegnet.AddToBalance")
	sub := c.fn("pegnet.Pegnet.SubFromBalance")
	// reach from SYNC avoiding the event roots
	avoid := map[*ssa.Function]bool{}
	for n := range eventRoots {
		f := c.fnOpt(strings.Replace(strings.Replace(n, "(*", "", 1), ")", "", 1))
		if f == nil {
			r.viol("C04-R2/event-roots", "event root "+n, "-", "event function not found (renamed?)")
			continue
		}
		avoid[f] = true
	}
	outside := map[*ssa.Function]bool{c.Sync: true}
	st := []*ssa.Function{c.Sync}
	for len(st) > 0 {
		f := st[len(st)-1]
		st = st[:len(st)-1]
		for _, e := range c.CG[f] {
			if avoid[e.Callee] || outside[e.Callee] || e.Callee == add || e.Callee == sub {
				continue
			}
			outside[e.Callee] = true
			st = append(st, e.Callee)
		}
	}
	sites := append(c.callSitesOf(add), c.callSitesOf(sub)...)
	ordn := newOrdinals()
	for _, s := range sites {
		key := fmt.Sprintf("%s -> %s", fname(s.Caller), shortCallee(s.Site.(ssa.CallInstruction).Common()))
		cons := fmt.Sprintf("%s %s", key, ord(ordn.next(key)))
		switch {
		case s.Caller == sub || s.Caller == add:
			r.ok("C04-R2/event-roots", cons, c.ipos(s.Site), "mutator-internal (zero-value insert)")
		case c.RAPI[s.Caller]:
			r.viol("C04-R2/event-roots", cons, c.ipos(s.Site), "balance mutator reachable from an API handler: "+joinNames(c.pathTo(c.API[0], s.Caller)))
		case outside[s.Caller]:
			r.viol("C04-R2/event-roots", cons, c.ipos(s.Site), "balance mutator called on the sync path outside every enumerated protocol event ("+joinNames(c.pathTo(c.Sync, s.Caller))+"): value is created or destroyed by an event the protocol does not define")
		case !c.RSync[s.Caller]:
			r.viol("C04-R2/event-roots", cons, c.ipos(s.Site), "balance mutator called from "+fname(s.Caller)+", which is not part of block processing")
		default:
			// below which events?
			var evs []string
			for f := range avoid {
				if c.reach(f)[s.Caller] {
					evs = append(evs, f.Name())
				}
			}
			sort.Strings(evs)
			r.okNT("C04-R2/event-roots", cons, c.ipos(s.Site), "below event(s): "+strings.Join(evs, ","))
		}
	}
	// the event functions themselves are called from the sync root / SyncBlock only
	for f := range avoid {
		for _, s := range c.callSitesOf(f) {
			cn := fname(s.Caller)
			inPipeline := cn == "node.Pegnetd.SyncBlock" || cn == "node.Pegnetd.DBlockSync"
			if !inPipeline {
				// a stage split off from SyncBlock / DBlockSync after the reference tree is part of the pipeline
				for _, on := range c.ownerNames(s.Caller) {
					if on == "node.Pegnetd.SyncBlock" || on == "node.Pegnetd.DBlockSync" {
						inPipeline = isNewHelper(s.Caller) || s.Caller.Parent() != nil // a later helper, or a closure of the pipeline function
					}
				}
			}
			if !inPipeline {
				r.viol("C04-R2/event-roots", "event "+f.Name()+" called from "+cn, c.ipos(s.Site), "a protocol event function has a caller other than the block pipeline")
			}
		}
	}

	// R3 transfer conservation
	r.rule("C04-R3/transfer-conservation", 3, "one debit per transaction, one credit per transfer, same ticker")
	rb := c.bodyOf(c.fn("node.Pegnetd.recordBatch"), "pegnet.Pegnet.SubFromBalance") // recordBatch, or the closure/helper its per-transaction body was moved into
	subs := findCalls(rb, "pegnet.Pegnet.SubFromBalance")
	adds := findCalls(rb, "pegnet.Pegnet.AddToBalance")
	if len(subs) != 1 || len(adds) != 2 {
		r.viol("C04-R3/transfer-conservation", "recordBatch mutator call sites", c.pos(rb.Pos()), fmt.Sprintf("%d SubFromBalance and %d AddToBalance call sites (expected 1 debit, 1 conversion credit, 1 transfer credit)", len(subs), len(adds)))
		return
	}
	debit := subs[0]
	da := debit.Common().Args
	var bad []string
	if typePath(da[3]) != "fat2.TypedAddressAmountTuple.Type" || typePath(da[4]) != "fat2.TypedAddressAmountTuple.Amount" || !strings.HasSuffix(typePath(da[2]), "TypedAddressAmountTuple.Address") {
		bad = append(bad, fmt.Sprintf("debit is (%s, %s, %s), expected the transaction's input address, type and amount", typePath(da[2]), typePath(da[3]), typePath(da[4])))
	}
	txRoots := elemRoots(da[4])
	r.check(len(bad) == 0, "C04-R3/transfer-conservation", "debit = tx.Input (address, type, amount)", c.ipos(debit), "", strings.Join(bad, "; "))
	var convCredit, xferCredit ssa.CallInstruction
	for _, a := range adds {
		if strings.HasSuffix(typePath(a.Common().Args[4]), "AddressAmountTuple.Amount") && !strings.Contains(typePath(a.Common().Args[4]), "Typed") {
			xferCredit = a
		} else {
			convCredit = a
		}
	}
	if xferCredit == nil || convCredit == nil {
		r.viol("C04-R3/transfer-conservation", "transfer credit and conversion credit identified", c.pos(rb.Pos()), "could not tell the transfer credit from the conversion credit by their amount arguments")
		return
	}
	xa := xferCredit.Common().Args
	bad = nil
	if typePath(xa[3]) != "fat2.TypedAddressAmountTuple.Type" {
		bad = append(bad, "transfer credited in "+typePath(xa[3])+valuePath(xa[3])+", expected the input's ticker")
	} else if rr := elemRoots(xa[3]); len(rr) == 0 || len(txRoots) == 0 || rr[0] != txRoots[0] {
		bad = append(bad, "credited ticker is read from a different transaction than the debit")
	}
	amtRoots, adrRoots := elemRoots(xa[4]), elemRoots(xa[2])
	if typePath(xa[4]) != "fat2.AddressAmountTuple.Amount" {
		bad = append(bad, "credited amount is "+typePath(xa[4])+", expected transfer.Amount")
	}
	if !strings.HasSuffix(typePath(xa[2]), "AddressAmountTuple.Address") || len(amtRoots) == 0 || len(adrRoots) == 0 || amtRoots[0] != adrRoots[0] {
		bad = append(bad, "credited address and amount are not taken from the same transfer")
	}
	// credit inside a loop over tx.Transfers, dominated by the debit
	if !instrDominates(debit, xferCredit) {
		bad = append(bad, "a transfer can be credited without the debit having happened")
	}
	inLoop := false
	for _, l := range naturalLoops(rb) {
		if l.blocks[xferCredit.Block()] && !l.blocks[debit.Block()] {
			inLoop = true
		}
	}
	if !inLoop {
		bad = append(bad, "the transfer credit is not in a per-transfer loop nested inside the per-transaction loop")
	}
	r.check(len(bad) == 0, "C04-R3/transfer-conservation", "credit = (transfer.Address, tx.Input.Type, transfer.Amount) per transfer", c.ipos(xferCredit), "", strings.Join(bad, "; "))

	// burn exemption
	burnExemption(c, r, rb, xferCredit)

	// R4 conversion credit
	r.rule("C04-R4/conversion-credit", 2, "a conversion credits the converted amount once, to the sender, in the destination asset")
	ca := convCredit.Common().Args
	bad = nil
	if typePath(ca[3]) != "fat2.Transaction.Conversion" {
		bad = append(bad, "credited ticker is "+typePath(ca[3])+", expected tx.Conversion")
	}
	if !strings.HasSuffix(typePath(ca[2]), "TypedAddressAmountTuple.Address") {
		bad = append(bad, "credited address is not tx.Input.Address")
	}
	var convRes ssa.Value
	backSlice(ca[4], func(v ssa.Value) bool {
		if ex, ok := v.(*ssa.Extract); ok && ex.Index == 0 && isCallTo(ex.Tuple, "Convert") {
			convRes = ex
		}
		return true
	})
	if convRes == nil {
		bad = append(bad, "credited amount is not the result of Convert")
	} else {
		hist := findCalls(rb, "pegnet.Pegnet.SetTransactionHistoryConvertedAmount")
		if len(hist) != 1 || hist[0].Common().Args[4] != convRes {
			bad = append(bad, "the amount recorded in history is not the same value as the amount credited")
		}
		if call := convRes.(*ssa.Extract).Tuple.(*ssa.Call); !instrDominates(call, convCredit) {
			bad = append(bad, "credit not dominated by its Convert call")
		}
	}
	r.check(len(bad) == 0, "C04-R4/conversion-credit", "recordBatch conversion branch", c.ipos(convCredit), "AddToBalance(tx.Input.Address, tx.Conversion, Convert(...)) with the same value in history", strings.Join(bad, "; "))
	// exactly one of the two credits per transaction: they are in exclusive branches of IsConversion
	excl := !instrReaches(convCredit, xferCredit) || !instrReaches(xferCredit, convCredit)
	sameIter := false
	for _, l := range naturalLoops(rb) {
		if l.blocks[convCredit.Block()] && l.blocks[xferCredit.Block()] {
			sameIter = true
		}
	}
	_ = excl
	if rb.Parent() != nil || isNewHelper(rb) {
		sameIter = true // the per-transaction body was moved into a closure/helper: one call of it is one iteration
	}
	r.check(sameIter && !convCredit.Block().Dominates(xferCredit.Block()) && !xferCredit.Block().Dominates(convCredit.Block()), "C04-R4/conversion-credit", "conversion credit and transfer credits are alternative branches", c.ipos(convCredit), "", "a transaction can be credited both as a conversion and as a transfer")

	// shared with C03: input = sum of transfers without wrap-around; a mid-batch failure fails the block
	ruleValidateBounds(c, r, "C04-R3/input-equals-outputs")
	ruleMidBatchFailure(c, r, "C04-R6/no-partial-batch")

	// every deferred (debited) PEG request reaches the settlement exactly once (shared with C06/C16)
	r.rule("C04-R7/requests-settled", 1, "the list of deferred PEG requests handed to the settlement is complete and not stale")
	{
		hold := c.fn("node.Pegnetd.ApplyTransactionBatchesInHolding")
		for _, ci := range findCalls(hold, "node.Pegnetd.recordPegnetRequests") {
			if l := innermostLoop(hold, ci.Block()); l != nil {
				settleOnce(c, r, "C04-R7/requests-settled", hold, ci, l)
			}
		}
	}
	// the unfilled part of a PEG request is given back: nothing is destroyed when the share rounds to zero (shared with C16)
	ruleRefundFormula(c, r, "C04-R9/refund-formula")
	// FCT burns issue pFCT only before PegNet 2.0 (shared with C11)
	{
		e4 := newEraCtx(c, r)
		r.rule("C04-R10/burn-era", 1, "FCT burns are credited only before 2.0")
		e4.evalRows(r, []row{burnRow(e4, "C04-R10/burn-era")})
	}
	// the one-time burn of the minted supply destroys exactly the minted tickers (shared with C15)
	ruleMintBurnScope(c, r, "C04-R11/mint-burn-scope")
	// developer rewards are one of the enumerated events: exactly their amounts (shared with C15)
	ruleDevRewards(c, r, newEraCtx(c, r), "C04-R8/dev-reward-amounts")
	// R5 second pass
	r.rule("C04-R5/second-pass-peg-only", 1, "the PEG bank pass credits PEG requests only")
	secondPassPEGOnly(c, r, "C04-R5/second-pass-peg-only")
}

// burnExemption: the only uncredited transfer output is the global burn address, from its activation on.
func burnExemption(c *Ctx, r *Report, rb *ssa.Function, credit ssa.CallInstruction) {
	burnExemptionRule(c, r, rb, credit, "C04-R3/transfer-conservation", "C04-R3/burn-exemption-era")
}

func burnExemptionRule(c *Ctx, r *Report, rb *ssa.Function, credit ssa.CallInstruction, rule, eraRule string) {
	// the condition guarding the credit
	var cmp *ssa.BinOp
	var burnEdge, cmpBlock *ssa.BasicBlock
	for _, b := range rb.Blocks {
		bo, ne, eq := eqEdges(b)
		if bo != nil && blockOrDom(ne, credit.Block()) && len(ne.Preds) == 1 && (strings.HasSuffix(typePath(bo.X), "AddressAmountTuple.Address") || strings.HasSuffix(typePath(bo.Y), "AddressAmountTuple.Address")) {
			if strings.HasSuffix(typePath(bo.Y), "AddressAmountTuple.Address") {
				bo = &ssa.BinOp{Op: bo.Op, X: bo.Y, Y: bo.X} // normalised: transfer address on the left
			}
			cmp = bo
			burnEdge, cmpBlock = eq, b
		}
	}
	if cmp == nil {
		r.viol(rule, "burn-address exemption", c.ipos(credit), "the transfer credit is not guarded by `transfer.Address != <burn address>`; either every output is credited (then the burn address accumulates supply) or the guard changed shape")
		return
	}
	// every iteration of the transfer loop either credits or takes the burn edge of that comparison
	if l := innermostLoop(rb, credit.Block()); l != nil {
		skip := false
		seen := map[*ssa.BasicBlock]bool{}
		var walk func(b, from *ssa.BasicBlock)
		walk = func(b, from *ssa.BasicBlock) {
			if skip || !l.blocks[b] || b == credit.Block() {
				return
			}
			if b == burnEdge && from == cmpBlock {
				return
			}
			if b == l.header && from != nil {
				skip = true
				return
			}
			if seen[b] {
				return
			}
			seen[b] = true
			for _, s2 := range b.Succs {
				if _, isIf := b.Instrs[len(b.Instrs)-1].(*ssa.If); isIf {
					walk(s2, b)
				} else {
					walk(s2, nil2(b, burnEdge))
				}
			}
		}
		walk(l.header, nil)
		r.check(!skip, rule, "every transfer that is not to the burn address is credited", c.ipos(credit), "no path round the transfer loop avoids the credit except the burn edge", "an iteration of the transfer loop can complete without crediting the output although it is not the burn address: the input is debited in full, so supply is destroyed")
	}
	// the comparand: a local holding NewFAAddress(GlobalBurnAddress), lifted to a phi or kept in an alloc
	fromBurn := func(v ssa.Value) bool {
		return sliceHas(v, func(x ssa.Value) bool {
			if call, ok := x.(*ssa.Call); ok && shortCallee(call.Common()) == "NewFAAddress" {
				return valuePath(call.Call.Args[0]) == "node.GlobalBurnAddress"
			}
			return false
		})
	}
	zeroEdge := false
	okSrc := false
	switch y := cmp.Y.(type) {
	case *ssa.Phi:
		for _, e := range y.Edges {
			if k, ok := e.(*ssa.Const); ok && k.Value == nil {
				zeroEdge = true // the zero value reaches the comparison
			} else if fromBurn(e) {
				okSrc = true
			}
		}
	case *ssa.UnOp:
		al, _ := y.X.(*ssa.Alloc)
		use := cmp.Block()
		if fv, ok := y.X.(*ssa.FreeVar); ok {
			// the comparison sits in a closure: the variable is the enclosing function's, judged where the closure is made
			al, use = closureBinding(fv)
		}
		if al != nil && al.Referrers() != nil {
			var gate *ssa.BasicBlock
			for _, rf := range *al.Referrers() {
				if st, ok := rf.(*ssa.Store); ok && st.Addr == al {
					if fromBurn(st.Val) {
						okSrc = true
					}
					gate = st.Block()
				}
			}
			// a store that does not dominate the comparison leaves the zero value on some path
			if gate == nil || use == nil || !gate.Dominates(use) {
				zeroEdge = true
			}
		}
	default:
		if fromBurn(cmp.Y) {
			okSrc = true
		}
	}
	r.check(okSrc, rule, "exempt address is node.GlobalBurnAddress", c.ipos(cmp), "", "the address exempted from crediting is not NewFAAddress(GlobalBurnAddress)")
	if eraRule == "" {
		return
	}
	r.check(!zeroEdge, eraRule, "burn exemption confined to the era in which the burn address is assigned", c.ipos(cmp), "", "the burn address variable is assigned only when currentHeight >= V202EnhanceActivation but the exemption test runs at every height: before 2.0.2 it compares with the zero value, so a transfer output to the all-zero address is debited from the sender and credited to nobody (value destroyed by an event the protocol does not enumerate)")
}

// secondPassPEGOnly: in recordPegnetRequests every request added to the bank set must be a PEG request.
func secondPassPEGOnly(c *Ctx, r *Report, rule string) {
	rp := c.fn("node.Pegnetd.recordPegnetRequests")
	adds := findCalls(rp, "conversions.ConversionSupplySet.AddConversion")
	if len(adds) != 1 {
		r.viol(rule, "recordPegnetRequests AddConversion", c.pos(rp.Pos()), fmt.Sprintf("%d call sites", len(adds)))
		return
	}
	ac := adds[0]
	// control dependence on IsPEGRequest() or Conversion == PEG
	filtered := false
	for _, b := range rp.Blocks {
		cond, tb, fb := condEdge(b)
		if cond == nil {
			continue
		}
		isPeg := sliceHas(cond, func(v ssa.Value) bool {
			if call, ok := v.(*ssa.Call); ok && shortCallee(call.Common()) == "IsPEGRequest" {
				return true
			}
			if bo, ok := v.(*ssa.BinOp); ok && (bo.Op == token.EQL || bo.Op == token.NEQ) && typePath(bo.X) == "fat2.Transaction.Conversion" {
				if k, ok := bo.Y.(*ssa.Const); ok && k.Int64() == 1 {
					return true
				}
			}
			return false
		})
		if isPeg && ((blockOrDom(tb, ac.Block()) && len(tb.Preds) == 1) || (blockOrDom(fb, ac.Block()) && len(fb.Preds) == 1)) {
			filtered = true
		}
	}
	// abstract confirmation: with tx.Conversion bound to a non-PEG ticker the credits are still executable
	tick, _ := c.tickers()
	sc := &Scenario{Paths: map[string]AVal{"fat2.Transaction.Conversion": cInt(tick["XBT"])}, MaxDepth: 0, AllErrorsNil: true}
	t := newSCCP(c, sc).analyse(rp, nil)
	r.Scen++
	live := t.Live("AddConversion") && t.Live("AddToBalance")
	if filtered || !live {
		r.okNT(rule, "recordPegnetRequests considers PEG requests only", c.ipos(ac), "AddConversion is control-dependent on the PEG-request test")
		return
	}
	r.viol(rule, "recordPegnetRequests considers PEG requests only", c.ipos(ac), "the second pass iterates over every transaction of a batch that contains a PEG request, with no IsPEGRequest filter: with tx.Conversion = pXBT the bank request and both credits are executable. A legacy batch [pUSD->PEG, pUSD->pXBT] is credited pXBT twice (once in recordBatch, once here, and its value is charged to the PEG bank); a batch [pUSD->PEG, transfer] makes AddToBalance prepare a statement on column `invalid token type_balance` and fails the block for ever")
}

// nil2 returns b unless the edge cannot be the burn edge (keeps walk's from-argument an *If block or nil).
func nil2(b, burnEdge *ssa.BasicBlock) *ssa.BasicBlock {
	if len(b.Instrs) > 0 {
		if _, ok := b.Instrs[len(b.Instrs)-1].(*ssa.If); ok {
			return b
		}
	}
	return nil
}

// closureBinding: the local of the enclosing function that free variable fv is bound to, and the block in which the
// closure is made.
func closureBinding(fv *ssa.FreeVar) (*ssa.Alloc, *ssa.BasicBlock) {
	fn := fv.Parent()
	if fn.Parent() == nil {
		return nil, nil
	}
	var al *ssa.Alloc
	var blk *ssa.BasicBlock
	for i, w := range fn.FreeVars {
		if w != fv {
			continue
		}
		allInstrs(fn.Parent(), func(ins ssa.Instruction) {
			if mc, ok := ins.(*ssa.MakeClosure); ok && mc.Fn == ssa.Value(fn) && i < len(mc.Bindings) {
				if a, ok := mc.Bindings[i].(*ssa.Alloc); ok {
					al, blk = a, mc.Block()
				}
			}
		})
	}
	return al, blk
}
