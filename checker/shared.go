package main

// E5 shared — cross-root shared-location analysis (static race footprint) and
// carried-state footprint.  DESIGN.md §2.7.

import (
	"fmt"
	"go/token"
	"go/types"
	"sort"
	"strings"

	"golang.org/x/tools/go/ssa"
)

// singleton types: one long-lived instance shared between the sync goroutine and API handlers.
var singletonTypes = map[string]bool{"node.Pegnetd": true, "pegnet.Pegnet": true, "srv.APIServer": true}

type Access struct {
	Loc   string // "Type.Field" or "pkg.Global"
	Write bool
	Fn    *ssa.Function
	Ins   ssa.Instruction
	Locks map[string]bool // mutex locations held at the access (intra-procedural)
	How   string
	Root  string // "sync" or "api": the root context in which the base object is shared
}

type sharedAnalysis struct {
	c         *Ctx
	sharedPar map[*ssa.Parameter]bool // parameters that may point into shared objects
	aliasPar  map[*ssa.Parameter]bool // pointer parameters whose pointee is a private struct copy of a shared object: its map/slice/pointer fields still alias shared data
	Acc       []*Access
	fnLocks   map[*ssa.Function]map[string]bool // locks held at every call site of fn
	memo      map[ssa.Value]bool
	busy      map[ssa.Value]bool
}

func namedShort(t types.Type) string {
	if p, ok := t.Underlying().(*types.Pointer); ok {
		t = p.Elem()
	}
	if p, ok := t.(*types.Pointer); ok {
		t = p.Elem()
	}
	n, ok := t.(*types.Named)
	if !ok || n.Obj().Pkg() == nil {
		return ""
	}
	return n.Obj().Pkg().Name() + "." + n.Obj().Name()
}

// sharedBase: does the address/value v derive from a shared object?  Returns a description.
func (sa *sharedAnalysis) sharedBase(v ssa.Value, depth int) bool {
	if depth > 12 || v == nil {
		return false
	}
	if r, ok := sa.memo[v]; ok {
		return r
	}
	if sa.busy[v] {
		return false
	}
	sa.busy[v] = true
	r := sa.sharedBase1(v, depth)
	delete(sa.busy, v)
	if depth == 0 || r {
		sa.memo[v] = r
	}
	return r
}

// copyOfShared: v points to a local struct that was initialised by copying a shared struct value.
func (sa *sharedAnalysis) copyOfShared(v ssa.Value) bool {
	switch x := v.(type) {
	case *ssa.Parameter:
		return sa.aliasPar[x]
	case *ssa.Alloc:
		if refs := x.Referrers(); refs != nil {
			for _, r := range *refs {
				if st, ok := r.(*ssa.Store); ok && st.Addr == x {
					if _, isStruct := st.Val.Type().Underlying().(*types.Struct); isStruct && sa.sharedBase(st.Val, 1) {
						return true
					}
				}
			}
		}
	}
	return false
}

func (sa *sharedAnalysis) sharedBase1(v ssa.Value, depth int) bool {
	switch x := v.(type) {
	case *ssa.Global:
		return inModule(x.Pkg.Pkg)
	case *ssa.Parameter:
		if sa.sharedPar[x] {
			return true
		}
		return false
	case *ssa.FreeVar:
		// captured variable of the enclosing function: resolve binding
		fn := x.Parent()
		for i, fv := range fn.FreeVars {
			if fv == x && fn.Parent() != nil {
				shared := false
				allInstrs(fn.Parent(), func(ins ssa.Instruction) {
					if mc, ok := ins.(*ssa.MakeClosure); ok && mc.Fn == fn && i < len(mc.Bindings) {
						if sa.sharedBase(mc.Bindings[i], depth+1) {
							shared = true
						}
					}
				})
				return shared
			}
		}
		return false
	case *ssa.Alloc:
		// a local holding a spilled/captured pointer: shared if a shared value is stored in it
		if refs := x.Referrers(); refs != nil {
			for _, r := range *refs {
				if st, ok := r.(*ssa.Store); ok && st.Addr == x {
					switch st.Val.Type().Underlying().(type) {
					case *types.Pointer, *types.Map, *types.Slice:
						if sa.sharedBase(st.Val, depth+1) {
							return true
						}
					}
				}
			}
		}
		return false
	case *ssa.FieldAddr:
		return sa.sharedBase(x.X, depth+1)
	case *ssa.Field:
		return sa.sharedBase(x.X, depth+1)
	case *ssa.IndexAddr:
		return sa.sharedBase(x.X, depth+1)
	case *ssa.Index:
		return sa.sharedBase(x.X, depth+1)
	case *ssa.Lookup:
		return sa.sharedBase(x.X, depth+1)
	case *ssa.Slice:
		return sa.sharedBase(x.X, depth+1)
	case *ssa.UnOp:
		if x.Op == token.MUL {
			// load: pointer/map/slice stored in a shared location points to shared data;
			// a load from a local alloc that holds a captured/spilled value: look at what was stored
			if a, ok := x.X.(*ssa.Alloc); ok {
				sh := false
				if refs := a.Referrers(); refs != nil {
					for _, r := range *refs {
						if st, ok := r.(*ssa.Store); ok && st.Addr == a && sa.sharedBase(st.Val, depth+1) {
							sh = true
						}
					}
				}
				return sh
			}
			// a map/slice/pointer field read out of a local struct copy of a shared object still refers
			// to the shared data (`reader := *d; reader.cache[k] = v`)
			switch x.Type().Underlying().(type) {
			case *types.Pointer, *types.Map, *types.Slice:
				root := x.X
				for {
					if fa, ok := root.(*ssa.FieldAddr); ok {
						root = fa.X
						continue
					}
					break
				}
				if pr := spilledParam(root); pr != nil && root != x.X && sa.aliasPar[pr] {
					return true
				}
				if a, ok := root.(*ssa.Alloc); ok && root != x.X {
					if refs := a.Referrers(); refs != nil {
						for _, r := range *refs {
							if st, ok := r.(*ssa.Store); ok && st.Addr == a {
								if _, isStruct := st.Val.Type().Underlying().(*types.Struct); isStruct && sa.sharedBase(st.Val, depth+1) {
									return true
								}
							}
						}
					}
				}
			}
			return sa.sharedBase(x.X, depth+1)
		}
	case *ssa.Phi:
		for _, e := range x.Edges {
			if sa.sharedBase(e, depth+1) {
				return true
			}
		}
	case *ssa.ChangeType:
		return sa.sharedBase(x.X, depth+1)
	case *ssa.MakeInterface:
		return sa.sharedBase(x.X, depth+1)
	case *ssa.TypeAssert:
		return sa.sharedBase(x.X, depth+1)
	case *ssa.Extract:
		return sa.sharedBase(x.Tuple, depth+1)
	case *ssa.Call:
		// results of module functions that return (part of) a shared object: getter returning a field
		if sc := x.Call.StaticCallee(); sc != nil && fnInModule(sc) && sc.Blocks != nil {
			ret := false
			allInstrs(sc, func(ins ssa.Instruction) {
				if r, ok := ins.(*ssa.Return); ok {
					for _, res := range r.Results {
						if _, isPtrLike := res.Type().Underlying().(*types.Pointer); isPtrLike || isRefType(res.Type()) {
							if sa.sharedBase(res, depth+4) {
								ret = true
							}
						}
					}
				}
			})
			return ret
		}
	}
	return false
}

func isRefType(t types.Type) bool {
	switch t.Underlying().(type) {
	case *types.Map, *types.Slice, *types.Chan:
		return true
	}
	return false
}

// locOf names the location accessed through address a ("" if not a field/global location).
func locOf(a ssa.Value) string {
	switch x := a.(type) {
	case *ssa.FieldAddr:
		st := derefStruct(x.X.Type())
		tn := namedShort(x.X.Type())
		if st == nil || tn == "" {
			return ""
		}
		return tn + "." + st.Field(x.Field).Name()
	case *ssa.Global:
		if inModule(x.Pkg.Pkg) {
			return x.Pkg.Pkg.Name() + "." + x.Name()
		}
	}
	return ""
}

// containerLoc: for a map/slice value m, the field/global location it was loaded from.
func containerLocs(m ssa.Value, depth int, out map[string]bool) {
	if depth > 8 {
		return
	}
	switch x := m.(type) {
	case *ssa.UnOp:
		if x.Op == token.MUL {
			if l := locOf(x.X); l != "" {
				out[l] = true
				return
			}
			if a, ok := x.X.(*ssa.Alloc); ok {
				if refs := a.Referrers(); refs != nil {
					for _, r := range *refs {
						if st, ok := r.(*ssa.Store); ok && st.Addr == a {
							containerLocs(st.Val, depth+1, out)
						}
					}
				}
			}
			if fv, ok := x.X.(*ssa.FreeVar); ok {
				fn := fv.Parent()
				for i, v := range fn.FreeVars {
					if v == fv && fn.Parent() != nil {
						allInstrs(fn.Parent(), func(ins ssa.Instruction) {
							if mc, ok := ins.(*ssa.MakeClosure); ok && mc.Fn == fn && i < len(mc.Bindings) {
								if a, ok := mc.Bindings[i].(*ssa.Alloc); ok {
									if refs := a.Referrers(); refs != nil {
										for _, r := range *refs {
											if st, ok := r.(*ssa.Store); ok && st.Addr == a {
												containerLocs(st.Val, depth+1, out)
											}
										}
									}
								}
							}
						})
					}
				}
			}
		}
	case *ssa.Phi:
		for _, e := range x.Edges {
			containerLocs(e, depth+1, out)
		}
	case *ssa.Slice:
		containerLocs(x.X, depth+1, out)
	case *ssa.Lookup:
		// element of a map of slices/maps: same container
		containerLocs(x.X, depth+1, out)
	case *ssa.Extract:
		if lk, ok := x.Tuple.(*ssa.Lookup); ok {
			containerLocs(lk.X, depth+1, out)
		}
	case *ssa.Field:
		st, _ := x.X.Type().Underlying().(*types.Struct)
		if tn := namedShort(x.X.Type()); st != nil && tn != "" {
			out[tn+"."+st.Field(x.Field).Name()] = true
		}
	case *ssa.ChangeType:
		containerLocs(x.X, depth+1, out)
	case *ssa.TypeAssert:
		containerLocs(x.X, depth+1, out)
	case *ssa.MakeInterface:
		containerLocs(x.X, depth+1, out)
	case *ssa.Call:
		if sc := x.Call.StaticCallee(); sc != nil && fnInModule(sc) && sc.Blocks != nil {
			allInstrs(sc, func(ins ssa.Instruction) {
				if r, ok := ins.(*ssa.Return); ok {
					for _, res := range r.Results {
						containerLocs(resolveSpill(res), depth+2, out)
					}
				}
			})
		}
	}
}

// newSharedAnalysis runs the footprint once per root context (sync goroutine,
// API handler goroutines): an object is shared in a context if it is reachable
// from the parameters of that context's root functions or from a package
// variable.  A function reached from both roots with a shared receiver in one
// and a per-call object in the other is thereby told apart.
func newSharedAnalysis(c *Ctx) *sharedAnalysis {
	all := &sharedAnalysis{c: c}
	for _, ctx := range []struct {
		name  string
		roots []*ssa.Function
		reach map[*ssa.Function]bool
	}{{"sync", []*ssa.Function{c.Sync}, c.RSync}, {"api", c.API, c.RAPI}} {
		sa := &sharedAnalysis{c: c, sharedPar: map[*ssa.Parameter]bool{}, aliasPar: map[*ssa.Parameter]bool{}, fnLocks: map[*ssa.Function]map[string]bool{}, memo: map[ssa.Value]bool{}, busy: map[ssa.Value]bool{}}
		seed := func(f *ssa.Function) {
			for _, p := range f.Params {
				if _, ok := p.Type().Underlying().(*types.Pointer); ok && singletonTypes[namedShort(p.Type())] {
					sa.sharedPar[p] = true
				}
			}
		}
		for _, rt := range ctx.roots {
			for f := rt; f != nil; f = f.Parent() {
				seed(f)
			}
		}
		for changed := true; changed; {
			changed = false
			sa.memo = map[ssa.Value]bool{}
			for f := range ctx.reach {
				for _, e := range c.CG[f] {
					ci, ok := e.Site.(ssa.CallInstruction)
					if !ok || (e.Kind != "static" && e.Kind != "invoke") {
						continue
					}
					args := ci.Common().Args
					params := e.Callee.Params
					off := 0
					if ci.Common().IsInvoke() {
						off = 1 // receiver is not in Args for invoke
					}
					for i, a := range args {
						pi := i + off
						if pi >= len(params) {
							break
						}
						p := params[pi]
						if !sa.aliasPar[p] && sa.copyOfShared(a) {
							sa.aliasPar[p] = true
							changed = true
						}
						if sa.sharedPar[p] {
							continue
						}
						switch p.Type().Underlying().(type) {
						case *types.Pointer, *types.Map, *types.Slice:
							if sa.sharedBase(a, 0) {
								sa.sharedPar[p] = true
								changed = true
							}
						}
					}
				}
			}
		}
		sa.memo = map[ssa.Value]bool{}
		sa.collect(ctx.reach)
		for _, a := range sa.Acc {
			a.Root = ctx.name
			all.Acc = append(all.Acc, a)
		}
	}
	return all
}

// heldLocks: mutex locations locked before ins (dominating Lock without an intervening dominating Unlock).
func heldLocks(ins ssa.Instruction) map[string]bool {
	out := map[string]bool{}
	f := ins.Parent()
	type lk struct {
		loc  string
		ins  ssa.Instruction
		lock bool
	}
	var ops []lk
	allInstrs(f, func(j ssa.Instruction) {
		ci, ok := j.(ssa.CallInstruction)
		if !ok {
			return
		}
		n := calleeName(ci.Common())
		isLock := n == "sync.Mutex.Lock" || n == "sync.RWMutex.Lock" || n == "sync.RWMutex.RLock"
		isUnlock := n == "sync.Mutex.Unlock" || n == "sync.RWMutex.Unlock" || n == "sync.RWMutex.RUnlock"
		if !isLock && !isUnlock {
			return
		}
		if _, isDefer := j.(*ssa.Defer); isDefer {
			return // deferred unlock runs at exit
		}
		loc := locOf(ci.Common().Args[0])
		if loc == "" {
			loc = valuePath(ci.Common().Args[0])
		}
		ops = append(ops, lk{loc, j, isLock})
	})
	for _, o := range ops {
		if !o.lock || !instrDominates(o.ins, ins) {
			continue
		}
		released := false
		for _, u := range ops {
			if !u.lock && u.loc == o.loc && instrDominates(o.ins, u.ins) && instrDominates(u.ins, ins) {
				released = true
			}
		}
		if !released {
			out[o.loc] = true
		}
	}
	return out
}

func (sa *sharedAnalysis) add(loc string, write bool, ins ssa.Instruction, how string) {
	if loc == "" {
		return
	}
	sa.Acc = append(sa.Acc, &Access{Loc: loc, Write: write, Fn: ins.Parent(), Ins: ins, Locks: heldLocks(ins), How: how})
}

func isAtomicUse(addr ssa.Value) bool {
	refs := addr.Referrers()
	if refs == nil || len(*refs) == 0 {
		return false
	}
	for _, r := range *refs {
		ci, ok := r.(ssa.CallInstruction)
		if !ok || calleePkgPath(ci.Common()) != "sync/atomic" {
			return false
		}
	}
	return true
}

func (sa *sharedAnalysis) collect(scope map[*ssa.Function]bool) {
	for _, f := range sa.c.Funcs {
		if !scope[f] {
			continue
		}
		allInstrs(f, func(ins ssa.Instruction) {
			switch x := ins.(type) {
			case *ssa.Store:
				if l := locOf(x.Addr); l != "" {
					if base := baseOf(x.Addr); sa.sharedBase(base, 0) {
						sa.add(l, true, ins, "store")
					}
				} else if ia, ok := x.Addr.(*ssa.IndexAddr); ok {
					// element store: write to the container object
					if sa.sharedBase(ia.X, 0) {
						locs := map[string]bool{}
						containerLocs(ia.X, 0, locs)
						for l := range locs {
							sa.add(l, true, ins, "element store")
						}
					}
				}
			case *ssa.UnOp:
				if x.Op == token.MUL {
					if l := locOf(x.X); l != "" && !isAtomicUse(x.X) {
						if sa.sharedBase(baseOf(x.X), 0) {
							sa.add(l, false, ins, "load")
						}
					}
				}
			case *ssa.Field:
				// value-struct field read of a shared struct copy: covered by the load of the struct
			case *ssa.MapUpdate:
				if sa.sharedBase(x.Map, 0) {
					locs := map[string]bool{}
					containerLocs(x.Map, 0, locs)
					for l := range locs {
						sa.add(l, true, ins, "map update")
					}
				}
			case *ssa.Lookup:
				if sa.sharedBase(x.X, 0) {
					locs := map[string]bool{}
					containerLocs(x.X, 0, locs)
					for l := range locs {
						sa.add(l, false, ins, "map read")
					}
				}
			case *ssa.Range:
				if sa.sharedBase(x.X, 0) {
					locs := map[string]bool{}
					containerLocs(x.X, 0, locs)
					for l := range locs {
						sa.add(l, false, ins, "map range")
					}
				}
			case ssa.CallInstruction:
				// a method of an unsynchronised standard-library value type called on a shared object
				if sc := x.Common().StaticCallee(); sc != nil && !fnInModule(sc) && sc.Signature.Recv() != nil && len(x.Common().Args) > 0 {
					if tn := unsyncValueType(sc.Signature.Recv().Type()); tn != "" {
						recv := x.Common().Args[0]
						write := !readOnlyMethods[sc.Name()]
						if l := locOf(recv); l != "" {
							if sa.sharedBase(baseOf(recv), 0) {
								sa.add(l, write, ins, tn+"."+sc.Name())
							}
						} else if sa.sharedBase(recv, 0) {
							locs := map[string]bool{}
							containerLocs(recv, 0, locs)
							for l := range locs {
								sa.add(l, write, ins, tn+"."+sc.Name())
							}
						}
					}
				}
				// internally synchronised containers (sync.Map, atomic.Value): not a data race, but still state that one
				// goroutine leaves for another - recorded with a pseudo lock so that only the state rules see them
				if sc := x.Common().StaticCallee(); sc != nil && !fnInModule(sc) && sc.Signature.Recv() != nil && len(x.Common().Args) > 0 {
					if tn := syncContainerType(sc.Signature.Recv().Type()); tn != "" {
						recv := x.Common().Args[0]
						write := map[string]bool{"Store": true, "LoadOrStore": true, "LoadAndDelete": true, "Delete": true, "Swap": true, "CompareAndSwap": true, "CompareAndDelete": true, "Clear": true}[sc.Name()]
						locs := map[string]bool{}
						if l := locOf(recv); l != "" {
							if sa.sharedBase(baseOf(recv), 0) {
								locs[l] = true
							}
						} else if sa.sharedBase(recv, 0) {
							containerLocs(recv, 0, locs)
						}
						for l := range locs {
							before := len(sa.Acc)
							sa.add(l, write, ins, tn+"."+sc.Name())
							for _, a := range sa.Acc[before:] {
								if a.Locks == nil {
									a.Locks = map[string]bool{}
								}
								a.Locks["<"+tn+">"] = true
							}
						}
					}
				}
				// builtin delete/copy/append on shared containers
				if b, ok := x.Common().Value.(*ssa.Builtin); ok {
					switch b.Name() {
					case "delete", "copy":
						if len(x.Common().Args) > 0 && sa.sharedBase(x.Common().Args[0], 0) {
							locs := map[string]bool{}
							containerLocs(x.Common().Args[0], 0, locs)
							for l := range locs {
								sa.add(l, true, ins, b.Name())
							}
						}
					}
				}
			}
		})
	}
}

// baseOf strips the last selection to give the object the location lives in.
func baseOf(addr ssa.Value) ssa.Value {
	switch x := addr.(type) {
	case *ssa.FieldAddr:
		return x.X
	case *ssa.Global:
		return x
	}
	return addr
}

type locSummary struct {
	Loc            string
	SyncW, SyncR   []*Access
	APIW, APIR     []*Access
	StartW         []*Access
	OtherW, OtherR []*Access
}

func (sa *sharedAnalysis) summarize() map[string]*locSummary {
	c := sa.c
	out := map[string]*locSummary{}
	for _, a := range sa.Acc {
		s := out[a.Loc]
		if s == nil {
			s = &locSummary{Loc: a.Loc}
			out[a.Loc] = s
		}
		inS, inA := a.Root == "sync", a.Root == "api"
		if a.Write {
			if inS {
				s.SyncW = append(s.SyncW, a)
			}
			if inA {
				s.APIW = append(s.APIW, a)
			}
			if !inS && !inA {
				if c.RStartup[a.Fn] {
					s.StartW = append(s.StartW, a)
				} else {
					s.OtherW = append(s.OtherW, a)
				}
			}
		} else {
			if inS {
				s.SyncR = append(s.SyncR, a)
			}
			if inA {
				s.APIR = append(s.APIR, a)
			}
		}
	}
	return out
}

func commonLock(as, bs []*Access) bool {
	// true if every pair shares at least one lock
	for _, a := range as {
		for _, b := range bs {
			shared := false
			for l := range a.Locks {
				if b.Locks[l] {
					shared = true
				}
			}
			if !shared {
				return false
			}
		}
	}
	return true
}

func accDesc(c *Ctx, as []*Access, max int) string {
	var s []string
	seen := map[string]bool{}
	for _, a := range as {
		d := fmt.Sprintf("%s (%s @ %s)", fname(a.Fn), a.How, c.ipos(a.Ins))
		if !seen[fname(a.Fn)] {
			seen[fname(a.Fn)] = true
			s = append(s, d)
		}
	}
	sort.Strings(s)
	if len(s) > max {
		s = append(s[:max], fmt.Sprintf("… +%d", len(s)-max))
	}
	return strings.Join(s, ", ")
}

// ruleSharedConflicts: C18-R2.
func byFn(as []*Access) map[*ssa.Function][]*Access {
	m := map[*ssa.Function][]*Access{}
	for _, a := range as {
		m[a.Fn] = append(m[a.Fn], a)
	}
	return m
}

func ruleSharedConflicts(c *Ctx, sa *sharedAnalysis, r *Report, rule string) {
	sum := sa.summarize()
	var locs []string
	for l := range sum {
		locs = append(locs, l)
	}
	sort.Strings(locs)
	for _, l := range locs {
		s := sum[l]
		apiAcc := append(append([]*Access{}, s.APIR...), s.APIW...)
		syncAcc := append(append([]*Access{}, s.SyncR...), s.SyncW...)
		if len(s.SyncW) == 0 && len(s.APIW) == 0 {
			if len(apiAcc) > 0 && len(syncAcc) > 0 {
				r.ok(rule, "shared location "+l, "-", "read by both roots, written only before the goroutines start")
			}
			continue
		}
		// one obligation per (location, writer function, root)
		for _, fw := range sortedFuncs(fnSet(s.SyncW)) {
			ws := byFn(s.SyncW)[fw]
			cons := fmt.Sprintf("shared location %s written by %s on the sync goroutine", l, fname(fw))
			if len(apiAcc) > 0 && !commonLock(ws, apiAcc) {
				r.viol(rule, cons, c.ipos(ws[0].Ins), fmt.Sprintf("%s (%s) while API handler goroutines access it in %s without a common lock", l, ws[0].How, accDesc(c, apiAcc, 4)))
			} else {
				r.okNT(rule, cons, c.ipos(ws[0].Ins), "not accessed by API handlers (or lock-protected)")
			}
		}
		for _, fw := range sortedFuncs(fnSet(s.APIW)) {
			ws := byFn(s.APIW)[fw]
			cons := fmt.Sprintf("shared location %s written by %s on API handler goroutines", l, fname(fw))
			switch {
			case len(syncAcc) > 0 && !commonLock(ws, syncAcc):
				r.viol(rule, cons, c.ipos(ws[0].Ins), fmt.Sprintf("%s (%s) while the sync goroutine accesses it in %s without a common lock: a request can change what sync computes, or crash it (concurrent map access)", l, ws[0].How, accDesc(c, syncAcc, 4)))
			case !commonLock(ws, s.APIW):
				r.viol(rule, cons, c.ipos(ws[0].Ins), fmt.Sprintf("%s (%s) written by concurrent API handlers without a lock", l, ws[0].How))
			default:
				r.okNT(rule, cons, c.ipos(ws[0].Ins), "lock-protected / not accessed by sync")
			}
		}
	}
	r.Extra["shared_accesses"] = len(sa.Acc)
	r.Extra["shared_locations"] = len(locs)
}

func fnSet(as []*Access) map[*ssa.Function]bool {
	m := map[*ssa.Function]bool{}
	for _, a := range as {
		m[a.Fn] = true
	}
	return m
}

// ruleCarriedState: C09 — locations written while syncing that are read while syncing.
func ruleCarriedState(c *Ctx, sa *sharedAnalysis, r *Report, rule string, allowed map[string]string) {
	sum := sa.summarize()
	var locs []string
	for l := range sum {
		locs = append(locs, l)
	}
	sort.Strings(locs)
	for _, l := range locs {
		s := sum[l]
		if len(s.SyncW) == 0 {
			continue
		}
		// a carried location that API handlers can write makes results depend on the requests served
		if _, allowedLoc := allowed[l]; !allowedLoc || len(s.APIW) > 0 {
			for _, fw := range sortedFuncs(fnSet(s.APIW)) {
				ws := byFn(s.APIW)[fw]
				r.viol(rule, fmt.Sprintf("carried location %s written by %s on API handler goroutines", l, fname(fw)), c.ipos(ws[0].Ins), "in-memory state that block processing reads is written while serving an API request: later results depend on which requests the process has served since it started")
			}
		}
		for _, fw := range sortedFuncs(fnSet(s.SyncW)) {
			ws := byFn(s.SyncW)[fw]
			cons := fmt.Sprintf("carried location %s written by %s", l, fname(fw))
			if why, ok := allowed[l]; ok {
				r.audited(rule, cons, c.ipos(ws[0].Ins), "allowed: "+why)
				continue
			}
			if len(s.SyncR) == 0 {
				r.okNT(rule, cons, c.ipos(ws[0].Ins), "written during sync but never read by the sync path")
				continue
			}
			r.viol(rule, cons, c.ipos(ws[0].Ins),
				fmt.Sprintf("in-memory state written while applying a block (%s) and read while applying later blocks (%s): results can depend on how long the process has been running", ws[0].How, accDesc(c, s.SyncR, 3)))
		}
	}
}

// ruleNoCarriedReads: inside the given functions no in-memory location that block processing writes may be
// read (other than the allowed ones): their outcome must depend on the chain and the database only.
func ruleNoCarriedReads(c *Ctx, sa *sharedAnalysis, r *Report, rule string, scope map[*ssa.Function]bool, allowed map[string]string, what string) {
	sum := sa.summarize()
	var locs []string
	for l := range sum {
		locs = append(locs, l)
	}
	sort.Strings(locs)
	n := 0
	for _, l := range locs {
		s := sum[l]
		if len(s.SyncW) == 0 {
			continue
		}
		var readers []*Access
		for _, a := range s.SyncR {
			if scope[a.Fn] {
				readers = append(readers, a)
			}
		}
		if len(readers) == 0 {
			continue
		}
		n++
		cons := fmt.Sprintf("%s reads carried location %s", what, l)
		if why, ok := allowed[l]; ok {
			r.audited(rule, cons, c.ipos(readers[0].Ins), why)
			continue
		}
		r.viol(rule, cons, c.ipos(readers[0].Ins), fmt.Sprintf("%s reads %s (%s), in-memory state written while blocks are applied (%s) and not part of the block transaction: after a rolled-back attempt, a retry or a restart it no longer matches the database", what, l, accDesc(c, readers, 2), accDesc(c, s.SyncW, 2)))
	}
	if n == 0 {
		r.okNT(rule, what+" reads no carried in-memory state", "-", fmt.Sprintf("%d functions in scope", len(scope)))
	}
}

func reachOf(c *Ctx, names ...string) map[*ssa.Function]bool {
	var roots []*ssa.Function
	for _, n := range names {
		roots = append(roots, c.fn(n))
	}
	return c.reach(roots...)
}

var carriedAllowedSync = map[string]string{
	"pegnet.BlockSync.Synced": "the sync height: advanced only after Commit, persisted in the block transaction and restored at start-up",
}

var carriedAllowedAverages = map[string]string{
	"pegnet.BlockSync.Synced":         carriedAllowedSync["pegnet.BlockSync.Synced"],
	"node.Pegnetd.LastAverages":       "rolling-average cache: its restart dependence is the known finding recorded under C09; it is filled from committed rows of earlier heights only, so a rolled-back attempt leaves it as a committed one would",
	"node.Pegnetd.LastAveragesData":   "see LastAverages",
	"node.Pegnetd.LastAveragesHeight": "see LastAverages",
}

// unsyncValueType names the standard-library value types whose methods mutate the receiver without any
// synchronisation of their own (a shared instance is a shared location like any field).
func unsyncValueType(t types.Type) string {
	if p, ok := t.(*types.Pointer); ok {
		t = p.Elem()
	}
	n, ok := t.(*types.Named)
	if !ok || n.Obj().Pkg() == nil {
		return ""
	}
	switch n.Obj().Pkg().Path() + "." + n.Obj().Name() {
	case "math/big.Int", "math/big.Rat", "math/big.Float", "bytes.Buffer", "strings.Builder", "math/rand.Rand",
		"container/list.List", "container/ring.Ring", "bufio.Writer", "bufio.Reader", "encoding/json.Encoder", "encoding/json.Decoder":
		return n.Obj().Pkg().Name() + "." + n.Obj().Name()
	}
	return ""
}

var readOnlyMethods = map[string]bool{"Cmp": true, "CmpAbs": true, "Sign": true, "IsInt64": true, "IsUint64": true, "Int64": true, "Uint64": true,
	"String": true, "Text": true, "Bytes": true, "BitLen": true, "Len": true, "Cap": true, "Bit": true, "Bits": true, "IsInt": true,
	"Num": true, "Denom": true, "Float64": true, "Append": true, "Format": true, "MarshalJSON": true, "MarshalText": true, "ProbablyPrime": false}

// spilledParam: v is a parameter, or the load of a local that only ever holds one (a parameter captured by a
// closure or defer lives in an Alloc).
func spilledParam(v ssa.Value) *ssa.Parameter {
	if p, ok := v.(*ssa.Parameter); ok {
		return p
	}
	u, ok := v.(*ssa.UnOp)
	if !ok || u.Op != token.MUL {
		return nil
	}
	a, ok := u.X.(*ssa.Alloc)
	if !ok || a.Referrers() == nil {
		return nil
	}
	var par *ssa.Parameter
	for _, rf := range *a.Referrers() {
		if st, ok := rf.(*ssa.Store); ok && st.Addr == a {
			p, ok := st.Val.(*ssa.Parameter)
			if !ok || (par != nil && par != p) {
				return nil
			}
			par = p
		}
	}
	return par
}

// reachOfSelf: the named functions and their closures only (no callees).
func reachOfSelf(c *Ctx, names ...string) map[*ssa.Function]bool {
	out := map[*ssa.Function]bool{}
	for _, n := range names {
		f := c.fn(n)
		for _, g := range c.family(f) {
			out[g] = true
		}
	}
	return out
}

// syncContainerType names the standard-library containers that synchronise internally.
func syncContainerType(t types.Type) string {
	if p, ok := t.(*types.Pointer); ok {
		t = p.Elem()
	}
	n, ok := t.(*types.Named)
	if !ok || n.Obj().Pkg() == nil {
		return ""
	}
	switch n.Obj().Pkg().Path() + "." + n.Obj().Name() {
	case "sync.Map", "sync/atomic.Value":
		return n.Obj().Pkg().Name() + "." + n.Obj().Name()
	}
	return ""
}

// ruleAPIWritesNothingSyncReads: no in-memory location written while serving an API request is read (or written) by
// block processing - synchronised or not: a lock prevents the data race, not the influence.
func ruleAPIWritesNothingSyncReads(c *Ctx, sa *sharedAnalysis, r *Report, rule string) {
	r.rule(rule, 1, "API handlers leave no in-memory state that block processing reads")
	sum := sa.summarize()
	var locs []string
	for l := range sum {
		locs = append(locs, l)
	}
	sort.Strings(locs)
	n := 0
	for _, l := range locs {
		s := sum[l]
		if len(s.APIW) == 0 || len(s.SyncR)+len(s.SyncW) == 0 {
			continue
		}
		for _, fw := range sortedFuncs(fnSet(s.APIW)) {
			n++
			ws := byFn(s.APIW)[fw]
			syncAcc := append(append([]*Access{}, s.SyncR...), s.SyncW...)
			r.viol(rule, fmt.Sprintf("location %s written by %s while serving a request", l, fname(fw)), c.ipos(ws[0].Ins), fmt.Sprintf("%s (%s) is also used by block processing in %s: what the daemon computes depends on which requests were served and when (e.g. a 'not found' answer cached before the block commits)", l, ws[0].How, accDesc(c, syncAcc, 3)))
		}
	}
	if n == 0 {
		r.okNT(rule, "no location written on API goroutines is used by block processing", "-", fmt.Sprintf("%d shared locations examined", len(locs)))
	}
}

// ruleNoRecursiveLock: while a function holds a lock of the module (from a Lock/RLock call until the matching Unlock,
// or until it returns when the unlock is deferred) it calls nothing that acquires the same lock again. A second RLock
// under a held RLock deadlocks as soon as a writer is waiting between the two, a second Lock always.
func ruleNoRecursiveLock(c *Ctx, r *Report, rule string, scope map[*ssa.Function]bool) {
	r.rule(rule, 1, "no lock of the module is acquired again while it is held")
	isAcq := func(n string) bool {
		return n == "sync.Mutex.Lock" || n == "sync.RWMutex.Lock" || n == "sync.RWMutex.RLock"
	}
	isRel := func(n string) bool {
		return n == "sync.Mutex.Unlock" || n == "sync.RWMutex.Unlock" || n == "sync.RWMutex.RUnlock"
	}
	lockLoc := func(ci ssa.CallInstruction) string {
		if len(ci.Common().Args) == 0 {
			return ""
		}
		if l := typePath(ci.Common().Args[0]); l != "" {
			return l
		}
		return valuePath(ci.Common().Args[0])
	}
	// locks acquired (directly) per function
	acq := map[*ssa.Function]map[string]bool{}
	for _, f := range c.Funcs {
		for _, ci := range callsOf(f) {
			if isAcq(calleeName(ci.Common())) {
				if l := lockLoc(ci); l != "" {
					if acq[f] == nil {
						acq[f] = map[string]bool{}
					}
					acq[f][l] = true
				}
			}
		}
	}
	n := 0
	for _, f := range sortedFuncs(scope) {
		for _, ci := range callsOf(f) {
			if _, isDefer := ci.(*ssa.Defer); isDefer || !isAcq(calleeName(ci.Common())) {
				continue
			}
			loc := lockLoc(ci)
			if loc == "" {
				continue
			}
			n++
			// release points that are not deferred
			var rels []ssa.Instruction
			for _, cj := range callsOf(f) {
				if _, isDefer := cj.(*ssa.Defer); !isDefer && isRel(calleeName(cj.Common())) && lockLoc(cj) == loc {
					rels = append(rels, cj)
				}
			}
			bad := ""
			for _, cj := range callsOf(f) {
				if cj == ci || !instrReaches(ci, cj) {
					continue
				}
				released := false
				for _, rl := range rels {
					if instrDominates(rl, cj) && instrDominates(ci, rl) {
						released = true
					}
				}
				if released {
					continue
				}
				var targets []*ssa.Function
				for _, e := range c.CG[f] {
					if e.Site == ssa.Instruction(cj) {
						targets = append(targets, e.Callee)
					}
				}
				for _, tg := range targets {
					all := map[*ssa.Function]bool{tg: true}
					for g := range c.reach(tg) {
						all[g] = true
					}
					for g := range all {
						if acq[g][loc] {
							bad = fmt.Sprintf("%s holds %s (acquired at %s) and calls %s at %s, which reaches %s acquiring it again", fname(f), loc, c.ipos(ci), fname(tg), c.ipos(cj), fname(g))
						}
					}
				}
			}
			r.check(bad == "", rule, fmt.Sprintf("%s holds %s", fname(f), loc), c.ipos(ci), "no callee acquires it again while held", bad+": with a writer waiting in between (sync.RWMutex) or always (Mutex) this never returns - block sync or every later request hangs")
		}
	}
	if n == 0 {
		r.okNT(rule, "no lock acquisition in scope", "-", "")
	}
}
