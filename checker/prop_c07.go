package main

import (
	"fmt"
	"regexp"
	"sort"
	"strings"

	"golang.org/x/tools/go/ssa"
)

func init() { props["C07"] = propC07 }

// elemRoot: the local/element at the base of a field-selection chain in the backward slice of v
// (the transaction variable a value was read from).
func elemRoots(v ssa.Value) []ssa.Value {
	var out []ssa.Value
	seen := map[ssa.Value]bool{}
	backSlice(v, func(x ssa.Value) bool {
		fa, ok := x.(*ssa.FieldAddr)
		if !ok {
			return true
		}
		base := fa.X
		for {
			if f2, ok := base.(*ssa.FieldAddr); ok {
				base = f2.X
				continue
			}
			break
		}
		switch base.(type) {
		case *ssa.Alloc, *ssa.IndexAddr:
			if !seen[base] {
				seen[base] = true
				out = append(out, base)
			}
		}
		return true
	})
	return out
}

var fromRe = regexp.MustCompile(`(?i)\bFROM\s+["` + "`" + `]?([A-Za-z_][A-Za-z0-9_]*)`)

func propC07(c *Ctx, r *Report) {
	r.Explain = "Timing and rate selection decided structurally, the conversion formula by an abstract table: (R1) in ApplyTransactionBlock a batch with conversions is only put in holding (never applied on arrival), a batch without is applied immediately with nil rates; (R2) the rates handed to the holding executor are read by SelectPendingRates for the block's own height (other reaching definitions are enumerated), rate queries read pn_rate only; (R3) held batches are taken from the heights [last rated height, current) with the averages of that last rated height; (R4) Convert decision table over height x ordering of spot/average for source and destination: source = fromRate before PIP-10, min(fromRate, fromAvg) from it; destination = toRate, resp. max(toRate, toAvg); (R5) result = Div(Mul(amount, source), destination) on big.Int with an IsInt64 test before Int64(); (R6) every Convert call site is given the executing height and all its inputs come from the same transaction."
	r.NotDec = "floor(a*r/s) over the value range (big.Int arithmetic is trusted); that the window arithmetic of successive blocks covers every held batch exactly once over arbitrary histories (C06)"
	r.Trusted = []string{"math/big", "mainnet activation constants", "go/ssa"}
	e := newEraCtx(c, r)
	cat := buildSQLCat(c)

	// R1
	r.rule("C07-R1/hold-conversions", 2, "conversion batches are held, never executed on arrival")
	atb := c.fn("node.Pegnetd.ApplyTransactionBlock")
	for _, hc := range []bool{true, false} {
		sc := &Scenario{Calls: map[string]AVal{"HasConversions": cBool(hc), "NewTransactionBatch": {K: ATuple, Tup: []AVal{nonNil, nilVal}}, "IsReplayTransaction": {K: ATuple, Tup: []AVal{cBool(false), nilVal}}}, MaxDepth: 0, AllErrorsNil: true}
		t := newSCCP(c, sc).analyse(atb, nil)
		r.Scen++
		hold, app := t.Live("InsertTransactionBatchHolding"), t.Live("applyTransactionBatch")
		bad := ""
		if hold != hc || app == hc {
			bad = fmt.Sprintf("holding insert %s, immediate execution %s", liveStr(hold), liveStr(app))
		}
		if !hc {
			for _, lc := range t.CallsTo("applyTransactionBatch") {
				if !lc.Args[3].isNil() || !lc.Args[4].isNil() {
					bad += "; immediate execution is given rates/averages " + lc.Args[3].String() + "/" + lc.Args[4].String()
				}
			}
		}
		r.check(bad == "", "C07-R1/hold-conversions", fmt.Sprintf("ApplyTransactionBlock with HasConversions=%v", hc), c.pos(atb.Pos()), map[bool]string{true: "held only", false: "applied immediately with nil rates"}[hc], bad)
	}
	// the holding row records the arrival height of the entry block
	for _, ci := range findCalls(atb, "pegnet.(*Pegnet).InsertTransactionBatchHolding") {
		hp := typePath(unwrapConv(ci.Common().Args[3]))
		r.check(hp == "factom.EBlock.Height", "C07-R1/hold-conversions", "holding row records the entry block's height", c.ipos(ci), "", "holding height is "+hp+valuePath(ci.Common().Args[3]))
	}

	// R2
	r.rule("C07-R2/rates-of-own-block", 3, "held conversions execute at the rates recorded for the executing block")
	sb := c.fn("node.Pegnetd.SyncBlock")
	for _, ci := range findCalls(sb, "node.(*Pegnetd).ApplyTransactionBatchesInHolding") {
		calls := sliceCalls(ci.Common().Args[4])
		var names []string
		for n := range calls {
			names = append(names, n)
		}
		sort.Strings(names)
		okOwn := false
		for _, pc := range calls["SelectPendingRates"] {
			if p, ok := pc.Call.Args[3].(*ssa.Parameter); ok && p.Name() == "height" || valuePath(pc.Call.Args[3]) == "height" {
				okOwn = true
			}
		}
		var others []string
		for _, n := range names {
			if n != "SelectPendingRates" && n != "SelectMostRecentRatesBeforeHeight" {
				others = append(others, n)
			}
		}
		r.check(okOwn && len(others) == 0, "C07-R2/rates-of-own-block", "rates argument of the holding executor", c.ipos(ci), "defined by SelectPendingRates(height); other reaching definitions (snapshot fallbacks, taken only when the block has no rates): "+strings.Join(names, ","), fmt.Sprintf("own-height read present=%v, unexpected rate sources: %v", okOwn, others))
		r.check(valuePath(ci.Common().Args[3]) == "height", "C07-R2/rates-of-own-block", "holding executor runs for the block's height", c.ipos(ci), "", "height argument is "+valuePath(ci.Common().Args[3]))
	}
	for _, fn := range []string{"pegnet.Pegnet.SelectPendingRates", "pegnet.Pegnet.SelectMostRecentRatesBeforeHeight", "pegnet.Pegnet.SelectRates"} {
		f := c.fn(fn)
		for _, st := range cat.Stmts {
			if st.Fn != f {
				continue
			}
			tabs := map[string]bool{}
			for _, m := range fromRe.FindAllStringSubmatch(st.Text, -1) {
				tabs[m[1]] = true
			}
			r.check(len(tabs) == 1 && tabs["pn_rate"], "C07-R2/rates-of-own-block", fname(f)+" reads pn_rate only", c.ipos(st.Site), "", fmt.Sprintf("tables read: %v — the height of the last rated block must come from the recorded rates", keys(tabs)))
		}
	}

	// R3 window and averages
	r.rule("C07-R3/holding-window", 3, "held batches of [last rated height, current) with that height's averages")
	hold := c.fn("node.Pegnetd.ApplyTransactionBatchesInHolding")
	mr := findCalls(hold, "pegnet.(*Pegnet).SelectMostRecentRatesBeforeHeight")
	if len(mr) != 1 {
		r.viol("C07-R3/holding-window", "last rated height", c.pos(hold.Pos()), fmt.Sprintf("%d calls to SelectMostRecentRatesBeforeHeight", len(mr)))
	} else {
		call := mr[0].(*ssa.Call)
		r.check(valuePath(call.Call.Args[3]) == "currentHeight", "C07-R3/holding-window", "last rated height is searched below currentHeight", c.ipos(call), "", "argument is "+valuePath(call.Call.Args[3]))
		var hres ssa.Value
		for _, rf := range *call.Referrers() {
			if ex, ok := rf.(*ssa.Extract); ok && ex.Index == 1 {
				hres = ex
			}
		}
		for _, ci := range findCalls(hold, "node.(*Pegnetd).GetPegNetRateAverages") {
			r.check(ci.Common().Args[2] == hres, "C07-R3/holding-window", "averages computed for the last rated height", c.ipos(ci), "", "GetPegNetRateAverages is given another height")
		}
		for _, ci := range findCalls(hold, "pegnet.(*Pegnet).SelectTransactionBatchesInHoldingAtHeight") {
			iv := unwrapConv(ci.Common().Args[1])
			ph, _ := iv.(*ssa.Phi)
			okk := false
			if ph != nil {
				init, step := false, false
				for _, ed := range ph.Edges {
					if ed == hres {
						init = true
					}
					if bo, ok := ed.(*ssa.BinOp); ok && bo.Op.String() == "+" && bo.X == ph {
						if k, ok := bo.Y.(*ssa.Const); ok && k.Int64() == 1 {
							step = true
						}
					}
				}
				cond, _, _ := condEdge(ph.Block())
				bound := false
				if bo, ok := cond.(*ssa.BinOp); ok && bo.Op.String() == "<" && bo.X == ph && valuePath(bo.Y) == "currentHeight" {
					bound = true
				}
				okk = init && step && bound
			}
			r.check(okk, "C07-R3/holding-window", "holding scanned for i = lastRated; i < currentHeight; i++", c.ipos(ci), "", "the holding window is not [last rated height, currentHeight) stepped by 1")
		}
	}

	// the averages do not depend on the era: the consumer (Convert) applies the PIP-10 gate with the executing height
	r.rule("C07-R3/averages-era-free", 1, "GetPegNetRateAverages reads no activation constant")
	{
		g := c.fn("node.Pegnetd.GetPegNetRateAverages")
		var bad []string
		for f := range c.reach(g) {
			if f != g && f.Parent() != g {
				continue
			}
			allInstrs(f, func(ins ssa.Instruction) {
				if u, ok := ins.(*ssa.UnOp); ok {
					if gl, ok := u.X.(*ssa.Global); ok && gl.Pkg.Pkg.Name() == "config" {
						bad = append(bad, fmt.Sprintf("%s reads config.%s at %s", fname(f), gl.Name(), c.ipos(ins)))
					}
				}
			})
		}
		r.check(len(bad) == 0, "C07-R3/averages-era-free", "GetPegNetRateAverages", c.pos(g.Pos()), "", strings.Join(bad, "; ")+": the averages are requested for the previous rated height while Convert gates PIP-10 on the executing height, so an era test inside the averages makes the first block after an activation see empty averages")
	}

	r.rule("C07-R3/no-carried-state", 1, "the holding executor's window and rates come from the database")
	ruleNoCarriedReads(c, newSharedAnalysis(c), r, "C07-R3/no-carried-state", reachOf(c, "node.Pegnetd.ApplyTransactionBatchesInHolding"), carriedAllowedAverages, "the holding executor")
	// winners gate execution (shared with C12)
	winnerTable(c, r, e, "C07-R2/winners-gate-execution")

	// R4 Convert decision table
	r.rule("C07-R4/convert-table", 18, "which rates reach the multiplication and the division")
	cv := c.fn("conversions.Convert")
	pip := e.a.get("PIP10AverageActivation")
	rel := []int{-1, 0, 1}
	for _, h := range []uint32{pip - 1, pip, pip + 1} {
		for _, fr := range rel {
			for _, tr := range rel {
				fr, tr := fr, tr
				sc := &Scenario{
					Params: map[string]AVal{"height": hconst(h), "amount": sym("amount"), "fromRate": sym("fromRate"), "fromAvg": sym("fromAvg"), "toRate": sym("toRate"), "toAvg": sym("toAvg")},
					Order: func(a, b AVal) (int, bool) {
						if a.K == ASym && b.isConst() {
							return 1, true // every symbol is positive (non-zero, amount >= 0 handled separately)
						}
						if a.K == ASym && b.K == ASym {
							switch a.Sym + "?" + b.Sym {
							case "fromRate?fromAvg":
								return fr, true
							case "toRate?toAvg":
								return tr, true
							}
						}
						return 0, false
					},
					MaxDepth: 0,
				}
				t := newSCCP(c, sc).analyse(cv, nil)
				r.Scen++
				var setu []string
				for _, lc := range t.CallsTo("math/big.(*Int).SetUint64") {
					setu = append(setu, lc.Args[1].String())
				}
				wantS, wantD := "$fromRate", "$toRate"
				if h >= pip {
					if fr > 0 {
						wantS = "$fromAvg"
					}
					if tr < 0 {
						wantD = "$toAvg"
					}
				}
				got := strings.Join(setu, ",")
				want := wantS + "," + wantD
				cons := fmt.Sprintf("Convert height=%d fromRate%sfromAvg toRate%stoAvg", h, map[int]string{-1: "<", 0: "=", 1: ">"}[fr], map[int]string{-1: "<", 0: "=", 1: ">"}[tr])
				r.check(got == want, "C07-R4/convert-table", cons, c.pos(cv.Pos()), "source,destination = "+want, "source,destination rates are "+got+", expected "+want)
			}
		}
	}
	// negative amount rejected
	{
		sc := &Scenario{Params: map[string]AVal{"amount": cInt(-1), "fromRate": cUint(5), "toRate": cUint(5), "fromAvg": cUint(5), "toAvg": cUint(5), "height": hconst(pip)}, MaxDepth: 0}
		st := newSCCP(c, sc).run(cv, nil, 0)
		r.Scen++
		got := strings.Join(errorReturns(st), "|")
		r.check(got == "err:fresh", "C07-R4/convert-table", "Convert rejects a negative amount", c.pos(cv.Pos()), "", "error result "+got)
	}

	// R5 multiply before divide, overflow rejected
	r.rule("C07-R5/mul-then-div", 1, "result = Div(Mul(amount, source), destination) with overflow test")
	{
		muls := findCalls(cv, "math/big.(*Int).Mul")
		divs := findCalls(cv, "math/big.(*Int).Div")
		var bad []string
		if len(muls) != 1 || len(divs) != 1 {
			bad = append(bad, fmt.Sprintf("%d Mul and %d Div calls", len(muls), len(divs)))
		} else {
			mul, div := muls[0].(*ssa.Call), divs[0].(*ssa.Call)
			if !instrDominates(mul, div) {
				bad = append(bad, "the division does not come after the multiplication on every path")
			}
			if div.Call.Args[1] != ssa.Value(mul) {
				bad = append(bad, "the dividend is not the product")
			}
			srcOf := func(v ssa.Value) string {
				s := ""
				backSlice(v, func(x ssa.Value) bool {
					if ph, ok := x.(*ssa.Phi); ok && ph.Comment != "" {
						s = ph.Comment
					}
					if p, ok := x.(*ssa.Parameter); ok && s == "" {
						s = p.Name()
					}
					return true
				})
				return s
			}
			amtOK := sliceHas(mul.Call.Args[1], func(v ssa.Value) bool { p, ok := v.(*ssa.Parameter); return ok && p.Name() == "amount" })
			if !amtOK {
				bad = append(bad, "the multiplicand is not the amount")
			}
			if s := srcOf(mul.Call.Args[2]); s != "RateSource" {
				bad = append(bad, "the multiplier is "+s+", expected the source rate")
			}
			if s := srcOf(div.Call.Args[2]); s != "RateDest" {
				bad = append(bad, "the divisor is "+s+", expected the destination rate")
			}
			// IsInt64 gate before Int64
			gate := findCalls(cv, "math/big.(*Int).IsInt64")
			i64 := findCalls(cv, "math/big.(*Int).Int64")
			if len(gate) != 1 || len(i64) != 1 || !instrDominates(gate[0], i64[0]) {
				bad = append(bad, "Int64() is not preceded by an IsInt64() test")
			} else {
				// Int64 lies on the true branch of the test
				okBr := false
				for _, b := range cv.Blocks {
					cond, tb, fb := condEdge(b)
					if cond != nil && sliceHas(cond, func(v ssa.Value) bool { return v == gate[0].(ssa.Value) }) {
						// `if !num.IsInt64() { return err }` -> Int64 in the false successor
						if blockOrDom(fb, i64[0].Block()) && !blockOrDom(tb, i64[0].Block()) || blockOrDom(tb, i64[0].Block()) && !blockOrDom(fb, i64[0].Block()) {
							okBr = true
						}
					}
				}
				if !okBr {
					bad = append(bad, "the overflow test does not guard the Int64() conversion")
				}
			}
		}
		r.check(len(bad) == 0, "C07-R5/mul-then-div", "Convert arithmetic", c.pos(cv.Pos()), "", strings.Join(bad, "; "))
	}

	// R6 call sites
	r.rule("C07-R6/convert-call-sites", 5, "Convert is called with the executing height and inputs of one transaction")
	for _, f := range sortedFuncs(c.RSync) {
		ordn := newOrdinals()
		for _, ci := range findCalls(f, "conversions.Convert") {
			a := ci.Common().Args
			cons := fmt.Sprintf("%s -> Convert %s", fname(f), ord(ordn.next("c")))
			hp := valuePath(a[0])
			okH := hp == "currentHeight" || hp == "height"
			if f == c.fn("conversions.Refund") {
				okH = hp == "height"
			}
			var bad []string
			if !okH {
				bad = append(bad, "height argument is "+hp+a[0].String())
			}
			if fname(f) == "node.(*Pegnetd).SnapshotPayouts" || fname(f) == "conversions.Refund" {
				r.check(len(bad) == 0, "C07-R6/convert-call-sites", cons, c.ipos(ci), "executing height", strings.Join(bad, "; "))
				continue
			}
			// transaction conversions: lookups keyed by fields of the same transaction
			wantKeys := []string{"rates[fat2.TypedAddressAmountTuple.Type]", "averages[fat2.TypedAddressAmountTuple.Type]", "rates[fat2.Transaction.Conversion]", "averages[fat2.Transaction.Conversion]"}
			var roots []ssa.Value
			for i, w := range wantKeys {
				if tp := typePath(a[2+i]); tp != w {
					bad = append(bad, fmt.Sprintf("argument %d is %s, expected %s", 3+i, tp, w))
				}
				if lk, ok := a[2+i].(*ssa.Lookup); ok {
					roots = append(roots, elemRoots(lk.Index)...)
				}
			}
			if tp := typePath(unwrapConv(a[1])); tp != "fat2.TypedAddressAmountTuple.Amount" {
				bad = append(bad, "amount is "+tp+", expected the transaction's input amount")
			}
			roots = append(roots, elemRoots(a[1])...)
			for _, rt := range roots {
				if rt != roots[0] {
					bad = append(bad, "the amount and the rate keys are read from different transactions")
					break
				}
			}
			r.check(len(bad) == 0, "C07-R6/convert-call-sites", cons, c.ipos(ci), "Convert(executing height, tx.Input.Amount, rates/averages[tx.Input.Type], rates/averages[tx.Conversion]) of one transaction", strings.Join(uniq(bad), "; "))
		}
	}
}
