package main

import (
	"fmt"
	"go/token"
	"go/types"
	"regexp"
	"sort"
	"strings"

	"golang.org/x/tools/go/ssa"
)

func init() { props["C07"] = propC07 }

// elemRoot: the local/element at the base of a field-selection chain in the backward slice of v
// (the transaction variable a value was read from).
func elemRoots(v ssa.Value) []ssa.Value {
	var out []ssa.Value
	seen := map[ssa.Value]bool{}
	backSlice(v, func(x ssa.Value) bool {
		fa, ok := x.(*ssa.FieldAddr)
		if !ok {
			return true
		}
		base := fa.X
		for {
			if f2, ok := base.(*ssa.FieldAddr); ok {
				base = f2.X
				continue
			}
			break
		}
		base = throughCopies(base)
		switch base.(type) {
		case *ssa.Alloc, *ssa.IndexAddr:
			if !seen[base] {
				seen[base] = true
				out = append(out, base)
			}
		}
		return true
	})
	return out
}

// throughCopies: a local that only ever holds a copy of (a field of) another object stands for that object
// (`input := tx.Input` still speaks about tx).
func throughCopies(base ssa.Value) ssa.Value {
	for i := 0; i < 6; i++ {
		a, ok := base.(*ssa.Alloc)
		if !ok || a.Referrers() == nil {
			return base
		}
		var src ssa.Value
		n := 0
		for _, rf := range *a.Referrers() {
			if st, ok := rf.(*ssa.Store); ok && st.Addr == a {
				n++
				if u, ok := st.Val.(*ssa.UnOp); ok && u.Op == token.MUL {
					x := u.X
					for {
						if fa, ok := x.(*ssa.FieldAddr); ok {
							x = fa.X
							continue
						}
						break
					}
					if x != u.X {
						src = x
					}
				}
			}
		}
		if n != 1 || src == nil {
			return base
		}
		base = src
	}
	return base
}

var fromRe = regexp.MustCompile(`(?i)\bFROM\s+["` + "`" + `]?([A-Za-z_][A-Za-z0-9_]*)`)

func propC07(c *Ctx, r *Report) {
	r.Explain = "Timing and rate selection decided structurally, the conversion formula by an abstract table: (R1) in ApplyTransactionBlock a batch with conversions is only put in holding (never applied on arrival), a batch without is applied immediately with nil rates; (R2) the rates handed to the holding executor are read by SelectPendingRates for the block's own height (other reaching definitions are enumerated), rate queries read pn_rate only; (R3) held batches are taken from the heights [last rated height, current) with the averages of that last rated height; (R4) Convert decision table over height x ordering of spot/average for source and destination: source = fromRate before PIP-10, min(fromRate, fromAvg) from it; destination = toRate, resp. max(toRate, toAvg); (R5) result = Div(Mul(amount, source), destination) on big.Int with an IsInt64 test before Int64(); (R6) every Convert call site is given the executing height and all its inputs come from the same transaction."
	r.NotDec = "floor(a*r/s) over the value range (big.Int arithmetic is trusted); that the window arithmetic of successive blocks covers every held batch exactly once over arbitrary histories (C06)"
	r.Trusted = []string{"math/big", "mainnet activation constants", "go/ssa"}
	e := newEraCtx(c, r)
	cat := buildSQLCat(c)
	// the window the averages are computed from belongs to the sync goroutine (shared engine with C18-R2)
	ruleAveragesCachePrivate(c, newSharedAnalysis(c), r, "C07-R7/averages-cache-private")
	// a valid held conversion is executed: the re-validation uses the executing height (shared with C05-R5)
	ruleRevalidation(c, r, "C07-R8/revalidation-height")
	// a held conversion stays in holding until the first rated block: holding rows are never deleted (shared with C06-R5)
	ruleInsertOnly(c, r, cat, "C07-R10/holding-kept")
	ruleRatesExactHeight(c, r, cat, "C07-R12/rates-exact-height")
	r.rule("C07-R13/loopvar-alias", 1, "no per-loop variable is retained (by address or by a deferred closure) across iterations in block processing")
	ruleLoopVarAlias(c, r, "C07-R13/loopvar-alias", c.RSync)
	// every conversion the protocol admits is executed: the admission table of the executor (shared with C13)
	ruleAdmissionTable(c, r, e, "C07-R11/admission-table")
	// every height of the holding window is visited and every batch of it considered (shared with C06-R10)
	r.rule("C07-R9/window-complete", 2, "the holding window is walked to its end")
	ruleLoopCompletes(c, r, "C07-R9/window-complete", c.fn("node.Pegnetd.ApplyTransactionBatchesInHolding"), "node.Pegnetd.applyTransactionBatch", "every held batch of the window is considered at the first rated block")

	// R1
	r.rule("C07-R1/hold-conversions", 2, "conversion batches are held, never executed on arrival")
	atb := c.fn("node.Pegnetd.ApplyTransactionBlock")
	for _, hc := range []bool{true, false} {
		sc := &Scenario{Calls: map[string]AVal{"HasConversions": cBool(hc), "NewTransactionBatch": {K: ATuple, Tup: []AVal{nonNil, nilVal}}, "IsReplayTransaction": {K: ATuple, Tup: []AVal{cBool(false), nilVal}}}, MaxDepth: 0, AllErrorsNil: true}
		t := newSCCP(c, sc).analyse(atb, nil)
		r.Scen++
		hold, app := t.Live("InsertTransactionBatchHolding"), t.Live("applyTransactionBatch")
		bad := ""
		if hold != hc || app == hc {
			bad = fmt.Sprintf("holding insert %s, immediate execution %s", liveStr(hold), liveStr(app))
		}
		if !hc {
			for _, lc := range t.CallsTo("applyTransactionBatch") {
				if !lc.Args[3].isNil() || !lc.Args[4].isNil() {
					bad += "; immediate execution is given rates/averages " + lc.Args[3].String() + "/" + lc.Args[4].String()
				}
			}
		}
		r.check(bad == "", "C07-R1/hold-conversions", fmt.Sprintf("ApplyTransactionBlock with HasConversions=%v", hc), c.pos(atb.Pos()), map[bool]string{true: "held only", false: "applied immediately with nil rates"}[hc], bad)
	}
	// the holding row records the arrival height of the entry block
	for _, ci := range findCalls(atb, "pegnet.Pegnet.InsertTransactionBatchHolding") {
		hp := typePath(unwrapConv(ci.Common().Args[3]))
		r.check(hp == "factom.EBlock.Height", "C07-R1/hold-conversions", "holding row records the entry block's height", c.ipos(ci), "", "holding height is "+hp+valuePath(ci.Common().Args[3]))
	}

	// R2
	r.rule("C07-R2/rates-of-own-block", 3, "held conversions execute at the rates recorded for the executing block")
	sb := c.fn("node.Pegnetd.SyncBlock")
	for _, ci := range findCalls(sb, "node.Pegnetd.ApplyTransactionBatchesInHolding") {
		calls := sliceCalls(ci.Common().Args[4])
		var names []string
		for n := range calls {
			names = append(names, n)
		}
		sort.Strings(names)
		okOwn := false
		for _, pc := range calls["SelectPendingRates"] {
			if c.isExecHeight(pc.Call.Args[3]) {
				okOwn = true
			}
		}
		var others []string
		for _, n := range names {
			if n != "SelectPendingRates" && n != "SelectMostRecentRatesBeforeHeight" {
				// loggers that travel in the same struct as the per-block values are not rate sources
				onlyLog := true
				for _, pc := range calls[n] {
					if !strings.Contains(calleePkgPath(pc.Common()), "sirupsen/logrus") {
						onlyLog = false
					}
				}
				if !onlyLog {
					others = append(others, n)
				}
			}
		}
		r.check(okOwn && len(others) == 0, "C07-R2/rates-of-own-block", "rates argument of the holding executor", c.ipos(ci), "defined by SelectPendingRates(height); other reaching definitions (snapshot fallbacks, taken only when the block has no rates): "+strings.Join(names, ","), fmt.Sprintf("own-height read present=%v, unexpected rate sources: %v", okOwn, others))
		r.check(c.isExecHeight(ci.Common().Args[3]), "C07-R2/rates-of-own-block", "holding executor runs for the block's height", c.ipos(ci), "", "height argument is "+c.describeOrigin(ci.Common().Args[3]))
	}
	for _, fn := range []string{"pegnet.Pegnet.SelectPendingRates", "pegnet.Pegnet.SelectMostRecentRatesBeforeHeight", "pegnet.Pegnet.SelectRates"} {
		f := c.fn(fn)
		for _, st := range cat.Stmts {
			if st.Fn != f {
				continue
			}
			tabs := map[string]bool{}
			for _, m := range fromRe.FindAllStringSubmatch(st.Text, -1) {
				tabs[m[1]] = true
			}
			r.check(len(tabs) == 1 && tabs["pn_rate"], "C07-R2/rates-of-own-block", fname(f)+" reads pn_rate only", c.ipos(st.Site), "", fmt.Sprintf("tables read: %v — the height of the last rated block must come from the recorded rates", keys(tabs)))
		}
	}

	ruleRatesReadOnly(c, r, "C07-R2/rates-read-only")
	ruleHoldingWindow(c, r, "C07-R3/holding-window")
	ruleAveragesEraFree(c, r, "C07-R3/averages-era-free")
	// the averages priced with are those of a window a reload would produce (shared with C09)
	r.rule("C07-R3/average-window", 1, "the incrementally maintained averaging window equals a reloaded one in size and membership")
	windowSize(c, r, "C07-R3/average-window")

	r.rule("C07-R3/no-carried-state", 1, "the holding executor's window and rates come from the database")
	ruleNoCarriedReads(c, newSharedAnalysis(c), r, "C07-R3/no-carried-state", reachOf(c, "node.Pegnetd.ApplyTransactionBatchesInHolding"), carriedAllowedAverages, "the holding executor")
	// winners gate execution (shared with C12)
	winnerTable(c, r, e, "C07-R2/winners-gate-execution")

	// R4 Convert decision table
	r.rule("C07-R4/convert-table", 18, "which rates reach the multiplication and the division")
	cv := c.fn("conversions.Convert")
	pip := e.a.get("PIP10AverageActivation")
	rel := []int{-1, 0, 1}
	for _, h := range []uint32{pip - 1, pip, pip + 1} {
		for _, fr := range rel {
			for _, tr := range rel {
				fr, tr := fr, tr
				sc := &Scenario{
					Params: map[string]AVal{"type:uint32": hconst(h), "type:int64": sym("amount"), "type:uint64#0": sym("fromRate"), "type:uint64#1": sym("fromAvg"), "type:uint64#2": sym("toRate"), "type:uint64#3": sym("toAvg")},
					Order: func(a, b AVal) (int, bool) {
						if a.K == ASym && b.isConst() {
							return 1, true // every symbol is positive (non-zero, amount >= 0 handled separately)
						}
						if a.K == ASym && b.K == ASym {
							switch a.Sym + "?" + b.Sym {
							case "fromRate?fromAvg":
								return fr, true
							case "toRate?toAvg":
								return tr, true
							}
						}
						return 0, false
					},
					MaxDepth: 0,
				}
				t := newSCCP(c, sc).analyse(cv, nil)
				r.Scen++
				var setu []string
				for _, lc := range t.CallsTo("math/big.Int.SetUint64") {
					setu = append(setu, lc.Args[1].String())
				}
				wantS, wantD := "$fromRate", "$toRate"
				if h >= pip {
					if fr > 0 {
						wantS = "$fromAvg"
					}
					if tr < 0 {
						wantD = "$toAvg"
					}
				}
				got := strings.Join(setu, ",")
				want := wantS + "," + wantD
				cons := fmt.Sprintf("Convert height=%d fromRate%sfromAvg toRate%stoAvg", h, map[int]string{-1: "<", 0: "=", 1: ">"}[fr], map[int]string{-1: "<", 0: "=", 1: ">"}[tr])
				r.check(got == want, "C07-R4/convert-table", cons, c.pos(cv.Pos()), "source,destination = "+want, "source,destination rates are "+got+", expected "+want)
			}
		}
	}
	// negative amount rejected
	{
		sc := &Scenario{Params: map[string]AVal{"type:int64": cInt(-1), "type:uint64#0": cUint(5), "type:uint64#2": cUint(5), "type:uint64#1": cUint(5), "type:uint64#3": cUint(5), "type:uint32": hconst(pip)}, MaxDepth: 0}
		st := newSCCP(c, sc).run(cv, nil, 0)
		r.Scen++
		got := strings.Join(errorReturns(st), "|")
		r.check(got == "err:fresh", "C07-R4/convert-table", "Convert rejects a negative amount", c.pos(cv.Pos()), "", "error result "+got)
	}

	// R5 multiply before divide, overflow rejected
	r.rule("C07-R5/mul-then-div", 1, "result = Div(Mul(amount, source), destination) with overflow test")
	{
		muls := c.findCallsFam(cv, "math/big.Int.Mul") // in Convert or a helper split off from it
		divs := c.findCallsFam(cv, "math/big.Int.Div")
		body := cv
		if len(muls) == 1 && len(divs) == 1 && muls[0].Parent() == divs[0].Parent() {
			body = muls[0].Parent()
		}
		var bad []string
		if len(muls) != 1 || len(divs) != 1 {
			bad = append(bad, fmt.Sprintf("%d Mul and %d Div calls", len(muls), len(divs)))
		} else {
			mul, div := muls[0].(*ssa.Call), divs[0].(*ssa.Call)
			if !instrDominates(mul, div) {
				bad = append(bad, "the division does not come after the multiplication on every path")
			}
			if div.Call.Args[1] != ssa.Value(mul) {
				bad = append(bad, "the dividend is not the product")
			}
			// by data flow, not by names: the multiplier derives from the source-side parameters (from rate/average) only,
			// the divisor from the destination-side parameters only, the multiplicand from the amount
			var u64s []*ssa.Parameter
			var amt *ssa.Parameter
			for _, p := range cv.Params {
				if b, ok := p.Type().Underlying().(*types.Basic); ok {
					switch b.Kind() {
					case types.Uint64:
						u64s = append(u64s, p)
					case types.Int64:
						amt = p
					}
				}
			}
			if len(u64s) != 4 || amt == nil {
				bad = append(bad, "Convert no longer takes (height, amount int64, four uint64 rates)")
			} else {
				uses := func(v ssa.Value, ps ...*ssa.Parameter) bool {
					return sliceHas(v, func(x ssa.Value) bool {
						for _, p := range ps {
							if x == ssa.Value(p) {
								return true
							}
						}
						return false
					})
				}
				if !uses(mul.Call.Args[1], amt) {
					bad = append(bad, "the multiplicand is not the amount")
				}
				if m := mul.Call.Args[2]; !uses(m, u64s[0], u64s[1]) || uses(m, u64s[2], u64s[3]) {
					bad = append(bad, "the multiplier does not derive from the source rate/average only")
				}
				if d := div.Call.Args[2]; !uses(d, u64s[2], u64s[3]) || uses(d, u64s[0], u64s[1]) {
					bad = append(bad, "the divisor does not derive from the destination rate/average only")
				}
			}
			// every successful return is that quotient: no shortcut hands back the amount (or anything else) without the
			// rate selection and the division - e.g. an "equal rates" fast path would skip min/max with the averages
			retFns := []*ssa.Function{cv}
			if body != cv {
				retFns = append(retFns, body)
			}
			for _, rf := range retFns {
				allInstrs(rf, func(ins ssa.Instruction) {
					ret, ok := ins.(*ssa.Return)
					if !ok || len(ret.Results) != 2 {
						return
					}
					if !isNilConst(resolveSpill(ret.Results[1])) {
						return
					}
					// the quotient is the Div call's result, or the object Div stored it in (its receiver) once Div has run
					recv := unwrap(div.Call.Args[0])
					if !sliceHas(resolveSpill(ret.Results[0]), func(v ssa.Value) bool {
						return v == ssa.Value(div) || (unwrap(v) == recv && instrDominates(div, ret))
					}) {
						bad = append(bad, "the successful return at "+c.ipos(ret)+" does not return the quotient")
					}
				})
			}
			// IsInt64 gate before Int64
			gate := c.findCallsFam(cv, "math/big.Int.IsInt64")
			i64 := c.findCallsFam(cv, "math/big.Int.Int64")
			if len(gate) != 1 || len(i64) != 1 || !instrDominates(gate[0], i64[0]) {
				bad = append(bad, "Int64() is not preceded by an IsInt64() test")
			} else {
				// Int64 lies on the true branch of the test
				okBr := false
				for _, b := range gate[0].Parent().Blocks {
					cond, tb, fb := condEdge(b)
					if cond != nil && sliceHas(cond, func(v ssa.Value) bool { return v == gate[0].(ssa.Value) }) {
						// `if !num.IsInt64() { return err }` -> Int64 in the false successor
						if blockOrDom(fb, i64[0].Block()) && !blockOrDom(tb, i64[0].Block()) || blockOrDom(tb, i64[0].Block()) && !blockOrDom(fb, i64[0].Block()) {
							okBr = true
						}
					}
				}
				if !okBr {
					bad = append(bad, "the overflow test does not guard the Int64() conversion")
				}
			}
		}
		r.check(len(bad) == 0, "C07-R5/mul-then-div", "Convert arithmetic", c.pos(cv.Pos()), "", strings.Join(bad, "; "))
	}

	// R6 call sites (decided by types, data flow and origins - not by the names of locals or parameters)
	ruleConvertCallSites(c, r, "C07-R6/convert-call-sites")
}

func ruleHoldingWindow(c *Ctx, r *Report, rule string) {
	defer holdingSelectorOneHeight(c, r, rule)
	defer holdingAveragesAlways(c, r, rule)
	// R3 window and averages
	r.rule(rule, 3, "held batches of [last rated height, current) with that height's averages")
	hold := c.fn("node.Pegnetd.ApplyTransactionBatchesInHolding")
	mr := findCalls(hold, "pegnet.Pegnet.SelectMostRecentRatesBeforeHeight")
	if len(mr) != 1 {
		r.viol(rule, "last rated height", c.pos(hold.Pos()), fmt.Sprintf("%d calls to SelectMostRecentRatesBeforeHeight", len(mr)))
	} else {
		call := mr[0].(*ssa.Call)
		r.check(c.isExecHeight(call.Call.Args[3]), rule, "last rated height is searched below the executing height", c.ipos(call), "", "argument is "+c.describeOrigin(call.Call.Args[3]))
		var hres ssa.Value
		for _, rf := range *call.Referrers() {
			if ex, ok := rf.(*ssa.Extract); ok && ex.Index == 1 {
				hres = ex
			}
		}
		for _, ci := range findCalls(hold, "node.Pegnetd.GetPegNetRateAverages") {
			r.check(ci.Common().Args[2] == hres, rule, "averages computed for the last rated height", c.ipos(ci), "", "GetPegNetRateAverages is given another height")
		}
		for _, ci := range findCalls(hold, "pegnet.Pegnet.SelectTransactionBatchesInHoldingAtHeight") {
			iv := unwrapConv(ci.Common().Args[1])
			ph, _ := iv.(*ssa.Phi)
			okk := false
			if ph != nil {
				init, step := false, false
				for _, ed := range ph.Edges {
					if ed == hres {
						init = true
					}
					if bo, ok := ed.(*ssa.BinOp); ok && bo.Op.String() == "+" && bo.X == ph {
						if k, ok := bo.Y.(*ssa.Const); ok && k.Int64() == 1 {
							step = true
						}
					}
				}
				// the bound test `i < executing height`, however it is written (loop condition, or an
				// `if i >= h { break }` at the top of the body): its passing edge dominates the scan, its
				// failing edge leaves the loop, and nothing with an effect runs between the header and the test
				bound := false
				if l := innermostLoopWithHeader(hold, ph.Block()); l != nil {
					for b := range l.blocks {
						x, y, lt, ge := ordEdges(b)
						if x == nil || unwrapConv(x) != ssa.Value(ph) || !c.isExecHeight(y) {
							continue
						}
						if !blockOrDom(lt, ci.Block()) || l.blocks[ge] {
							continue
						}
						if b != ph.Block() && !(len(b.Preds) == 1 && b.Preds[0] == ph.Block() && len(callsInBlock(ph.Block())) == 0) {
							continue
						}
						bound = true
					}
				}
				okk = init && step && bound
			}
			r.check(okk, rule, "holding scanned for i = lastRated; i < currentHeight; i++", c.ipos(ci), "", "the holding window is not [last rated height, currentHeight) stepped by 1")
		}
	}

	// the "last rated height" is the newest pn_rate height below the executing one - no other table decides it
	{
		mrf := c.fn("pegnet.Pegnet.SelectMostRecentRatesBeforeHeight")
		found := false
		for _, st := range buildSQLCat(c).Stmts {
			if st.Fn != mrf {
				continue
			}
			found = true
			tabs := strings.Join(tablesIn(st.Text), ",")
			U := strings.ReplaceAll(strings.ToUpper(strings.Join(strings.Fields(st.Text), " ")), `"`, "")
			okk := tabs == "pn_rate" && strings.Contains(U, "MAX(HEIGHT)") && strings.Contains(U, "HEIGHT < ?") && !st.Unres
			r.check(okk, rule, "last rated height = MAX(height) of pn_rate below the executing height", c.ipos(st.Site), "tables: "+tabs, "the boundary of the holding window is read from ["+tabs+"] by `"+oneLine(st.Text)+"`: a block that has rates but no row there stops being a boundary, so already-considered held conversions are looked at again (or a rated block is skipped)")
		}
		if !found {
			r.viol(rule, "statement of SelectMostRecentRatesBeforeHeight", c.pos(mrf.Pos()), "no SQL statement found in the function")
		}
	}

}

// holdingAveragesAlways: the averages handed to applyTransactionBatch by the holding executor are the result of
// GetPegNetRateAverages on every path (never a nil map left over from a skipped call): Convert decides from the
// executing height whether it needs them.
func holdingAveragesAlways(c *Ctx, r *Report, rule string) {
	hold := c.fn("node.Pegnetd.ApplyTransactionBatchesInHolding")
	for _, ci := range c.findCallsFam(hold, "node.Pegnetd.applyTransactionBatch") {
		var parts []string
		okk := true
		for _, l := range c.originLeaves(ci.Common().Args[4], c.RSync) {
			d := "?"
			switch y := l.(type) {
			case *ssa.Const:
				d = "nil"
			case *ssa.TypeAssert:
				if call, ok := y.X.(*ssa.Call); ok {
					d = shortCallee(call.Common())
				}
			case *ssa.Call:
				d = shortCallee(y.Common())
			case *ssa.Extract:
				if call, ok := y.Tuple.(*ssa.Call); ok {
					d = shortCallee(call.Common())
				}
				if ta, ok := y.Tuple.(*ssa.TypeAssert); ok {
					if call, ok := ta.X.(*ssa.Call); ok {
						d = shortCallee(call.Common())
					}
				}
			}
			parts = append(parts, d)
			if d != "GetPegNetRateAverages" {
				okk = false
			}
		}
		sort.Strings(parts)
		r.check(okk && len(parts) > 0, rule, "averages of the holding executor come from GetPegNetRateAverages on every path", c.ipos(ci), "", "the averages argument can be ["+strings.Join(dedupStrings(parts), ",")+"]: Convert applies PIP-10 from the executing height, so a nil map there drops every conversion of the block")
	}
}

// holdingSelectorOneHeight: the holding selector returns the batches of exactly the height it is asked for (the
// executor calls it once per height of the window).
func holdingSelectorOneHeight(c *Ctx, r *Report, rule string) {
	sel := c.fn("pegnet.Pegnet.SelectTransactionBatchesInHoldingAtHeight")
	found := false
	for _, st := range buildSQLCat(c).Stmts {
		if st.Fn != sel && !c.inFamily(st.Fn, sel) {
			continue
		}
		if st.Verb != "SELECT" {
			continue
		}
		found = true
		w := strings.ReplaceAll(strings.ToUpper(strings.Join(strings.Fields(st.Where), " ")), `"`, "")
		w = strings.TrimSuffix(strings.TrimSpace(strings.TrimPrefix(w, "WHERE ")), ";")
		r.check(!st.Limit, rule, "holding selector returns every batch of the height", c.ipos(st.Site), "no LIMIT", "the selector is limited (`"+oneLine(st.Text)+"`): each height of the window is read exactly once, so what does not fit is never considered for execution - it stays pending for ever, and anybody can push other users' conversions out by flooding a block")
		okk := st.Table == "pn_transaction_batch_holding" && (w == "HEIGHT == ?" || w == "HEIGHT = ?" || strings.HasPrefix(w, "HEIGHT == ? ORDER") || strings.HasPrefix(w, "HEIGHT = ? ORDER")) && !st.Unres
		r.check(okk, rule, "holding selector reads the batches of one height", c.ipos(st.Site), "WHERE height = ?", "the selector's predicate is `"+oneLine(st.Where)+"`: called once per height of the window, it returns batches of other heights as well, so a batch is considered more than once (a rejected one can then execute)")
	}
	if !found {
		r.viol(rule, "statement of SelectTransactionBatchesInHoldingAtHeight", c.pos(sel.Pos()), "no SELECT found in the holding selector")
	}
}

func ruleAveragesEraFree(c *Ctx, r *Report, rule string) {
	// the averages do not depend on the era: the consumer (Convert) applies the PIP-10 gate with the executing height
	r.rule(rule, 1, "GetPegNetRateAverages reads no activation constant")
	{
		g := c.fn("node.Pegnetd.GetPegNetRateAverages")
		var bad []string
		for f := range c.reach(g) {
			if f != g && f.Parent() != g {
				continue
			}
			allInstrs(f, func(ins ssa.Instruction) {
				if u, ok := ins.(*ssa.UnOp); ok {
					if gl, ok := u.X.(*ssa.Global); ok && gl.Pkg.Pkg.Name() == "config" {
						bad = append(bad, fmt.Sprintf("%s reads config.%s at %s", fname(f), gl.Name(), c.ipos(ins)))
					}
				}
			})
		}
		r.check(len(bad) == 0, rule, "GetPegNetRateAverages", c.pos(g.Pos()), "", strings.Join(bad, "; ")+": the averages are requested for the previous rated height while Convert gates PIP-10 on the executing height, so an era test inside the averages makes the first block after an activation see empty averages")
	}

}

func sameConstOrValue(a, b ssa.Value) bool {
	if a == b {
		return true
	}
	ka, ok1 := a.(*ssa.Const)
	kb, ok2 := b.(*ssa.Const)
	return ok1 && ok2 && ka.Value != nil && kb.Value != nil && ka.Value.ExactString() == kb.Value.ExactString()
}

// ruleRatesReadOnly: the rate map read for a block (SelectPendingRates and the snapshot fallbacks) is shared by the
// steps of SyncBlock; no step writes to it - an entry filled in or deleted for one step changes what the holding
// executor, which runs later with the same map, admits and at which price.
func ruleRatesReadOnly(c *Ctx, r *Report, rule string) {
	r.rule(rule, 1, "the block's rate map is not modified after it was read")
	isRateMap := func(t types.Type) bool { return shortType(t) == "map[fat2.PTicker]uint64" }
	fromRates := func(m ssa.Value) string {
		for _, l := range c.originLeaves(m, c.RSync) {
			var call *ssa.Call
			switch y := l.(type) {
			case *ssa.Extract:
				call, _ = y.Tuple.(*ssa.Call)
			case *ssa.Call:
				call = y
			}
			if call != nil {
				switch n := shortCallee(call.Common()); n {
				case "SelectPendingRates", "SelectMostRecentRatesBeforeHeight", "SelectRates", "SelectRecentRates":
					return n
				}
			}
		}
		return ""
	}
	n := 0
	var bad []string
	for _, f := range sortedFuncs(c.RSync) {
		if f.Pkg != nil && f.Pkg.Pkg.Name() == "pegnet" {
			continue // the readers build the maps they return
		}
		allInstrs(f, func(ins ssa.Instruction) {
			var m ssa.Value
			how := ""
			switch x := ins.(type) {
			case *ssa.MapUpdate:
				m, how = x.Map, "assigns an entry"
			case ssa.CallInstruction:
				if b, ok := x.Common().Value.(*ssa.Builtin); ok && b.Name() == "delete" && len(x.Common().Args) > 0 {
					m, how = x.Common().Args[0], "deletes an entry"
				}
			}
			if m == nil || !isRateMap(m.Type()) {
				return
			}
			n++
			if src := fromRates(m); src != "" {
				bad = append(bad, fmt.Sprintf("%s %s of the map read by %s at %s", fname(f), how, src, c.ipos(ins)))
			}
		})
	}
	r.check(len(bad) == 0, rule, "rate maps read for the block", "-", fmt.Sprintf("%d writes to maps of that type on the sync path, none to a map read from pn_rate", n), strings.Join(bad, "; ")+": the same map is handed to the steps that follow (SyncBlock passes it to the holding executor), so they see rates that were never recorded for this block, or miss one that was")
}

// innermostLoopWithHeader: the natural loop of f whose header is h.
func innermostLoopWithHeader(f *ssa.Function, h *ssa.BasicBlock) *natLoop {
	for _, l := range naturalLoops(f) {
		if l.header == h {
			return l
		}
	}
	return nil
}

func callsInBlock(b *ssa.BasicBlock) []ssa.CallInstruction {
	var out []ssa.CallInstruction
	for _, ins := range b.Instrs {
		if ci, ok := ins.(ssa.CallInstruction); ok {
			out = append(out, ci)
		}
	}
	return out
}

// sameVarValue: a and b are the same SSA value, or loads of the same variable (a captured variable of a closure, a
// local spilled to memory) that nothing in the function stores to between definition and use.
func sameVarValue(a, b ssa.Value) bool {
	a, b = unwrap(a), unwrap(b)
	if a == b {
		return true
	}
	ua, ok1 := a.(*ssa.UnOp)
	ub, ok2 := b.(*ssa.UnOp)
	if !ok1 || !ok2 || ua.Op != token.MUL || ub.Op != token.MUL || ua.X != ub.X {
		return false
	}
	switch x := ua.X.(type) {
	case *ssa.FreeVar:
		stored := false
		allInstrs(x.Parent(), func(ins ssa.Instruction) {
			if st, ok := ins.(*ssa.Store); ok && st.Addr == ssa.Value(x) {
				stored = true
			}
		})
		return !stored
	case *ssa.Alloc:
		n := 0
		if x.Referrers() != nil {
			for _, rf := range *x.Referrers() {
				if st, ok := rf.(*ssa.Store); ok && st.Addr == ssa.Value(x) {
					n++
				}
			}
		}
		return n <= 1
	}
	return false
}

// ruleConvertCallSites: every call of Convert on the sync path is given the executing height and the amount, rates and
// averages of one and the same transaction (decided by types, data flow and origins - not by names).
func ruleConvertCallSites(c *Ctx, r *Report, rule string) {
	r.rule(rule, 5, "Convert is called with the executing height and inputs of one transaction")
	lookupOf := func(v ssa.Value) *ssa.Lookup {
		switch x := v.(type) {
		case *ssa.Lookup:
			return x
		case *ssa.Extract:
			if lk, ok := x.Tuple.(*ssa.Lookup); ok && x.Index == 0 {
				return lk
			}
		}
		return nil
	}
	mapOrigins := func(m ssa.Value) string {
		var parts []string
		for _, l := range c.originLeaves(m, c.RSync) {
			switch y := l.(type) {
			case *ssa.Const:
				parts = append(parts, "nil")
			case *ssa.TypeAssert:
				if call, ok := y.X.(*ssa.Call); ok {
					parts = append(parts, shortCallee(call.Common()))
					continue
				}
				parts = append(parts, "?")
			case *ssa.Extract:
				if call, ok := y.Tuple.(*ssa.Call); ok {
					parts = append(parts, shortCallee(call.Common()))
					continue
				}
				parts = append(parts, "?")
			case *ssa.Call:
				parts = append(parts, shortCallee(y.Common()))
			case *ssa.MakeMap:
				parts = append(parts, "make")
			default:
				parts = append(parts, "?")
			}
		}
		sort.Strings(parts)
		return strings.Join(dedupStrings(parts), ",")
	}
	refund := c.fn("conversions.Refund")
	for _, f := range sortedFuncs(c.RSync) {
		ordn := newOrdinals()
		for _, ci := range findCalls(f, "conversions.Convert") {
			a := ci.Common().Args
			cons := fmt.Sprintf("%s -> Convert %s", fname(f), ord(ordn.next("c")))
			var bad []string
			if !c.isExecHeight(a[0]) {
				bad = append(bad, "the height argument is not the executing height but "+c.describeOrigin(a[0]))
			}
			if f == refund {
				// Refund converts the PEG yield back at the rates it was given
				for i := 2; i <= 5; i++ {
					if ownParam(a[i], f) < 0 {
						bad = append(bad, fmt.Sprintf("rate argument %d is not one of Refund's own parameters", i+1))
					}
				}
				r.check(len(bad) == 0, rule, cons, c.ipos(ci), "executing height, own parameters", strings.Join(bad, "; "))
				continue
			}
			var lks [4]*ssa.Lookup
			for i := range lks {
				lks[i] = lookupOf(a[2+i])
			}
			if lks[0] == nil || lks[1] == nil || lks[2] == nil || lks[3] == nil {
				r.viol(rule, cons, c.ipos(ci), "a rate argument is not read from a rate map")
				continue
			}
			if typePath(unwrapConv(a[1])) != "fat2.TypedAddressAmountTuple.Amount" {
				// valuation of a balance (snapshot payouts): one rate map, source = rates[i] twice, destination = rates[k] twice
				same := sameVarValue(lks[0].X, lks[1].X) && sameVarValue(lks[1].X, lks[2].X) && sameVarValue(lks[2].X, lks[3].X)
				if !same || lks[0].Index != lks[1].Index || !sameConstOrValue(lks[2].Index, lks[3].Index) {
					bad = append(bad, "a valuation must read source rate and average, destination rate and average pairwise from the same entry of one map")
				}
				r.check(len(bad) == 0, rule, cons, c.ipos(ci), "executing height; spot rates on both sides", strings.Join(bad, "; "))
				continue
			}
			// transaction conversions: lookups keyed by fields of the same transaction
			wantKeys := []string{"fat2.TypedAddressAmountTuple.Type", "fat2.TypedAddressAmountTuple.Type", "fat2.Transaction.Conversion", "fat2.Transaction.Conversion"}
			var roots []ssa.Value
			for i, w := range wantKeys {
				if tp := typePath(lks[i].Index); tp != w {
					bad = append(bad, fmt.Sprintf("argument %d is keyed by %s, expected %s", 3+i, tp, w))
				}
				roots = append(roots, elemRoots(lks[i].Index)...)
			}
			if !sameVarValue(lks[2].X, lks[0].X) || !sameVarValue(lks[3].X, lks[1].X) {
				bad = append(bad, "source and destination are read from different maps")
			}
			ro, ao := mapOrigins(lks[0].X), mapOrigins(lks[1].X)
			if strings.Contains(ro, "GetPegNetRateAverages") || strings.Contains(ro, "?") || ro == "" {
				bad = append(bad, "the spot-rate arguments come from ["+ro+"]")
			}
			for _, o := range strings.Split(ao, ",") {
				if o != "GetPegNetRateAverages" && o != "nil" {
					bad = append(bad, "the average arguments come from ["+ao+"], expected GetPegNetRateAverages")
				}
			}
			roots = append(roots, elemRoots(a[1])...)
			for _, rt := range roots {
				if rt != roots[0] {
					bad = append(bad, "the amount and the rate keys are read from different transactions")
					break
				}
			}
			r.check(len(bad) == 0, rule, cons, c.ipos(ci), "Convert(executing height, tx.Input.Amount, rates/averages[tx.Input.Type], rates/averages[tx.Conversion]) of one transaction; rates from ["+ro+"], averages from ["+ao+"]", strings.Join(uniq(bad), "; "))
		}
	}
}
