package main

import (
	"fmt"
	"go/token"
	"strings"

	"golang.org/x/tools/go/ssa"
)

func init() { props["C06"] = propC06; props["C17"] = propC17 }

// replayGuarded: call x is dominated by the `isReplay == false` edge of IsReplayTransaction(tx, batch.Entry.Hash),
// made in x's function or in a verdict helper split off from it.
var replaySpec = &guardSpec{
	callee: "pegnet.Pegnet.IsReplayTransaction",
	good: func(c *Ctx, call *ssa.Call) []*ssa.BasicBlock {
		var out []*ssa.BasicBlock
		var res ssa.Value
		if call.Referrers() != nil {
			for _, rf := range *call.Referrers() {
				if ex, ok := rf.(*ssa.Extract); ok && ex.Index == 0 {
					res = ex
				}
			}
		}
		if res == nil {
			return nil
		}
		for _, b := range call.Parent().Blocks {
			cond, tb, fb := condEdge(b)
			if cond == nil {
				continue
			}
			if cond == res {
				out = append(out, fb)
			} else if u, ok := cond.(*ssa.UnOp); ok && u.Op == token.NOT && u.X == res {
				out = append(out, tb)
			}
		}
		return out
	},
	accept: func(c *Ctx, call *ssa.Call, _ ssa.Value) bool {
		return strings.HasSuffix(typePath(call.Call.Args[2]), "Entry.Hash")
	},
	hasBool: true, boolIdx: 0, passBool: false,
}

func replayGuarded(c *Ctx, f *ssa.Function, x ssa.CallInstruction) (bool, string) {
	if c.guardedByOutcome(x, nil, replaySpec, 0) {
		return true, ""
	}
	for _, rc := range findCalls(f, "pegnet.Pegnet.IsReplayTransaction") {
		if call, ok := rc.(*ssa.Call); ok && instrDominates(call, x) && !replaySpec.accept(c, call, nil) {
			return false, "the replay check is not keyed by the batch's entry hash"
		}
	}
	return false, "not dominated by the not-a-replay edge of IsReplayTransaction"
}

func propC06(c *Ctx, r *Report) {
	r.Explain = "Decides the structure of replay protection: (R1) every call that records, holds or executes a batch is dominated by the not-a-replay edge of IsReplayTransaction on the block's tx, keyed by the batch's entry hash, in both executors; (R2) in recordBatch every iteration that debits also writes the relation row keyed by the entry hash, before any `continue`; (R3) the replay check reads the table that row is written to (pn_address_transactions by entry_hash) through the block's transaction, so copies inside one block see each other; (R4) the replay check's cursor errors are not swallowed; (R5) holding and history rows are insert-only with plain INSERTs on uniquely keyed tables (a second copy of a pending or rejected entry cannot be filed or re-executed silently) and the holding table is never updated or deleted; (R6) the PEG requests settled for one held height are not settled again (shared with C16)."
	r.NotDec = "the arithmetic of successive holding windows over arbitrary block patterns (structure decided under C07-R3); duplicate copies end in a failed block rather than a second execution - that liveness cost is recorded under C08"
	r.Trusted = []string{"SQLite UNIQUE constraints", "go/ssa"}
	cat := buildSQLCat(c)

	ruleReplayGuard(c, r, "C06-R1/replay-guard")
	hold := c.fn("node.Pegnetd.ApplyTransactionBatchesInHolding")

	r.rule("C06-R2/relation-row", 1, "every debited transaction leaves its relation row")
	rb := c.bodyOf(c.fn("node.Pegnetd.recordBatch"), "pegnet.Pegnet.SubFromBalance")
	{
		debits := findCalls(rb, "pegnet.Pegnet.SubFromBalance")
		rels := findCalls(rb, "pegnet.Pegnet.InsertTransactionRelation")
		var bad []string
		if len(debits) != 1 || len(rels) < 1 {
			bad = append(bad, fmt.Sprintf("%d debit and %d relation call sites", len(debits), len(rels)))
		} else {
			var inputRel ssa.CallInstruction
			for _, rl := range rels {
				if strings.HasSuffix(typePath(rl.Common().Args[2]), "TypedAddressAmountTuple.Address") {
					inputRel = rl
				}
			}
			if inputRel == nil {
				bad = append(bad, "no relation row for the input address")
			} else {
				if !strings.HasSuffix(typePath(inputRel.Common().Args[3]), "Entry.Hash") {
					bad = append(bad, "relation row not keyed by the batch's entry hash")
				}
				if !instrDominates(debits[0], inputRel) {
					bad = append(bad, "relation row can be written without the debit")
				}
				if okk, _ := c.everyPassFam(inputRel); !okk {
					bad = append(bad, "an iteration of the transaction loop can complete (e.g. through the PEG-request `continue`) without writing the relation row: a later copy of the entry would not be recognised as a replay")
				}
				ev, _ := errValueOf(inputRel)
				if ev == nil || len(nilTestsOf(c, ev)) == 0 {
					bad = append(bad, "error of the relation insert is not checked")
				}
			}
		}
		r.check(len(bad) == 0, "C06-R2/relation-row", "recordBatch writes (entry hash, input address) on every debiting iteration", c.pos(rb.Pos()), "", strings.Join(bad, "; "))
	}

	ruleReplaySameTx(c, r, cat, "C06-R3/same-table-same-tx")
	irt := c.fn("pegnet.Pegnet.IsReplayTransaction")

	r.rule("C06-R4/replay-check-errors", 1, "the replay check does not swallow errors")
	eff := computeEffects(c)
	runErrflow(c, eff, r, map[*ssa.Function]bool{irt: true}, "C06-R4/replay-check-errors", false)

	ruleInsertOnly(c, r, cat, "C06-R5/insert-only")
	// the boundary of the holding window is read from pn_rate: only a graded block writes there
	r.rule("C06-R11/window-marker-writers", 1, "pn_rate is written by the rate insert of a graded block only")
	ruleTableWriters(c, cat, r, "C06-R11/window-marker-writers", "pn_rate", []writerSpec{{"pegnet.Pegnet.insertRate|pegnet.Pegnet.InsertRates", "INSERT", ""}}, true)
	r.rule("C06-R3/replay-predicate", 1, "the replay check asks for any relation row of the entry hash")
	ruleReplayPredicate(c, r, cat, "C06-R3/replay-predicate")

	// considered exactly once (lower half): the window loop visits every height and every batch of it
	r.rule("C06-R10/window-complete", 3, "the holding window is walked to its end")
	ruleLoopCompletes(c, r, "C06-R10/window-complete", hold, "pegnet.Pegnet.SelectTransactionBatchesInHoldingAtHeight", "every height of the holding window is scanned by the first rated block after it")
	ruleLoopCompletes(c, r, "C06-R10/window-complete", hold, "node.Pegnetd.applyTransactionBatch", "every held batch of a height is considered")
	ruleLoopCompletes(c, r, "C06-R10/window-complete", c.fn("node.Pegnetd.ApplyTransactionBlock"), "fat2.NewTransactionBatch", "every entry of the block is looked at")

	// considered exactly once: the holding window is [last rated height, executing height), shared with C07
	ruleHoldingWindow(c, r, "C06-R7/holding-window")
	ruleHeightPlumbing(c, r, "C06-R8/height-plumbing")
	// the holding window advances only with a rated block: held batches are executed iff the block has winners
	winnerTable(c, r, newEraCtx(c, r), "C06-R9/winners-gate-execution")
	ruleSettleOnceFam(c, r, "C06-R6/settle-once")
}

func ruleReplayGuard(c *Ctx, r *Report, rule string) {
	r.rule(rule, 3, "record/hold/execute only when the entry hash has not been executed")
	atb := c.fn("node.Pegnetd.ApplyTransactionBlock")
	hold := c.fn("node.Pegnetd.ApplyTransactionBatchesInHolding")
	for _, spec := range []struct {
		f     *ssa.Function
		calls []string
	}{
		{atb, []string{"pegnet.Pegnet.InsertTransactionHistoryTxBatch", "pegnet.Pegnet.InsertTransactionBatchHolding", "node.Pegnetd.applyTransactionBatch"}},
		{hold, []string{"node.Pegnetd.applyTransactionBatch"}},
	} {
		for _, n := range spec.calls {
			cs := c.findCallsFam(spec.f, n) // the executor and helpers split off from it
			if len(cs) == 0 {
				r.viol(rule, fmt.Sprintf("%s -> %s", fname(spec.f), n), c.pos(spec.f.Pos()), "call not found")
			}
			for _, ci := range cs {
				why := ""
				okk := c.liftGuard(ci, func(s ssa.CallInstruction) bool {
					g, w := replayGuarded(c, s.Parent(), s)
					if !g && why == "" {
						why = w
					}
					return g
				}, 0)
				r.check(okk, rule, fmt.Sprintf("%s -> %s", fname(spec.f), shortCallee(ci.Common())), c.ipos(ci), "dominated by the not-a-replay edge", why+": an entry that already changed the ledger can be recorded or executed again")
			}
		}
	}

}

func ruleReplaySameTx(c *Ctx, r *Report, cat *SQLCat, rule string) {
	r.rule(rule, 3, "replay check and relation insert use the same table and the block's tx")
	irt := c.fn("pegnet.Pegnet.IsReplayTransaction")
	itr := c.fn("pegnet.Pegnet.InsertTransactionRelation")
	var rd, wr *SQLStmt
	for _, st := range cat.Stmts {
		if st.Fn == irt && st.Verb == "SELECT" {
			rd = st
		}
		if st.Fn == itr && st.Verb == "INSERT" {
			wr = st
		}
	}
	if rd == nil || wr == nil {
		r.viol(rule, "statements of IsReplayTransaction / InsertTransactionRelation", c.pos(irt.Pos()), fmt.Sprintf("read statement found=%v (a replay check that delegates to another function is judged by that function's receiver), write statement found=%v", rd != nil, wr != nil))
	} else {
		r.check(rd.Table == wr.Table, rule, "same table", c.ipos(rd.Site), rd.Table, fmt.Sprintf("the replay check reads %s but executed entries are recorded in %s", rd.Table, wr.Table))
		r.check(strings.Contains(rd.Where, "entry_hash") && strings.Contains(wr.Text, "entry_hash"), rule, "keyed by entry_hash", c.ipos(rd.Site), "", "replay check WHERE clause: "+rd.Where)
		r.check(rd.Recv == "Tx" && derivesFromTxParam(rd.RecvVal) && wr.Recv == "Tx", rule, "replay check runs on the block's tx", c.ipos(rd.Site), "", "the replay check reads through "+rd.Recv+": rows written earlier in the same block are invisible to it, so a second copy of an entry in one block executes again")
	}
	// no call inside IsReplayTransaction to a pool reader
	for _, ci := range callsOf(irt) {
		if sc := ci.Common().StaticCallee(); sc != nil && fnInModule(sc) {
			for _, st := range cat.Stmts {
				if st.Fn == sc && st.Recv == "DB" {
					r.viol(rule, "IsReplayTransaction delegates to "+fname(sc), c.ipos(ci), "the replay check is answered from the connection pool (committed state): copies of an entry inside one block do not see each other")
				}
			}
		}
	}

}
