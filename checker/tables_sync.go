package main

// Decision tables over the height classes for SyncBlock / Grade / GradeS / DBlockSync.

import (
	"fmt"
	"go/constant"
	"sort"
	"strings"

	"golang.org/x/tools/go/ssa"
)

type eraCtx struct {
	c       *Ctx
	a       *Acts
	reps    []uint32
	repsQ   map[uint32]bool   // the quick-tier representatives (subset of reps)
	sb      map[uint32]*Trace // SyncBlock
	gr      map[uint32]*Trace // Grade
	gs      map[uint32]*Trace // GradeS
	db      map[uint32]*Trace // DBlockSync (height = Synced+1)
	quiet   map[uint32]*Trace // SyncBlock, no fault, nothing on the tracked chains
	globals map[string]AVal   // activation overrides of a configuration variant ("config.X" -> value)
}

func hconst(h uint32) AVal { return cUint(uint64(h)) }

// newEraCtxVariant: the same tables under another placement of activation heights (the properties that
// quantify over configurations: alignment of activations with the 144-block cadence).
func newEraCtxVariant(c *Ctx, r *Report, overrides map[string]uint32) *eraCtx {
	e := newEraCtx(c, nil)
	a := &Acts{m: map[string]uint32{}, extraConsts: e.a.extraConsts, moduli: e.a.moduli}
	for k, v := range e.a.m {
		a.m[k] = v
	}
	e.globals = map[string]AVal{}
	for k, v := range overrides {
		a.m[k] = v
		e.globals["config."+k] = hconst(v)
	}
	e.a = a
	e.reps = a.reps(false)
	e.repsQ = map[uint32]bool{}
	for _, h := range e.reps {
		e.repsQ[h] = true
	}
	return e
}

func newEraCtx(c *Ctx, r *Report) *eraCtx {
	e := &eraCtx{c: c, a: c.activations(), sb: map[uint32]*Trace{}, gr: map[uint32]*Trace{}, gs: map[uint32]*Trace{}, db: map[uint32]*Trace{}, quiet: map[uint32]*Trace{}}
	e.reps = e.a.reps(c.Tier == "thorough")
	e.repsQ = map[uint32]bool{}
	for _, h := range e.a.reps(false) {
		e.repsQ[h] = true
	}
	if r != nil {
		r.Extra["height_classes"] = len(e.reps)
		r.Extra["activations"] = e.a.m
		r.Extra["height_literals_in_code"] = e.a.extraConsts
		r.Extra["height_moduli_in_code"] = e.a.moduli
	}
	return e
}

func (e *eraCtx) syncBlock(h uint32) *Trace {
	if t, ok := e.sb[h]; ok {
		return t
	}
	sc := &Scenario{Name: fmt.Sprintf("SyncBlock height=%d", h),
		Params: map[string]AVal{"type:uint32": hconst(h)},
		Paths:  map[string]AVal{"pegnet.BlockSync.Synced": hconst(h - 1), "factom.EBlock.Height": hconst(h), "factom.DBlock.Height": hconst(h)},
		// SelectPendingRates returns a freshly made (non-nil) map on its nil-error path
		MaxDepth: 2,
		NoInline: map[string]bool{"multiFetch": true},
		Globals:  e.globals,
	}
	t := newSCCP(e.c, sc).analyse(e.c.fn("node.Pegnetd.SyncBlock"), nil)
	e.sb[h] = t
	return t
}

// syncBlockNoFault: SyncBlock at height h with every error nil (no fault, nothing rejected);
// everything else unknown.  Used for must-execute questions.
func (e *eraCtx) syncBlockNoFault(h uint32) *Trace {
	if t, ok := e.quiet[h]; ok {
		return t
	}
	sc := &Scenario{Name: fmt.Sprintf("SyncBlock height=%d no-fault", h),
		Params:       map[string]AVal{"type:uint32": hconst(h)},
		Paths:        map[string]AVal{"pegnet.BlockSync.Synced": hconst(h - 1)},
		Calls:        map[string]AVal{"isDone": cBool(false)},
		MaxDepth:     0,
		AllErrorsNil: true,
		Globals:      e.globals,
	}
	t := newSCCP(e.c, sc).analyse(e.c.fn("node.Pegnetd.SyncBlock"), nil)
	e.quiet[h] = t
	return t
}

func (e *eraCtx) grade(h uint32, which string) *Trace {
	m := e.gr
	fn := "node.Pegnetd.Grade"
	if which == "S" {
		m = e.gs
		fn = "node.Pegnetd.GradeS"
	}
	if t, ok := m[h]; ok {
		return t
	}
	sc := &Scenario{Name: fmt.Sprintf("%s height=%d", fn, h), Paths: map[string]AVal{"factom.EBlock.Height": hconst(h)}, MaxDepth: 1, Globals: e.globals}
	t := newSCCP(e.c, sc).analyse(e.c.fn(fn), nil)
	m[h] = t
	return t
}

func (e *eraCtx) dblockSync(h uint32) *Trace {
	if t, ok := e.db[h]; ok {
		return t
	}
	sc := &Scenario{Name: fmt.Sprintf("DBlockSync next=%d", h), Paths: map[string]AVal{"pegnet.BlockSync.Synced": hconst(h - 1)}, MaxDepth: 1,
		NoInline: map[string]bool{"SyncBlock": true, "InsertSynced": true}, Globals: e.globals}
	t := newSCCP(e.c, sc).analyse(e.c.Sync, nil)
	e.db[h] = t
	return t
}

// argInt extracts a constant integer argument.
func argInt(lc LiveCall, i int) (int64, bool) {
	if i >= len(lc.Args) {
		return 0, false
	}
	return lc.Args[i].intVal()
}

// row is one table row evaluated over all height classes: want/got rendered as strings.
type row struct {
	rule, name string
	want, got  func(h uint32) string
	pos        func() string
}

func (e *eraCtx) evalRows(r *Report, rows []row) {
	for _, rw := range rows {
		var bad []string
		n := 0
		classes := map[string]bool{}
		definite := false // some disagreeing cell has a definite value (not an unknown left by the abstraction)
		for _, h := range e.reps {
			w, g := rw.want(h), rw.got(h)
			n++
			classes[w] = true
			if w != g {
				if !strings.Contains(g, "⊤") {
					definite = true
				}
				if len(bad) < 6 {
					bad = append(bad, fmt.Sprintf("h=%d expected %s, code gives %s", h, w, g))
				}
			}
		}
		r.Scen += n
		pos := "-"
		if rw.pos != nil {
			pos = rw.pos()
		}
		var cl []string
		for k := range classes {
			cl = append(cl, k)
		}
		sort.Strings(cl)
		if len(bad) == 0 {
			r.okNT(rw.rule, rw.name, pos, fmt.Sprintf("%d height classes agree with the oracle; values: %s", n, strings.Join(cl, " / ")))
		} else if !definite {
			// every disagreement is "unknown": the value is no longer a function of the height alone (it depends on data
			// the table does not fix), or the abstraction lost it - the first is a finding, and the machinery is built so
			// that the second does not happen for values carried through helpers, closures and local structs
			r.viol(rw.rule, rw.name, pos, "not a function of the height class any more: "+strings.Join(bad, "; "))
		} else {
			r.viol(rw.rule, rw.name, pos, strings.Join(bad, "; "))
		}
	}
}

func liveStr(b bool) string {
	if b {
		return "live"
	}
	return "dead"
}

func (e *eraCtx) posOf(fn string, callee string) func() string {
	return func() string {
		f := e.c.fnOpt(fn)
		if f == nil {
			return "-"
		}
		for _, ci := range callsOf(f) {
			n := calleeName(ci.Common())
			if n == callee || strings.HasSuffix(n, "."+callee) {
				return e.c.ipos(ci)
			}
		}
		return e.c.pos(f.Pos())
	}
}

// constArgs renders the set of constant values argument i takes over all live calls to callee.
func constArgs(t *Trace, callee string, i int) string {
	set := map[string]bool{}
	for _, lc := range t.CallsTo(callee) {
		if i < len(lc.Args) {
			set[lc.Args[i].String()] = true
		}
	}
	if len(set) == 0 {
		return "dead"
	}
	var s []string
	for k := range set {
		s = append(s, k)
	}
	sort.Strings(s)
	return strings.Join(s, ",")
}

// ---------- rows per property ----------

func (e *eraCtx) rowsC15(r *Report) []row {
	a := e.a
	rule := "C15/era-table"
	return []row{
		{rule, "MintTokensForBalance live iff height == V204EnhanceActivation, minted for that height",
			func(h uint32) string {
				if a.mint(h) {
					return fmt.Sprintf("%d", h)
				}
				return "dead"
			},
			func(h uint32) string { return constArgs(e.syncBlock(h), "MintTokensForBalance", 3) },
			e.posOf("node.Pegnetd.SyncBlock", "MintTokensForBalance")},
		{rule, "NullifyMintedTokens live iff height == V204BurnMintedTokenActivation",
			func(h uint32) string {
				if a.burnMint(h) {
					return fmt.Sprintf("%d", h)
				}
				return "dead"
			},
			func(h uint32) string { return constArgs(e.syncBlock(h), "NullifyMintedTokens", 3) },
			e.posOf("node.Pegnetd.SyncBlock", "NullifyMintedTokens")},
		{rule, "DevelopersPayouts live iff height >= V20DevRewardsHeightActivation and height % 144 == 0",
			func(h uint32) string {
				if a.devPayout(h) {
					return fmt.Sprintf("%d", h)
				}
				return "dead"
			},
			func(h uint32) string { return constArgs(e.syncBlock(h), "DevelopersPayouts", 3) },
			e.posOf("node.Pegnetd.SyncBlock", "DevelopersPayouts")},
		{rule, "NullifyBurnAddress live iff next height is V20DevRewardsHeightActivation or V202EnhanceActivation",
			func(h uint32) string {
				if a.nullifyBurn(h) {
					return fmt.Sprintf("%d", h)
				}
				return "dead"
			},
			func(h uint32) string { return constArgs(e.dblockSync(h), "NullifyBurnAddress", 3) },
			e.posOf("node.Pegnetd.DBlockSync", "NullifyBurnAddress")},
		{rule, "block applied by the sync root is synced+1",
			func(h uint32) string { return fmt.Sprintf("%d", h) },
			func(h uint32) string { return constArgs(e.dblockSync(h), "SyncBlock", 3) },
			e.posOf("node.Pegnetd.DBlockSync", "SyncBlock")},
	}
}

func (e *eraCtx) rowsC11(r *Report) []row {
	a := e.a
	rule := "C11/era-table"
	return []row{
		{rule, "OPR grader version by height",
			func(h uint32) string { return fmt.Sprintf("%d", a.oprGraderVersion(h)) },
			func(h uint32) string {
				return constArgs(e.grade(h, "O"), "github.com/pegnet/pegnet/modules/grader.NewGrader", 0)
			},
			e.posOf("node.Pegnetd.Grade", "NewGrader")},
		{rule, "OPR grader is given the block height",
			func(h uint32) string { return fmt.Sprintf("%d", h) },
			func(h uint32) string {
				return constArgs(e.grade(h, "O"), "github.com/pegnet/pegnet/modules/grader.NewGrader", 1)
			},
			e.posOf("node.Pegnetd.Grade", "NewGrader")},
		{rule, "SPR grader version by height",
			func(h uint32) string { return fmt.Sprintf("%d", a.sprGraderVersion(h)) },
			func(h uint32) string {
				return constArgs(e.grade(h, "S"), "github.com/pegnet/pegnet/modules/graderStake.NewGrader", 0)
			},
			e.posOf("node.Pegnetd.GradeS", "NewGrader")},
		{rule, "SPR grader is given the block height",
			func(h uint32) string { return fmt.Sprintf("%d", h) },
			func(h uint32) string {
				return constArgs(e.grade(h, "S"), "github.com/pegnet/pegnet/modules/graderStake.NewGrader", 1)
			},
			e.posOf("node.Pegnetd.GradeS", "NewGrader")},
		burnRow(e, rule),
		{rule, "SPR winners paid iff height >= V20HeightActivation",
			func(h uint32) string { return liveStr(a.isV20(h)) },
			func(h uint32) string { return liveStr(e.syncBlock(h).Live("ApplyGradedSPRBlock")) },
			e.posOf("node.Pegnetd.SyncBlock", "ApplyGradedSPRBlock")},
		{rule, "OPR winners paid at every height (when a graded block exists)",
			func(h uint32) string { return "live" },
			func(h uint32) string { return liveStr(e.syncBlock(h).Live("ApplyGradedOPRBlock")) },
			e.posOf("node.Pegnetd.SyncBlock", "ApplyGradedOPRBlock")},
	}
}

func (e *eraCtx) rowsC12(r *Report) []row {
	a := e.a
	rule := "C12/era-table"
	return []row{
		{rule, "PEG pricing phase passed to InsertRates",
			func(h uint32) string {
				if a.isV20(h) {
					return "3"
				}
				return fmt.Sprintf("%d", a.pegPhase(h))
			},
			func(h uint32) string { return constArgs(e.syncBlock(h), "InsertRates", 4) },
			e.posOf("node.Pegnetd.SyncBlock", "InsertRates")},
		{rule, "rates recorded for the block's own height",
			func(h uint32) string { return fmt.Sprintf("%d", h) },
			func(h uint32) string { return constArgs(e.syncBlock(h), "InsertRates", 2) },
			e.posOf("node.Pegnetd.SyncBlock", "InsertRates")},
		{rule, "rate combination function by era",
			func(h uint32) string {
				switch {
				case !a.isV20(h):
					return "OPR winner only"
				case h < a.get("V20DevRewardsHeightActivation"):
					return "GetAssetRatesV0"
				}
				return "GetAssetRates"
			},
			func(h uint32) string {
				t := e.syncBlock(h)
				v0, v1 := t.Live("GetAssetRatesV0"), t.Live("GetAssetRates")
				switch {
				case v0 && v1:
					return "both"
				case v0:
					return "GetAssetRatesV0"
				case v1:
					return "GetAssetRates"
				}
				return "OPR winner only"
			},
			e.posOf("node.Pegnetd.SyncBlock", "GetAssetRates")},
		{rule, "GetAssetRates is given the block height",
			func(h uint32) string {
				if h >= a.get("V20DevRewardsHeightActivation") {
					return fmt.Sprintf("%d", h)
				}
				return "dead"
			},
			func(h uint32) string { return constArgs(e.syncBlock(h), "GetAssetRates", 3) },
			e.posOf("node.Pegnetd.SyncBlock", "GetAssetRates")},
		{rule, "pending rates selected for the block's own height",
			func(h uint32) string {
				if !a.txActive(h) {
					return "dead"
				}
				return fmt.Sprintf("%d", h)
			},
			func(h uint32) string {
				// the first SelectPendingRates call (the snapshot fallback reads h-1 separately)
				t := e.syncBlock(h)
				set := map[string]bool{}
				for _, lc := range t.CallsTo("SelectPendingRates") {
					if lc.Depth == 0 && len(lc.Args) > 3 {
						set[lc.Args[3].String()] = true
					}
				}
				if len(set) == 0 {
					return "dead"
				}
				var s []string
				for k := range set {
					s = append(s, k)
				}
				sort.Strings(s)
				// the h-1 fallback is judged by C14; here the own-height read must be present
				for _, k := range s {
					if k == fmt.Sprintf("%d", h) {
						return k
					}
				}
				return strings.Join(s, ",")
			},
			e.posOf("node.Pegnetd.SyncBlock", "SelectPendingRates")},
		{rule, "held conversions executed with the block height",
			func(h uint32) string {
				if !a.txActive(h) {
					return "dead"
				}
				return fmt.Sprintf("%d", h)
			},
			func(h uint32) string { return constArgs(e.syncBlock(h), "ApplyTransactionBatchesInHolding", 3) },
			e.posOf("node.Pegnetd.SyncBlock", "ApplyTransactionBatchesInHolding")},
	}
}

func (e *eraCtx) rowsC14(r *Report) []row {
	a := e.a
	rule := "C14/era-table"
	return []row{
		{rule, "SnapshotPayouts live iff height >= V20HeightActivation and height % 144 == 0, for that height",
			func(h uint32) string {
				if a.snapshot(h) {
					return fmt.Sprintf("%d", h)
				}
				return "dead"
			},
			func(h uint32) string { return constArgs(e.syncBlock(h), "SnapshotPayouts", 4) },
			e.posOf("node.Pegnetd.SyncBlock", "SnapshotPayouts")},
		{rule, "most-recent-rates fallback live iff snapshot height >= V202EnhanceActivation, before that height",
			func(h uint32) string {
				if a.snapshot(h) && a.v202(h) {
					return fmt.Sprintf("%d", h)
				}
				return "dead"
			},
			func(h uint32) string {
				set := map[string]bool{}
				for _, lc := range e.syncBlock(h).CallsTo("SelectMostRecentRatesBeforeHeight") {
					if lc.Depth == 0 && len(lc.Args) > 3 {
						set[lc.Args[3].String()] = true
					}
				}
				if len(set) == 0 {
					return "dead"
				}
				var s []string
				for k := range set {
					s = append(s, k)
				}
				sort.Strings(s)
				return strings.Join(s, ",")
			},
			e.posOf("node.Pegnetd.SyncBlock", "SelectMostRecentRatesBeforeHeight")},
		{rule, "one-time ledger adjustments are dead at every snapshot height",
			func(h uint32) string { return "ok" },
			func(h uint32) string {
				if !a.snapshot(h) {
					return "ok"
				}
				t := e.syncBlock(h)
				if t.Live("MintTokensForBalance") || t.Live("NullifyMintedTokens") || e.dblockSync(h).Live("NullifyBurnAddress") {
					return "a one-time adjustment runs before the snapshot"
				}
				return "ok"
			}, nil},
	}
}

// pctLiterals reads the DevRewardPct literals from node.DeveloperRewardAddreses' initialiser.
func devPctLiterals(c *Ctx) []float64 {
	g := c.global("node", "DeveloperRewardAddreses")
	var out []float64
	for _, f := range c.Funcs {
		if f.Name() != "init" || f.Pkg == nil || f.Pkg.Pkg.Name() != "node" {
			continue
		}
		// stores of float constants into fields of the backing array elements
		type key struct {
			idx   int64
			field int
		}
		vals := map[int64]float64{}
		allInstrs(f, func(ins ssa.Instruction) {
			st, ok := ins.(*ssa.Store)
			if !ok {
				return
			}
			fa, ok := st.Addr.(*ssa.FieldAddr)
			if !ok {
				return
			}
			ia, ok := fa.X.(*ssa.IndexAddr)
			if !ok {
				return
			}
			k, ok := st.Val.(*ssa.Const)
			if !ok || k.Value == nil || k.Value.Kind() != constant.Float && !(k.Value.Kind() == constant.Int && isFloatType(k.Type())) {
				return
			}
			stt := derefStruct(fa.X.Type())
			if stt == nil || stt.Field(fa.Field).Name() != "DevRewardPct" {
				return
			}
			ic, ok := ia.Index.(*ssa.Const)
			if !ok {
				return
			}
			// the array must be the one sliced into the global
			fv, _ := constant.Float64Val(constant.ToFloat(k.Value))
			vals[ic.Int64()] = fv
		})
		var idx []int64
		for i := range vals {
			idx = append(idx, i)
		}
		sort.Slice(idx, func(i, j int) bool { return idx[i] < idx[j] })
		for _, i := range idx {
			out = append(out, vals[i])
		}
	}
	_ = g
	return out
}

// burnRow: the pFCT credit of an FCT burn is reachable iff height < V20HeightActivation - wherever the era gate sits
// (in SyncBlock or inside ApplyFactoidBlock), judged by the liveness of the burn's history/credit statement.
func burnRow(e *eraCtx, rule string) row {
	a := e.a
	return row{rule, "FCT burns credited iff height < V20HeightActivation",
		func(h uint32) string { return liveStr(!a.isV20(h)) },
		func(h uint32) string { return liveStr(e.syncBlock(h).Live("InsertFCTBurn")) },
		e.posOf("node.Pegnetd.SyncBlock", "ApplyFactoidBlock")}
}
