package main

import (
	"fmt"
	"go/constant"
	"go/token"
	"go/types"
	"strings"

	"golang.org/x/tools/go/ssa"
)

func init() { props["C14"] = propC14 }

// scanOrder checks that the Scan call in f binds &x[K] for K = 1..max-1 in ascending order after a fixed prefix.
func scanOrder(c *Ctx, r *Report, rule string, f *ssa.Function, max int64) {
	var scans []ssa.CallInstruction
	for _, n := range []string{"database/sql.Row.Scan", "database/sql.Rows.Scan"} {
		scans = append(scans, findCalls(f, n)...)
	}
	if len(scans) == 0 {
		r.viol(rule, fname(f)+" Scan order", c.pos(f.Pos()), "no Scan call found")
		return
	}
	for _, sc := range scans {
		els := varargElems(sc.Common().Args[1])
		var idx []int64
		for _, el := range els {
			mi, ok := el.(*ssa.MakeInterface)
			if !ok {
				continue
			}
			if ia, ok := mi.X.(*ssa.IndexAddr); ok {
				if k, ok := ia.Index.(*ssa.Const); ok {
					idx = append(idx, k.Int64())
				}
			}
		}
		if len(idx) < 10 {
			// the destinations may be generated: a slice built by a loop over the ticker range
			if okk, why, wide := generatedScanTargets(sc.Common().Args[1], max); wide {
				r.check(okk, rule, fname(f)+" Scan order", c.ipos(sc), fmt.Sprintf("&x[i] appended for i = 1..%d ascending", max-1), why)
			}
			continue // not a wide scan
		}
		bad := ""
		if int64(len(idx)) != max-1 {
			bad = fmt.Sprintf("%d balance slots scanned, expected %d", len(idx), max-1)
		}
		for i, k := range idx {
			if k != int64(i+1) && bad == "" {
				bad = fmt.Sprintf("slot %d of the Scan binds ticker index %d, expected %d: a column is read into another asset's balance", i, k, i+1)
			}
		}
		r.check(bad == "", rule, fname(f)+" Scan order", c.ipos(sc), fmt.Sprintf("&x[1..%d] ascending", max-1), bad)
	}
}

func propC14(c *Ctx, r *Report) {
	r.Explain = "Era table: SnapshotPayouts is executable iff height >= V20HeightActivation and height % 144 == 0, with that height; the rate fallbacks by era; none of the one-time adjustments is executable at a snapshot height. Ordering on the specialised CFG: at snapshot heights no balance-writing step of the block can run before SnapshotPayouts. Inside SnapshotPayouts: SnapshotCurrent dominates SelectSnapshotBalances dominates every credit, all on the block's tx; valuation loop table: PEG excluded, zero balances skipped, zero-rate assets skipped from 2.0.2 (valued through Convert before); cap constant 4,500e8 x 144; credits are the values of set.Payouts() to the address mapped from the same key, ticker PEG; payout list ordered by a total order (C01). SQL catalogue: SnapshotCurrent = delete past, copy current->past, delete current, copy pn_addresses->current, plain statements in that order on the tx; SelectSnapshotBalances inner-joins past and current on address with MIN(current,past) generated for every ticker column. Scan/column agreement of the four wide selects."
	r.NotDec = "proportionality and 'equals the cap to the last unit' (dust arithmetic over runtime values); SQLite evaluation of MIN()/JOIN"
	r.Trusted = []string{"mainnet activation constants", "SQLite", "go/ssa"}
	e := newEraCtx(c, r)
	cat := buildSQLCat(c)
	_, max := c.tickers()
	r.rule("C14/era-table", 3, "snapshot cadence and rate fallbacks")
	e.evalRows(r, e.rowsC14(r))

	ruleNoCarriedReads(c, newSharedAnalysis(c), r, "C14/no-carried-state", reachOf(c, "node.Pegnetd.SnapshotPayouts"), carriedAllowedSync, "the snapshot payout")
	r.rule("C14/snapshot-rotation-always", 1, "every snapshot block rotates the snapshot tables")
	rulePassThrough(c, r, "C14/snapshot-rotation-always", c.fn("node.Pegnetd.SnapshotPayouts"), "pegnet.Pegnet.SnapshotCurrent", "the snapshot tables are rotated at every snapshot height, whether or not anybody is paid", "the next snapshot would take its minimum against a snapshot two periods old and pay funds that arrived after the previous snapshot")
	rulePayoutsPure(c, r, "C14/payouts-pure")
	r.rule("C14/requests-unaltered", 1, "a stake is recorded with the amount it was valued at")
	ruleRequestsUnaltered(c, r, "C14/requests-unaltered")
	r.rule("C14/loopvar-alias", 1, "no address of a per-loop variable is retained across iterations in block processing")
	ruleLoopVarAlias(c, r, "C14/loopvar-alias", c.RSync)
	r.rule("C14/payout-loops-complete", 2, "every holder and every asset is visited")
	ruleLoopCompletes(c, r, "C14/payout-loops-complete", c.fn("node.Pegnetd.SnapshotPayouts"), "pegnet.Pegnet.AddToBalance", "every payout is credited")
	ruleLoopCompletes(c, r, "C14/payout-loops-complete", c.fn("node.Pegnetd.SnapshotPayouts"), "conversions.Convert", "every holder's assets are valued")
	// legacy fallback (dead) — no-fault scenario with SelectPendingRates inlined
	r.rule("C14/legacy-fallback", 2, "before 2.0.2 a snapshot block without rates falls back to the previous height's rates")
	sb := c.fn("node.Pegnetd.SyncBlock")
	v202 := e.a.get("V202EnhanceActivation")
	{
		var bad, bad2 []string
		n := 0
		for _, h := range e.reps {
			if !e.a.snapshot(h) {
				continue
			}
			sc := &Scenario{Params: map[string]AVal{"type:uint32": hconst(h)}, Calls: map[string]AVal{"isDone": cBool(false)}, MaxDepth: 3, AllErrorsNil: true,
				NoInline: map[string]bool{"multiFetch": true, "Grade": true, "GradeS": true, "SnapshotPayouts": true, "ApplyTransactionBatchesInHolding": true, "ApplyTransactionBlock": true, "ApplyFactoidBlock": true, "ApplyGradedOPRBlock": true, "ApplyGradedSPRBlock": true, "DevelopersPayouts": true, "InsertRates": true, "InsertGradeBlock": true, "SyncBank": true, "MintTokensForBalance": true, "NullifyMintedTokens": true, "GetAssetRates": true, "GetAssetRatesV0": true}}
			t := newSCCP(c, sc).analyse(sb, nil)
			r.Scen++
			n++
			prev := false
			for _, lc := range t.CallsTo("SelectPendingRates") {
				if lc.Depth == 0 && len(lc.Args) > 3 {
					if v, ok := lc.Args[3].intVal(); ok && uint32(v) == h-1 {
						prev = true
					}
				}
			}
			want := h < v202
			if prev != want && len(bad) < 3 {
				bad = append(bad, fmt.Sprintf("h=%d: read of the previous height's rates is %s, expected %s", h, liveStr(prev), liveStr(want)))
			}
			// from 2.0.2 the most-recent-rates fallback must be reachable when the block's own rate map is empty
			recent := false
			for _, lc := range t.CallsTo("SelectMostRecentRatesBeforeHeight") {
				if lc.Depth == 0 {
					recent = true
				}
			}
			if recent != (h >= v202) {
				bad2 = append(bad2, fmt.Sprintf("h=%d: most-recent-rates fallback is %s with a non-nil (possibly empty) rate map, expected %s", h, liveStr(recent), liveStr(h >= v202)))
			}
		}
		r.check(len(bad2) == 0 && n > 0, "C14/legacy-fallback", "most-recent-rates fallback reachable for an empty rate map from 2.0.2", e.posOf("node.Pegnetd.SyncBlock", "SelectMostRecentRatesBeforeHeight")(), fmt.Sprintf("%d snapshot height classes", n), strings.Join(firstN(bad2, 3), "; ")+": a snapshot block without rates would pay nobody")
		pos := e.posOf("node.Pegnetd.SyncBlock", "SelectPendingRates")()
		r.check(len(bad) == 0 && n > 0, "C14/legacy-fallback", "SelectPendingRates(height-1) at snapshot heights before 2.0.2", pos, fmt.Sprintf("%d snapshot height classes", n),
			strings.Join(bad, "; ")+": the guard `rates == nil` can never hold because SelectPendingRates returns a freshly made (non-nil, possibly empty) map on its nil-error path; a legacy snapshot block without rates enters SnapshotPayouts with an empty rate map, Convert fails on the first non-zero balance and the block fails for ever")
	}

	// snapshot first
	r.rule("C14/snapshot-first", 1, "balances are snapshotted before any balance change of the block")
	wr := tableWriters(c, cat, "pn_addresses")
	{
		var bad []string
		n := 0
		for _, h := range e.reps {
			if !e.a.snapshot(h) {
				continue
			}
			t := e.syncBlockNoFault(h)
			n++
			r.Scen++
			snaps := t.CallsTo("SnapshotPayouts")
			if len(snaps) == 0 {
				bad = append(bad, fmt.Sprintf("h=%d: SnapshotPayouts not executable on the no-fault path", h))
				continue
			}
			for _, lc := range t.Calls {
				if lc.Depth != 0 || lc.Short == "SnapshotPayouts" {
					continue
				}
				G := lc.Instr.Common().StaticCallee()
				if G == nil || !wr[G] {
					continue
				}
				if execReaches(t.Root, lc.Instr, snaps[0].Instr) && len(bad) < 3 {
					bad = append(bad, fmt.Sprintf("h=%d: %s (changes balances) can run before SnapshotPayouts: funds that arrive in this block would count for this snapshot", h, lc.Short))
				}
			}
		}
		r.check(len(bad) == 0 && n > 0, "C14/snapshot-first", "no balance write precedes SnapshotPayouts in SyncBlock", e.posOf("node.Pegnetd.SyncBlock", "SnapshotPayouts")(), fmt.Sprintf("%d snapshot height classes", n), strings.Join(bad, "; "))
	}

	// inside SnapshotPayouts
	r.rule("C14/payout-structure", 5, "snapshot, selection, valuation and credit structure of SnapshotPayouts")
	sp := c.fn("node.Pegnetd.SnapshotPayouts")
	one := func(name string) ssa.CallInstruction {
		cs := c.findCallsFam(sp, name) // in SnapshotPayouts or a stage split off from it
		if len(cs) != 1 {
			r.viol("C14/payout-structure", "SnapshotPayouts calls "+name+" once", c.pos(sp.Pos()), fmt.Sprintf("%d call sites", len(cs)))
			return nil
		}
		return cs[0]
	}
	snapC := one("pegnet.Pegnet.SnapshotCurrent")
	selC := one("pegnet.Pegnet.SelectSnapshotBalances")
	addC := one("pegnet.Pegnet.AddToBalance")
	histC := one("pegnet.Pegnet.InsertStakingCoinbase")
	ncsC := one("conversions.NewConversionSupply")
	if snapC == nil || selC == nil || addC == nil || histC == nil || ncsC == nil {
		return
	}
	txp := sp.Params[1]
	r.check(c.famDominates(sp, snapC, selC) && c.famDominates(sp, selC, addC), "C14/payout-structure", "SnapshotCurrent -> SelectSnapshotBalances -> credits", c.ipos(snapC), "in dominance order", "the snapshot is not rotated before balances are selected and paid")
	isTx := func(v ssa.Value) bool { return c.rootParamOf(v, sp, 0) == txp }
	sameTx := isTx(snapC.Common().Args[1]) && isTx(selC.Common().Args[1]) && isTx(addC.Common().Args[1]) && isTx(histC.Common().Args[1])
	r.check(sameTx, "C14/payout-structure", "snapshot, selection, credits and history on the block's tx", c.ipos(snapC), "", "a snapshot step does not use the block transaction")
	// cap
	capOK := false
	if k, ok := ncsC.Common().Args[0].(*ssa.Const); ok {
		capOK = constant.Compare(k.Value, token.EQL, constant.MakeUint64(4500*100000000*144))
	} else if leaves := c.originLeaves(ncsC.Common().Args[0], c.RSync); len(leaves) > 0 {
		// handed down to a stage split off from SnapshotPayouts: every value that can arrive is that constant
		capOK = true
		for _, l := range leaves {
			k, ok := l.(*ssa.Const)
			if !ok || k.Value == nil || !constant.Compare(constant.ToInt(k.Value), token.EQL, constant.MakeUint64(4500*100000000*144)) {
				capOK = false
			}
		}
	}
	r.check(capOK, "C14/payout-structure", "payout cap is 4,500 PEG x 144", c.ipos(ncsC), "64800000000000", "NewConversionSupply is given "+ncsC.Common().Args[0].String())
	// credit provenance
	args := addC.Common().Args
	var bad []string
	if k, ok := args[3].(*ssa.Const); !ok || k.Int64() != 1 {
		bad = append(bad, "credited ticker is not PEG")
	}
	amtEx, ok := args[4].(*ssa.Extract)
	var nx *ssa.Next
	if ok {
		nx, _ = amtEx.Tuple.(*ssa.Next)
	}
	if nx == nil || amtEx.Index != 2 {
		bad = append(bad, "credited amount is not the value of a range over the payouts")
	} else {
		rg, _ := nx.Iter.(*ssa.Range)
		if rg == nil || !isCallTo(rg.X, "Payouts") {
			bad = append(bad, "credited amounts do not come from set.Payouts()")
		}
		okAddr := sliceHas(args[2], func(v ssa.Value) bool {
			if lk, ok := v.(*ssa.Lookup); ok {
				if kx, ok := lk.Index.(*ssa.Extract); ok && kx.Tuple == nx && kx.Index == 1 {
					return true
				}
			}
			return false
		})
		if !okAddr {
			bad = append(bad, "credited address is not addressMap[<same payout key>]")
		}
	}
	r.check(len(bad) == 0, "C14/payout-structure", "credit = Payouts()[key] to addressMap[key], ticker PEG", c.ipos(addC), "", strings.Join(bad, "; "))
	// history gets the same payouts and address map
	hOK := isCallTo(histC.Common().Args[5], "Payouts") && valuePath(histC.Common().Args[6]) != "" || sliceHas(histC.Common().Args[5], func(v ssa.Value) bool { return isCallTo(v, "Payouts") })
	r.check(hOK, "C14/payout-structure", "history rows written from the same Payouts()", c.ipos(histC), "", "InsertStakingCoinbase is not given set.Payouts()")

	// valuation loop table
	r.rule("C14/valuation-table", 4, "which assets count towards the stake")
	tick, _ := c.tickers()
	convName := "conversions.Convert"
	acc := newTableAcc()
	for _, cs := range []struct {
		name     string
		i        int64
		bal      AVal
		rate     AVal
		usd      AVal
		h        uint32
		wantLive bool
	}{
		{"PEG balance never counts", tick["PEG"], cUint(5), cUint(100), cUint(100), v202 + 144, false},
		{"zero balance skipped", tick["XBT"], cUint(0), cUint(100), cUint(100), v202 + 144, false},
		{"non-zero balance, non-zero rates valued", tick["XBT"], cUint(5), cUint(100), cUint(100), v202 + 144, true},
		{"zero-rate asset skipped from 2.0.2", tick["XBT"], cUint(5), cUint(0), cUint(100), v202 + 144, false},
		{"zero pUSD rate skips everything from 2.0.2", tick["XBT"], cUint(5), cUint(100), cUint(0), v202 + 144, false},
		{"zero-rate asset still valued before 2.0.2 (Convert rejects it)", tick["XBT"], cUint(5), cUint(0), cUint(100), v202 - 100, true},
	} {
		sc := &Scenario{Params: map[string]AVal{"type:uint32": hconst(cs.h)}, Phis: map[string]AVal{"type:fat2.PTicker": cInt(cs.i)},
			Paths:    map[string]AVal{"pegnet.BalancesPair.Balances[]": cs.bal},
			MaxDepth: 0, AllErrorsNil: true}
		// the rates parameter: every entry cs.rate, pUSD cs.usd (a container value, so it follows the map into helpers)
		sc.Params["type:map[fat2.PTicker]uint64"] = containerOf(cs.rate, map[string]AVal{fmt.Sprintf("%d", tick["USD"]): cs.usd})
		t, _ := acc.run(c, r, sp, sc)
		live := t.Live(convName)
		r.check(live == cs.wantLive, "C14/valuation-table", cs.name, c.pos(sp.Pos()), "Convert "+liveStr(live), fmt.Sprintf("Convert is %s, expected %s", liveStr(live), liveStr(cs.wantLive)))
		// a skipped asset is skipped alone: the loop over the tickers goes on (no return or break out of the body)
		if !cs.wantLive && !live {
			for _, ci := range c.findCallsFam(sp, convName) {
				fs := findStateOf(t.Root, ci.Parent(), 0)
				l := innermostLoop(ci.Parent(), ci.Block())
				if fs == nil || l == nil {
					continue
				}
				early := ""
				for b := range l.blocks {
					if b == l.header || !fs.execB[b] {
						continue
					}
					for _, sx := range b.Succs {
						if !l.blocks[sx] && fs.execE[[2]int{b.Index, sx.Index}] {
							early = c.ipos(firstPosInstr(sx))
						}
					}
				}
				r.check(early == "", "C14/valuation-table", cs.name+": the other assets are still valued", c.ipos(ci), "the ticker loop continues", "the ticker loop is left at "+early+" when this asset is skipped: every asset after it in ticker order is missing from the holder's stake, so payouts are not proportional to USD value")
			}
		}
	}
	acc.report(c, r, "C14/valuation-table", sp)
	// valuation arguments: amount = balance[i], from = rates[i], to = rates[pUSD] (in SnapshotPayouts or a helper split off from it)
	nval := 0
	for _, ci := range c.findCallsFam(sp, convName) {
		nval++
		a := ci.Common().Args
		okA := false
		if u, ok := unwrapConv(a[1]).(*ssa.UnOp); ok {
			if ia, ok := u.X.(*ssa.IndexAddr); ok {
				for _, l := range c.originLeaves(ia.X, c.RSync) {
					if strings.HasSuffix(typePath(l), "BalancesPair.Balances") {
						okA = true
					}
				}
				if strings.HasSuffix(typePath(ia.X), "BalancesPair.Balances") {
					okA = true
				}
			}
		}
		lk := func(v ssa.Value) *ssa.Lookup {
			if l, ok := v.(*ssa.Lookup); ok {
				return l
			}
			return nil
		}
		l2, l3, l4, l5 := lk(a[2]), lk(a[3]), lk(a[4]), lk(a[5])
		okF, okT := false, false
		if l2 != nil && l3 != nil && l4 != nil && l5 != nil {
			sameMap := unwrap(l2.X) == unwrap(l3.X) && unwrap(l3.X) == unwrap(l4.X) && unwrap(l4.X) == unwrap(l5.X)
			okF = sameMap && l2.Index == l3.Index
			if u, ok := unwrapConv(a[1]).(*ssa.UnOp); ok {
				if ia, ok := u.X.(*ssa.IndexAddr); ok {
					okF = okF && unwrapConv(ia.Index) == unwrapConv(l2.Index) // the balance and its rate are of the same ticker
				}
			}
			k4, ok4 := l4.Index.(*ssa.Const)
			k5, ok5 := l5.Index.(*ssa.Const)
			okT = sameMap && ok4 && ok5 && k4.Int64() == tick["USD"] && k5.Int64() == tick["USD"]
		}
		r.check(okA && okF && okT, "C14/valuation-table", "valuation converts balance[i] at rates[i] into pUSD at rates[pUSD]", c.ipos(ci), "", fmt.Sprintf("Convert arguments: amount from the snapshot balances=%v, source rate and average = rates[i] of the same ticker=%v, destination rate and average = rates[pUSD]=%v", okA, okF, okT))
	}
	if nval == 0 {
		r.viol("C14/valuation-table", "valuation call", c.pos(sp.Pos()), "no call to Convert in SnapshotPayouts or its helpers")
	}

	// SQL: SnapshotCurrent statement sequence
	r.rule("C14/snapshot-sql", 5, "snapshot rotation statements and the MIN join")
	sc := c.fn("pegnet.Pegnet.SnapshotCurrent")
	var seq []*SQLStmt
	for _, st := range cat.Stmts {
		if st.Fn == sc {
			seq = append(seq, st)
		}
	}
	want := []struct{ verb, table, from string }{{"DELETE", "snapshot_past", "snapshot_past"}, {"INSERT", "snapshot_past", "snapshot_current"}, {"DELETE", "snapshot_current", "snapshot_current"}, {"INSERT", "snapshot_current", "pn_addresses"}}
	bad = nil
	if len(seq) != len(want) {
		bad = append(bad, fmt.Sprintf("%d statements, expected 4 (delete past, copy current->past, delete current, copy addresses->current)", len(seq)))
	} else {
		for i, w := range want {
			st := seq[i]
			if st.Verb != w.verb || st.Table != w.table || st.From != w.from || st.Conflict != "" {
				bad = append(bad, fmt.Sprintf("statement %d is %s %s %s from %s, expected plain %s %s from %s", i+1, st.Verb, st.Conflict, st.Table, st.From, w.verb, w.table, w.from))
			}
			if i > 0 && seq[i-1].Site == st.Site && orderedElementLoop(c, st.Site) {
				// one Exec in a loop over an ordered list of texts: the catalogue lists them in element order
			} else if i > 0 && !instrDominates(seq[i-1].Site, st.Site) {
				bad = append(bad, fmt.Sprintf("statement %d does not follow statement %d on every path", i+1, i))
			}
			if st.Recv != "QA" || unwrap(st.RecvVal) != sc.Params[1] {
				bad = append(bad, fmt.Sprintf("statement %d is not executed on the tx parameter", i+1))
			}
		}
		// errors propagated between the steps (so a failed delete cannot be followed by the copy)
	}
	r.check(len(bad) == 0, "C14/snapshot-sql", "SnapshotCurrent statement sequence", c.pos(sc.Pos()), "delete past; copy current->past; delete current; copy pn_addresses->current", strings.Join(bad, "; "))
	eff := computeEffects(c)
	runErrflow(c, eff, r, map[*ssa.Function]bool{sc: true}, "C14/snapshot-sql", false)
	// SelectSnapshotBalances join
	ssb := c.fn("pegnet.Pegnet.SelectSnapshotBalances")
	for _, st := range cat.Stmts {
		if st.Fn != ssb {
			continue
		}
		U := strings.ToUpper(st.Text)
		okJ := strings.Contains(U, "INNER JOIN") && strings.Contains(U, "SN_PAST.ADDRESS = SN_CURRENT.ADDRESS") && strings.Contains(U, "SNAPSHOT_PAST") && strings.Contains(U, "SNAPSHOT_CURRENT")
		r.check(okJ, "C14/snapshot-sql", "SelectSnapshotBalances inner-joins past and current on address", c.ipos(st.Site), "", "the snapshot selection is not an inner join of snapshot_past and snapshot_current on address: "+oneLine(st.Text))
		r.check(strings.Contains(st.Text, "«pegnet.snapshotMinSelectCols»"), "C14/snapshot-sql", "SelectSnapshotBalances selects the generated MIN columns", c.ipos(st.Site), "", "column list is not snapshotMinSelectCols")
	}
	minColumnGenerator(c, r, max)

	// scan/column agreement
	r.rule("C14/scan-order", 4, "Scan slots match the generated column order")
	for _, fn := range []string{"pegnet.Pegnet.selectBalances", "pegnet.Pegnet.SelectAllBalances", "pegnet.Pegnet.SelectSnapshotBalances", "pegnet.Pegnet.SelectIssuances"} {
		scanOrder(c, r, "C14/scan-order", c.fn(fn), max)
	}
}

func unwrapConv(v ssa.Value) ssa.Value {
	for {
		switch x := v.(type) {
		case *ssa.Convert:
			v = x.X
		case *ssa.ChangeType:
			v = x.X
		default:
			return v
		}
	}
}

// minColumnGenerator checks the init() loop building snapshotMinSelectCols: MIN(sn_current.c, sn_past.c) for i in 1..max-1.
func minColumnGenerator(c *Ctx, r *Report, max int64) {
	rule := "C14/snapshot-sql"
	found := false
	for _, f := range c.Funcs {
		if f.Pkg == nil || f.Pkg.Pkg.Name() != "pegnet" || !strings.HasPrefix(f.Name(), "init") {
			continue
		}
		for _, ci := range findCalls(f, "fmt.Sprintf") {
			k, ok := ci.Common().Args[0].(*ssa.Const)
			if !ok || k.Value == nil || k.Value.Kind() != constant.String {
				continue
			}
			fm := constant.StringVal(k.Value)
			if !strings.Contains(strings.ToUpper(fm), "SN_CURRENT.%S") {
				continue
			}
			found = true
			U := strings.ToUpper(strings.Join(strings.Fields(fm), " "))
			okF := strings.HasPrefix(U, "MIN(SN_CURRENT.%S, SN_PAST.%S) AS %S")
			r.check(okF, rule, "snapshot column generator uses MIN(current, past)", c.ipos(ci), fm, "the generated snapshot column is `"+fm+"`, expected MIN(sn_current.c, sn_past.c) AS c: funds that arrived after the previous snapshot would earn")
			// loop bounds: the enclosing loop's condition is i < int(PTickerMax) and starts at 1
			var call *ssa.Call = ci.(*ssa.Call)
			okB := false
			for _, l := range naturalLoops(f) {
				if !l.blocks[call.Block()] {
					continue
				}
				cond, _, _ := condEdge(l.header)
				if bo, ok := cond.(*ssa.BinOp); ok && bo.Op.String() == "<" {
					if kk, ok := bo.Y.(*ssa.Const); ok && kk.Int64() == max {
						if ph, ok := bo.X.(*ssa.Phi); ok {
							for _, e := range ph.Edges {
								if k0, ok := e.(*ssa.Const); ok && k0.Int64() == 1 {
									okB = true
								}
							}
						}
					}
				}
			}
			r.check(okB, rule, "snapshot column generator covers tickers 1..PTickerMax-1", c.ipos(ci), "", "the generator loop does not run i from 1 to PTickerMax-1")
		}
	}
	if !found {
		r.viol(rule, "snapshot column generator", "-", "no Sprintf building the MIN(sn_current, sn_past) columns found in package pegnet's init")
	}
}

func firstN(s []string, n int) []string {
	if len(s) > n {
		return s[:n]
	}
	return s
}

// orderedElementLoop: the query text of the call is the element of a range over a slice or array (not a map) and the
// loop stops at the first error, so the texts run in element order.
func orderedElementLoop(c *Ctx, site ssa.CallInstruction) bool {
	cc := site.Common()
	args := cc.Args
	if !cc.IsInvoke() && len(args) > 0 {
		args = args[1:]
	}
	ordered := false
	for _, a := range args {
		if b, ok := a.Type().Underlying().(*types.Basic); !ok || b.Kind() != types.String {
			continue
		}
		switch x := a.(type) {
		case *ssa.Extract:
			if nx, ok := x.Tuple.(*ssa.Next); ok && x.Index == 2 {
				if rg, ok := nx.Iter.(*ssa.Range); ok {
					if _, isMap := rg.X.Type().Underlying().(*types.Map); !isMap {
						ordered = true
					}
				}
			}
		case *ssa.UnOp:
			if ia, ok := x.X.(*ssa.IndexAddr); ok && rangeIndexOver(ia.Index, ia.X) {
				ordered = true
			}
		case *ssa.Index:
			if rangeIndexOver(x.Index, x.X) {
				ordered = true
			}
		}
	}
	if !ordered {
		return false
	}
	// the error of the call leaves the loop
	ev, _ := errValueOf(site)
	if ev == nil {
		return false
	}
	l := innermostLoop(site.Parent(), site.Block())
	if l == nil {
		return false
	}
	for _, t := range nilTestsOf(c, ev) {
		if !l.blocks[t.S] || reachAvoiding(t.S, map[*ssa.BasicBlock]bool{l.header: true})[site.Block()] {
			continue
		}
		return true
	}
	// error branch outside the loop body (returns directly)
	for _, t := range nilTestsOf(c, ev) {
		if !l.blocks[t.S] {
			return true
		}
	}
	return false
}

// findStateOf: the analysed state of fn in the call tree below root (root itself, or a callee analysed in place).
func findStateOf(root *fnState, fn *ssa.Function, depth int) *fnState {
	if root == nil || depth > 4 {
		return nil
	}
	if root.fn == fn {
		return root
	}
	for _, cs := range root.callees {
		if s := findStateOf(cs, fn, depth+1); s != nil {
			return s
		}
	}
	return nil
}

// generatedScanTargets: v is a []interface{} built by appending, in a counted loop, the address of balances[i] for
// i = 1, 2, ..., max-1 (after a fixed prefix) - in this function or in a helper that returns it. wide is false when v is
// not recognisably such a list at all.
func generatedScanTargets(v ssa.Value, max int64) (ok bool, why string, wide bool) {
	v = unwrap(v)
	if call, isCall := v.(*ssa.Call); isCall {
		sc := call.Common().StaticCallee()
		if sc == nil || !isNewHelper(sc) || sc.Blocks == nil {
			return false, "", false
		}
		rets := returnsIn(blockSet(sc))
		if len(rets) != 1 || len(rets[0].Results) != 1 {
			return false, "", false
		}
		return generatedScanTargets(rets[0].Results[0], max)
	}
	// the final slice: a phi at the loop header (value after the loop) whose in-loop edge is append(phi, &b[i])
	ph, isPhi := v.(*ssa.Phi)
	if !isPhi {
		return false, "", false
	}
	f := ph.Parent()
	var loop *natLoop
	for _, l := range naturalLoops(f) {
		if l.header == ph.Block() {
			loop = l
		}
	}
	if loop == nil {
		return false, "", false
	}
	var app *ssa.Call
	for i, e := range ph.Edges {
		if !loop.blocks[ph.Block().Preds[i]] {
			continue
		}
		c2, isC := e.(*ssa.Call)
		if !isC {
			return false, "", false
		}
		if bi, isB := c2.Call.Value.(*ssa.Builtin); !isB || bi.Name() != "append" || c2.Call.Args[0] != ssa.Value(ph) {
			return false, "", false
		}
		app = c2
	}
	if app == nil {
		return false, "", false
	}
	els := varargElems(app.Call.Args[1])
	if len(els) != 1 {
		return false, "more than one destination appended per iteration", true
	}
	mi, isMI := els[0].(*ssa.MakeInterface)
	if !isMI {
		return false, "", false
	}
	ia, isIA := mi.X.(*ssa.IndexAddr)
	if !isIA {
		return false, "", false
	}
	iv, isIP := unwrapConv(ia.Index).(*ssa.Phi)
	if !isIP || iv.Block() != loop.header {
		return false, "the appended destination is not indexed by the loop counter", true
	}
	init, step := false, false
	for i, e := range iv.Edges {
		if loop.blocks[iv.Block().Preds[i]] {
			if bo, isBO := e.(*ssa.BinOp); isBO && bo.Op == token.ADD && bo.X == ssa.Value(iv) {
				if k, isK := bo.Y.(*ssa.Const); isK && k.Int64() == 1 {
					step = true
				}
			}
		} else if k, isK := unwrapConv(e).(*ssa.Const); isK && k.Value != nil && k.Int64() == 1 {
			init = true
		}
	}
	bound := false
	for b := range loop.blocks {
		x, y, lt, ge := ordEdges(b)
		if x == nil || unwrapConv(x) != ssa.Value(iv) {
			continue
		}
		if k, isK := unwrapConv(y).(*ssa.Const); isK && k.Value != nil && k.Int64() == max && blockOrDom(lt, app.Block()) && !loop.blocks[ge] {
			bound = true
		}
	}
	if !init || !step || !bound {
		return false, fmt.Sprintf("the generating loop does not run i = 1; i < %d; i++ (start at 1=%v, step 1=%v, bound=%v): a column would be read into another asset's balance", max, init, step, bound), true
	}
	return true, "", true
}
