package main

// Outcome guards: "instruction x runs only after guard call G passed", where G may be made in x's function or in a
// verdict helper split off from it (`skip, err := d.recheck(...); if err != nil { return err }; if skip { continue }`).
// The reference tree has no such helpers; the mechanism exists so that extracting one does not raise an alarm, and
// so that a helper that loses the guard on one of its return paths still does.

import (
	"go/token"

	"golang.org/x/tools/go/ssa"
)

type guardSpec struct {
	callee string
	// good: the blocks of g's function that are entered only when g passed (targets of the passing edge)
	good func(c *Ctx, g *ssa.Call) []*ssa.BasicBlock
	// accept: g is a guard call of the right shape (key, height ...); subject is the guarded object as seen in g's
	// function (nil when it could not be followed into a helper)
	accept func(c *Ctx, g *ssa.Call, subject ssa.Value) bool
	// a guard whose verdict is a bool result (IsReplayTransaction): index and the value that means "pass"
	hasBool  bool
	boolIdx  int
	passBool bool
}

// edgeTargetDom: block t is entered by one edge only and dominates (or is) at.
func edgeTargetDom(t, at *ssa.BasicBlock) bool {
	return t != nil && len(t.Preds) == 1 && blockOrDom(t, at)
}

// domByBoolEdge: at is reachable only through the edge on which bool value v equals want.
func domByBoolEdge(v ssa.Value, want bool, at *ssa.BasicBlock) bool {
	f := at.Parent()
	for _, tb := range f.Blocks {
		cond, ts, fs := condEdge(tb)
		if cond == nil {
			continue
		}
		for {
			if u, ok := cond.(*ssa.UnOp); ok && u.Op == token.NOT {
				cond, ts, fs = u.X, fs, ts
				continue
			}
			break
		}
		if cond != v {
			continue
		}
		succ := ts
		if !want {
			succ = fs
		}
		if edgeTargetDom(succ, at) {
			return true
		}
	}
	return false
}

// resultValue: the value of result #i of call hc in its function (the call itself for a single result).
func resultValue(hc *ssa.Call, i int) ssa.Value {
	if hc.Call.Signature().Results().Len() == 1 {
		if i == 0 {
			return hc
		}
		return nil
	}
	if hc.Referrers() == nil {
		return nil
	}
	for _, rf := range *hc.Referrers() {
		if ex, ok := rf.(*ssa.Extract); ok && ex.Index == i {
			return ex
		}
	}
	return nil
}

// guardedByOutcome: x executes only after a call to spec.callee passed.
func (c *Ctx) guardedByOutcome(x ssa.Instruction, subject ssa.Value, spec *guardSpec, depth int) bool {
	f := x.Parent()
	if depth > 3 || f == nil {
		return false
	}
	// A. the guard is in this function
	for _, gi := range findCalls(f, spec.callee) {
		g, ok := gi.(*ssa.Call)
		if !ok || !instrDominates(g, x) || !spec.accept(c, g, subject) {
			continue
		}
		for _, b := range spec.good(c, g) {
			if edgeTargetDom(b, x.Block()) {
				return true
			}
		}
	}
	// B. the guard is in a verdict helper called before x
	for _, ci := range callsOf(f) {
		hc, ok := ci.(*ssa.Call)
		if !ok || !instrDominates(hc, x) {
			continue
		}
		h := hc.Call.StaticCallee()
		if h == nil || !isNewHelper(h) || h.Parent() != nil || h.Blocks == nil {
			continue
		}
		// the subject as the helper sees it
		var sub ssa.Value
		if subject != nil {
			for j, a := range hc.Call.Args {
				if j < len(h.Params) && sameExpr(a, subject) {
					sub = h.Params[j]
				}
			}
		}
		rets := returnsIn(blockSet(h))
		if len(rets) == 0 {
			continue
		}
		all := true
		for _, rt := range rets {
			if c.guardedByOutcome(rt, sub, spec, depth+1) {
				continue
			}
			excluded := false
			for i, rv := range rt.Results {
				ev := resultValue(hc, i)
				if ev == nil {
					continue
				}
				rv = resolveSpill(rv)
				if k, ok := rv.(*ssa.Const); ok && k.Value != nil && k.Value.Kind().String() == "Bool" {
					if domByBoolEdge(ev, !constBool(k), x.Block()) {
						excluded = true
					}
				}
				if isErrorType(rt.Results[i].Type()) && c.errNonNilAt(rv, rt.Block(), 0) {
					for _, t := range nilTestsOf(c, ev) {
						if nilEdgeDom(t, x.Block()) {
							excluded = true
						}
					}
				}
				if spec.hasBool {
					if ex, ok := rv.(*ssa.Extract); ok && ex.Index == spec.boolIdx {
						if g, ok := ex.Tuple.(*ssa.Call); ok && normName(calleeName(g.Common())) == normName(spec.callee) && spec.accept(c, g, sub) {
							if domByBoolEdge(ev, spec.passBool, x.Block()) {
								excluded = true // the verdict is handed up unchanged and tested by the caller
							}
						}
					}
				}
			}
			if !excluded {
				all = false
				break
			}
		}
		if all {
			return true
		}
	}
	return false
}

func constBool(k *ssa.Const) bool {
	return k.Value.String() == "true"
}
