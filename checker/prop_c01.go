package main

import "fmt"

func init() { props["C01"] = propC01 }

func propC01(c *Ctx, r *Report) {
	r.Explain = "E2 order-taint over every function reachable from the sync root: (1) each range-over-map loop must be order-insensitive (loop-carried variables only summed/maxed/flagged, map updates keyed by the range key, effectful calls only to keyed commutative sinks, slices built by append are order-tainted); (2) an order-tainted slice may be measured, totally sorted on the elements' unique key, or accessed as a guarded singleton - any other element use, partial-key sort, escape or return is reported; (3) values derived from time.Now/Since reach only logging and pn_sync_version.unix_timestamp, and no database call is control-dependent on them; (4) no randomness/pid/hostname/environment; (5) goroutines started while syncing write index-disjoint slots, selects have one case."
	r.NotDec = "determinism of SQLite row order, of the graders in the pegnet dependency, of float arithmetic across architectures"
	r.Trusted = []string{"go/ssa", "module call graph", "sanitiser table (SortTxIDS, sort.Strings on unique keys)", "commutative sink table (AddToBalance, keyed UPDATE/INSERT)"}
	runOrderTaint(c, r)
	// goroutine scheduling: no memory written by the sync goroutine is shared with request handlers
	r.rule("C01/scheduling", 2, "no unsynchronised location is shared between block processing and API handler goroutines")
	ruleSharedConflicts(c, newSharedAnalysis(c), r, "C01/scheduling")
	// what was fetched decides what is applied: a failed entry download is not mistaken for an empty entry
	r.rule("C01/fetch-errors", 2, "errors of the parallel entry fetch reach SyncBlock")
	runErrflow(c, computeEffects(c), r, reachOfSelf(c, "node.multiFetch"), "C01/fetch-errors", false)
	// ... and neither is a failed grading (whose inputs are read through the pool) mistaken for a block without records
	r.rule("C01/grading-errors", 2, "a failure of the fetch or of the grading of a block's records fails the block: it is not applied as a block without records")
	nGr := runErrflowSites(c, computeEffects(c), r, c.family(c.fn("node.Pegnetd.SyncBlock")), "C01/grading-errors", func(names []string) bool {
		for _, n := range names {
			if n == "node.Pegnetd.Grade" || n == "node.Pegnetd.GradeS" || n == "node.multiFetch" {
				return true
			}
		}
		return false
	})
	r.check(nGr >= 3, "C01/grading-errors", "fetch and grading call sites of SyncBlock", c.pos(c.fn("node.Pegnetd.SyncBlock").Pos()), fmt.Sprintf("%d call sites decided", nGr), fmt.Sprintf("only %d fetch/grading call sites found in SyncBlock (expected at least 3: a fetch, Grade, GradeS)", nGr))
	// a block retried after a rollback, or applied by a restarted process, sees the same inputs: nothing in memory
	ruleNoCarriedReads(c, newSharedAnalysis(c), r, "C01/no-carried-state", c.RSync, carriedAllowedAverages, "block processing")
	// process-start dependence of the averaging window (shared with C09)
	r.rule("C01/window-size", 1, "the incrementally maintained averaging window has the size of a reloaded one")
	windowSize(c, r, "C01/window-size")
	// the ledger depends on the chain, not on how often the process was started: start-up writes nothing but schema
	// objects and legacy fork markers (shared with C09)
	ruleStartupWrites(c, r, "C01/startup-writes")
}
