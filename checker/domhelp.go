package main

// E8 dom — provenance helpers (backward slices on SSA values).

import (
	"go/token"

	"golang.org/x/tools/go/ssa"
)

// backSlice walks the data dependencies of v (through loads of locals, conversions, extracts,
// calls, field/index selections) and calls visit on every value; visit returns false to stop descending.
// backSliceCtx gives backSlice access to the call graph (set once the program is loaded).
var backSliceCtx *Ctx

func backSlice(v ssa.Value, visit func(ssa.Value) bool) {
	seen := map[ssa.Value]bool{}
	var walk func(v ssa.Value, d int)
	walk = func(v ssa.Value, d int) {
		if v == nil || seen[v] || d > 40 {
			return
		}
		seen[v] = true
		if !visit(v) {
			return
		}
		switch x := v.(type) {
		case *ssa.UnOp:
			if x.Op == token.MUL {
				if al, ok := x.X.(*ssa.Alloc); ok {
					// values stored into the local (directly or through field/index addresses, or by copy())
					if refs := al.Referrers(); refs != nil {
						for _, r := range *refs {
							switch y := r.(type) {
							case *ssa.Store:
								if y.Addr == al {
									walk(y.Val, d+1)
								}
							case *ssa.FieldAddr, *ssa.IndexAddr:
								if rr := y.(ssa.Value).Referrers(); rr != nil {
									for _, z := range *rr {
										if st, ok := z.(*ssa.Store); ok {
											walk(st.Val, d+1)
										}
									}
								}
							case *ssa.Slice:
								// copy(dst[:], src) pattern
								if rr := y.Referrers(); rr != nil {
									for _, z := range *rr {
										if call, ok := z.(*ssa.Call); ok {
											if b, ok := call.Call.Value.(*ssa.Builtin); ok && b.Name() == "copy" && len(call.Call.Args) == 2 && call.Call.Args[0] == y {
												walk(call.Call.Args[1], d+1)
											}
										}
									}
								}
							}
						}
					}
					return
				}
			}
			walk(x.X, d+1)
		case *ssa.Alloc:
			if refs := x.Referrers(); refs != nil {
				for _, r := range *refs {
					switch y := r.(type) {
					case *ssa.Store:
						if y.Addr == x {
							walk(y.Val, d+1)
						}
					case *ssa.FieldAddr, *ssa.IndexAddr:
						// values stored into a field or element of the local (field-insensitive)
						if rr := y.(ssa.Value).Referrers(); rr != nil {
							for _, z := range *rr {
								if st, ok := z.(*ssa.Store); ok && st.Addr == y.(ssa.Value) {
									walk(st.Val, d+1)
								}
							}
						}
					case *ssa.Slice:
						if rr := y.Referrers(); rr != nil {
							for _, z := range *rr {
								if call, ok := z.(*ssa.Call); ok {
									if b, ok := call.Call.Value.(*ssa.Builtin); ok && b.Name() == "copy" && len(call.Call.Args) == 2 && call.Call.Args[0] == y {
										walk(call.Call.Args[1], d+1)
									}
								}
							}
						}
					}
				}
			}
		case *ssa.Convert:
			walk(x.X, d+1)
		case *ssa.ChangeType:
			walk(x.X, d+1)
		case *ssa.MakeInterface:
			walk(x.X, d+1)
		case *ssa.Extract:
			// result of a helper split off from a reference function: continue at what the helper returns
			if call, ok := x.Tuple.(*ssa.Call); ok {
				if sc := call.Call.StaticCallee(); sc != nil && isNewHelper(sc) {
					allInstrs(sc, func(ins ssa.Instruction) {
						if ret, ok := ins.(*ssa.Return); ok && x.Index < len(ret.Results) {
							walk(resolveSpill(ret.Results[x.Index]), d+1)
						}
					})
				}
			}
			walk(x.Tuple, d+1)
		case *ssa.Parameter:
			// parameter of such a helper: continue at the arguments of its call sites
			if f := x.Parent(); isNewHelper(f) && f.Parent() == nil && backSliceCtx != nil {
				for i, p := range f.Params {
					if p != x {
						continue
					}
					for _, e := range backSliceCtx.callSitesOf(f) {
						if ci, ok := e.Site.(ssa.CallInstruction); ok && i < len(ci.Common().Args) {
							walk(ci.Common().Args[i], d+1)
						}
					}
				}
			}
		case *ssa.Field:
			walk(x.X, d+1)
		case *ssa.FieldAddr:
			walk(x.X, d+1)
		case *ssa.Index:
			walk(x.X, d+1)
			walk(x.Index, d+1)
		case *ssa.IndexAddr:
			walk(x.X, d+1)
			walk(x.Index, d+1)
		case *ssa.Slice:
			walk(x.X, d+1)
		case *ssa.Lookup:
			walk(x.X, d+1)
			walk(x.Index, d+1)
			// values put into the same map in this function
			if refs := x.X.Referrers(); refs != nil {
				for _, r := range *refs {
					if mu, ok := r.(*ssa.MapUpdate); ok && mu.Map == x.X {
						walk(mu.Value, d+1)
					}
				}
			}
		case *ssa.Phi:
			for _, e := range x.Edges {
				walk(e, d+1)
			}
		case *ssa.BinOp:
			walk(x.X, d+1)
			walk(x.Y, d+1)
		case *ssa.FreeVar:
			// captured variable: continue at what the enclosing function stored in it
			fn := x.Parent()
			for i, w := range fn.FreeVars {
				if w != x || fn.Parent() == nil {
					continue
				}
				allInstrs(fn.Parent(), func(ins ssa.Instruction) {
					if mc, ok := ins.(*ssa.MakeClosure); ok && mc.Fn == fn && i < len(mc.Bindings) {
						walk(mc.Bindings[i], d+1)
					}
				})
			}
		case *ssa.Call:
			if sc := x.Call.StaticCallee(); sc != nil && (isNewHelper(sc) || (sc.Parent() != nil && sc.Parent() == x.Parent())) && sc.Signature.Results().Len() == 1 {
				allInstrs(sc, func(ins ssa.Instruction) {
					if ret, ok := ins.(*ssa.Return); ok && len(ret.Results) == 1 {
						walk(resolveSpill(ret.Results[0]), d+1)
					}
				})
			}
			if sc := x.Call.StaticCallee(); sc != nil && isNewHelper(sc) {
				// the helper's results were followed into its body; its parameters lead back to the arguments that
				// matter, so the argument list as a whole (loggers, contexts) is not part of the slice
				return
			}
			for _, a := range x.Call.Args {
				walk(a, d+1)
			}
			if x.Call.IsInvoke() {
				walk(x.Call.Value, d+1)
			}
		case *ssa.TypeAssert:
			walk(x.X, d+1)
		case *ssa.Next:
			walk(x.Iter, d+1)
		case *ssa.Range:
			walk(x.X, d+1)
		}
	}
	walk(v, 0)
}

// sliceHas: the backward slice of v contains a value satisfying pred.
func sliceHas(v ssa.Value, pred func(ssa.Value) bool) bool {
	found := false
	backSlice(v, func(x ssa.Value) bool {
		if pred(x) {
			found = true
			return false
		}
		return !found
	})
	return found
}

// sliceCalls returns the calls (by callee short name) found in the backward slice of v.
func sliceCalls(v ssa.Value) map[string][]*ssa.Call {
	out := map[string][]*ssa.Call{}
	backSlice(v, func(x ssa.Value) bool {
		if c, ok := x.(*ssa.Call); ok {
			if sc := c.Call.StaticCallee(); sc != nil && isNewHelper(sc) {
				return true // transparent: the calls inside it are collected instead
			}
			n := shortCallee(c.Common())
			out[n] = append(out[n], c)
		}
		return true
	})
	return out
}

// elementOf: the IndexAddr/Index (base, index) pairs in the backward slice of v.
type elemRef struct{ base, index ssa.Value }

func sliceElems(v ssa.Value) []elemRef {
	var out []elemRef
	backSlice(v, func(x ssa.Value) bool {
		switch y := x.(type) {
		case *ssa.IndexAddr:
			out = append(out, elemRef{y.X, y.Index})
		case *ssa.Index:
			out = append(out, elemRef{y.X, y.Index})
		}
		return true
	})
	return out
}

// isCallTo: v is a call whose callee short name is name.
func isCallTo(v ssa.Value, name string) bool {
	c, ok := v.(*ssa.Call)
	return ok && shortCallee(c.Common()) == name
}
