package main

// E2 ordertaint — process-dependent order (map iteration, unstable sort on a
// map-derived slice, goroutine scheduling) and values (clock, random) must not
// reach the ledger.  DESIGN.md §2.7.

import (
	"fmt"
	"go/token"
	"go/types"
	"sort"
	"strings"

	"golang.org/x/tools/go/ssa"
)

// keyed, commutative sinks that may be called from inside a map-range loop.
var commutativeSinks = map[string]string{
	"pegnet.Pegnet.AddToBalance":                                   "balance += value on (address,ticker): additions commute; fails only on overflow/CHECK, independent of order",
	"pegnet.Pegnet.SetTransactionHistoryPEGConvertedRequestAmount": "UPDATE keyed by (entry_hash, tx_index): one row per call, rows disjoint",
	"pegnet.SplitTxID":                                             "pure",
}

// functions whose map-ordered credits go to addresses that already have a pn_addresses row (so no row is created in
// map order), each with the reason.
var creditsExistingRows = map[string]string{
	"node.Pegnetd.SnapshotPayouts": "the paid addresses are the rows of both staking snapshots, which are copies of pn_addresses: every one already has a row",
}

// library packages whose calls have no ledger effect and no hidden order dependence.
var pureLibPrefixes = []string{"fmt.", "strings.", "strconv.", "math/big.", "math.", "encoding/hex.", "encoding/json.", "bytes.", "errors.", "github.com/sirupsen/logrus.", "(*github.com/sirupsen/logrus", "github.com/Factom-Asset-Tokens/factom.", "github.com/pegnet/pegnet/modules/"}

var sanitisers = map[string]string{
	"github.com/pegnet/pegnet/modules/transactionid.SortTxIDS": "total order on unique transaction ids",
	"sort.Strings": "total order on strings (elements are unique map keys)",
}

var clockFuncs = map[string]bool{"time.Now": true, "time.Since": true, "time.Until": true}

type otaint struct {
	c   *Ctx
	eff *Effects
	cat *SQLCat
	r   *Report
}

type mapLoop struct {
	f      *ssa.Function
	rng    *ssa.Range
	next   *ssa.Next
	header *ssa.BasicBlock
	blocks map[*ssa.BasicBlock]bool
	key    ssa.Value
	val    ssa.Value
}

func isMapType(t types.Type) bool { _, ok := t.Underlying().(*types.Map); return ok }

func findMapLoops(f *ssa.Function) []*mapLoop {
	var out []*mapLoop
	allInstrs(f, func(ins ssa.Instruction) {
		rg, ok := ins.(*ssa.Range)
		if !ok || !isMapType(rg.X.Type()) {
			return
		}
		ml := &mapLoop{f: f, rng: rg}
		for _, r := range *rg.Referrers() {
			if n, ok := r.(*ssa.Next); ok {
				ml.next = n
			}
		}
		if ml.next == nil {
			return
		}
		ml.header = ml.next.Block()
		ml.blocks = map[*ssa.BasicBlock]bool{ml.header: true}
		reachH := map[*ssa.BasicBlock]bool{}
		// blocks from which header is reachable
		var preds []*ssa.BasicBlock
		preds = append(preds, ml.header)
		for len(preds) > 0 {
			b := preds[len(preds)-1]
			preds = preds[:len(preds)-1]
			for _, p := range b.Preds {
				if !reachH[p] {
					reachH[p] = true
					preds = append(preds, p)
				}
			}
		}
		for _, b := range f.Blocks {
			if ml.header.Dominates(b) && reachH[b] {
				ml.blocks[b] = true
			}
		}
		for _, r := range *ml.next.Referrers() {
			if ex, ok := r.(*ssa.Extract); ok {
				switch ex.Index {
				case 1:
					ml.key = ex
				case 2:
					ml.val = ex
				}
			}
		}
		out = append(out, ml)
	})
	return out
}

// inLoopBody: block belongs to the loop or is an early-exit block dominated by the body (return err).
func (ml *mapLoop) dominatedByBody(b *ssa.BasicBlock) bool {
	if len(ml.header.Succs) == 0 {
		return false
	}
	body := ml.header.Succs[0]
	return body == b || body.Dominates(b)
}

// chain expands inner phis of a loop-carried update; returns terminal values.
func (ml *mapLoop) terminals(v ssa.Value, seen map[ssa.Value]bool, out *[]ssa.Value) {
	if seen[v] {
		return
	}
	seen[v] = true
	if ph, ok := v.(*ssa.Phi); ok && ml.blocks[ph.Block()] && ph.Block() != ml.header {
		for _, e := range ph.Edges {
			ml.terminals(e, seen, out)
		}
		return
	}
	*out = append(*out, v)
}

func isIntType(t types.Type) bool {
	b, ok := t.Underlying().(*types.Basic)
	return ok && b.Info()&types.IsInteger != 0
}

// sameChain: v is P or an inner phi merging P with updates.
func (ml *mapLoop) inChain(v ssa.Value, P *ssa.Phi, depth int) bool {
	if v == P {
		return true
	}
	if depth > 6 {
		return false
	}
	if ph, ok := v.(*ssa.Phi); ok && ml.blocks[ph.Block()] {
		for _, e := range ph.Edges {
			if ml.inChain(e, P, depth+1) {
				return true
			}
		}
	}
	if bo, ok := v.(*ssa.BinOp); ok && bo.Op == token.ADD {
		return ml.inChain(bo.X, P, depth+1) || ml.inChain(bo.Y, P, depth+1)
	}
	return false
}

// taintSrc is a slice variable built in map-iteration order: an SSA phi or a spilled local.
type taintSrc struct {
	phi   *ssa.Phi
	alloc *ssa.Alloc
}

func (t taintSrc) name() string {
	if t.phi != nil {
		if t.phi.Comment != "" {
			return t.phi.Comment
		}
		return t.phi.Name()
	}
	return t.alloc.Comment
}

// holds: v is the current value of the variable (phi chain or load of the alloc).
func (ml *mapLoop) holds(t taintSrc, v ssa.Value) bool {
	if t.phi != nil {
		return ml.inChain(v, t.phi, 0)
	}
	if ld, ok := v.(*ssa.UnOp); ok && ld.Op == token.MUL && ld.X == t.alloc {
		return true
	}
	return false
}

type carried struct {
	phi   *ssa.Phi
	kind  string // sum, append, flag, max, ties, unchanged, other
	extra string
}

// classifyCarried classifies how a loop-carried variable is updated.
func (ml *mapLoop) classifyCarried(P *ssa.Phi) carried {
	var terms []ssa.Value
	for i, e := range P.Edges {
		if ml.blocks[P.Block().Preds[i]] {
			ml.terminals(e, map[ssa.Value]bool{}, &terms)
		}
	}
	kinds := map[string]bool{}
	var consts []string
	for _, t := range terms {
		switch x := t.(type) {
		case *ssa.Phi:
			if x == P {
				continue
			}
			kinds["other"] = true
		case *ssa.BinOp:
			if x.Op == token.ADD && isIntType(x.Type()) && (ml.inChain(x.X, P, 0) || ml.inChain(x.Y, P, 0)) {
				kinds["sum"] = true
			} else if (x.Op == token.OR || x.Op == token.LOR) && (ml.inChain(x.X, P, 0) || ml.inChain(x.Y, P, 0)) {
				kinds["flag"] = true
			} else {
				kinds["other"] = true
			}
		case *ssa.Call:
			if b, ok := x.Call.Value.(*ssa.Builtin); ok && b.Name() == "append" && ml.inChain(x.Call.Args[0], P, 0) {
				kinds["append"] = true
			} else if calleeName(x.Common()) == "math/big.Int.Add" && len(x.Call.Args) >= 2 && (ml.inChain(x.Call.Args[0], P, 0) || ml.inChain(x.Call.Args[1], P, 0)) {
				kinds["sum"] = true
			} else {
				kinds["other"] = true
			}
		case *ssa.Const:
			consts = append(consts, x.String())
			kinds["const"] = true
		case *ssa.Slice:
			kinds["fresh-slice"] = true
		default:
			kinds["assign"] = true
		}
	}
	has := func(k string) bool { return kinds[k] }
	n := len(kinds)
	switch {
	case n == 0:
		return carried{P, "unchanged", ""}
	case n == 1 && has("sum"):
		return carried{P, "sum", ""}
	case n == 1 && has("flag"):
		return carried{P, "flag", ""}
	case n == 1 && has("append"):
		return carried{P, "append", ""}
	case n == 1 && has("const") && len(uniq(consts)) == 1:
		return carried{P, "flag", "set to " + consts[0]}
	case n == 1 && has("assign"):
		// max/min idiom: the assigned value is selected under a comparison with the carried value
		if ml.isMaxIdiom(P, terms) {
			return carried{P, "max", ""}
		}
	case n == 2 && has("append") && has("fresh-slice"):
		return carried{P, "ties", ""}
	}
	var ks []string
	for k := range kinds {
		ks = append(ks, k)
	}
	sort.Strings(ks)
	return carried{P, "other", strings.Join(ks, "+")}
}

// isMaxIdiom: P := x only where an If in the loop compares x with P (>,<,>=,<=) and the
// assignment sits on the branch dominated by that comparison's true edge.
func (ml *mapLoop) isMaxIdiom(P *ssa.Phi, terms []ssa.Value) bool {
	var x ssa.Value
	for _, t := range terms {
		if t != P {
			if x != nil && x != t {
				return false
			}
			x = t
		}
	}
	if x == nil {
		return false
	}
	for b := range ml.blocks {
		cond, _, _ := condEdge(b)
		bo, ok := cond.(*ssa.BinOp)
		if !ok {
			continue
		}
		switch bo.Op {
		case token.GTR, token.LSS, token.GEQ, token.LEQ:
			if (bo.X == x && ml.inChain(bo.Y, P, 0)) || (bo.Y == x && ml.inChain(bo.X, P, 0)) {
				return true
			}
		}
	}
	return false
}

// usesInsideLoop: uses of carried value P within the loop other than its own update chain and comparisons of a max idiom.
func (ml *mapLoop) foreignUses(P *ssa.Phi, kind string) []ssa.Instruction {
	var out []ssa.Instruction
	var visit func(v ssa.Value, seen map[ssa.Value]bool)
	visit = func(v ssa.Value, seen map[ssa.Value]bool) {
		if seen[v] {
			return
		}
		seen[v] = true
		refs := v.Referrers()
		if refs == nil {
			return
		}
		for _, r := range *refs {
			if !ml.blocks[r.Block()] && !ml.dominatedByBody(r.Block()) {
				continue
			}
			switch x := r.(type) {
			case *ssa.Phi:
				if ml.blocks[x.Block()] {
					visit(x, seen)
				}
				continue
			case *ssa.BinOp:
				if kind == "sum" && x.Op == token.ADD {
					visit(x, seen)
					continue
				}
				if (kind == "max" || kind == "ties") && (x.Op == token.GTR || x.Op == token.LSS || x.Op == token.GEQ || x.Op == token.LEQ || x.Op == token.EQL || x.Op == token.NEQ) {
					continue
				}
				if kind == "flag" && (x.Op == token.OR || x.Op == token.LOR) {
					visit(x, seen)
					continue
				}
			case *ssa.Call:
				if b, ok := x.Call.Value.(*ssa.Builtin); ok && b.Name() == "append" && (kind == "append" || kind == "ties") {
					visit(x, seen)
					continue
				}
				if calleeName(x.Common()) == "math/big.Int.Add" && kind == "sum" {
					visit(x, seen)
					continue
				}
			case *ssa.DebugRef:
				continue
			}
			out = append(out, r)
		}
	}
	visit(P, map[ssa.Value]bool{})
	return out
}

func isPureLib(name string) bool {
	for _, p := range pureLibPrefixes {
		if strings.HasPrefix(name, p) {
			return true
		}
	}
	return false
}

// writesThroughParams: module function stores/map-updates through a parameter-derived base.
func writesThroughParams(f *ssa.Function) bool {
	w := false
	var fromParam func(v ssa.Value, d int) bool
	fromParam = func(v ssa.Value, d int) bool {
		if d > 8 {
			return false
		}
		switch x := v.(type) {
		case *ssa.Parameter:
			return true
		case *ssa.FieldAddr:
			return fromParam(x.X, d+1)
		case *ssa.IndexAddr:
			return fromParam(x.X, d+1)
		case *ssa.UnOp:
			return fromParam(x.X, d+1)
		case *ssa.Field:
			return fromParam(x.X, d+1)
		}
		return false
	}
	allInstrs(f, func(ins ssa.Instruction) {
		switch x := ins.(type) {
		case *ssa.Store:
			if fromParam(x.Addr, 0) {
				w = true
			}
		case *ssa.MapUpdate:
			if fromParam(x.Map, 0) {
				w = true
			}
		}
	})
	return w
}

// analyseLoop classifies one map-range loop; returns tainted slices (append/ties phis).
func (o *otaint) analyseLoop(ml *mapLoop, cons string) []taintSrc {
	c, r := o.c, o.r
	taintedAllocs := map[*ssa.Alloc]bool{}
	rule := "C01/map-range"
	var problems []string
	var notes []string
	var tainted []taintSrc
	// 1. loop-carried variables
	for _, ins := range ml.header.Instrs {
		P, ok := ins.(*ssa.Phi)
		if !ok {
			continue
		}
		cv := ml.classifyCarried(P)
		name := P.Comment
		if name == "" {
			name = P.Name()
		}
		switch cv.kind {
		case "unchanged":
			continue
		case "sum", "flag", "max":
			if fu := ml.foreignUses(P, cv.kind); len(fu) > 0 {
				problems = append(problems, fmt.Sprintf("running value of %s (%s) is read inside the loop at %s: its intermediate value depends on iteration order", name, cv.kind, c.ipos(fu[0])))
			} else {
				notes = append(notes, fmt.Sprintf("%s: %s (commutative)", name, cv.kind))
			}
		case "append", "ties":
			tainted = append(tainted, taintSrc{phi: P})
			if fu := ml.foreignUses(P, cv.kind); len(fu) > 0 {
				problems = append(problems, fmt.Sprintf("slice %s being built is read inside the loop at %s", name, c.ipos(fu[0])))
			}
			notes = append(notes, fmt.Sprintf("%s: slice built by %s -> order-tainted until sanitised", name, cv.kind))
		default:
			problems = append(problems, fmt.Sprintf("variable %s is updated in an order-dependent way (%s): last writer wins", name, cv.extra))
		}
	}
	// 2. effects in the body
	var judgeCall func(x ssa.CallInstruction, depth int)
	judgeCall = func(x ssa.CallInstruction, depth int) {
		cc := x.Common()
		name := calleeName(cc)
		if _, ok := cc.Value.(*ssa.Builtin); ok {
			return
		}
		if why, ok := commutativeSinks[name]; ok {
			// the upsert also creates the address row when there is none: creation order fixes the rowid, and the
			// rowid breaks ties in `ORDER BY peg_balance DESC LIMIT 100` (top-holder test of the SPR grader). Only
			// credits to an address that already has a row (the debited input address) are free of that.
			existing := ""
			for _, on := range c.ownerNames(ml.f) {
				if why, ok := creditsExistingRows[on]; ok {
					existing = why
				}
			}
			if existing != "" && name == "pegnet.Pegnet.AddToBalance" {
				notes = append(notes, "AddToBalance in map order: "+existing)
				return
			}
			if name == "pegnet.Pegnet.AddToBalance" && len(cc.Args) > 2 && !strings.HasSuffix(typePath(cc.Args[2]), "TypedAddressAmountTuple.Address") {
				problems = append(problems, fmt.Sprintf("AddToBalance for an address that may be new (%s) inside a map-range loop at %s: rows of pn_addresses are then created in map order, and their rowids decide ties in the top-100 PEG holder query", stablePath(cc.Args[2], 0), c.ipos(x)))
				return
			}
			notes = append(notes, fmt.Sprintf("%s: keyed commutative sink (%s)", shortCallee(cc), why))
			return
		}
		if pe := primEffect(cc); pe == "sql" {
			// statements executed inside the loop must be keyed INSERT/UPDATE
			if name == "database/sql.Stmt.Exec" || name == "database/sql.Tx.Prepare" {
				okStmt := true
				for _, st := range o.cat.Stmts {
					if st.Fn == x.Parent() && st.Site == x {
						if st.Verb != "INSERT" && st.Verb != "UPDATE" {
							okStmt = false
						}
					}
				}
				if okStmt {
					notes = append(notes, "keyed INSERT/UPDATE (row ids are outside the property)")
					return
				}
			}
			problems = append(problems, fmt.Sprintf("database call %s inside a map-range loop at %s", name, c.ipos(x)))
			return
		} else if pe == "factom" {
			problems = append(problems, fmt.Sprintf("upstream call %s inside a map-range loop at %s", name, c.ipos(x)))
			return
		}
		if sc := cc.StaticCallee(); sc != nil && fnInModule(sc) {
			if o.eff.Effectful[sc] && isNewHelper(sc) && sc.Parent() == nil && depth < 3 && !writesThroughParams(sc) {
				// a helper split off from the loop body: judged by what it does, as if it still sat in the loop
				allInstrs(sc, func(j ssa.Instruction) {
					if cj, ok := j.(ssa.CallInstruction); ok {
						judgeCall(cj, depth+1)
					}
				})
				return
			}
			if o.eff.Effectful[sc] {
				problems = append(problems, fmt.Sprintf("call to %s (writes/reads the database, not a known commutative sink) inside a map-range loop at %s", name, c.ipos(x)))
			} else if writesThroughParams(sc) {
				problems = append(problems, fmt.Sprintf("call to %s (mutates its arguments) inside a map-range loop at %s", name, c.ipos(x)))
			}
			return
		}
		if isPureLib(name) || strings.HasPrefix(name, "builtin.") {
			return
		}
		if cc.IsInvoke() {
			return // method on interface value (graders, error.Error): no ledger access without a tx
		}
		if clockFuncs[name] {
			return // judged by the clock rule
		}
		problems = append(problems, fmt.Sprintf("call to %s inside a map-range loop at %s is not classified", name, c.ipos(x)))
	}
	for b := range ml.blocks {
		for _, ins := range b.Instrs {
			switch x := ins.(type) {
			case *ssa.MapUpdate:
				if mm, ok := x.Map.(*ssa.MakeMap); ok && ml.blocks[mm.Block()] {
					continue // map created inside this iteration (e.g. log fields)
				}
				if x.Key != ml.key {
					problems = append(problems, fmt.Sprintf("map update at %s is not keyed by the range key", c.ipos(ins)))
				}
			case *ssa.Store:
				// stores to memory allocated outside the loop
				if a, ok := x.Addr.(*ssa.Alloc); ok && !ml.blocks[a.Block()] {
					okSum := false
					if bo, ok := x.Val.(*ssa.BinOp); ok && bo.Op == token.ADD && isIntType(bo.Type()) {
						if ld, ok := bo.X.(*ssa.UnOp); ok && ld.X == a {
							okSum = true
						}
					}
					if call, ok := x.Val.(*ssa.Call); ok {
						if bi, ok := call.Call.Value.(*ssa.Builtin); ok && bi.Name() == "append" {
							if ld, ok := call.Call.Args[0].(*ssa.UnOp); ok && ld.X == a {
								okSum = true
								taintedAllocs[a] = true
								notes = append(notes, fmt.Sprintf("%s: slice built by append -> order-tainted until sanitised", a.Comment))
							}
						}
					}
					if !okSum {
						problems = append(problems, fmt.Sprintf("store to outer variable %s at %s is order-dependent", a.Comment, c.ipos(ins)))
					}
				} else if _, isAlloc := x.Addr.(*ssa.Alloc); !isAlloc {
					base := x.Addr
					for {
						if fa, ok := base.(*ssa.FieldAddr); ok {
							base = fa.X
							continue
						}
						if ia, ok := base.(*ssa.IndexAddr); ok {
							base = ia.X
							continue
						}
						break
					}
					if a, ok := base.(*ssa.Alloc); ok && ml.blocks[a.Block()] {
						continue // per-iteration local
					}
					if _, ok := base.(*ssa.Alloc); ok {
						// element/field of an outer local: must be keyed… conservative
						problems = append(problems, fmt.Sprintf("store through outer object at %s", c.ipos(ins)))
					}
				}
			case ssa.CallInstruction:
				judgeCall(x, 0)
			}
		}
	}
	for a := range taintedAllocs {
		tainted = append(tainted, taintSrc{alloc: a})
	}
	sort.Strings(problems)
	sort.Strings(notes)
	if len(problems) == 0 {
		r.okNT(rule, cons, c.ipos(ml.rng), "order-insensitive: "+strings.Join(uniq(notes), "; "))
	} else {
		r.viol(rule, cons, c.ipos(ml.rng), strings.Join(uniq(problems), "; "))
	}
	return tainted
}

// uniqueKeyFields: for a slice built by append inside ml, the struct fields that receive the range key.
func (ml *mapLoop) uniqueKeyFields(P taintSrc) (fields []int, elemIsKey bool) {
	for b := range ml.blocks {
		for _, ins := range b.Instrs {
			call, ok := ins.(*ssa.Call)
			if !ok {
				continue
			}
			if bi, ok := call.Call.Value.(*ssa.Builtin); !ok || bi.Name() != "append" || !ml.holds(P, call.Call.Args[0]) {
				continue
			}
			for _, el := range varargElems(call.Call.Args[1]) {
				if el == ml.key {
					elemIsKey = true
				}
				if ld, ok := el.(*ssa.UnOp); ok && ld.Op == token.MUL {
					if al, ok := ld.X.(*ssa.Alloc); ok && al.Referrers() != nil {
						for _, rf := range *al.Referrers() {
							if fa, ok := rf.(*ssa.FieldAddr); ok && fa.Referrers() != nil {
								for _, rr := range *fa.Referrers() {
									if st, ok := rr.(*ssa.Store); ok && st.Addr == fa && st.Val == ml.key {
										fields = append(fields, fa.Field)
									}
								}
							}
						}
					}
				}
			}
		}
	}
	return
}

// comparatorCovers: the less-closure reads one of the given struct fields.
func comparatorCovers(less ssa.Value, fields []int) bool {
	mc, ok := less.(*ssa.MakeClosure)
	var fn *ssa.Function
	if ok {
		fn, _ = mc.Fn.(*ssa.Function)
	} else if f, ok := less.(*ssa.Function); ok {
		fn = f
	}
	if fn == nil {
		return false
	}
	found := false
	allInstrs(fn, func(ins ssa.Instruction) {
		switch x := ins.(type) {
		case *ssa.FieldAddr:
			for _, f := range fields {
				if x.Field == f {
					found = true
				}
			}
		case *ssa.Field:
			for _, f := range fields {
				if x.Field == f {
					found = true
				}
			}
		}
	})
	return found
}

// followTainted checks the uses of an order-tainted slice after its loop.
func (o *otaint) followTainted(ml *mapLoop, P taintSrc, cons string) {
	c, r := o.c, o.r
	rule := "C01/tainted-slice"
	keyFields, elemIsKey := ml.uniqueKeyFields(P)
	var seeds []ssa.Value
	if P.phi != nil {
		seeds = append(seeds, P.phi)
	} else if refs := P.alloc.Referrers(); refs != nil {
		for _, rf := range *refs {
			if ld, ok := rf.(*ssa.UnOp); ok && ld.Op == token.MUL && !ml.blocks[ld.Block()] {
				seeds = append(seeds, ld)
			}
		}
	}
	problems := o.followIn(ml.f, seeds, ml.blocks, keyFields, elemIsKey, 0)
	sort.Strings(problems)
	cons = cons + " slice " + P.name()
	var ppos ssa.Instruction = ml.rng
	if len(problems) == 0 {
		r.okNT(rule, cons, c.ipos(ppos), "only len(), sanitisers (total-order sort on unique keys) or guarded singleton access before any element use")
	} else {
		r.viol(rule, cons, c.ipos(ppos), strings.Join(uniq(problems), "; "))
	}
}

// followIn follows order-tainted values through f (seeds: the tainted values; inLoop: the blocks of the loop that
// builds them, nil when the slice arrives from elsewhere) and returns the uses that make the result depend on the
// order. A tainted slice returned by a helper split off from the reference code, or handed to such a helper, is
// followed there.
func (o *otaint) followIn(f *ssa.Function, seeds []ssa.Value, inLoop map[*ssa.BasicBlock]bool, keyFields []int, elemIsKey bool, depth int) []string {
	c := o.c
	T := map[ssa.Value]bool{}
	var work []ssa.Value
	for _, sd := range seeds {
		T[sd] = true
		work = append(work, sd)
	}
	type sortSite struct {
		ins      ssa.Instruction
		complete bool
	}
	var sorts []sortSite
	var problems []string
	push := func(v ssa.Value) {
		if !T[v] {
			T[v] = true
			work = append(work, v)
		}
	}
	lenEq1Guard := func(ins ssa.Instruction) bool {
		// ins is dominated by the true edge of `len(t) == 1` for some tainted t
		for _, b := range f.Blocks {
			cond, tb, _ := condEdge(b)
			bo, ok := cond.(*ssa.BinOp)
			if !ok || bo.Op != token.EQL {
				continue
			}
			k, ok := bo.Y.(*ssa.Const)
			if !ok || k.Int64() != 1 {
				continue
			}
			lc, ok := bo.X.(*ssa.Call)
			if !ok {
				continue
			}
			if bi, ok := lc.Call.Value.(*ssa.Builtin); ok && bi.Name() == "len" && T[lc.Call.Args[0]] {
				if blockOrDom(tb, ins.Block()) && len(tb.Preds) == 1 {
					return true
				}
			}
		}
		return false
	}
	sanitisedBefore := func(ins ssa.Instruction) bool {
		for _, s := range sorts {
			if s.complete && instrDominates(s.ins, ins) {
				return true
			}
		}
		return false
	}
	// pathSanitised: every path from the function's entry to ins crosses a complete sort or the `len(t) == 1` edge of a
	// tainted t (`if len(top) != 1 { sort(top) }; use(top[0])`: sorted on one path, a singleton on the other)
	pathSanitised := func(ins ssa.Instruction) bool {
		cutBlock := map[*ssa.BasicBlock]ssa.Instruction{}
		for _, s := range sorts {
			if s.complete {
				cutBlock[s.ins.Block()] = s.ins
			}
		}
		cutEdge := map[[2]int]bool{}
		for _, b := range f.Blocks {
			bo, _, eq := eqEdges(b)
			if bo == nil || eq == nil {
				continue
			}
			x, y := bo.X, bo.Y
			if _, isK := x.(*ssa.Const); isK {
				x, y = y, x
			}
			k, ok := y.(*ssa.Const)
			if !ok || k.Value == nil || k.Int64() != 1 {
				continue
			}
			if lc, ok := x.(*ssa.Call); ok {
				if bi, ok := lc.Call.Value.(*ssa.Builtin); ok && bi.Name() == "len" && T[lc.Call.Args[0]] {
					cutEdge[[2]int{b.Index, eq.Index}] = true
				}
			}
		}
		if len(cutBlock) == 0 && len(cutEdge) == 0 {
			return false
		}
		seen := map[*ssa.BasicBlock]bool{f.Blocks[0]: true}
		st := []*ssa.BasicBlock{f.Blocks[0]}
		for len(st) > 0 {
			b := st[len(st)-1]
			st = st[:len(st)-1]
			if b == ins.Block() {
				if srt, isCut := cutBlock[b]; !isCut || !instrDominates(srt, ins) {
					return false
				}
			}
			if _, isCut := cutBlock[b]; isCut {
				continue
			}
			for _, sx := range b.Succs {
				if seen[sx] || cutEdge[[2]int{b.Index, sx.Index}] {
					continue
				}
				seen[sx] = true
				st = append(st, sx)
			}
		}
		return true
	}
	// phiEdgesSafe: the accessed slice is a merge; every tainted incoming value arrives over an edge that lies behind
	// the `len(t) == 1` edge of that value (the other edges carry sanitised results)
	var phiEdgesSafe func(ph *ssa.Phi, depth int) bool
	phiEdgesSafe = func(ph *ssa.Phi, depth int) bool {
		if depth > 3 {
			return false
		}
		for i, e := range ph.Edges {
			if !T[e] {
				continue
			}
			pred := ph.Block().Preds[i]
			if inLoop[pred] {
				return false
			}
			safe := false
			for _, b := range f.Blocks {
				bo, _, eq := eqEdges(b)
				if bo == nil || eq == nil {
					continue
				}
				x, y := bo.X, bo.Y
				if _, isK := x.(*ssa.Const); isK {
					x, y = y, x
				}
				k, ok := y.(*ssa.Const)
				if !ok || k.Value == nil || k.Int64() != 1 {
					continue
				}
				if lc, ok := x.(*ssa.Call); ok {
					if bi, ok := lc.Call.Value.(*ssa.Builtin); ok && bi.Name() == "len" && lc.Call.Args[0] == e {
						if (eq == ph.Block() && pred == b) || edgeTargetDom(eq, pred) {
							safe = true
						}
					}
				}
			}
			if !safe {
				if p2, ok := e.(*ssa.Phi); ok && p2 != ph && phiEdgesSafe(p2, depth+1) {
					safe = true
				}
			}
			if !safe {
				return false
			}
		}
		return true
	}
	// first pass: find in-place sorts of tainted values (need T closed first) — iterate to fixpoint
	for iter := 0; iter < 3; iter++ {
		for len(work) > 0 {
			v := work[len(work)-1]
			work = work[:len(work)-1]
			refs := v.Referrers()
			if refs == nil {
				continue
			}
			for _, rf := range *refs {
				if inLoop[rf.Block()] {
					continue // inside the building loop
				}
				switch x := rf.(type) {
				case *ssa.Phi:
					push(x)
				case *ssa.Slice:
					push(x)
				case *ssa.MakeInterface:
					push(x)
				case *ssa.ChangeType:
					push(x)
				case *ssa.Store:
					if x.Val == v {
						for _, ld := range loadsReachedByStore(x) {
							push(ld)
						}
					}
				case *ssa.Call:
					name := calleeName(x.Common())
					if bi, ok := x.Call.Value.(*ssa.Builtin); ok {
						if bi.Name() == "append" && x.Call.Args[0] == v {
							push(x)
						}
						continue
					}
					if _, ok := sanitisers[name]; ok {
						if name == "sort.Strings" {
							sorts = append(sorts, sortSite{x, true})
						}
						continue // result is clean
					}
					if name == "sort.Slice" || name == "sort.SliceStable" {
						complete := elemIsKey || comparatorCovers(x.Call.Args[1], keyFields)
						sorts = append(sorts, sortSite{x, complete})
						continue
					}
				}
			}
		}
	}
	// second pass: judge uses
	var vals []ssa.Value
	for v := range T {
		vals = append(vals, v)
	}
	for _, v := range vals {
		refs := v.Referrers()
		if refs == nil {
			continue
		}
		for _, rf := range *refs {
			if inLoop[rf.Block()] {
				continue
			}
			switch x := rf.(type) {
			case *ssa.Phi, *ssa.Slice, *ssa.MakeInterface, *ssa.ChangeType, *ssa.DebugRef, *ssa.Store:
				continue
			case *ssa.IndexAddr, *ssa.Index:
				if lenEq1Guard(rf) || sanitisedBefore(rf) || pathSanitised(rf) {
					continue
				}
				if ph, ok := v.(*ssa.Phi); ok && !inLoop[ph.Block()] && phiEdgesSafe(ph, 0) {
					continue
				}
				problems = append(problems, fmt.Sprintf("element access at %s on a slice whose order comes from map iteration (no total-order sort before it)", c.ipos(rf)))
			case *ssa.Call:
				name := calleeName(x.Common())
				if bi, ok := x.Call.Value.(*ssa.Builtin); ok {
					if bi.Name() == "len" || bi.Name() == "cap" || bi.Name() == "append" {
						continue
					}
				}
				if _, ok := sanitisers[name]; ok {
					continue
				}
				if name == "sort.Slice" || name == "sort.SliceStable" {
					for _, s := range sorts {
						if s.ins == rf && !s.complete {
							problems = append(problems, fmt.Sprintf("sort at %s compares a partial key (the unique map key of the elements is not compared): equal elements keep map-iteration order", c.ipos(rf)))
						}
					}
					continue
				}
				if isPureLib(name) && strings.Contains(name, "logrus") {
					continue
				}
				if sanitisedBefore(rf) {
					continue
				}
				if sc := x.Call.StaticCallee(); sc != nil && isNewHelper(sc) && sc.Parent() == nil && sc.Blocks != nil && depth < 3 {
					// handed to a helper split off from the reference code: followed there
					var sub []ssa.Value
					for i, a := range x.Call.Args {
						if a == v && i < len(sc.Params) {
							sub = append(sub, sc.Params[i])
						}
					}
					if len(sub) > 0 {
						problems = append(problems, o.followIn(sc, sub, nil, keyFields, elemIsKey, depth+1)...)
						continue
					}
				}
				problems = append(problems, fmt.Sprintf("order-tainted slice passed to %s at %s", name, c.ipos(rf)))
			case *ssa.Return:
				if !sanitisedBefore(rf) {
					if isNewHelper(f) && f.Parent() == nil && depth < 3 {
						// returned by a helper split off from the reference code: followed in its callers
						followed := false
						for _, cs := range c.familyCallSites(f) {
							cv, ok := cs.(*ssa.Call)
							if !ok {
								continue
							}
							for i, res := range x.Results {
								if res != v {
									continue
								}
								if rv := resultValue(cv, i); rv != nil {
									followed = true
									problems = append(problems, o.followIn(cv.Parent(), []ssa.Value{rv}, nil, keyFields, elemIsKey, depth+1)...)
								}
							}
						}
						if followed {
							continue
						}
					}
					problems = append(problems, fmt.Sprintf("order-tainted slice returned at %s", c.ipos(rf)))
				}
			case *ssa.MapUpdate:
				problems = append(problems, fmt.Sprintf("order-tainted slice stored in a map at %s", c.ipos(rf)))
			case *ssa.Range:
				problems = append(problems, fmt.Sprintf("range over order-tainted value at %s", c.ipos(rf)))
			}
		}
	}
	return problems
}

// clockRule: values derived from the wall clock may reach only logging and the allow-listed column.
func (o *otaint) clockRule(f *ssa.Function, ordn *ordinals) {
	c, r := o.c, o.r
	rule := "C01/clock"
	allInstrs(f, func(ins ssa.Instruction) {
		call, ok := ins.(*ssa.Call)
		if !ok || !clockFuncs[calleeName(call.Common())] {
			return
		}
		cons := fmt.Sprintf("%s %s %s", fname(f), calleeName(call.Common()), ord(ordn.next(calleeName(call.Common()))))
		D := map[ssa.Value]bool{call: true}
		work := []ssa.Value{call}
		var problems []string
		allowed := ""
		for len(work) > 0 {
			v := work[len(work)-1]
			work = work[:len(work)-1]
			refs := v.Referrers()
			if refs == nil {
				continue
			}
			for _, rf := range *refs {
				push := func(x ssa.Value) {
					if !D[x] {
						D[x] = true
						work = append(work, x)
					}
				}
				switch x := rf.(type) {
				case *ssa.BinOp, *ssa.Phi, *ssa.MakeInterface, *ssa.Convert, *ssa.ChangeType, *ssa.UnOp, *ssa.Extract, *ssa.Field, *ssa.FieldAddr, *ssa.Slice, *ssa.IndexAddr:
					push(x.(ssa.Value))
				case *ssa.Store:
					if x.Val == v {
						// stored into a local (time struct spill / varargs)
						push(x.Addr)
						for _, ld := range loadsReachedByStore(x) {
							push(ld)
						}
						if ia, ok := x.Addr.(*ssa.IndexAddr); ok {
							push(ia.X)
						}
					}
				case *ssa.If:
					// control dependence: the exclusive regions may not contain effectful calls
					for _, s := range x.Block().Succs {
						for _, b := range f.Blocks {
							if (b == s || s.Dominates(b)) && len(s.Preds) == 1 {
								for _, j := range b.Instrs {
									if cj, ok := j.(ssa.CallInstruction); ok && o.eff.fallibleCall(cj.Common()) && primEffect(cj.Common()) != "" {
										problems = append(problems, fmt.Sprintf("database/upstream call %s at %s is control-dependent on a clock value", calleeName(cj.Common()), c.ipos(j)))
									}
								}
							}
						}
					}
				case ssa.CallInstruction:
					cc := x.Common()
					name := calleeName(cc)
					if strings.HasPrefix(name, "time.") || strings.HasPrefix(name, "(time.") || strings.Contains(name, "time.Time).") || strings.Contains(name, "time.Duration).") {
						if val, ok := x.(ssa.Value); ok {
							push(val)
						}
						continue
					}
					if strings.Contains(name, "logrus") || strings.HasPrefix(name, "fmt.") {
						if val, ok := x.(ssa.Value); ok && strings.HasPrefix(name, "fmt.Sprint") {
							push(val)
						}
						continue
					}
					if primEffect(cc) == "sql" {
						// allow-list: the unix_timestamp column of pn_sync_version
						okCol := false
						for _, st := range o.cat.Stmts {
							if st.Fn == f && st.Table == "pn_sync_version" && st.Verb == "INSERT" {
								okCol = true
							}
						}
						if okCol && strings.HasSuffix(fname(f), ".markHeightSyncedVersion") { // method or plain function
							allowed = "flows to pn_sync_version.unix_timestamp (excluded by the property)"
							continue
						}
						problems = append(problems, fmt.Sprintf("clock value reaches database call %s at %s", name, c.ipos(rf)))
						continue
					}
					if sc := cc.StaticCallee(); sc != nil && fnInModule(sc) && o.eff.Effectful[sc] {
						problems = append(problems, fmt.Sprintf("clock value passed to %s (reaches the database) at %s", name, c.ipos(rf)))
					}
				case *ssa.Return:
					problems = append(problems, fmt.Sprintf("clock value returned at %s", c.ipos(rf)))
				}
			}
		}
		if len(problems) > 0 {
			r.viol(rule, cons, c.ipos(call), strings.Join(uniq(problems), "; "))
		} else if allowed != "" {
			r.audited(rule, cons, c.ipos(call), allowed)
		} else {
			r.okNT(rule, cons, c.ipos(call), "flows only to logging, time arithmetic and sleeping")
		}
	})
}

var randomPkgs = map[string]bool{"math/rand": true, "crypto/rand": true, "math/rand/v2": true}

func runOrderTaint(c *Ctx, r *Report) {
	eff := computeEffects(c)
	cat := buildSQLCat(c)
	o := &otaint{c: c, eff: eff, cat: cat, r: r}
	r.rule("C01/map-range", 6, "every map-range loop reachable from the sync root is order-insensitive")
	r.rule("C01/tainted-slice", 1, "a slice built in map-iteration order is totally ordered on a unique key before any element is used")
	r.rule("C01/clock", 5, "wall-clock values reach only logs and pn_sync_version.unix_timestamp")
	r.rule("C01/random-env", 1, "no randomness, pid, hostname or environment value is read while syncing")
	r.rule("C01/goroutines", 1, "goroutines started while syncing write index-disjoint slots only")
	nLoops := 0
	for _, f := range sortedFuncs(c.RSync) {
		ordn := newOrdinals()
		for _, ml := range findMapLoops(f) {
			nLoops++
			cons := fmt.Sprintf("%s range %s %s", fname(f), valueDesc(ml.rng.X), ord(ordn.next("range")))
			for _, P := range o.analyseLoop(ml, cons) {
				o.followTainted(ml, P, cons)
			}
		}
		o.clockRule(f, ordn)
		// random / env
		allInstrs(f, func(ins ssa.Instruction) {
			ci, ok := ins.(ssa.CallInstruction)
			if !ok {
				return
			}
			pp := calleePkgPath(ci.Common())
			n := calleeName(ci.Common())
			if randomPkgs[pp] || n == "os.Getpid" || n == "os.Hostname" || n == "os.Getenv" || n == "os.Environ" {
				r.viol("C01/random-env", fmt.Sprintf("%s calls %s", fname(f), n), c.ipos(ins), "process-dependent value read while applying blocks")
			}
			if g, ok := ins.(*ssa.Go); ok {
				o.goRule(f, g)
			}
			if sel, ok := ins.(*ssa.Select); ok {
				if len(sel.States) > 1 {
					r.viol("C01/goroutines", fmt.Sprintf("%s select with %d cases", fname(f), len(sel.States)), c.ipos(ins), "select over several channels: the chosen case depends on scheduling")
				} else {
					r.ok("C01/goroutines", fmt.Sprintf("%s select (single case%s)", fname(f), map[bool]string{true: ", non-blocking", false: ""}[!sel.Blocking]), c.ipos(ins), "cancellation poll")
				}
			}
		})
	}
	if r.Rules["C01/random-env"].Instances == 0 {
		r.okNT("C01/random-env", "no call into math/rand, crypto/rand, os.Getpid/Hostname/Getenv in R(SYNC)", "-", fmt.Sprintf("%d functions scanned", len(c.RSync)))
	}
	r.Extra["map_range_loops"] = nLoops
}

func valueDesc(v ssa.Value) string {
	if p := valuePath(v); p != "" {
		return p
	}
	return "local map"
}

// goRule: a goroutine started on the sync path may write only to slots indexed by a value received from a channel.
func (o *otaint) goRule(f *ssa.Function, g *ssa.Go) {
	c, r := o.c, o.r
	cons := fmt.Sprintf("%s go %s", fname(f), calleeName(g.Common()))
	var fn *ssa.Function
	if mc, ok := g.Call.Value.(*ssa.MakeClosure); ok {
		fn, _ = mc.Fn.(*ssa.Function)
	} else {
		fn = g.Call.StaticCallee()
	}
	if fn == nil || fn.Blocks == nil {
		r.undecided("C01/goroutines", cons, c.ipos(g), "goroutine body not resolved")
		return
	}
	var problems []string
	fromRecv := func(v ssa.Value) bool {
		// index value comes from a channel receive / range over channel
		switch x := v.(type) {
		case *ssa.UnOp:
			return x.Op == token.ARROW
		case *ssa.Extract:
			if u, ok := x.Tuple.(*ssa.UnOp); ok && u.Op == token.ARROW {
				return true
			}
		}
		return false
	}
	allInstrs(fn, func(ins ssa.Instruction) {
		switch x := ins.(type) {
		case *ssa.Store:
			if _, ok := x.Addr.(*ssa.Alloc); !ok {
				problems = append(problems, fmt.Sprintf("store to shared memory at %s", c.ipos(ins)))
			}
		case *ssa.MapUpdate:
			problems = append(problems, fmt.Sprintf("map update at %s", c.ipos(ins)))
		case ssa.CallInstruction:
			cc := x.Common()
			for _, a := range cc.Args {
				if ia, ok := a.(*ssa.IndexAddr); ok {
					if !fromRecv(ia.Index) {
						problems = append(problems, fmt.Sprintf("call %s at %s writes through an element not selected by a received index", calleeName(cc), c.ipos(ins)))
					}
				} else if _, isPtr := a.Type().Underlying().(*types.Pointer); isPtr {
					if _, isFV := a.(*ssa.FreeVar); isFV || valuePath(a) != "" && !strings.Contains(calleeName(cc), "recover") {
						if primEffect(cc) == "" {
							continue
						}
						// shared client pointer etc.: read-only use is fine for factom.Client
						if isNamed(a.Type(), factomPath, "Client") {
							continue
						}
					}
				}
			}
		}
	})
	if len(problems) == 0 {
		r.okNT("C01/goroutines", cons, c.ipos(g), "worker writes only entries[j] for indices j received from the work channel (index-disjoint); results collected by count")
	} else {
		r.viol("C01/goroutines", cons, c.ipos(g), strings.Join(uniq(problems), "; "))
	}
}
