package main

import (
	"fmt"
	"go/token"
	"go/types"
	"sort"
	"strings"
	"sync"

	"golang.org/x/tools/go/ssa"
)

// calleeName gives a name for any call: static callee, invoke, builtin or dynamic.
var calleeCache sync.Map

func calleeName(cc *ssa.CallCommon) string {
	if sc := cc.StaticCallee(); sc != nil {
		return fname(sc)
	}
	if s, ok := calleeCache.Load(cc); ok {
		return s.(string)
	}
	s := calleeName1(cc)
	calleeCache.Store(cc, s)
	return s
}

func calleeName1(cc *ssa.CallCommon) string {
	if cc.IsInvoke() {
		t := cc.Value.Type()
		tn := t.String()
		if n, ok := t.(*types.Named); ok {
			tn = n.Obj().Name()
			if n.Obj().Pkg() != nil {
				p := n.Obj().Pkg().Path()
				if inModule(n.Obj().Pkg()) {
					p = n.Obj().Pkg().Name()
				}
				tn = p + "." + tn
			}
		}
		return tn + "." + cc.Method.Name()
	}
	if b, ok := cc.Value.(*ssa.Builtin); ok {
		return "builtin." + b.Name()
	}
	return "dynamic:" + cc.Value.Name()
}

// calleePkgPath returns the package path that declares the callee (for invoke: of the interface).
func calleePkgPath(cc *ssa.CallCommon) string {
	if sc := cc.StaticCallee(); sc != nil {
		if sc.Pkg != nil {
			return sc.Pkg.Pkg.Path()
		}
		if o := sc.Object(); o != nil && o.Pkg() != nil {
			return o.Pkg().Path()
		}
		if sc.Parent() != nil && sc.Parent().Pkg != nil {
			return sc.Parent().Pkg.Pkg.Path()
		}
		return ""
	}
	if cc.IsInvoke() && cc.Method.Pkg() != nil {
		return cc.Method.Pkg().Path()
	}
	return ""
}

func isErrorType(t types.Type) bool {
	n, ok := t.(*types.Named)
	return ok && n.Obj().Pkg() == nil && n.Obj().Name() == "error"
}

// errResultIndex returns the index of the trailing error result or -1.
func errResultIndex(sig *types.Signature) int {
	r := sig.Results()
	if r.Len() == 0 {
		return -1
	}
	if isErrorType(r.At(r.Len() - 1).Type()) {
		return r.Len() - 1
	}
	return -1
}

func isNilConst(v ssa.Value) bool {
	c, ok := v.(*ssa.Const)
	return ok && c.Value == nil
}

// unwrap strips conversions that keep the value identity.
func unwrap(v ssa.Value) ssa.Value {
	for {
		switch x := v.(type) {
		case *ssa.ChangeType:
			v = x.X
		case *ssa.ChangeInterface:
			v = x.X
		case *ssa.MakeInterface:
			v = x.X
		default:
			return v
		}
	}
}

// reachableFrom computes blocks reachable from b (inclusive if incl).
func reachableFrom(b *ssa.BasicBlock, incl bool) map[*ssa.BasicBlock]bool {
	seen := map[*ssa.BasicBlock]bool{}
	var st []*ssa.BasicBlock
	if incl {
		seen[b] = true
		st = append(st, b)
	} else {
		for _, s := range b.Succs {
			if !seen[s] {
				seen[s] = true
				st = append(st, s)
			}
		}
	}
	for len(st) > 0 {
		x := st[len(st)-1]
		st = st[:len(st)-1]
		for _, s := range x.Succs {
			if !seen[s] {
				seen[s] = true
				st = append(st, s)
			}
		}
	}
	return seen
}

// reachAvoiding: blocks reachable from `from` without entering any block in avoid.
func reachAvoiding(from *ssa.BasicBlock, avoid map[*ssa.BasicBlock]bool) map[*ssa.BasicBlock]bool {
	seen := map[*ssa.BasicBlock]bool{}
	if avoid[from] {
		return seen
	}
	seen[from] = true
	st := []*ssa.BasicBlock{from}
	for len(st) > 0 {
		x := st[len(st)-1]
		st = st[:len(st)-1]
		for _, s := range x.Succs {
			if !seen[s] && !avoid[s] {
				seen[s] = true
				st = append(st, s)
			}
		}
	}
	return seen
}

// instrIndex returns the index of ins in its block.
func instrIndex(ins ssa.Instruction) int {
	for i, x := range ins.Block().Instrs {
		if x == ins {
			return i
		}
	}
	return -1
}

// instrDominates: a executes before b on every path to b.
func instrDominates(a, b ssa.Instruction) bool {
	if a.Block() == b.Block() {
		return instrIndex(a) < instrIndex(b)
	}
	return a.Block().Dominates(b.Block())
}

// instrReaches: there is a path from a to b (a strictly before b).
func instrReaches(a, b ssa.Instruction) bool {
	if a.Block() == b.Block() && instrIndex(a) < instrIndex(b) {
		return true
	}
	return reachableFrom(a.Block(), false)[b.Block()]
}

// condEdge: if block b ends in `if cond` return (cond, trueSucc, falseSucc).
func condEdge(b *ssa.BasicBlock) (ssa.Value, *ssa.BasicBlock, *ssa.BasicBlock) {
	if len(b.Instrs) == 0 {
		return nil, nil, nil
	}
	if i, ok := b.Instrs[len(b.Instrs)-1].(*ssa.If); ok {
		return i.Cond, b.Succs[0], b.Succs[1]
	}
	return nil, nil, nil
}

// valuePath gives a readable access path for a value: param, alloc comment,
// field selections, global names.  "" when not expressible.
func valuePath(v ssa.Value) string {
	switch x := v.(type) {
	case *ssa.Parameter:
		return x.Name()
	case *ssa.FreeVar:
		return x.Name()
	case *ssa.Global:
		return x.Pkg.Pkg.Name() + "." + x.Name()
	case *ssa.Alloc:
		if x.Comment != "" {
			return x.Comment
		}
		return ""
	case *ssa.FieldAddr:
		b := valuePath(x.X)
		if b == "" {
			return ""
		}
		st := derefStruct(x.X.Type())
		if st == nil {
			return ""
		}
		return b + "." + st.Field(x.Field).Name()
	case *ssa.Field:
		b := valuePath(x.X)
		st, _ := x.X.Type().Underlying().(*types.Struct)
		if b == "" || st == nil {
			return ""
		}
		return b + "." + st.Field(x.Field).Name()
	case *ssa.UnOp:
		if x.Op == token.MUL {
			return valuePath(x.X)
		}
	case *ssa.IndexAddr:
		b := valuePath(x.X)
		if b == "" {
			return ""
		}
		if c, ok := x.Index.(*ssa.Const); ok {
			return fmt.Sprintf("%s[%s]", b, c.Value)
		}
		return b + "[]"
	case *ssa.Index:
		b := valuePath(x.X)
		if b == "" {
			return ""
		}
		if c, ok := x.Index.(*ssa.Const); ok {
			return fmt.Sprintf("%s[%s]", b, c.Value)
		}
		return b + "[]"
	case *ssa.Lookup:
		b := valuePath(x.X)
		k := valuePath(x.Index)
		if c, ok := x.Index.(*ssa.Const); ok {
			k = c.Value.String()
		}
		if b == "" {
			return ""
		}
		return b + "[" + k + "]"
	case *ssa.Extract:
		if lk, ok := x.Tuple.(*ssa.Lookup); ok && x.Index == 0 {
			return valuePath(lk)
		}
		if call, ok := x.Tuple.(*ssa.Call); ok {
			return fmt.Sprintf("%s()#%d", shortCallee(call.Common()), x.Index)
		}
		if n, ok := x.Tuple.(*ssa.Next); ok {
			// range element: name through the iterated collection
			if r, ok := n.Iter.(*ssa.Range); ok {
				b := valuePath(r.X)
				if b != "" {
					if x.Index == 1 {
						return b + ".key"
					}
					return b + "[]"
				}
			}
		}
	case *ssa.Call:
		return shortCallee(x.Common()) + "()"
	case *ssa.ChangeType:
		return valuePath(x.X)
	case *ssa.Convert:
		return valuePath(x.X)
	case *ssa.MakeInterface:
		return valuePath(x.X)
	case *ssa.Slice:
		return valuePath(x.X)
	}
	return ""
}

func shortCallee(cc *ssa.CallCommon) string {
	n := calleeName(cc)
	if i := strings.LastIndex(n, "."); i >= 0 {
		return n[i+1:]
	}
	return n
}

func derefStruct(t types.Type) *types.Struct {
	if p, ok := t.Underlying().(*types.Pointer); ok {
		t = p.Elem()
	}
	st, _ := t.Underlying().(*types.Struct)
	return st
}

// callOrdinal numbers the calls to the same callee inside a function in block/instr order.
type ordinals struct{ seen map[string]int }

func newOrdinals() *ordinals { return &ordinals{seen: map[string]int{}} }
func (o *ordinals) next(key string) int {
	o.seen[key]++
	return o.seen[key]
}

// allInstrs iterates over f's instructions in block order.
func allInstrs(f *ssa.Function, fn func(ssa.Instruction)) {
	for _, b := range f.Blocks {
		for _, ins := range b.Instrs {
			fn(ins)
		}
	}
}

// findCalls returns the calls in f whose callee name equals name, in order.
// normName makes a method name independent of the receiver kind: pkg.(*T).M -> pkg.T.M
func normName(n string) string {
	if i := strings.Index(n, ".(*"); i >= 0 {
		if j := strings.Index(n[i:], ")."); j >= 0 {
			return n[:i+1] + n[i+3:i+j] + n[i+j+1:]
		}
	}
	return n
}

func findCalls(f *ssa.Function, name string) []ssa.CallInstruction {
	var out []ssa.CallInstruction
	name = normName(name)
	allInstrs(f, func(ins ssa.Instruction) {
		if ci, ok := ins.(ssa.CallInstruction); ok && normName(calleeName(ci.Common())) == name {
			out = append(out, ci)
		}
	})
	return out
}

// noReturnCall: calls after which control does not continue.
func noReturnCall(cc *ssa.CallCommon) bool {
	n := calleeName(cc)
	switch n {
	case "builtin.panic", "os.Exit":
		return true
	}
	if strings.HasPrefix(n, "github.com/sirupsen/logrus.") &&
		(strings.HasSuffix(n, ".Fatal") || strings.HasSuffix(n, ".Fatalf") || strings.HasSuffix(n, ".Fatalln") ||
			strings.HasSuffix(n, ".Panic") || strings.HasSuffix(n, ".Panicf")) {
		return true
	}
	if strings.HasPrefix(n, "log.Fatal") || strings.HasPrefix(n, "log.Panic") {
		return true
	}
	return false
}

// reachesCallee: f (or a module function it reaches) calls a function whose short name is `short`.
func reachesCallee(c *Ctx, f *ssa.Function, short string) bool {
	fs := map[*ssa.Function]bool{f: true}
	for x := range c.reach(f) {
		fs[x] = true
	}
	for x := range fs {
		for _, ci := range callsOf(x) {
			if shortCallee(ci.Common()) == short {
				return true
			}
		}
	}
	return false
}

// paramOrSpill: v is a parameter of f, or the load of a local that only ever holds a parameter of f
// (parameters captured by a closure are spilled to an Alloc).
func paramOrSpill(v ssa.Value, f *ssa.Function) bool {
	if p, ok := v.(*ssa.Parameter); ok {
		return p.Parent() == f
	}
	u, ok := v.(*ssa.UnOp)
	if !ok || u.Op != token.MUL {
		return false
	}
	a, ok := u.X.(*ssa.Alloc)
	if !ok || a.Referrers() == nil {
		return false
	}
	n := 0
	for _, rf := range *a.Referrers() {
		if st, ok := rf.(*ssa.Store); ok && st.Addr == a {
			if p, ok := st.Val.(*ssa.Parameter); !ok || p.Parent() != f {
				return false
			}
			n++
		}
	}
	return n == 1
}

// originLeaves follows v back through conversions, loads of spill slots, phis, closure bindings and - for
// parameters - the arguments at every static call site inside scope. The leaves are the values where this stops.
func (c *Ctx) originLeaves(v ssa.Value, scope map[*ssa.Function]bool) []ssa.Value {
	var out []ssa.Value
	seen := map[ssa.Value]bool{}
	var walk func(v ssa.Value, depth int)
	walk = func(v ssa.Value, depth int) {
		if v == nil || seen[v] || depth > 12 {
			return
		}
		seen[v] = true
		switch x := v.(type) {
		case *ssa.Convert:
			walk(x.X, depth+1)
			return
		case *ssa.ChangeType:
			walk(x.X, depth+1)
			return
		case *ssa.Phi:
			for _, e := range x.Edges {
				walk(e, depth+1)
			}
			return
		case *ssa.UnOp:
			if a, ok := x.X.(*ssa.Alloc); ok && x.Op == token.MUL && a.Referrers() != nil {
				n := 0
				for _, rf := range *a.Referrers() {
					if st, ok := rf.(*ssa.Store); ok && st.Addr == a {
						walk(st.Val, depth+1)
						n++
					}
				}
				if n > 0 {
					return
				}
			}
			// a field of a local struct that travels by pointer (a "per-block values" struct handed to a helper):
			// continue at what was stored into that field of the object
			if fa, ok := x.X.(*ssa.FieldAddr); ok && x.Op == token.MUL {
				n := 0
				for _, obj := range c.originLeaves(fa.X, scope) {
					al, ok := obj.(*ssa.Alloc)
					if !ok || al.Referrers() == nil {
						continue
					}
					for _, rf := range *al.Referrers() {
						f2, ok := rf.(*ssa.FieldAddr)
						if !ok || f2.Field != fa.Field || f2.Referrers() == nil {
							continue
						}
						for _, r2 := range *f2.Referrers() {
							if st, ok := r2.(*ssa.Store); ok && st.Addr == ssa.Value(f2) {
								walk(st.Val, depth+1)
								n++
							}
						}
					}
				}
				if n > 0 {
					return
				}
				// a struct handed over by value (a private "phase"/"row" struct built by the caller): the field of the
				// parameter's copy is what the caller stored into that field of its literal
				for _, obj := range c.originLeaves(fa.X, scope) {
					if al, ok := obj.(*ssa.Alloc); ok {
						for _, src := range c.structFieldSources(&ssa.UnOp{Op: token.MUL, X: al}, fa.Field, 0) {
							walk(src, depth+1)
							n++
						}
					}
				}
				if n > 0 {
					return
				}
			}
			if fv, ok := x.X.(*ssa.FreeVar); ok && x.Op == token.MUL {
				fn := fv.Parent()
				n := 0
				for i, w := range fn.FreeVars {
					if w != fv || fn.Parent() == nil {
						continue
					}
					allInstrs(fn.Parent(), func(ins ssa.Instruction) {
						if mc, ok := ins.(*ssa.MakeClosure); ok && mc.Fn == fn && i < len(mc.Bindings) {
							if a, ok := mc.Bindings[i].(*ssa.Alloc); ok && a.Referrers() != nil {
								for _, rf := range *a.Referrers() {
									if st, ok := rf.(*ssa.Store); ok && st.Addr == a {
										walk(st.Val, depth+1)
										n++
									}
								}
							}
						}
					})
				}
				if n > 0 {
					return
				}
			}
		case *ssa.Field:
			if srcs := c.structFieldSources(x.X, x.Field, 0); len(srcs) > 0 {
				for _, src := range srcs {
					walk(src, depth+1)
				}
				return
			}
		case *ssa.Parameter:
			f := x.Parent()
			idx := -1
			for i, p := range f.Params {
				if p == x {
					idx = i
				}
			}
			n := 0
			for _, e := range c.callSitesOf(f) {
				if scope != nil && !scope[e.Caller] {
					continue
				}
				ci, ok := e.Site.(ssa.CallInstruction)
				if !ok || idx < 0 || idx >= len(ci.Common().Args) {
					continue
				}
				walk(ci.Common().Args[idx], depth+1)
				n++
			}
			if n > 0 {
				return
			}
		}
		out = append(out, v)
	}
	walk(v, 0)
	return out
}

// isExecHeight: v is the height of the block being applied - every origin of v on the sync path is
// `<in-memory sync height> + 1` computed in the sync root (whatever the locals and parameters in between are called).
func (c *Ctx) isExecHeight(v ssa.Value) bool {
	leaves := c.originLeaves(v, c.RSync)
	if len(leaves) == 0 {
		return false
	}
	for _, l := range leaves {
		// the height field of the directory/entry block fetched for the executing height (trusted: factomd
		// answers dblock-by-height with the block of that height)
		if tp := typePath(l); tp == "factom.EBlock.Height" || tp == "factom.DBlock.Height" {
			continue
		}
		bo, ok := l.(*ssa.BinOp)
		if !ok || bo.Op != token.ADD || (bo.Parent() != c.Sync && !c.inFamily(bo.Parent(), c.Sync)) {
			return false // computed in the sync root or in a stage split off from it
		}
		k, ok := bo.Y.(*ssa.Const)
		if !ok || k.Value == nil || k.Int64() != 1 || typePath(bo.X) != "pegnet.BlockSync.Synced" {
			return false
		}
	}
	return true
}

// describeOrigin names the origins of v for messages.
func (c *Ctx) describeOrigin(v ssa.Value) string {
	var parts []string
	for _, l := range c.originLeaves(v, c.RSync) {
		d := typePath(l)
		if d == "" {
			d = valuePath(l)
		}
		if d == "" {
			d = l.String()
		}
		parts = append(parts, d)
	}
	sort.Strings(parts)
	return strings.Join(dedupStrings(parts), " | ")
}

// ownParam: v is (a conversion or spill of) a parameter of its enclosing function f; returns its index, -1 otherwise.
func ownParam(v ssa.Value, f *ssa.Function) int {
	v = unwrapConv(v)
	p := spilledParam(v)
	if p == nil || p.Parent() != f {
		return -1
	}
	for i, q := range f.Params {
		if q == p {
			return i
		}
	}
	return -1
}

// eqEdges: for a block ending in `if x == y` / `if x != y` (possibly negated), the comparison and the successors
// taken when the operands differ and when they are equal - whichever way round the source wrote the test.
func eqEdges(b *ssa.BasicBlock) (bo *ssa.BinOp, ne, eq *ssa.BasicBlock) {
	cond, tb, fb := condEdge(b)
	if cond == nil {
		return nil, nil, nil
	}
	for {
		if u, ok := cond.(*ssa.UnOp); ok && u.Op == token.NOT {
			cond, tb, fb = u.X, fb, tb
			continue
		}
		break
	}
	x, ok := cond.(*ssa.BinOp)
	if !ok {
		return nil, nil, nil
	}
	switch x.Op {
	case token.NEQ:
		return x, tb, fb
	case token.EQL:
		return x, fb, tb
	}
	return nil, nil, nil
}

// ordEdges: for a block ending in an ordered comparison of x and y (any of < <= > >=, possibly negated), the
// operands normalised so that lt is the successor taken when x < y and ge the one taken when x >= y.
func ordEdges(b *ssa.BasicBlock) (x, y ssa.Value, lt, ge *ssa.BasicBlock) {
	cond, tb, fb := condEdge(b)
	if cond == nil {
		return nil, nil, nil, nil
	}
	for {
		if u, ok := cond.(*ssa.UnOp); ok && u.Op == token.NOT {
			cond, tb, fb = u.X, fb, tb
			continue
		}
		break
	}
	bo, ok := cond.(*ssa.BinOp)
	if !ok {
		return nil, nil, nil, nil
	}
	switch bo.Op {
	case token.LSS: // x < y
		return bo.X, bo.Y, tb, fb
	case token.GEQ: // x >= y
		return bo.X, bo.Y, fb, tb
	case token.GTR: // x > y  ==  y < x
		return bo.Y, bo.X, tb, fb
	case token.LEQ: // x <= y  ==  y >= x
		return bo.Y, bo.X, fb, tb
	}
	return nil, nil, nil, nil
}

// structFieldSources: the values stored into field #field of the struct value v - v being a load of a local literal, a
// struct parameter (then: what every caller passes), a merge of such, or a copy.
func (c *Ctx) structFieldSources(v ssa.Value, field, depth int) []ssa.Value {
	if depth > 5 || v == nil {
		return nil
	}
	var out []ssa.Value
	switch x := v.(type) {
	case *ssa.UnOp:
		al, ok := x.X.(*ssa.Alloc)
		if !ok || x.Op != token.MUL || al.Referrers() == nil {
			return nil
		}
		for _, rf := range *al.Referrers() {
			switch y := rf.(type) {
			case *ssa.FieldAddr:
				if y.Field != field || y.Referrers() == nil {
					continue
				}
				for _, r2 := range *y.Referrers() {
					if st, ok := r2.(*ssa.Store); ok && st.Addr == ssa.Value(y) {
						out = append(out, st.Val)
					}
				}
			case *ssa.Store:
				if y.Addr == ssa.Value(al) {
					out = append(out, c.structFieldSources(y.Val, field, depth+1)...)
				}
			}
		}
	case *ssa.Phi:
		for _, e := range x.Edges {
			out = append(out, c.structFieldSources(e, field, depth+1)...)
		}
	case *ssa.Parameter:
		f := x.Parent()
		idx := -1
		for i, p := range f.Params {
			if p == x {
				idx = i
			}
		}
		for _, e := range c.callSitesOf(f) {
			ci, ok := e.Site.(ssa.CallInstruction)
			if !ok {
				continue
			}
			args := ci.Common().Args
			if idx >= 0 && idx < len(args) {
				out = append(out, c.structFieldSources(args[idx], field, depth+1)...)
			}
		}
	}
	return out
}
