package main

import (
	"fmt"
	"go/token"
	"go/types"
	"strings"
	"sync"

	"golang.org/x/tools/go/ssa"
)

// calleeName gives a name for any call: static callee, invoke, builtin or dynamic.
var calleeCache sync.Map

func calleeName(cc *ssa.CallCommon) string {
	if sc := cc.StaticCallee(); sc != nil {
		return fname(sc)
	}
	if s, ok := calleeCache.Load(cc); ok {
		return s.(string)
	}
	s := calleeName1(cc)
	calleeCache.Store(cc, s)
	return s
}

func calleeName1(cc *ssa.CallCommon) string {
	if cc.IsInvoke() {
		t := cc.Value.Type()
		tn := t.String()
		if n, ok := t.(*types.Named); ok {
			tn = n.Obj().Name()
			if n.Obj().Pkg() != nil {
				p := n.Obj().Pkg().Path()
				if inModule(n.Obj().Pkg()) {
					p = n.Obj().Pkg().Name()
				}
				tn = p + "." + tn
			}
		}
		return tn + "." + cc.Method.Name()
	}
	if b, ok := cc.Value.(*ssa.Builtin); ok {
		return "builtin." + b.Name()
	}
	return "dynamic:" + cc.Value.Name()
}

// calleePkgPath returns the package path that declares the callee (for invoke: of the interface).
func calleePkgPath(cc *ssa.CallCommon) string {
	if sc := cc.StaticCallee(); sc != nil {
		if sc.Pkg != nil {
			return sc.Pkg.Pkg.Path()
		}
		if o := sc.Object(); o != nil && o.Pkg() != nil {
			return o.Pkg().Path()
		}
		if sc.Parent() != nil && sc.Parent().Pkg != nil {
			return sc.Parent().Pkg.Pkg.Path()
		}
		return ""
	}
	if cc.IsInvoke() && cc.Method.Pkg() != nil {
		return cc.Method.Pkg().Path()
	}
	return ""
}

func isErrorType(t types.Type) bool {
	n, ok := t.(*types.Named)
	return ok && n.Obj().Pkg() == nil && n.Obj().Name() == "error"
}

// errResultIndex returns the index of the trailing error result or -1.
func errResultIndex(sig *types.Signature) int {
	r := sig.Results()
	if r.Len() == 0 {
		return -1
	}
	if isErrorType(r.At(r.Len() - 1).Type()) {
		return r.Len() - 1
	}
	return -1
}

func isNilConst(v ssa.Value) bool {
	c, ok := v.(*ssa.Const)
	return ok && c.Value == nil
}

// unwrap strips conversions that keep the value identity.
func unwrap(v ssa.Value) ssa.Value {
	for {
		switch x := v.(type) {
		case *ssa.ChangeType:
			v = x.X
		case *ssa.ChangeInterface:
			v = x.X
		case *ssa.MakeInterface:
			v = x.X
		default:
			return v
		}
	}
}

// reachableFrom computes blocks reachable from b (inclusive if incl).
func reachableFrom(b *ssa.BasicBlock, incl bool) map[*ssa.BasicBlock]bool {
	seen := map[*ssa.BasicBlock]bool{}
	var st []*ssa.BasicBlock
	if incl {
		seen[b] = true
		st = append(st, b)
	} else {
		for _, s := range b.Succs {
			if !seen[s] {
				seen[s] = true
				st = append(st, s)
			}
		}
	}
	for len(st) > 0 {
		x := st[len(st)-1]
		st = st[:len(st)-1]
		for _, s := range x.Succs {
			if !seen[s] {
				seen[s] = true
				st = append(st, s)
			}
		}
	}
	return seen
}

// reachAvoiding: blocks reachable from `from` without entering any block in avoid.
func reachAvoiding(from *ssa.BasicBlock, avoid map[*ssa.BasicBlock]bool) map[*ssa.BasicBlock]bool {
	seen := map[*ssa.BasicBlock]bool{}
	if avoid[from] {
		return seen
	}
	seen[from] = true
	st := []*ssa.BasicBlock{from}
	for len(st) > 0 {
		x := st[len(st)-1]
		st = st[:len(st)-1]
		for _, s := range x.Succs {
			if !seen[s] && !avoid[s] {
				seen[s] = true
				st = append(st, s)
			}
		}
	}
	return seen
}

// instrIndex returns the index of ins in its block.
func instrIndex(ins ssa.Instruction) int {
	for i, x := range ins.Block().Instrs {
		if x == ins {
			return i
		}
	}
	return -1
}

// instrDominates: a executes before b on every path to b.
func instrDominates(a, b ssa.Instruction) bool {
	if a.Block() == b.Block() {
		return instrIndex(a) < instrIndex(b)
	}
	return a.Block().Dominates(b.Block())
}

// instrReaches: there is a path from a to b (a strictly before b).
func instrReaches(a, b ssa.Instruction) bool {
	if a.Block() == b.Block() && instrIndex(a) < instrIndex(b) {
		return true
	}
	return reachableFrom(a.Block(), false)[b.Block()]
}

// condEdge: if block b ends in `if cond` return (cond, trueSucc, falseSucc).
func condEdge(b *ssa.BasicBlock) (ssa.Value, *ssa.BasicBlock, *ssa.BasicBlock) {
	if len(b.Instrs) == 0 {
		return nil, nil, nil
	}
	if i, ok := b.Instrs[len(b.Instrs)-1].(*ssa.If); ok {
		return i.Cond, b.Succs[0], b.Succs[1]
	}
	return nil, nil, nil
}

// valuePath gives a readable access path for a value: param, alloc comment,
// field selections, global names.  "" when not expressible.
func valuePath(v ssa.Value) string {
	switch x := v.(type) {
	case *ssa.Parameter:
		return x.Name()
	case *ssa.FreeVar:
		return x.Name()
	case *ssa.Global:
		return x.Pkg.Pkg.Name() + "." + x.Name()
	case *ssa.Alloc:
		if x.Comment != "" {
			return x.Comment
		}
		return ""
	case *ssa.FieldAddr:
		b := valuePath(x.X)
		if b == "" {
			return ""
		}
		st := derefStruct(x.X.Type())
		if st == nil {
			return ""
		}
		return b + "." + st.Field(x.Field).Name()
	case *ssa.Field:
		b := valuePath(x.X)
		st, _ := x.X.Type().Underlying().(*types.Struct)
		if b == "" || st == nil {
			return ""
		}
		return b + "." + st.Field(x.Field).Name()
	case *ssa.UnOp:
		if x.Op == token.MUL {
			return valuePath(x.X)
		}
	case *ssa.IndexAddr:
		b := valuePath(x.X)
		if b == "" {
			return ""
		}
		if c, ok := x.Index.(*ssa.Const); ok {
			return fmt.Sprintf("%s[%s]", b, c.Value)
		}
		return b + "[]"
	case *ssa.Index:
		b := valuePath(x.X)
		if b == "" {
			return ""
		}
		if c, ok := x.Index.(*ssa.Const); ok {
			return fmt.Sprintf("%s[%s]", b, c.Value)
		}
		return b + "[]"
	case *ssa.Lookup:
		b := valuePath(x.X)
		k := valuePath(x.Index)
		if c, ok := x.Index.(*ssa.Const); ok {
			k = c.Value.String()
		}
		if b == "" {
			return ""
		}
		return b + "[" + k + "]"
	case *ssa.Extract:
		if lk, ok := x.Tuple.(*ssa.Lookup); ok && x.Index == 0 {
			return valuePath(lk)
		}
		if call, ok := x.Tuple.(*ssa.Call); ok {
			return fmt.Sprintf("%s()#%d", shortCallee(call.Common()), x.Index)
		}
		if n, ok := x.Tuple.(*ssa.Next); ok {
			// range element: name through the iterated collection
			if r, ok := n.Iter.(*ssa.Range); ok {
				b := valuePath(r.X)
				if b != "" {
					if x.Index == 1 {
						return b + ".key"
					}
					return b + "[]"
				}
			}
		}
	case *ssa.Call:
		return shortCallee(x.Common()) + "()"
	case *ssa.ChangeType:
		return valuePath(x.X)
	case *ssa.Convert:
		return valuePath(x.X)
	case *ssa.MakeInterface:
		return valuePath(x.X)
	case *ssa.Slice:
		return valuePath(x.X)
	}
	return ""
}

func shortCallee(cc *ssa.CallCommon) string {
	n := calleeName(cc)
	if i := strings.LastIndex(n, "."); i >= 0 {
		return n[i+1:]
	}
	return n
}

func derefStruct(t types.Type) *types.Struct {
	if p, ok := t.Underlying().(*types.Pointer); ok {
		t = p.Elem()
	}
	st, _ := t.Underlying().(*types.Struct)
	return st
}

// callOrdinal numbers the calls to the same callee inside a function in block/instr order.
type ordinals struct{ seen map[string]int }

func newOrdinals() *ordinals { return &ordinals{seen: map[string]int{}} }
func (o *ordinals) next(key string) int {
	o.seen[key]++
	return o.seen[key]
}

// allInstrs iterates over f's instructions in block order.
func allInstrs(f *ssa.Function, fn func(ssa.Instruction)) {
	for _, b := range f.Blocks {
		for _, ins := range b.Instrs {
			fn(ins)
		}
	}
}

// findCalls returns the calls in f whose callee name equals name, in order.
func findCalls(f *ssa.Function, name string) []ssa.CallInstruction {
	var out []ssa.CallInstruction
	allInstrs(f, func(ins ssa.Instruction) {
		if ci, ok := ins.(ssa.CallInstruction); ok && calleeName(ci.Common()) == name {
			out = append(out, ci)
		}
	})
	return out
}

// noReturnCall: calls after which control does not continue.
func noReturnCall(cc *ssa.CallCommon) bool {
	n := calleeName(cc)
	switch n {
	case "builtin.panic", "os.Exit":
		return true
	}
	if strings.HasPrefix(n, "github.com/sirupsen/logrus.") &&
		(strings.HasSuffix(n, ".Fatal") || strings.HasSuffix(n, ".Fatalf") || strings.HasSuffix(n, ".Fatalln") ||
			strings.HasSuffix(n, ".Panic") || strings.HasSuffix(n, ".Panicf")) {
		return true
	}
	if strings.HasPrefix(n, "log.Fatal") || strings.HasPrefix(n, "log.Panic") {
		return true
	}
	return false
}
