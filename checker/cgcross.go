package main

// Thorough tier: cross-check of the module call graph against x/tools CHA and VTA.

import (
	"sort"

	"golang.org/x/tools/go/callgraph"
	"golang.org/x/tools/go/callgraph/cha"
	"golang.org/x/tools/go/callgraph/vta"
	"golang.org/x/tools/go/ssa"
	"golang.org/x/tools/go/ssa/ssautil"
)

func reachCG(g *callgraph.Graph, roots []*ssa.Function) map[*ssa.Function]bool {
	seen := map[*ssa.Function]bool{}
	var st []*callgraph.Node
	for _, r := range roots {
		if n := g.Nodes[r]; n != nil && !seen[r] {
			seen[r] = true
			st = append(st, n)
		}
	}
	for len(st) > 0 {
		n := st[len(st)-1]
		st = st[:len(st)-1]
		for _, e := range n.Out {
			if !seen[e.Callee.Func] {
				seen[e.Callee.Func] = true
				st = append(st, e.Callee)
			}
		}
	}
	return seen
}

// crossCheckReach compares the module-restricted reachable sets of the checker's own graph with VTA's.
// Functions VTA reaches (through library callbacks) that the own graph does not are returned as "missing";
// the reverse as "extra".
func crossCheckReach(c *Ctx, roots []*ssa.Function, own map[*ssa.Function]bool) (missing, extra []string) {
	all := ssautil.AllFunctions(c.Prog)
	g := vta.CallGraph(all, cha.CallGraph(c.Prog))
	r := reachCG(g, roots)
	for f := range r {
		if fnInModule(f) && f.Blocks != nil && !own[f] && f.Synthetic == "" {
			missing = append(missing, fname(f))
		}
	}
	for f := range own {
		if !r[f] {
			extra = append(extra, fname(f))
		}
	}
	sort.Strings(missing)
	sort.Strings(extra)
	return
}
