package main

// Effect summaries.  DESIGN.md §2.3.

import (
	"go/types"

	"golang.org/x/tools/go/ssa"
)

const factomPath = "github.com/Factom-Asset-Tokens/factom"

type Effects struct {
	c         *Ctx
	Effectful map[*ssa.Function]bool // reaches database/sql or a factom client request
	SQL       map[*ssa.Function]bool
	Factom    map[*ssa.Function]bool
}

// primEffect classifies a call as a primitive effect: "sql", "factom" or "".
func primEffect(cc *ssa.CallCommon) string {
	pp := calleePkgPath(cc)
	if pp == "database/sql" {
		return "sql"
	}
	if cc.IsInvoke() {
		if n, ok := cc.Value.Type().(*types.Named); ok && n.Obj().Pkg() != nil && inModule(n.Obj().Pkg()) && n.Obj().Name() == "QueryAble" {
			return "sql"
		}
		return ""
	}
	if pp == factomPath {
		sc := cc.StaticCallee()
		if sc == nil {
			return ""
		}
		if r := sc.Signature.Recv(); r != nil && isNamed(r.Type(), factomPath, "Client") {
			return "factom"
		}
		ps := sc.Signature.Params()
		for i := 0; i < ps.Len(); i++ {
			if isNamed(ps.At(i).Type(), factomPath, "Client") {
				return "factom"
			}
		}
	}
	return ""
}

func computeEffects(c *Ctx) *Effects {
	e := &Effects{c: c, Effectful: map[*ssa.Function]bool{}, SQL: map[*ssa.Function]bool{}, Factom: map[*ssa.Function]bool{}}
	for _, f := range c.Funcs {
		for _, ci := range callsOf(f) {
			switch primEffect(ci.Common()) {
			case "sql":
				e.SQL[f] = true
				e.Effectful[f] = true
			case "factom":
				e.Factom[f] = true
				e.Effectful[f] = true
			}
		}
	}
	for changed := true; changed; {
		changed = false
		for _, f := range c.Funcs {
			for _, ed := range c.CG[f] {
				if e.Effectful[ed.Callee] && !e.Effectful[f] {
					e.Effectful[f] = true
					changed = true
				}
				if e.SQL[ed.Callee] && !e.SQL[f] {
					e.SQL[f] = true
					changed = true
				}
				if e.Factom[ed.Callee] && !e.Factom[f] {
					e.Factom[f] = true
					changed = true
				}
			}
		}
	}
	return e
}

// fallibleCall: the call returns an error (last result) that a storage or
// upstream fault can make non-nil.
func (e *Effects) fallibleCall(cc *ssa.CallCommon) bool {
	if errResultIndex(cc.Signature()) < 0 {
		return false
	}
	if primEffect(cc) != "" {
		return true
	}
	if sc := cc.StaticCallee(); sc != nil && fnInModule(sc) {
		return e.Effectful[sc]
	}
	// a call through a function value (a retry helper given `func() error`): fallible when a function that can
	// arrive there is
	if !cc.IsInvoke() && cc.StaticCallee() == nil {
		if _, isBuiltin := cc.Value.(*ssa.Builtin); !isBuiltin {
			for _, l := range e.c.originLeaves(cc.Value, nil) {
				switch y := l.(type) {
				case *ssa.MakeClosure:
					if fn, ok := y.Fn.(*ssa.Function); ok && e.Effectful[fn] {
						return true
					}
				case *ssa.Function:
					if e.Effectful[y] {
						return true
					}
				}
			}
		}
	}
	return false
}
