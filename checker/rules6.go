package main

// Rules added after the sixth wave of seeded changes.

import (
	"fmt"
	"go/constant"
	"go/token"
	"go/types"
	"regexp"
	"sort"
	"strings"

	"golang.org/x/tools/go/ssa"
)

// ---------------------------------------------------------------------------------------------------------------
// E1 companion: an error handed to a helper by address (`defer closeStmt(stmt, &err)`) must not be replaced by a value
// that may be nil on the path where it is already set.

func ruleErrPtrOverwrite(c *Ctx, r *Report, rule string, scope map[*ssa.Function]bool) {
	r.rule(rule, 1, "an error reached through a pointer is not overwritten once it is set")
	n, bad := 0, 0
	isErrPtr := func(t types.Type) bool {
		p, ok := t.Underlying().(*types.Pointer)
		return ok && isErrorType(p.Elem())
	}
	for _, f := range sortedFuncs(scope) {
		var slots []ssa.Value
		for _, p := range f.Params {
			if isErrPtr(p.Type()) {
				slots = append(slots, p)
			}
		}
		for _, fv := range f.FreeVars {
			if isErrPtr(fv.Type()) {
				slots = append(slots, fv)
			}
		}
		for _, slot := range slots {
			n++
			// tests `*slot != nil`
			type tst struct{ nonNil *ssa.BasicBlock }
			var tests []tst
			for _, b := range f.Blocks {
				cond, tb, fb := condEdge(b)
				bo, ok := cond.(*ssa.BinOp)
				if !ok || (bo.Op != token.NEQ && bo.Op != token.EQL) {
					continue
				}
				isLoad := func(v ssa.Value) bool {
					u, ok := v.(*ssa.UnOp)
					return ok && u.Op == token.MUL && u.X == slot
				}
				if !((isLoad(bo.X) && isNilConst(bo.Y)) || (isLoad(bo.Y) && isNilConst(bo.X))) {
					continue
				}
				if bo.Op == token.NEQ {
					tests = append(tests, tst{tb})
				} else {
					tests = append(tests, tst{fb})
				}
			}
			allInstrs(f, func(ins ssa.Instruction) {
				st, ok := ins.(*ssa.Store)
				if !ok || st.Addr != slot {
					return
				}
				for _, t := range tests {
					if edgeTargetDom(t.nonNil, st.Block()) && !c.errNonNilAt(st.Val, st.Block(), 0) {
						bad++
						r.viol(rule, fmt.Sprintf("%s overwrites the error behind its pointer argument", strings.Join(c.ownerNames(f), "/")), c.ipos(st), "the store is made only when the error is already set and replaces it with a value that can be nil (the result of a Close): a failed statement then reports success, the block goes on and is committed with that effect missing")
					}
				}
			})
		}
	}
	if bad == 0 {
		r.okNT(rule, "no error is overwritten through a pointer once set", "-", fmt.Sprintf("%d pointer-to-error parameters/captures examined", n))
	}
}

// ---------------------------------------------------------------------------------------------------------------
// C02: nothing at start-up removes, renames or truncates the database file or SQLite's sidecar files.

func ruleDBFilesUntouched(c *Ctx, r *Report, rule string) {
	r.rule(rule, 1, "start-up does not remove or rewrite the database file or its journal")
	inDSN := map[ssa.Value]bool{}
	for _, f := range c.Funcs {
		for _, ci := range callsOf(f) {
			if calleeName(ci.Common()) == "database/sql.Open" {
				backSlice(ci.Common().Args[1], func(v ssa.Value) bool {
					if _, isK := v.(*ssa.Const); !isK {
						inDSN[v] = true
					}
					return true
				})
			}
		}
	}
	destructive := map[string]bool{"os.Remove": true, "os.RemoveAll": true, "os.Rename": true, "os.Truncate": true, "os.Create": true, "os.WriteFile": true, "io/ioutil.WriteFile": true}
	n := 0
	for _, f := range c.Funcs {
		if !c.RStartup[f] && !c.RSync[f] && f != c.Startup {
			continue
		}
		for _, ci := range callsOf(f) {
			if !destructive[calleeName(ci.Common())] || len(ci.Common().Args) == 0 {
				continue
			}
			hit := false
			backSlice(ci.Common().Args[0], func(v ssa.Value) bool {
				if inDSN[v] {
					hit = true
				}
				return true
			})
			if hit {
				n++
				r.viol(rule, fmt.Sprintf("%s -> %s on a path derived from the database path", fname(f), calleeName(ci.Common())), c.ipos(ci), "a file next to (or at) the database path is removed or rewritten before the database is opened: SQLite's hot rollback journal / WAL is what undoes the block that was open when the process was killed, without it pages of that block stay in the file")
			}
		}
	}
	if n == 0 {
		r.ok(rule, "no destructive file operation on a path derived from the database path", "-", fmt.Sprintf("%d values feed the data source name", len(inDSN)))
	}
}

// ---------------------------------------------------------------------------------------------------------------
// C08: the winners table is written only when the block has winners (then positions are 1..n, the key is unique).

func rulePnWinnersGuard(c *Ctx, r *Report, cat *SQLCat, rule string) {
	r.rule(rule, 1, "graded records are stored only for blocks with winners")
	spec := &guardSpec{
		callee: "github.com/pegnet/pegnet/modules/grader.GradedBlock.Winners",
		good: func(c *Ctx, g *ssa.Call) []*ssa.BasicBlock {
			// the target of `0 < len(Winners())` (however the comparison is written)
			var out []*ssa.BasicBlock
			for _, b := range g.Parent().Blocks {
				x, y, lt, _ := ordEdges(b)
				if x == nil {
					continue
				}
				isLenW := func(v ssa.Value) bool {
					lc, isC := v.(*ssa.Call)
					if !isC {
						return false
					}
					bi, isB := lc.Call.Value.(*ssa.Builtin)
					return isB && bi.Name() == "len" && sliceHas(lc.Call.Args[0], func(w ssa.Value) bool { return w == ssa.Value(g) })
				}
				// 0 < len(w): the less-than edge; len(w) >= 1 (written `len(w) < 1` with the branches swapped): the other edge
				if k, isK := unwrapConv(x).(*ssa.Const); isK && k.Value != nil && k.Int64() == 0 && isLenW(y) {
					out = append(out, lt)
				}
				if k, isK := unwrapConv(y).(*ssa.Const); isK && k.Value != nil && k.Int64() == 1 && isLenW(x) {
					_, _, _, ge := ordEdges(b)
					out = append(out, ge)
				}
			}
			// `len(w) == 0` / `!= 0`: the not-equal edge
			for _, b := range g.Parent().Blocks {
				bo, ne, _ := eqEdges(b)
				if bo == nil {
					continue
				}
				for _, pair := range [][2]ssa.Value{{bo.X, bo.Y}, {bo.Y, bo.X}} {
					k, isK := unwrapConv(pair[1]).(*ssa.Const)
					if !isK || k.Value == nil || k.Value.Kind() != constant.Int || k.Int64() != 0 {
						continue
					}
					if lc, isC := pair[0].(*ssa.Call); isC {
						if bi, isB := lc.Call.Value.(*ssa.Builtin); isB && bi.Name() == "len" && sliceHas(lc.Call.Args[0], func(v ssa.Value) bool { return v == ssa.Value(g) }) {
							out = append(out, ne)
						}
					}
				}
			}
			return out
		},
		accept: func(c *Ctx, g *ssa.Call, _ ssa.Value) bool { return true },
	}
	n := 0
	for _, st := range cat.Stmts {
		if st.Table != "pn_winners" || st.Verb != "INSERT" || !c.RSync[st.Fn] {
			continue
		}
		n++
		okk := c.guardedByOutcome(st.Site, nil, spec, 0)
		r.check(okk, rule, strings.Join(c.ownerNames(st.Fn), "/")+": INSERT pn_winners behind len(Winners()) > 0", c.ipos(st.Site), "", "the insert is not confined to blocks with winners: a block with fewer valid records than the winner count has graded records that all carry position 0, the second one violates UNIQUE(height, position), InsertGradeBlock fails and the block can never be synced - anybody can write such records")
	}
	if n == 0 {
		r.viol(rule, "INSERT pn_winners found", "-", "no such statement on the sync path")
	}
}

// ---------------------------------------------------------------------------------------------------------------
// C09: no decision of the sync loops depends on a local that is carried from one block to the next.

func ruleLoopCarriedDecisions(c *Ctx, r *Report, eff *Effects, rule string) {
	r.rule(rule, 1, "no effectful step of the sync loops is decided by a local carried across blocks")
	n, bad := 0, 0
	for _, f := range c.family(c.Sync) {
		for _, l := range naturalLoops(f) {
			for _, ins := range l.header.Instrs {
				ph, ok := ins.(*ssa.Phi)
				if !ok {
					continue
				}
				carried, induction := false, false
				for i, e := range ph.Edges {
					if !l.blocks[ph.Block().Preds[i]] || e == ssa.Value(ph) {
						continue
					}
					carried = true
					if bo, ok := unwrapConv(e).(*ssa.BinOp); ok && (bo.Op == token.ADD || bo.Op == token.SUB) && unwrapConv(bo.X) == ssa.Value(ph) {
						if _, isK := bo.Y.(*ssa.Const); isK {
							induction = true
						}
					}
					if p2, ok := e.(*ssa.Phi); ok && l.blocks[p2.Block()] {
						// inner-loop copy of the same variable
						same := true
						for _, e2 := range p2.Edges {
							if e2 != ssa.Value(ph) && e2 != ssa.Value(p2) {
								same = false
							}
						}
						if same {
							carried = false
						}
					}
				}
				if !carried || induction {
					continue
				}
				n++
				// forward slice through pure operators
				S := map[ssa.Value]bool{ph: true}
				work := []ssa.Value{ph}
				for len(work) > 0 {
					v := work[len(work)-1]
					work = work[:len(work)-1]
					if v.Referrers() == nil {
						continue
					}
					for _, rf := range *v.Referrers() {
						switch x := rf.(type) {
						case *ssa.BinOp, *ssa.UnOp, *ssa.Phi, *ssa.Convert, *ssa.ChangeType:
							xv := x.(ssa.Value)
							if !S[xv] && l.blocks[rf.Block()] {
								S[xv] = true
								work = append(work, xv)
							}
						}
					}
				}
				for b := range l.blocks {
					cond, tb, fb := condEdge(b)
					if cond == nil || !S[cond] {
						continue
					}
					for _, s := range []*ssa.BasicBlock{tb, fb} {
						if len(s.Preds) != 1 {
							continue
						}
						var hit ssa.CallInstruction
						for _, b2 := range f.Blocks {
							if !blockOrDom(s, b2) || !l.blocks[b2] {
								continue
							}
							for _, ci := range callsInBlock(b2) {
								if _, isDefer := ci.(*ssa.Defer); isDefer {
									continue
								}
								if primEffect(ci.Common()) != "" {
									hit = ci
								} else if sc := ci.Common().StaticCallee(); sc != nil && fnInModule(sc) && eff.Effectful[sc] {
									hit = ci
								}
							}
						}
						if hit != nil {
							bad++
							name := ph.Comment
							if name == "" {
								name = ph.Name()
							}
							r.viol(rule, fmt.Sprintf("%s: %s value carried round the sync loop decides an effectful step", strings.Join(c.ownerNames(f), "/"), shortType(ph.Type())), c.ipos(hit), fmt.Sprintf("the local %q is set in one iteration of the sync loop and tested in a later one before %s: what the daemon does at a height then depends on which heights this process has already been through, so a restart in between changes the ledger", name, shortCallee(hit.Common())))
						}
					}
				}
			}
		}
	}
	if bad == 0 {
		r.okNT(rule, "no loop-carried local guards an effectful call in the sync root", c.pos(c.Sync.Pos()), fmt.Sprintf("%d loop-carried locals examined (timers and counters used for logging only)", n))
	}
}

// ruleAllLoopsComplete: every loop of root's family is left only by its bound test or with a non-nil error.
func ruleAllLoopsComplete(c *Ctx, r *Report, rule string, root *ssa.Function, what string) {
	n := 0
	for _, f := range c.family(root) {
		for _, l := range naturalLoops(f) {
			n++
			cons := fmt.Sprintf("%s: loop #%d", strings.Join(c.ownerNames(f), "/"), n)
			probs := c.loopExitProblems(f, l)
			if len(probs) == 0 {
				r.ok(rule, cons, c.ipos(firstPosInstr(l.header)), what+": left only by its bound test or by a return with a non-nil error")
			} else {
				r.viol(rule, cons, c.ipos(firstPosInstr(l.header)), what+": "+strings.Join(probs, "; "))
			}
		}
	}
}

// ---------------------------------------------------------------------------------------------------------------
// C11: the previous winners are those of the newest graded block below the height, wherever that block is.

func rulePreviousWinnersQuery(c *Ctx, r *Report, cat *SQLCat, rule string) {
	spw := c.fn("pegnet.Pegnet.SelectPreviousWinners")
	n := 0
	for _, st := range cat.Stmts {
		if st.Fn != spw && !c.inFamily(st.Fn, spw) {
			continue
		}
		if st.Verb != "SELECT" {
			continue
		}
		n++
		U := strings.ReplaceAll(strings.ToUpper(strings.Join(strings.Fields(st.Text), " ")), `"`, "")
		okk := st.Table == "pn_grade" && regexp.MustCompile(`WHERE HEIGHT < (\?|\$1)`).MatchString(U) && strings.Contains(U, "ORDER BY HEIGHT DESC") && regexp.MustCompile(`LIMIT 1\b`).MatchString(U) && !st.Unres
		r.check(okk, rule, "previous winners = newest pn_grade row below the height", c.ipos(st.Site), "WHERE height < ? ORDER BY height DESC LIMIT 1", "the query is `"+oneLine(st.Text)+"`: after a directory block without an OPR entry block there is no row for height-1, Grade treats the missing row as 'below genesis' and grades against an empty set, so honest records are rejected unpaid and records referencing nothing win")
	}
	if n == 0 {
		r.viol(rule, "statement of SelectPreviousWinners", c.pos(spw.Pos()), "no SELECT found")
	}
}

// ---------------------------------------------------------------------------------------------------------------
// C12: whether a quote is recorded does not depend on its value.

func ruleEveryQuoteRecorded(c *Ctx, r *Report, rule string) {
	r.rule(rule, 1, "InsertRates records every quote it is given, whatever its value")
	ir := c.fn("pegnet.Pegnet.InsertRates")
	n := 0
	var bad []string
	for _, f := range c.family(ir) {
		for _, b := range f.Blocks {
			cond, _, _ := condEdge(b)
			if cond == nil {
				continue
			}
			n++
			if condReads(cond, "AssetUint.Value") {
				bad = append(bad, c.ipos(b.Instrs[len(b.Instrs)-1]))
			}
		}
	}
	sort.Strings(bad)
	r.check(len(bad) == 0 && n > 0, rule, "no branch of InsertRates tests a quote's value", c.pos(ir.Pos()), fmt.Sprintf("%d branches examined", n), "a branch at "+strings.Join(bad, ", ")+" depends on AssetUint.Value: a quote of 0 (what the tolerance-band rule emits for an out-of-band asset from 2.0.2) is then not recorded, so the recorded rates are no longer those of the winning records under the band rule, and the averages miss a sample")
}

// ---------------------------------------------------------------------------------------------------------------
// C16: the bank row's columns receive the values the callers pass for them.

func ruleBankUpdateColumns(c *Ctx, r *Report, cat *SQLCat, rule string) {
	ube := c.fn("pegnet.Pegnet.UpdateBankEntry")
	n := 0
	for _, st := range cat.Stmts {
		if (st.Fn != ube && !c.inFamily(st.Fn, ube)) || st.Verb != "UPDATE" || st.Table != "pn_bank" {
			continue
		}
		n++
		U := strings.ReplaceAll(strings.Join(strings.Fields(st.Text), " "), `"`, "")
		m := regexp.MustCompile(`(?i)SET (.*?) WHERE (.*)`).FindStringSubmatch(U)
		var cols []string
		if m != nil {
			for _, a := range strings.Split(m[1], ",") {
				cols = append(cols, strings.ToLower(strings.TrimSpace(strings.SplitN(a, "=", 2)[0])))
			}
			cols = append(cols, strings.ToLower(strings.TrimSpace(strings.SplitN(m[2], "=", 2)[0])))
		}
		var args []ssa.Value
		site := st.Site
		if st.ArgsOf != nil {
			site = st.ArgsOf
		}
		if a := site.Common().Args; len(a) > 0 {
			for _, el := range varargElems(a[len(a)-1]) {
				if mi, ok := el.(*ssa.MakeInterface); ok {
					el = mi.X
				}
				args = append(args, el)
			}
		}
		// expected parameter of UpdateBankEntry per column: the first int64 is the amount used, the second the amount
		// requested, the int32 the height (positions, not names; the call site is judged by second-pass-provenance)
		var i64 []int
		h32 := -1
		for i, p := range ube.Params {
			if b, ok := p.Type().Underlying().(*types.Basic); ok {
				switch b.Kind() {
				case types.Int64:
					i64 = append(i64, i)
				case types.Int32:
					h32 = i
				}
			}
		}
		want := map[string]int{}
		if len(i64) == 2 {
			want["bank_used"], want["total_requested"], want["height"] = i64[0], i64[1], h32
		}
		var bad []string
		if len(cols) != 3 || len(args) != 3 || len(want) != 3 {
			bad = append(bad, fmt.Sprintf("%d columns, %d bound values", len(cols), len(args)))
		} else {
			for i, col := range cols {
				p := c.rootParamOf(args[i], ube, 0)
				idx := -1
				for k, q := range ube.Params {
					if q == p {
						idx = k
					}
				}
				if w, ok := want[col]; !ok || idx != w {
					bad = append(bad, fmt.Sprintf("column %s receives parameter #%d", col, idx))
				}
			}
		}
		r.check(len(bad) == 0, rule, "UpdateBankEntry: bank_used, total_requested, height bound to the matching parameters", c.ipos(st.Site), "", strings.Join(bad, "; ")+": the bank ledger then records the amount requested as used (or the reverse) whenever a block's requests exceed the bank")
	}
	if n == 0 {
		r.viol(rule, "UPDATE pn_bank of UpdateBankEntry", c.pos(ube.Pos()), "not found")
	}
}

// ruleRequestIndex: the index a PEG request is filed under is its position in the batch's transaction list.
func ruleRequestIndex(c *Ctx, r *Report, rule string) {
	rp := c.fn("node.Pegnetd.recordPegnetRequests")
	n := 0
	for _, ci := range c.findCallsFam(rp, "github.com/pegnet/pegnet/modules/transactionid.FormatTxID") {
		n++
		idx := unwrapConv(ci.Common().Args[0])
		f := ci.Parent()
		okk := false
		for _, b := range f.Blocks {
			x, y, _, _ := ordEdges(b)
			if x == nil || unwrapConv(x) != idx {
				continue
			}
			if lc, ok := y.(*ssa.Call); ok {
				if bi, ok := lc.Call.Value.(*ssa.Builtin); ok && bi.Name() == "len" && strings.HasSuffix(typePath(lc.Call.Args[0]), "TransactionBatch.Transactions") {
					okk = true
				}
			}
		}
		r.check(okk, rule, "request txid index = position in TransactionBatch.Transactions", c.ipos(ci), "", "the index handed to FormatTxID does not count the batch's transaction list: the payout loop resolves it against Batch.Transactions, so yield and refund of a request are computed from (and credited in the assets of) another transaction of the batch")
		// the stored TxIndex is the same value
		allInstrs(f, func(ins ssa.Instruction) {
			st, ok := ins.(*ssa.Store)
			if !ok {
				return
			}
			if strings.HasSuffix(typePath(st.Addr), "pegRequest.TxIndex") {
				r.check(unwrapConv(st.Val) == idx, rule, "pegRequest.TxIndex = the same index", c.ipos(st), "", "the request records another index than the one its txid was built from")
			}
		})
	}
	if n == 0 {
		r.viol(rule, "FormatTxID call in recordPegnetRequests", c.pos(rp.Pos()), "not found")
	}
}

// ---------------------------------------------------------------------------------------------------------------
// C17/C04: a transfer output to the burn address is uncredited exactly from 2.0.2 on.

func ruleBurnTransferEra(c *Ctx, r *Report, rule string) {
	r.rule(rule, 3, "a transfer output to the burn address is destroyed iff height >= V202EnhanceActivation")
	e := newEraCtx(c, nil)
	v202 := e.a.get("V202EnhanceActivation")
	rb := c.fn("node.Pegnetd.recordBatch")
	acc := newTableAcc()
	for _, h := range []uint32{v202 - 1, v202, v202 + 1} {
		sc := &Scenario{Params: map[string]AVal{"type:uint32": hconst(h)},
			Calls: map[string]AVal{"fat2.Transaction.IsConversion": cBool(false), "fat2.Transaction.IsPEGRequest": cBool(false),
				"NewFAAddress": {K: ATuple, Tup: []AVal{sym("burn"), nilVal}}},
			Paths:    map[string]AVal{"fat2.AddressAmountTuple.Address": sym("burn")},
			Lens:     map[string]AVal{"fat2.Transaction.Transfers": cInt(1), "fat2.TransactionBatch.Transactions": cInt(1)},
			MaxDepth: 0, AllErrorsNil: true}
		t, _ := acc.run(c, r, rb, sc)
		live := false
		for _, lc := range t.CallsTo("AddToBalance") {
			if lc.Depth == 0 { // the credit made by recordBatch itself, not the zero-amount upsert inside SubFromBalance
				live = true
			}
		}
		want := h < v202
		r.check(live == want, rule, fmt.Sprintf("h=%d: transfer to the burn address", h), c.pos(rb.Pos()), map[bool]string{true: "credited (no burn address yet)", false: "not credited"}[want], fmt.Sprintf("the credit is %s, expected %s: the history row says the output was applied under the rule of the era while the ledger did the opposite, so replaying the history does not reproduce the balance of the burn address", liveStr(live), liveStr(want)))
	}
	acc.optional["fat2.TransactionBatch.Transactions"] = true
	acc.report(c, r, rule, rb)
}

// ---------------------------------------------------------------------------------------------------------------
// C18: every handle on the database file takes part in SQLite's locking.

func ruleDSNLocking(c *Ctx, r *Report, rule string) {
	r.rule(rule, 1, "no connection bypasses SQLite's file locking")
	n := 0
	for _, f := range c.Funcs {
		for _, ci := range callsOf(f) {
			if calleeName(ci.Common()) != "database/sql.Open" {
				continue
			}
			n++
			var bad []string
			backSlice(ci.Common().Args[1], func(v ssa.Value) bool {
				if k, ok := v.(*ssa.Const); ok && k.Value != nil && k.Value.Kind() == constant.String {
					l := strings.ToLower(constant.StringVal(k.Value))
					for _, w := range []string{"immutable=1", "immutable=true", "nolock=1", "nolock=true"} {
						if strings.Contains(l, w) {
							bad = append(bad, w)
						}
					}
				}
				return true
			})
			r.check(len(bad) == 0, rule, fname(f)+": sql.Open", c.ipos(ci), "", "the data source name can carry "+strings.Join(dedupStrings(bad), ", ")+": such a connection takes no file lock and ignores the rollback journal, so a reader on it sees pages of the block that is still being written - a response can show a partially applied block")
		}
	}
	if n == 0 {
		r.viol(rule, "sql.Open call found", "-", "none")
	}
}

// ruleGlobalAddressEscapes: API handlers do not hand out the address of a package-level variable to code that may write
// through it (json decoding into a pre-filled pointer field).
func ruleGlobalAddressEscapes(c *Ctx, r *Report, rule string) {
	r.rule(rule, 1, "API handlers do not expose package-level variables to writers")
	n, bad := 0, 0
	readOnlyRecv := func(name string) bool {
		return strings.HasPrefix(name, "sync.") || strings.HasPrefix(name, "sync/atomic.Load") || strings.HasSuffix(name, ".String") || strings.HasSuffix(name, ".IsZero") || strings.HasSuffix(name, ".MarshalJSON") || strings.HasSuffix(name, ".MarshalText")
	}
	for _, f := range sortedFuncs(c.RAPI) {
		if !fnInModule(f) {
			continue
		}
		allInstrs(f, func(ins ssa.Instruction) {
			for _, op := range ins.Operands(nil) {
				if op == nil || *op == nil {
					continue
				}
				g, ok := (*op).(*ssa.Global)
				if !ok || g.Pkg == nil || !inModule(g.Pkg.Pkg) {
					continue
				}
				n++
				how := ""
				switch x := ins.(type) {
				case *ssa.UnOp, *ssa.FieldAddr, *ssa.IndexAddr:
					return // a read, or the address of a part that is judged where it is used
				case *ssa.Store:
					if x.Val == ssa.Value(g) {
						if why := entryOnlyRead(x); why != "" {
							r.audited(rule, fmt.Sprintf("%s: %s.%s as the chain of a composed entry", fname(f), g.Pkg.Pkg.Name(), g.Name()), c.ipos(ins), why)
							return
						}
						how = "its address is stored in a data structure"
					}
				case *ssa.MakeInterface:
					how = "its address is boxed into an interface value"
				case ssa.CallInstruction:
					cn := calleeName(x.Common())
					if readOnlyRecv(cn) {
						return
					}
					if sc := x.Common().StaticCallee(); sc != nil && fnInModule(sc) && !writesThroughParams(sc) {
						return
					}
					how = "its address is passed to " + cn
				default:
					how = "its address is used by " + fmt.Sprintf("%T", ins)
				}
				if how == "" {
					return
				}
				bad++
				r.viol(rule, fmt.Sprintf("%s: address of %s.%s leaves the handler", fname(f), g.Pkg.Pkg.Name(), g.Name()), c.ipos(ins), how+": whoever fills that structure (encoding/json decodes into an existing pointer in place) writes the package variable from an API goroutine, and block sync reads it - a request can change what the daemon computes")
			}
		})
	}
	if bad == 0 {
		r.okNT(rule, "no address of a module package variable escapes from an API handler", "-", fmt.Sprintf("%d uses of package variables examined", n))
	}
}

// ---------------------------------------------------------------------------------------------------------------
// C19: the version table accepts the markers the fork check writes, and min/max are what they are called.

func ruleSyncVersionAcceptsMarkers(c *Ctx, r *Report, cat *SQLCat, rule string) {
	t := cat.Tables["pn_sync_version"]
	if t == nil {
		r.viol(rule, "pn_sync_version definition", "-", "not found")
		return
	}
	var cks []string
	for col, ck := range t.Checks {
		cks = append(cks, col+": "+ck)
	}
	sort.Strings(cks)
	r.check(len(cks) == 0, rule, "pn_sync_version has no CHECK constraint", "-", "the -1 'synced before version tracking' markers can be stored", "the definition carries "+strings.Join(cks, "; ")+": CheckHardForks back-fills markers with version -1 and deliberately ignores the insert's error, so a constraint that rejects them means no marker is ever stored and a database synced across a fork by an untracked build is accepted")
}

// scanSource: which SELECT item feeds result #idx of f - follows helpers split off from f.
func (c *Ctx) scanSource(cat *SQLCat, f *ssa.Function, idx, depth int) (item string, ok bool) {
	if depth > 3 || f.Blocks == nil {
		return "", false
	}
	for _, rt := range returnsIn(blockSet(f)) {
		if idx >= len(rt.Results) {
			continue
		}
		var try func(v ssa.Value, d int) (string, bool)
		try = func(v ssa.Value, d int) (string, bool) {
			if d > 4 {
				return "", false
			}
			v = resolveSpill(v)
			switch x := v.(type) {
			case *ssa.Const:
				return "", false
			case *ssa.Phi:
				for _, e := range x.Edges {
					if it, ok := try(e, d+1); ok {
						return it, true
					}
				}
			case *ssa.Extract:
				if call, isCall := x.Tuple.(*ssa.Call); isCall {
					if sc := call.Common().StaticCallee(); sc != nil && isNewHelper(sc) {
						return c.scanSource(cat, sc, x.Index, depth+1)
					}
				}
			case *ssa.UnOp:
				al, isAl := x.X.(*ssa.Alloc)
				if !isAl || x.Op != token.MUL {
					return "", false
				}
				// position of &al in a Scan of this function
				for _, sn := range append(findCalls(f, "database/sql.Row.Scan"), findCalls(f, "database/sql.Rows.Scan")...) {
					for p, el := range varargElems(sn.Common().Args[1]) {
						if mi, isMI := el.(*ssa.MakeInterface); isMI && mi.X == ssa.Value(al) {
							for _, st := range cat.Stmts {
								if st.Fn == f && st.Verb == "SELECT" {
									items := selectItems(st.Text)
									if p < len(items) {
										return items[p], true
									}
								}
							}
						}
					}
				}
			}
			return "", false
		}
		if it, ok := try(rt.Results[idx], 0); ok {
			return it, true
		}
	}
	return "", false
}

// selectItems: the top-level comma separated projection of a SELECT.
func selectItems(text string) []string {
	U := strings.Join(strings.Fields(text), " ")
	up := strings.ToUpper(U)
	i := strings.Index(up, "SELECT ")
	j := strings.Index(up, " FROM ")
	if i < 0 || j < i {
		return nil
	}
	body := U[i+7 : j]
	var items []string
	depth := 0
	cur := ""
	for _, ch := range body {
		switch ch {
		case '(':
			depth++
		case ')':
			depth--
		}
		if ch == ',' && depth == 0 {
			items = append(items, strings.TrimSpace(cur))
			cur = ""
			continue
		}
		cur += string(ch)
	}
	if strings.TrimSpace(cur) != "" {
		items = append(items, strings.TrimSpace(cur))
	}
	return items
}

func ruleMinMaxAgreement(c *Ctx, r *Report, cat *SQLCat, rule string) {
	for _, spec := range []struct{ fn, agg string }{{"pegnet.Pegnet.FetchMinSyncedVersion", "MIN("}, {"pegnet.Pegnet.FetchMaxSyncedVersion", "MAX("}} {
		f := c.fn(spec.fn)
		item, ok := c.scanSource(cat, f, 0, 0)
		up := strings.ToUpper(item)
		other := map[string]string{"MIN(": "MAX(", "MAX(": "MIN("}[spec.agg]
		r.check(ok && strings.Contains(up, spec.agg) && !strings.Contains(up, other), rule, spec.fn+" returns the "+spec.agg+"version) column", c.pos(f.Pos()), item, fmt.Sprintf("the value returned is scanned from %q: with minimum and maximum exchanged the per-fork test uses the highest version at or above the fork (one adequate block hides the old ones) and the downgrade test the lowest", item))
	}
}

// ---------------------------------------------------------------------------------------------------------------
// C20 (and any decoder): a record appended per iteration is not a variable that outlives the iteration.

func ruleAppendedRecordFresh(c *Ctx, r *Report, rule string, scope map[*ssa.Function]bool) {
	r.rule(rule, 1, "a decoded record appended per iteration does not keep fields of the previous one")
	n, loops := 0, 0
	for _, f := range sortedFuncs(scope) {
		for _, l := range naturalLoops(f) {
			loops++
			for b := range l.blocks {
				for _, ins := range b.Instrs {
					call, ok := ins.(*ssa.Call)
					if !ok {
						continue
					}
					bi, ok := call.Call.Value.(*ssa.Builtin)
					if !ok || bi.Name() != "append" || len(call.Call.Args) < 2 {
						continue
					}
					for _, el := range varargElems(call.Call.Args[1]) {
						u, ok := el.(*ssa.UnOp)
						if !ok || u.Op != token.MUL {
							continue
						}
						al, ok := u.X.(*ssa.Alloc)
						if !ok || l.blocks[al.Block()] {
							continue
						}
						if _, isStruct := u.Type().Underlying().(*types.Struct); !isStruct {
							continue
						}
						// is the variable decoded into inside the loop (a method on its address / json.Unmarshal)?
						filled := false
						if al.Referrers() != nil {
							for _, rf := range *al.Referrers() {
								if ci, ok := rf.(ssa.CallInstruction); ok && l.blocks[rf.Block()] {
									_ = ci
									filled = true
								}
								if mi, ok := rf.(*ssa.MakeInterface); ok && l.blocks[mi.Block()] {
									filled = true
								}
							}
						}
						// re-assigned as a whole on every iteration (a range variable): fresh
						for _, rf := range *al.Referrers() {
							if st, ok := rf.(*ssa.Store); ok && st.Addr == ssa.Value(al) && l.blocks[st.Block()] && blockOrDom(st.Block(), call.Block()) {
								filled = false
							}
						}
						if !filled {
							continue
						}
						n++
						r.viol(rule, fmt.Sprintf("%s appends a %s decoded into a variable declared outside the loop", fname(f), shortType(u.Type())), c.ipos(call), "the variable is filled by a call inside the loop and appended by value: fields the decoder leaves alone (absent keys) and slices it decodes in place carry over from the previous element, so an accepted batch does not hold the transactions its bytes say")
					}
				}
			}
		}
	}
	if n == 0 {
		r.okNT(rule, "no record decoded into an outer variable is appended per iteration", "-", fmt.Sprintf("%d loops examined", loops))
	}
}

// ruleOneAttemptPerTx: the block is applied once per transaction - the call to SyncBlock is not inside a loop that
// does not also begin the transaction.
func ruleOneAttemptPerTx(c *Ctx, r *Report, rule string) {
	r.rule(rule, 1, "SyncBlock runs once per block transaction")
	root := c.Sync
	n := 0
	for _, ci := range c.findCallsFam(root, "node.Pegnetd.SyncBlock") {
		n++
		f := ci.Parent()
		var bad string
		for _, l := range naturalLoops(f) {
			if !l.blocks[ci.Block()] {
				continue
			}
			hasBegin := false
			for b := range l.blocks {
				for _, cj := range callsInBlock(b) {
					if strings.HasSuffix(calleeName(cj.Common()), "database/sql.DB.BeginTx") || strings.HasSuffix(calleeName(cj.Common()), "database/sql.DB.Begin") {
						hasBegin = true
					}
				}
			}
			if !hasBegin {
				bad = c.ipos(firstPosInstr(l.header))
			}
		}
		r.check(bad == "", rule, "no retry of SyncBlock on the open transaction", c.ipos(ci), "", "SyncBlock sits in a loop (at "+bad+") that does not begin a new transaction: a second attempt runs on top of what the failed first attempt already wrote (the one-time mint, burns, payouts are applied again) and is then committed")
	}
	if n == 0 {
		r.viol(rule, "SyncBlock call in the sync root", c.pos(root.Pos()), "not found")
	}
}

// ruleSettleOnceFam: the list of PEG requests settled inside the holding-window loop does not reach the next iteration,
// whether the list is an SSA value of the loop (reference form) or a variable captured by a closure that does the
// settlement (then: a re-initialising store on every path from the settlement to the loop's latch).
func ruleSettleOnceFam(c *Ctx, r *Report, rule string) {
	r.rule(rule, 1, "requests settled for one height are not settled again for the next")
	hold := c.fn("node.Pegnetd.ApplyTransactionBatchesInHolding")
	n := 0
	// reference form: direct calls inside a loop of hold
	for _, ci := range findCalls(hold, "node.Pegnetd.recordPegnetRequests") {
		if l := innermostLoop(hold, ci.Block()); l != nil {
			n++
			settleOnce(c, r, rule, hold, ci, l)
		}
	}
	// closure/helper form
	for _, ci := range c.findCallsFam(hold, "node.Pegnetd.recordPegnetRequests") {
		g := ci.Parent()
		if g == hold {
			continue
		}
		// the list argument as a variable of hold
		var slot *ssa.Alloc
		if u, ok := unwrap(ci.Common().Args[2]).(*ssa.UnOp); ok && u.Op == token.MUL {
			if fv, ok := u.X.(*ssa.FreeVar); ok {
				slot, _ = closureBinding(fv)
			}
		}
		if slot == nil || slot.Parent() != hold {
			if g.Parent() == hold || isNewHelper(g) {
				// a helper given the list as a parameter: the call site in hold is judged like the reference form
				for _, cs := range c.familyCallSites(g) {
					if cs.Parent() == hold {
						if l := innermostLoop(hold, cs.Block()); l != nil && len(cs.Common().Args) > 2 {
							n++
							r.undecided(rule, "settlement through a helper inside the window loop", c.ipos(cs), "the request list is handed to a helper; the reset of the list after the settlement could not be followed")
						}
					}
				}
			}
			continue
		}
		// call sites of the closure inside loops of hold
		allInstrs(hold, func(ins ssa.Instruction) {
			call, ok := ins.(ssa.CallInstruction)
			if !ok {
				return
			}
			callee := false
			if mc, ok := call.Common().Value.(*ssa.MakeClosure); ok && mc.Fn == ssa.Value(g) {
				callee = true
			}
			if u, ok := call.Common().Value.(*ssa.UnOp); ok {
				// closure kept in a local
				if al, ok := u.X.(*ssa.Alloc); ok && al.Referrers() != nil {
					for _, rf := range *al.Referrers() {
						if st, ok := rf.(*ssa.Store); ok {
							if mc, ok := st.Val.(*ssa.MakeClosure); ok && mc.Fn == ssa.Value(g) {
								callee = true
							}
						}
					}
				}
			}
			if !callee {
				return
			}
			l := innermostLoop(hold, call.Block())
			if l == nil {
				return
			}
			n++
			// blocks holding a reset of the slot: a store of a value that does not derive from the slot itself
			reset := map[*ssa.BasicBlock]ssa.Instruction{}
			for _, rf := range *slot.Referrers() {
				st, ok := rf.(*ssa.Store)
				if !ok || st.Addr != ssa.Value(slot) || !l.blocks[st.Block()] {
					continue
				}
				derives := sliceHas(st.Val, func(v ssa.Value) bool {
					u, ok := v.(*ssa.UnOp)
					return ok && u.Op == token.MUL && u.X == ssa.Value(slot)
				})
				if !derives {
					reset[st.Block()] = st
				}
			}
			stale := false
			if rs, ok := reset[call.Block()]; !ok || !instrDominates(call, rs) {
				seen := map[*ssa.BasicBlock]bool{}
				st := append([]*ssa.BasicBlock{}, call.Block().Succs...)
				for len(st) > 0 {
					b := st[len(st)-1]
					st = st[:len(st)-1]
					if seen[b] || !l.blocks[b] {
						continue
					}
					if b == l.header {
						stale = true
						break
					}
					seen[b] = true
					if _, isReset := reset[b]; isReset {
						continue
					}
					st = append(st, b.Succs...)
				}
			}
			r.check(!stale, rule, "per-height settlement resets the request list", c.ipos(call), "the list variable is re-initialised on every path from the settlement to the loop latch", "after the settlement of one held height the captured request list reaches the next iteration unchanged: requests of an earlier height are paid (and refunded) again together with the next height's")
		})
	}
	if n == 0 {
		r.ok(rule, "no per-height settlement inside the window loop", c.pos(hold.Pos()), "the settlement runs once, after the loop")
	}
}

// condReads: the branch condition is computed (through operators only - not through the results of calls that merely
// receive the value) from a field whose type path ends in suffix.
func condReads(cond ssa.Value, suffix string) bool {
	seen := map[ssa.Value]bool{}
	var walk func(v ssa.Value, d int) bool
	walk = func(v ssa.Value, d int) bool {
		if v == nil || seen[v] || d > 8 {
			return false
		}
		seen[v] = true
		if strings.HasSuffix(typePath(v), suffix) {
			return true
		}
		switch x := v.(type) {
		case *ssa.BinOp:
			return walk(x.X, d+1) || walk(x.Y, d+1)
		case *ssa.UnOp:
			return walk(x.X, d+1)
		case *ssa.Convert:
			return walk(x.X, d+1)
		case *ssa.ChangeType:
			return walk(x.X, d+1)
		case *ssa.Phi:
			for _, e := range x.Edges {
				if walk(e, d+1) {
					return true
				}
			}
		}
		return false
	}
	return walk(cond, 0)
}

// entryOnlyRead: the address is stored into the ChainID field of a local factom.Entry on which the function afterwards
// calls only methods that read the chain id (factom.Entry writes through ChainID only when it is nil, in
// UnmarshalBinary/UnmarshalJSON and in Get).
func entryOnlyRead(st *ssa.Store) string {
	fa, ok := st.Addr.(*ssa.FieldAddr)
	if !ok || typePath(fa) != "factom.Entry.ChainID" {
		return ""
	}
	al, ok := fa.X.(*ssa.Alloc)
	if !ok || al.Referrers() == nil {
		return ""
	}
	readers := map[string]bool{"Cost": true, "ComposeCreate": true, "Compose": true, "MarshalBinary": true, "MarshalBinaryLen": true, "IsPopulated": true}
	var used []string
	for _, rf := range *al.Referrers() {
		switch x := rf.(type) {
		case ssa.CallInstruction:
			n := shortCallee(x.Common())
			if !readers[n] {
				return ""
			}
			used = append(used, n)
		case *ssa.FieldAddr:
			// other fields: reads or stores of the local entry
		case *ssa.UnOp, *ssa.DebugRef, *ssa.Store:
		default:
			return ""
		}
	}
	sort.Strings(used)
	return "the entry is a local that is only costed, composed and encoded afterwards (" + strings.Join(dedupStrings(used), ", ") + "): those methods read the chain id, nothing decodes into the entry"
}
