package main

type SQLCat struct{}

func buildSQLCat(c *Ctx) *SQLCat { return &SQLCat{} }
func (s *SQLCat) dump()          {}
