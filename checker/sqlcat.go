package main

// SQL catalogue.  DESIGN.md §2.2.

import (
	"fmt"
	"go/constant"
	"go/token"
	"go/types"
	"regexp"
	"sort"
	"strings"

	"golang.org/x/tools/go/ssa"
)

type SQLStmt struct {
	Fn       *ssa.Function
	Site     ssa.CallInstruction
	Method   string // Exec, Query, QueryRow, Prepare (+Context)
	Recv     string // DB, Tx, QA
	RecvVal  ssa.Value
	Text     string
	Verb     string
	Table    string
	Conflict string // "", "ON CONFLICT DO NOTHING", "ON CONFLICT DO UPDATE", "OR REPLACE", "OR IGNORE", "REPLACE"
	OrderBy  bool
	Limit    bool
	Where    string
	From     string // source table of INSERT ... SELECT / first FROM of a SELECT
	Unres    bool   // contains an unresolved hole in a structural position
	ArgsOf   ssa.CallInstruction
}

func (s *SQLStmt) isWrite() bool {
	switch s.Verb {
	case "INSERT", "UPDATE", "DELETE", "REPLACE", "CREATE", "CREATE-INDEX", "ALTER", "DROP":
		return true
	}
	return false
}

type SQLTable struct {
	Name    string
	Cols    []string
	ColDef  map[string]string
	Uniques [][]string        // includes primary keys
	Checks  map[string]string // column -> check expression
	RowID   string            // INTEGER PRIMARY KEY alias
	Src     string
	// conflict-resolution clauses declared in the DDL other than the default (ABORT) and FAIL/ROLLBACK: with
	// REPLACE or IGNORE a plain INSERT no longer fails on the constraint
	ConflictClauses []string
}

type SQLCat struct {
	c      *Ctx
	Stmts  []*SQLStmt
	Tables map[string]*SQLTable
	Unres  []string
}

const hole = "\x00"

// strEval resolves the possible string values of v; holes are rendered as «desc».
type strEval struct {
	c     *Ctx
	depth int
}

func holeOf(v ssa.Value) string {
	d := valuePath(v)
	if d == "" {
		d = v.Name()
	}
	return "«" + d + "»"
}

func (se *strEval) eval(v ssa.Value, env map[*ssa.Parameter][]string, depth int) []string {
	if depth > 6 {
		return []string{holeOf(v)}
	}
	switch x := v.(type) {
	case *ssa.Const:
		if x.Value != nil && x.Value.Kind() == constant.String {
			return []string{constant.StringVal(x.Value)}
		}
		if x.Value != nil {
			return []string{x.Value.ExactString()}
		}
		return []string{holeOf(v)}
	case *ssa.Parameter:
		if env != nil {
			if vals, ok := env[x]; ok {
				return vals
			}
		}
		// enumerate static call sites in the module
		f := x.Parent()
		idx := -1
		for i, p := range f.Params {
			if p == x {
				idx = i
			}
		}
		var out []string
		for _, e := range se.c.In[f] {
			ci, ok := e.Site.(ssa.CallInstruction)
			if !ok || e.Kind != "static" {
				continue
			}
			args := ci.Common().Args
			if idx < len(args) {
				out = append(out, se.eval(args[idx], nil, depth+1)...)
			}
		}
		if len(out) == 0 {
			return []string{holeOf(v)}
		}
		return uniq(out)
	case *ssa.Phi:
		var out []string
		for _, e := range x.Edges {
			out = append(out, se.eval(e, env, depth+1)...)
		}
		return uniq(out)
	case *ssa.BinOp:
		if x.Op == token.ADD {
			var out []string
			for _, a := range se.eval(x.X, env, depth+1) {
				for _, b := range se.eval(x.Y, env, depth+1) {
					out = append(out, a+b)
				}
			}
			return out
		}
	case *ssa.MakeInterface:
		return se.eval(x.X, env, depth+1)
	case *ssa.ChangeType:
		return se.eval(x.X, env, depth+1)
	case *ssa.Convert:
		return se.eval(x.X, env, depth+1)
	case *ssa.UnOp:
		if x.Op == token.MUL {
			// load from array-literal element or local
			switch a := x.X.(type) {
			case *ssa.IndexAddr:
				return se.elemsOf(a.X, env, depth)
			case *ssa.Alloc:
				var out []string
				if refs := a.Referrers(); refs != nil {
					for _, r := range *refs {
						if st, ok := r.(*ssa.Store); ok && st.Addr == a {
							out = append(out, se.eval(st.Val, env, depth+1)...)
						}
					}
				}
				if len(out) > 0 {
					return uniq(out)
				}
			}
		}
	case *ssa.Index:
		// an element of an array value (`for _, s := range [...]string{...}` ranges over a copy of the array)
		return se.elemsOf(x.X, env, depth)
	case *ssa.Extract:
		if call, ok := x.Tuple.(*ssa.Call); ok {
			if sc := call.Call.StaticCallee(); sc != nil && fnInModule(sc) && sc.Blocks != nil && sc.Signature.Recv() == nil {
				var out []string
				allInstrs(sc, func(ins ssa.Instruction) {
					if r, ok := ins.(*ssa.Return); ok && x.Index < len(r.Results) {
						out = append(out, se.eval(resolveSpill(r.Results[x.Index]), map[*ssa.Parameter][]string{}, depth+1)...)
					}
				})
				if len(out) > 0 {
					return uniq(out)
				}
			}
		}
	case *ssa.Call:
		name := calleeName(x.Common())
		args := x.Call.Args
		switch name {
		case "fmt.Sprintf":
			fmts := se.eval(args[0], env, depth+1)
			var vals [][]string
			if len(args) > 1 {
				for _, a := range varargElems(args[1]) {
					vals = append(vals, se.eval(a, env, depth+1))
				}
			}
			var out []string
			for _, f := range fmts {
				out = append(out, sprintfAll(f, vals)...)
			}
			return uniq(out)
		case "strings.ToLower":
			var out []string
			for _, s := range se.eval(args[0], env, depth+1) {
				out = append(out, lowerKeepHoles(s))
			}
			return out
		case "strings.Join":
			return []string{holeOf(v)}
		}
		if sc := x.Call.StaticCallee(); sc != nil && fnInModule(sc) && sc.Blocks != nil && sc.Signature.Recv() == nil {
			if b, ok := sc.Signature.Results().At(0).Type().Underlying().(*types.Basic); ok && b.Kind() == types.String && sc.Signature.Results().Len() == 1 {
				nenv := map[*ssa.Parameter][]string{}
				for i, p := range sc.Params {
					if i < len(args) {
						if pb, ok := p.Type().Underlying().(*types.Basic); ok && pb.Kind() == types.String {
							nenv[p] = se.eval(args[i], env, depth+1)
						}
					}
				}
				var out []string
				allInstrs(sc, func(ins ssa.Instruction) {
					if r, ok := ins.(*ssa.Return); ok {
						out = append(out, se.eval(r.Results[0], nenv, depth+1)...)
					}
				})
				if len(out) > 0 {
					return uniq(out)
				}
			}
		}
	}
	return []string{holeOf(v)}
}

// elemsOf: all values stored into elements of the array/slice behind v.
func (se *strEval) elemsOf(v ssa.Value, env map[*ssa.Parameter][]string, depth int) []string {
	switch x := v.(type) {
	case *ssa.Slice:
		return se.elemsOf(x.X, env, depth)
	case *ssa.Alloc:
		var out []string
		if refs := x.Referrers(); refs != nil {
			for _, r := range *refs {
				if ia, ok := r.(*ssa.IndexAddr); ok {
					if irefs := ia.Referrers(); irefs != nil {
						for _, rr := range *irefs {
							if st, ok := rr.(*ssa.Store); ok && st.Addr == ia {
								out = append(out, se.eval(st.Val, env, depth+1)...)
							}
						}
					}
				}
			}
		}
		if len(out) > 0 {
			return uniq(out)
		}
	case *ssa.Phi:
		var out []string
		for _, e := range x.Edges {
			out = append(out, se.elemsOf(e, env, depth+1)...)
		}
		return uniq(out)
	case *ssa.UnOp:
		if al, ok := x.X.(*ssa.Alloc); ok && x.Op == token.MUL {
			return se.elemsOf(al, env, depth+1) // the value of a local array
		}
		if g, ok := x.X.(*ssa.Global); ok && x.Op == token.MUL && g.Pkg != nil && depth < 6 {
			// a package-level list: the literal its initialiser stores (written nowhere else)
			var out []string
			n := 0
			for _, f := range se.c.Funcs {
				allInstrs(f, func(ins ssa.Instruction) {
					if st, ok := ins.(*ssa.Store); ok && st.Addr == ssa.Value(g) {
						n++
						if f.Name() == "init" && f.Pkg == g.Pkg {
							out = append(out, se.elemsOf(st.Val, nil, depth+1)...)
						} else {
							out = append(out, holeOf(v))
						}
					}
				})
			}
			if n > 0 {
				return uniq(out)
			}
		}
	case *ssa.Call:
		// a list handed out by a function of the module: what its returns hold
		if sc := x.Call.StaticCallee(); sc != nil && fnInModule(sc) && sc.Blocks != nil && depth < 6 && sc.Signature.Results().Len() == 1 {
			var out []string
			allInstrs(sc, func(ins ssa.Instruction) {
				if ret, ok := ins.(*ssa.Return); ok && len(ret.Results) == 1 {
					out = append(out, se.elemsOf(ret.Results[0], nil, depth+1)...)
				}
			})
			if len(out) > 0 {
				return uniq(out)
			}
		}
	}
	return []string{holeOf(v)}
}

// varargElems returns the elements of a variadic argument slice built at the call site.
func varargElems(v ssa.Value) []ssa.Value {
	sl, ok := v.(*ssa.Slice)
	if !ok {
		return nil
	}
	al, ok := sl.X.(*ssa.Alloc)
	if !ok {
		return nil
	}
	elems := map[int64]ssa.Value{}
	max := int64(-1)
	if refs := al.Referrers(); refs != nil {
		for _, r := range *refs {
			ia, ok := r.(*ssa.IndexAddr)
			if !ok {
				continue
			}
			c, ok := ia.Index.(*ssa.Const)
			if !ok {
				continue
			}
			i := c.Int64()
			if irefs := ia.Referrers(); irefs != nil {
				for _, rr := range *irefs {
					if st, ok := rr.(*ssa.Store); ok && st.Addr == ia {
						elems[i] = st.Val
						if i > max {
							max = i
						}
					}
				}
			}
		}
	}
	var out []ssa.Value
	for i := int64(0); i <= max; i++ {
		out = append(out, elems[i])
	}
	return out
}

var verbRe = regexp.MustCompile(`%(\[(\d+)\])?[-+# 0]*\d*(\.\d+)?[a-zA-Z%]`)

func sprintfAll(f string, vals [][]string) []string {
	// cartesian product is never needed beyond a handful here; cap it.
	outs := []string{""}
	next := 0
	last := 0
	for _, m := range verbRe.FindAllStringSubmatchIndex(f, -1) {
		lit := f[last:m[0]]
		last = m[1]
		verb := f[m[0]:m[1]]
		if verb == "%%" {
			for i := range outs {
				outs[i] += lit + "%"
			}
			continue
		}
		idx := next
		if m[4] >= 0 {
			fmt.Sscanf(f[m[4]:m[5]], "%d", &idx)
			idx--
		}
		next = idx + 1
		var subs []string
		if idx >= 0 && idx < len(vals) && len(vals[idx]) > 0 {
			subs = vals[idx]
		} else {
			subs = []string{"«arg»"}
		}
		var n []string
		for _, o := range outs {
			for _, s := range subs {
				if len(n) < 64 {
					n = append(n, o+lit+s)
				}
			}
		}
		outs = n
	}
	for i := range outs {
		outs[i] += f[last:]
	}
	return outs
}

func lowerKeepHoles(s string) string {
	var b strings.Builder
	in := false
	for _, r := range s {
		if r == '«' {
			in = true
		}
		if in {
			b.WriteRune(r)
		} else {
			b.WriteString(strings.ToLower(string(r)))
		}
		if r == '»' {
			in = false
		}
	}
	return b.String()
}

func uniq(xs []string) []string {
	seen := map[string]bool{}
	var out []string
	for _, x := range xs {
		if !seen[x] {
			seen[x] = true
			out = append(out, x)
		}
	}
	return out
}

// recvClass classifies the receiver of a database call.
func recvClass(cc *ssa.CallCommon) (string, ssa.Value) {
	var rv ssa.Value
	var t types.Type
	if cc.IsInvoke() {
		rv = cc.Value
		t = rv.Type()
	} else if len(cc.Args) > 0 {
		rv = cc.Args[0]
		t = rv.Type()
	}
	switch {
	case t == nil:
		return "", nil
	case isNamed(t, "database/sql", "DB"):
		return "DB", rv
	case isNamed(t, "database/sql", "Tx"):
		return "Tx", rv
	case isNamed(t, "database/sql", "Stmt"):
		return "Stmt", rv
	case isNamed(t, modPath+"/node/pegnet", "QueryAble"):
		return "QA", rv
	}
	return "", rv
}

var holeRe = regexp.MustCompile(`«[^»]*»`)

var sqlMethods = map[string]int{ // method -> index of the query argument among non-receiver args
	"Exec": 0, "Query": 0, "QueryRow": 0, "Prepare": 0,
	"ExecContext": 1, "QueryContext": 1, "QueryRowContext": 1, "PrepareContext": 1,
}

var sqlCatMemo = map[*Ctx]*SQLCat{}

func buildSQLCat(c *Ctx) *SQLCat {
	if m, ok := sqlCatMemo[c]; ok {
		return m
	}
	cat := buildSQLCat1(c)
	sqlCatMemo[c] = cat
	return cat
}

func buildSQLCat1(c *Ctx) *SQLCat {
	cat := &SQLCat{c: c, Tables: map[string]*SQLTable{}}
	se := &strEval{c: c}
	for _, f := range c.Funcs {
		for _, ci := range callsOf(f) {
			cc := ci.Common()
			var mname string
			if cc.IsInvoke() {
				mname = cc.Method.Name()
			} else if sc := cc.StaticCallee(); sc != nil {
				mname = sc.Name()
			}
			qi, ok := sqlMethods[mname]
			if !ok {
				continue
			}
			cls, rv := recvClass(cc)
			if cls == "" || cls == "Stmt" {
				continue
			}
			args := cc.Args
			if !cc.IsInvoke() {
				args = args[1:]
			}
			if qi >= len(args) {
				continue
			}
			seenText := map[string]bool{}
			for _, text := range se.eval(args[qi], nil, 0) {
				for _, part := range splitSQL(text) {
					norm := holeRe.ReplaceAllString(part, "«»")
					if seenText[norm] {
						continue
					}
					seenText[norm] = true
					st := parseSQL(part)
					st.Fn, st.Site, st.Method, st.Recv, st.RecvVal = f, ci, mname, cls, rv
					cat.Stmts = append(cat.Stmts, st)
					if st.Verb == "CREATE" && st.Table != "" && strings.Contains(strings.ToUpper(part), "CREATE TABLE") {
						cat.addTable(st.Table, part)
					}
					if st.Unres {
						cat.Unres = append(cat.Unres, fmt.Sprintf("%s @ %s: %s", fname(f), c.ipos(ci), oneLine(part)))
					}
				}
			}
		}
	}
	sort.SliceStable(cat.Stmts, func(i, j int) bool {
		a, b := cat.Stmts[i], cat.Stmts[j]
		if fname(a.Fn) != fname(b.Fn) {
			return fname(a.Fn) < fname(b.Fn)
		}
		return a.Site.Pos() < b.Site.Pos()
	})
	return cat
}

func oneLine(s string) string {
	s = strings.Join(strings.Fields(s), " ")
	if len(s) > 160 {
		s = s[:160] + "…"
	}
	return s
}

// splitSQL splits on ';' outside quotes, dropping comments and empty parts.
func splitSQL(s string) []string {
	// strip -- comments
	var lines []string
	for _, l := range strings.Split(s, "\n") {
		if i := strings.Index(l, "--"); i >= 0 {
			l = l[:i]
		}
		lines = append(lines, l)
	}
	s = strings.Join(lines, "\n")
	var out []string
	var cur strings.Builder
	q := rune(0)
	for _, r := range s {
		if q != 0 {
			cur.WriteRune(r)
			if r == q {
				q = 0
			}
			continue
		}
		switch r {
		case '\'', '"', '`':
			q = r
			cur.WriteRune(r)
		case ';':
			if strings.TrimSpace(cur.String()) != "" {
				out = append(out, strings.TrimSpace(cur.String()))
			}
			cur.Reset()
		default:
			cur.WriteRune(r)
		}
	}
	if strings.TrimSpace(cur.String()) != "" {
		out = append(out, strings.TrimSpace(cur.String()))
	}
	return out
}

var identRe = regexp.MustCompile(`^["` + "`" + `']?([A-Za-z_«][A-Za-z0-9_.«»\[\]()$#* -]*?)["` + "`" + `']?$`)

func cleanIdent(s string) string {
	s = strings.TrimSpace(s)
	s = strings.TrimLeft(s, "\"`'(")
	if i := strings.IndexAny(s, "( \t\n"); i > 0 && !strings.HasPrefix(s, "«") {
		s = s[:i]
	}
	s = strings.Trim(s, "\"`'();,")
	return s
}

func parseSQL(text string) *SQLStmt {
	st := &SQLStmt{Text: text}
	toks := strings.Fields(text)
	if len(toks) == 0 {
		return st
	}
	up := make([]string, len(toks))
	for i, t := range toks {
		up[i] = strings.ToUpper(t)
	}
	st.Verb = strings.Trim(up[0], "(")
	find := func(words ...string) int {
		for i := 0; i+len(words) <= len(up); i++ {
			ok := true
			for j, w := range words {
				if strings.Trim(up[i+j], "();,") != w {
					ok = false
					break
				}
			}
			if ok {
				return i
			}
		}
		return -1
	}
	after := func(i int) string {
		if i >= 0 && i < len(toks) {
			return cleanIdent(toks[i])
		}
		return ""
	}
	U := strings.ToUpper(text)
	switch st.Verb {
	case "INSERT":
		if i := find("INTO"); i >= 0 {
			st.Table = after(i + 1)
		}
		if find("OR", "REPLACE") == 1 {
			st.Conflict = "OR REPLACE"
		} else if find("OR", "IGNORE") == 1 {
			st.Conflict = "OR IGNORE"
		} else if i := strings.Index(U, "ON CONFLICT"); i >= 0 {
			rest := U[i:]
			if strings.Contains(rest, "DO NOTHING") {
				st.Conflict = "ON CONFLICT DO NOTHING"
			} else {
				st.Conflict = "ON CONFLICT DO UPDATE"
			}
		}
	case "REPLACE":
		if i := find("INTO"); i >= 0 {
			st.Table = after(i + 1)
		}
		st.Conflict = "REPLACE"
	case "UPDATE":
		st.Table = after(1)
		if strings.HasPrefix(up[1], "OR") && len(up) > 3 {
			st.Conflict = "OR " + up[2]
			st.Table = after(3)
		}
	case "DELETE":
		if i := find("FROM"); i >= 0 {
			st.Table = after(i + 1)
		}
	case "SELECT":
		if i := find("FROM"); i >= 0 {
			st.Table = after(i + 1)
		}
	case "CREATE":
		if i := find("TABLE"); i == 1 {
			j := 2
			if find("IF", "NOT", "EXISTS") == 2 {
				j = 5
			}
			st.Table = after(j)
		} else if i := find("ON"); i >= 0 {
			st.Verb = "CREATE-INDEX"
			st.Table = after(i + 1)
		}
	case "ALTER", "DROP":
		if i := find("TABLE"); i >= 0 {
			st.Table = after(i + 1)
		}
	}
	if i := find("FROM"); i >= 0 {
		st.From = after(i + 1)
	}
	st.OrderBy = strings.Contains(U, "ORDER BY")
	st.Limit = strings.Contains(U, " LIMIT ")
	if i := strings.Index(U, "WHERE"); i >= 0 {
		st.Where = oneLine(text[i:])
	}
	if st.Table == "" && (st.Verb == "INSERT" || st.Verb == "UPDATE" || st.Verb == "DELETE" || st.Verb == "REPLACE" || st.Verb == "ALTER" || st.Verb == "DROP" || st.Verb == "CREATE") {
		st.Unres = true
	}
	if strings.HasPrefix(st.Table, "«") || strings.HasPrefix(st.Verb, "«") {
		st.Unres = true
	}
	return st
}

// addTable parses a CREATE TABLE statement into the schema.
func (cat *SQLCat) addTable(name, text string) {
	if _, ok := cat.Tables[name]; ok {
		return
	}
	open := strings.Index(text, "(")
	close := strings.LastIndex(text, ")")
	if open < 0 || close < open {
		return
	}
	t := &SQLTable{Name: name, ColDef: map[string]string{}, Checks: map[string]string{}, Src: text}
	body := text[open+1 : close]
	// split on top-level commas
	var items []string
	depth := 0
	var cur strings.Builder
	for _, r := range body {
		switch r {
		case '(':
			depth++
		case ')':
			depth--
		}
		if r == ',' && depth == 0 {
			items = append(items, strings.TrimSpace(cur.String()))
			cur.Reset()
			continue
		}
		cur.WriteRune(r)
	}
	if strings.TrimSpace(cur.String()) != "" {
		items = append(items, strings.TrimSpace(cur.String()))
	}
	colsIn := func(s string) []string {
		o := strings.Index(s, "(")
		c := strings.Index(s, ")")
		if o < 0 || c < o {
			return nil
		}
		var cols []string
		for _, p := range strings.Split(s[o+1:c], ",") {
			cols = append(cols, cleanIdent(p))
		}
		return cols
	}
	for _, it := range items {
		U := strings.ToUpper(it)
		if i := strings.Index(U, "ON CONFLICT"); i >= 0 {
			res := strings.Fields(U[i+len("ON CONFLICT"):])
			if len(res) == 0 || (res[0] != "ABORT" && res[0] != "FAIL" && res[0] != "ROLLBACK") {
				t.ConflictClauses = append(t.ConflictClauses, oneLine(it))
			}
		}
		switch {
		case strings.HasPrefix(U, "PRIMARY KEY"), strings.HasPrefix(U, "UNIQUE"):
			t.Uniques = append(t.Uniques, colsIn(it))
		case strings.HasPrefix(U, "CHECK"):
			t.Checks[fmt.Sprintf("(table #%d)", len(t.Checks)+1)] = oneLine(it)
		case strings.HasPrefix(U, "FOREIGN KEY"), strings.HasPrefix(U, "CONSTRAINT"):
		default:
			f := strings.Fields(it)
			if len(f) == 0 {
				continue
			}
			col := cleanIdent(f[0])
			t.Cols = append(t.Cols, col)
			t.ColDef[col] = oneLine(it)
			if strings.Contains(U, "PRIMARY KEY") {
				t.Uniques = append(t.Uniques, []string{col})
				if strings.Contains(U, "INTEGER PRIMARY KEY") {
					t.RowID = col
				}
			} else if strings.Contains(U, " UNIQUE") {
				t.Uniques = append(t.Uniques, []string{col})
			}
			if i := strings.Index(U, "CHECK"); i >= 0 {
				t.Checks[col] = oneLine(it[i:])
			}
		}
	}
	cat.Tables[name] = t
}

func (cat *SQLCat) dump() {
	for _, s := range cat.Stmts {
		fmt.Printf("%-60s %-5s %-8s %-8s %-36s %-24s %s\n", fname(s.Fn), s.Recv, s.Method, s.Verb, s.Table, s.Conflict, cat.c.ipos(s.Site))
	}
	var names []string
	for n := range cat.Tables {
		names = append(names, n)
	}
	sort.Strings(names)
	for _, n := range names {
		t := cat.Tables[n]
		fmt.Printf("TABLE %s cols=%d uniques=%v checks=%d rowid=%s\n", n, len(t.Cols), t.Uniques, len(t.Checks), t.RowID)
	}
	for _, u := range cat.Unres {
		fmt.Println("UNRESOLVED", u)
	}
	fmt.Println("statements", len(cat.Stmts), "tables", len(cat.Tables))
}

// stmtsIn returns the statements issued directly by functions of the set.
func (cat *SQLCat) stmtsIn(set map[*ssa.Function]bool) []*SQLStmt {
	var out []*SQLStmt
	for _, s := range cat.Stmts {
		if set[s.Fn] {
			out = append(out, s)
		}
	}
	return out
}

var tableRefRe = regexp.MustCompile(`(?i)\b(?:from|join|into|update)\s+"?([a-z_][a-z_0-9]*)"?`)

// tablesIn lists every table a statement names after FROM/JOIN/INTO/UPDATE (sub-selects included), sorted.
func tablesIn(text string) []string {
	seen := map[string]bool{}
	for _, m := range tableRefRe.FindAllStringSubmatch(text, -1) {
		seen[strings.ToLower(m[1])] = true
	}
	var out []string
	for t := range seen {
		out = append(out, t)
	}
	sort.Strings(out)
	return out
}
