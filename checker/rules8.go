package main

// Rules added for the eighth seeded wave, and the registrations that share existing rules with the property a
// change was written for.  DESIGN.md §9.3.

import (
	"fmt"
	"go/token"
	"go/types"
	"strings"

	"golang.org/x/tools/go/ssa"
)

func init() {
	wrap := func(id string, more func(c *Ctx, r *Report)) {
		prev := props[id]
		props[id] = func(c *Ctx, r *Report) {
			prev(c, r)
			more(c, r)
		}
	}
	wrap("C02", func(c *Ctx, r *Report) {
		// a restart is not an event of the ledger: start-up writes nothing a block wrote (shared with C01/C09)
		ruleStartupWrites(c, r, "C02-R12/startup-writes")
		ruleMarkerUnconditional(c, r, "C02-R13/marker-unconditional")
	})
	wrap("C03", func(c *Ctx, r *Report) {
		ruleAdmissionTable(c, r, newEraCtx(c, r), "C03-R18/admission-table")
	})
	wrap("C04", func(c *Ctx, r *Report) {
		ruleConvertCallSites(c, r, "C04-R19/convert-call-sites")
		ruleNoNilTx(c, r, "C04-R20/block-reads-in-tx")
	})
	wrap("C05", func(c *Ctx, r *Report) {
		ruleMidBatchFailure(c, r, "C05-R10/no-partial-batch")
		ruleReplayTableKept(c, r, "C05-R11/replay-table-kept")
	})
	wrap("C06", func(c *Ctx, r *Report) {
		ruleReplayTableKept(c, r, "C06-R12/replay-table-kept")
	})
	wrap("C07", func(c *Ctx, r *Report) {
		ruleSettleOnceFam(c, r, "C07-R14/settle-once")
		ruleConversionCreditIsConvert(c, r, "C07-R15/credit-is-converted")
	})
	wrap("C08", func(c *Ctx, r *Report) {
		ruleQueueHoldsAll(c, r, "C08/fetch-queue")
	})
	wrap("C12", func(c *Ctx, r *Report) {
		ruleWinnersRecorded(c, r, "C12/winners-recorded")
		r.rule("C12/inputs-complete", 2, "errors of the parallel entry fetch reach SyncBlock")
		runErrflow(c, computeEffects(c), r, reachOfSelf(c, "node.multiFetch"), "C12/inputs-complete", false)
	})
	wrap("C13", func(c *Ctx, r *Report) {
		ruleConvertCallSites(c, r, "C13/convert-call-sites")
	})
	wrap("C14", func(c *Ctx, r *Report) {
		ruleStartupWrites(c, r, "C14/startup-writes")
	})
	wrap("C17", func(c *Ctx, r *Report) {
		ruleRejectedNotCollected(c, r, newEraCtx(c, r), "C17-P16/rejected-not-collected")
	})
	wrap("C18", func(c *Ctx, r *Report) {
		ruleGlobalsNotMutatedOutside(c, r, "C18-R11/globals-handed-out")
		ruleAllocBounded(c, r, "C18-R12/request-sized-allocation")
	})
	wrap("C19", func(c *Ctx, r *Report) {
		r.rule("C19-R8/backfill-completes", 1, "the legacy back-fill visits every fork")
		n := ruleLoopCompletes(c, r, "C19-R8/backfill-completes", c.fn("pegnet.Pegnet.CheckHardForks"), "pegnet.Pegnet.markHeightSyncedVersion", "every fork crossed by a pre-tracking build gets its marker")
		if n == 0 {
			r.viol("C19-R8/backfill-completes", "marker loop in CheckHardForks", c.pos(c.fn("pegnet.Pegnet.CheckHardForks").Pos()), "no loop around the marker insert was found")
		}
	})
	wrap("C20", func(c *Ctx, r *Report) {
		ruleWholeContentDecoded(c, r, "C20/whole-content-decoded")
	})
}

// ruleMarkerUnconditional: the statement that records the sync height replaces the stored value whatever it is
// (a comparison of the stored JSON blobs is bytewise: {"Synced":1000} < {"Synced":999}).
func ruleMarkerUnconditional(c *Ctx, r *Report, rule string) {
	r.rule(rule, 1, "the sync-height record is overwritten unconditionally")
	cat := buildSQLCat(c)
	is := c.fn("pegnet.Pegnet.InsertSynced")
	n := 0
	for _, st := range cat.Stmts {
		if !(st.Fn == is || c.inFamily(st.Fn, is)) || st.Table != "pn_metadata" || !st.isWrite() {
			continue
		}
		n++
		low := " " + strings.ToLower(oneLine(st.Text)) + " "
		var bad []string
		if strings.Contains(low, " where ") {
			bad = append(bad, "the write carries a WHERE clause: whether the height is recorded depends on the stored value (compared as a blob, i.e. bytewise)")
		}
		switch {
		case st.Verb == "REPLACE":
		case st.Verb == "INSERT" && (st.Conflict == "OR REPLACE" || st.Conflict == "ON CONFLICT DO UPDATE"):
		default:
			bad = append(bad, fmt.Sprintf("%s %s does not overwrite the stored height", st.Verb, st.Conflict))
		}
		r.check(len(bad) == 0, rule, "pn_metadata write of InsertSynced", c.ipos(st.Site), "replaces the row", strings.Join(bad, "; ")+": the marker can stay behind the ledger it describes, and a restart then applies a block twice")
	}
	if n == 0 {
		r.viol(rule, "pn_metadata write of InsertSynced", c.pos(is.Pos()), "no write of pn_metadata found in InsertSynced")
	}
}

// ruleNoNilTx: on the block path no store function is handed a nil transaction: with nil the store functions fall
// back to the pooled handle, which does not see what the block has written so far (and returns its "no row"
// defaults instead).
func ruleNoNilTx(c *Ctx, r *Report, rule string) {
	r.rule(rule, 1, "no nil *sql.Tx is passed on the block path")
	n := 0
	for _, f := range sortedFuncs(c.RSync) {
		ordn := newOrdinals()
		for _, ci := range callsOf(f) {
			sc := ci.Common().StaticCallee()
			if sc == nil || !fnInModule(sc) {
				continue
			}
			args := ci.Common().Args
			for i, p := range sc.Params {
				if i >= len(args) || !(isSQLTxPtr(p.Type()) || isQueryHandleIface(p.Type())) {
					continue
				}
				n++
				cons := fmt.Sprintf("%s -> %s %s", fname(f), fname(sc), ord(ordn.next(fname(sc))))
				if k, ok := args[i].(*ssa.Const); ok && k.Value == nil {
					r.viol(rule, cons, c.ipos(ci), "the transaction argument is nil: the callee reads through the pooled handle and misses what this block has written (a missing row then reads as the callee's default, e.g. a bank of -1 = 2^64-1 once converted)")
				} else {
					r.ok(rule, cons, c.ipos(ci), "a transaction value")
				}
			}
		}
	}
	if n == 0 {
		r.viol(rule, "transaction arguments on the block path", "-", "no call with a *sql.Tx parameter found on the block path")
	}
}

// isQueryHandleIface: the store's own "transaction or pooled handle" interface (it has QueryRow and Exec).
func isQueryHandleIface(t types.Type) bool {
	nt, ok := t.(*types.Named)
	if !ok || nt.Obj().Pkg() == nil || !inModule(nt.Obj().Pkg()) {
		return false
	}
	it, ok := nt.Underlying().(*types.Interface)
	if !ok {
		return false
	}
	has := map[string]bool{}
	for i := 0; i < it.NumMethods(); i++ {
		has[it.Method(i).Name()] = true
	}
	return has["QueryRow"] && has["Exec"]
}

// ruleReplayTableKept: the table the replay check reads only ever grows on the block path - an executed entry stays
// known for as long as its bytes stay valid, and longer.
func ruleReplayTableKept(c *Ctx, r *Report, rule string) {
	r.rule(rule, 1, "rows of the replay-check table are never removed or rewritten while syncing")
	cat := buildSQLCat(c)
	// the table: what IsReplayTransaction selects from
	irt := c.fn("pegnet.Pegnet.IsReplayTransaction")
	tables := map[string]bool{}
	for _, st := range cat.Stmts {
		if (st.Fn == irt || c.inFamily(st.Fn, irt)) && st.Verb == "SELECT" {
			for _, t := range tablesIn(st.Text) {
				tables[t] = true
			}
		}
	}
	if len(tables) == 0 {
		r.viol(rule, "replay-check table", c.pos(irt.Pos()), "IsReplayTransaction reads no table")
		return
	}
	n := 0
	for _, st := range cat.Stmts {
		if !tables[st.Table] || !st.isWrite() || st.Verb == "CREATE" || st.Verb == "CREATE-INDEX" {
			continue
		}
		if !c.RSync[st.Fn] && !c.reach(c.Startup)[st.Fn] {
			continue
		}
		n++
		cons := fmt.Sprintf("%s %s in %s", st.Table, st.Verb, fname(st.Fn))
		if st.Verb == "INSERT" && (st.Conflict == "" || st.Conflict == "ON CONFLICT DO NOTHING" || st.Conflict == "OR IGNORE") {
			r.ok(rule, cons, c.ipos(st.Site), "adds rows")
		} else {
			r.viol(rule, cons, c.ipos(st.Site), st.Verb+" "+st.Conflict+" on the table the replay check reads: an entry that was executed can become unknown again while its signature is still inside the acceptance window, and the same signed bytes are then executed a second time")
		}
	}
	if n == 0 {
		r.viol(rule, "replay-check table writers", c.pos(irt.Pos()), "no statement writes the table the replay check reads")
	}
}

// ruleConversionCreditIsConvert: what a conversion is credited is the value Convert returned for this very
// transaction in recordBatch - not a value looked up under a key that several transactions can share.
func ruleConversionCreditIsConvert(c *Ctx, r *Report, rule string) {
	r.rule(rule, 1, "the conversion credit is the result of this transaction's own Convert call")
	rb := c.bodyOf(c.fn("node.Pegnetd.recordBatch"), "pegnet.Pegnet.SubFromBalance")
	n := 0
	for _, a := range findCalls(rb, "pegnet.Pegnet.AddToBalance") {
		args := a.Common().Args
		if typePath(args[3]) != "fat2.Transaction.Conversion" {
			continue
		}
		n++
		var conv *ssa.Call
		viaLookup := false
		backSlice(args[4], func(v ssa.Value) bool {
			switch x := v.(type) {
			case *ssa.Lookup:
				viaLookup = true
				return false
			case *ssa.Extract:
				if call, ok := x.Tuple.(*ssa.Call); ok && x.Index == 0 && isCallTo(call, "Convert") {
					conv = call
					return false // what Convert was given is the business of the call-site rule
				}
			}
			return true
		})
		var bad []string
		switch {
		case conv == nil && viaLookup:
			bad = append(bad, "the credited amount is read out of a map: transactions that share the key are credited each other's amounts")
		case conv == nil:
			bad = append(bad, "the credited amount is not the result of Convert")
		case viaLookup:
			bad = append(bad, "the credited amount can also come out of a map")
		case !c.famDominates(rb, conv, a) && !(conv.Parent() == a.Parent() && instrDominates(conv, a)):
			bad = append(bad, "the Convert call does not precede the credit on every path")
		}
		r.check(len(bad) == 0, rule, "conversion credit in recordBatch", c.ipos(a), "AddToBalance(..., tx.Conversion, Convert(...)) of the same iteration", strings.Join(bad, "; "))
	}
	if n == 0 {
		r.viol(rule, "conversion credit in recordBatch", c.pos(rb.Pos()), "no credit in the destination asset of the conversion found")
	}
}

// ruleQueueHoldsAll: in multiFetch the index queue that is filled before any result is read can hold every index
// (its capacity is the number of entries), or it is filled from a goroutine of its own; otherwise the producer and
// the workers wait for each other once a block has more entries than the queue holds.
func ruleQueueHoldsAll(c *Ctx, r *Report, rule string) {
	r.rule(rule, 1, "the fetch queue cannot fill up before results are collected")
	mf := c.fn("node.multiFetch")
	n := 0
	allInstrs(mf, func(ins ssa.Instruction) {
		sd, ok := ins.(*ssa.Send)
		if !ok {
			return
		}
		l := innermostLoop(mf, sd.Block())
		if l == nil {
			return
		}
		n++
		mc, _ := unwrapConv(sd.Chan).(*ssa.MakeChan)
		if mc == nil {
			if al := slotOf(sd.Chan); al != nil {
				if sts, ok := slotStores(al); ok && len(sts) == 1 {
					mc, _ = sts[0].Val.(*ssa.MakeChan)
				}
			}
		}
		bad := ""
		if mc == nil {
			bad = "the queue is not a channel made in multiFetch"
		} else {
			// the loop bound: len(X); the capacity: len(X) of the same collection
			var bound ssa.Value
			if iff, ok := l.header.Instrs[len(l.header.Instrs)-1].(*ssa.If); ok {
				if cb, ok := iff.Cond.(*ssa.BinOp); ok && cb.Op == token.LSS {
					if lc, ok := cb.Y.(*ssa.Call); ok {
						if bi, ok := lc.Call.Value.(*ssa.Builtin); ok && bi.Name() == "len" {
							bound = lc.Call.Args[0]
						}
					}
				}
			}
			capOK := false
			if lc, ok := unwrapConv(mc.Size).(*ssa.Call); ok && bound != nil {
				if bi, ok := lc.Call.Value.(*ssa.Builtin); ok && bi.Name() == "len" && sameExpr(lc.Call.Args[0], bound) {
					capOK = true
				}
			}
			if !capOK {
				bad = "the queue's capacity is " + stablePath(mc.Size, 0) + ", not the number of items the loop sends: with more entries than that the sender blocks while every worker blocks handing back its first result, and the block can never be synced"
			}
		}
		r.check(bad == "", rule, "index queue filled in a loop of multiFetch", c.ipos(sd), "capacity = len of the collection the loop ranges over", bad)
	})
	if n == 0 {
		r.okNT(rule, "index queue of multiFetch", c.pos(mf.Pos()), "no send in a loop of multiFetch itself (the queue is filled elsewhere)")
	}
}

// ruleWinnersRecorded: pn_grade records the grader's carried-forward list of winners.
func ruleWinnersRecorded(c *Ctx, r *Report, rule string) {
	r.rule(rule, 1, "pn_grade records WinnersShortHashes() of the graded block")
	igb := c.fn("pegnet.Pegnet.InsertGradeBlock")
	okk := false
	n := 0
	for _, g := range c.family(igb) {
		for _, ci := range callsOf(g) {
			if stmtLabel(c, ci) != "INSERT pn_grade" {
				continue
			}
			if nm := shortCallee(ci.Common()); nm != "Exec" && nm != "ExecContext" {
				continue
			}
			n++
			vals, _ := sqlParamValues(ci.Common())
			for _, v := range vals {
				if sliceHas(v, func(x ssa.Value) bool { return isCallTo(x, "WinnersShortHashes") }) {
					okk = true
				}
			}
		}
	}
	r.check(okk && n > 0, rule, "InsertGradeBlock", c.pos(igb.Pos()), "a parameter of the pn_grade insert derives from WinnersShortHashes()", "no parameter of the INSERT into pn_grade derives from graded.WinnersShortHashes(): for a block without winners that call carries the previous winners forward; a list rebuilt from Winners() is empty there, and every record of the next block then names the 'wrong' previous winners and is rejected")
}

// ruleWholeContentDecoded: the batch constructor hands the whole entry content to the batch decoder (which checks
// that its compact form has exactly the expected length); a streaming decoder would stop after the first value.
func ruleWholeContentDecoded(c *Ctx, r *Report, rule string) {
	r.rule(rule, 1, "NewTransactionBatch decodes the whole content of the entry")
	ntb := c.fn("fat2.NewTransactionBatch")
	var bad []string
	n := 0
	for _, g := range c.family(ntb) {
		for _, ci := range callsOf(g) {
			nm := calleeName(ci.Common())
			switch {
			case strings.HasSuffix(nm, "json.Decoder.Decode") || strings.HasSuffix(nm, "json.NewDecoder"):
				bad = append(bad, "the content goes through a streaming decoder ("+nm+"), which reads the first JSON value and ignores what follows: content with trailing data is accepted as the batch formed by its prefix")
			case nm == "fat2.TransactionBatch.UnmarshalJSON" || nm == "encoding/json.Unmarshal":
				args := ci.Common().Args
				data := args[len(args)-1]
				if nm == "encoding/json.Unmarshal" {
					data = args[0]
				}
				if strings.HasSuffix(typePath(unwrapConv(data)), "Entry.Content") {
					n++
				} else {
					bad = append(bad, "the decoder is given "+stablePath(data, 0)+", not the entry's content")
				}
			}
		}
	}
	if n == 0 {
		bad = append(bad, "no call hands Entry.Content to the batch decoder")
	}
	r.check(len(bad) == 0, rule, "NewTransactionBatch -> decoder", c.pos(ntb.Pos()), "UnmarshalJSON(entry.Content)", strings.Join(uniq(bad), "; "))
}

// ruleGlobalsNotMutatedOutside: code that both block processing and API handlers run does not hand the address of
// a package-level variable (or of a field of one) to a method of another module as its pointer receiver: that
// method writes through it, which makes the function non-reentrant.
func ruleGlobalsNotMutatedOutside(c *Ctx, r *Report, rule string) {
	r.rule(rule, 1, "functions shared by the sync goroutine and API handlers keep no scratch state in package variables")
	n := 0
	for _, f := range c.Funcs {
		if !c.RSync[f] || !c.RAPI[f] {
			continue
		}
		n++
		ordn := newOrdinals()
		for _, ci := range callsOf(f) {
			cc := ci.Common()
			sc := cc.StaticCallee()
			if sc == nil || fnInModule(sc) || sc.Signature.Recv() == nil || len(cc.Args) == 0 {
				continue
			}
			if _, ptr := sc.Signature.Recv().Type().(*types.Pointer); !ptr {
				continue
			}
			g := globalBehind(cc.Args[0])
			if g == nil || g.Pkg == nil || !inModule(g.Pkg.Pkg) {
				continue
			}
			pp := ""
			if sc.Pkg != nil {
				pp = sc.Pkg.Pkg.Path()
			}
			if pp == "sync" || pp == "sync/atomic" || strings.Contains(pp, "logrus") || strings.Contains(pp, "viper") {
				continue // made for concurrent use
			}
			if readOnlyMethod[pp+"."+sc.Name()] {
				continue
			}
			cons := fmt.Sprintf("%s: %s.%s on %s %s", fname(f), pp, sc.Name(), g.Name(), ord(ordn.next(g.Name()+sc.Name())))
			r.viol(rule, cons, c.ipos(ci), "a method of "+pp+" is given the address of package variable "+g.Name()+" as its receiver in a function that runs on API handler goroutines and on the sync goroutine: concurrent requests overwrite the operands of a block's computation")
		}
	}
	r.check(n > 0, rule, "functions reachable from both roots", "-", fmt.Sprintf("%d functions examined", n), "no function is reachable from both the sync root and the API handlers")
}

var readOnlyMethod = map[string]bool{
	"math/big.Int": false,
}

// globalBehind: v is the address of a package-level variable or of a field/element of one.
func globalBehind(v ssa.Value) *ssa.Global {
	for i := 0; i < 6; i++ {
		switch x := v.(type) {
		case *ssa.Global:
			return x
		case *ssa.FieldAddr:
			v = x.X
		case *ssa.IndexAddr:
			v = x.X
		default:
			return nil
		}
	}
	return nil
}

// ruleAllocBounded: in code an API request reaches, the size of an allocation does not derive from an integer
// parameter (a request field): make([]T, 0, count) with a count nobody bounded asks the runtime for any amount of
// memory, and a failed allocation is a fatal error that no recover() contains - the daemon dies mid-block.
func ruleAllocBounded(c *Ctx, r *Report, rule string) {
	r.rule(rule, 1, "allocation sizes in API-reachable code do not come from request parameters")
	n := 0
	for _, f := range sortedFuncs(c.RAPI) {
		if !fnInModule(f) {
			continue
		}
		ordn := newOrdinals()
		allInstrs(f, func(ins ssa.Instruction) {
			var sizes []ssa.Value
			switch x := ins.(type) {
			case *ssa.MakeSlice:
				sizes = []ssa.Value{x.Len, x.Cap}
			case *ssa.MakeMap:
				if x.Reserve != nil {
					sizes = []ssa.Value{x.Reserve}
				}
			case *ssa.MakeChan:
				sizes = []ssa.Value{x.Size}
			default:
				return
			}
			n++
			cons := fmt.Sprintf("%s allocation %s", fname(f), ord(ordn.next("a")))
			bad := ""
			for _, s := range sizes {
				if s == nil {
					continue
				}
				backSlice(s, func(v ssa.Value) bool {
					switch y := v.(type) {
					case *ssa.Call:
						if bi, ok := y.Call.Value.(*ssa.Builtin); ok && (bi.Name() == "len" || bi.Name() == "cap") {
							return false // the size of data that already exists
						}
					case *ssa.Parameter:
						if b, ok := y.Type().Underlying().(*types.Basic); ok && b.Info()&types.IsInteger != 0 && boundedAbove(y) == "" {
							bad = "the size derives from integer parameter #" + fmt.Sprint(ownParam(y, y.Parent())) + " of " + fname(y.Parent()) + ", which no comparison bounds from above"
						}
						return false
					}
					return true
				})
			}
			if bad != "" {
				r.viol(rule, cons, c.ipos(ins), bad+": one request can ask for terabytes, and an allocation the runtime cannot satisfy is a fatal error outside any recover() - the whole daemon dies")
			} else {
				r.ok(rule, cons, c.ipos(ins), "constant, or the size of existing data")
			}
		})
	}
	r.check(n > 0, rule, "allocations in API-reachable code", "-", fmt.Sprintf("%d allocations examined", n), "no allocation found in API-reachable code")
}

// boundedAbove: the parameter is compared with something from above (p > k / p >= k / k < p ... in its function)
// on a branch that leaves the function: returns "" when no such test exists.
func boundedAbove(p *ssa.Parameter) string {
	f := p.Parent()
	found := ""
	for _, b := range f.Blocks {
		cond, _, _ := condEdge(b)
		bo, ok := cond.(*ssa.BinOp)
		if !ok {
			continue
		}
		x, y := unwrapConv(bo.X), unwrapConv(bo.Y)
		switch {
		case x == ssa.Value(p) && (bo.Op == token.GTR || bo.Op == token.GEQ):
			found = "upper bound"
		case y == ssa.Value(p) && (bo.Op == token.LSS || bo.Op == token.LEQ):
			found = "upper bound"
		}
	}
	return found
}
