package main

// E1 errflow — the error-discipline rule.  DESIGN.md §2.5.

import (
	"fmt"
	"go/token"
	"go/types"
	"sort"
	"strings"

	"golang.org/x/tools/go/ssa"
)

type ErrSite struct {
	Fn      *ssa.Function
	Call    ssa.CallInstruction
	Callee  string
	Ord     int
	Idiom   string // I1..I8 or "" when swallowed
	Problem string // non-empty => swallowed / mishandled
	Wrong   string // wrong-variable lint
}

func (s *ErrSite) construct() string {
	return fmt.Sprintf("%s -> %s %s", fname(s.Fn), s.Callee, ord(s.Ord))
}

type errflow struct {
	c    *Ctx
	eff  *Effects
	sync *ssa.Function
}

// errValueOf returns the SSA value carrying the error result of call (nil if unbound).
func errValueOf(ci ssa.CallInstruction) (ssa.Value, bool) {
	call, ok := ci.(*ssa.Call)
	if !ok {
		return nil, false // defer/go: result discarded
	}
	sig := call.Call.Signature()
	idx := errResultIndex(sig)
	if idx < 0 {
		return nil, false
	}
	if sig.Results().Len() == 1 {
		if call.Referrers() == nil || len(*call.Referrers()) == 0 {
			return nil, true
		}
		return call, true
	}
	for _, r := range *call.Referrers() {
		if ex, ok := r.(*ssa.Extract); ok && ex.Index == idx {
			return ex, true
		}
	}
	return nil, true
}

func isGlobalErrLoad(v ssa.Value) (*ssa.Global, bool) {
	v = unwrap(v)
	if u, ok := v.(*ssa.UnOp); ok && u.Op == token.MUL {
		if g, ok := u.X.(*ssa.Global); ok && isErrorType(g.Type().(*types.Pointer).Elem()) {
			return g, true
		}
	}
	return nil, false
}

// carriers computes the set of values that carry e inside its function.
func (ef *errflow) carriers(e ssa.Value) map[ssa.Value]bool {
	C := map[ssa.Value]bool{e: true}
	work := []ssa.Value{e}
	push := func(v ssa.Value) {
		if v != nil && !C[v] {
			C[v] = true
			work = append(work, v)
		}
	}
	for len(work) > 0 {
		v := work[len(work)-1]
		work = work[:len(work)-1]
		refs := v.Referrers()
		if refs == nil {
			continue
		}
		for _, r := range *refs {
			switch x := r.(type) {
			case *ssa.Phi:
				push(x)
			case *ssa.ChangeInterface:
				push(x)
			case *ssa.Store:
				if x.Val == v {
					for _, u := range loadsReachedByStore(x) {
						push(u)
					}
				}
			case *ssa.Call:
				// error transformers: module function taking the error and returning an error
				sc := x.Call.StaticCallee()
				if sc != nil && fnInModule(sc) && errResultIndex(sc.Signature) >= 0 {
					takes := false
					for _, a := range x.Call.Args {
						if a == v {
							takes = true
						}
					}
					if takes {
						if ev, _ := errValueOf(x); ev != nil {
							push(ev)
						}
					}
				}
			case *ssa.Send:
				if x.X == v {
					for _, rv := range chanReceives(x.Chan) {
						push(rv)
					}
				}
			}
		}
	}
	return C
}

// loadsReachedByStore: loads of st.Addr that can observe the value stored by st
// (same block after st with no intervening store; or blocks reachable without
// passing another store to the same address).
func loadsReachedByStore(st *ssa.Store) []*ssa.UnOp {
	var out []*ssa.UnOp
	refs := st.Addr.Referrers()
	if refs == nil {
		return nil
	}
	otherStoreBlocks := map[*ssa.BasicBlock]bool{}
	for _, r := range *refs {
		if o, ok := r.(*ssa.Store); ok && o != st && o.Addr == st.Addr && o.Block() != st.Block() {
			otherStoreBlocks[o.Block()] = true
		}
	}
	// same block
	killed := false
	blk := st.Block()
	for i := instrIndex(st) + 1; i < len(blk.Instrs); i++ {
		switch y := blk.Instrs[i].(type) {
		case *ssa.Store:
			if y.Addr == st.Addr {
				killed = true
			}
		case *ssa.UnOp:
			if !killed && y.Op == token.MUL && y.X == st.Addr {
				out = append(out, y)
			}
		}
		if killed {
			break
		}
	}
	if killed {
		return out
	}
	reach := map[*ssa.BasicBlock]bool{}
	var stk []*ssa.BasicBlock
	for _, sc := range blk.Succs {
		if !reach[sc] {
			reach[sc] = true
			stk = append(stk, sc)
		}
	}
	for len(stk) > 0 {
		b := stk[len(stk)-1]
		stk = stk[:len(stk)-1]
		// loads in b before any store to the address
		stop := false
		for _, ins := range b.Instrs {
			switch y := ins.(type) {
			case *ssa.Store:
				if y.Addr == st.Addr {
					stop = true
				}
			case *ssa.UnOp:
				if y.Op == token.MUL && y.X == st.Addr {
					out = append(out, y)
				}
			}
			if stop {
				break
			}
		}
		if stop {
			continue
		}
		for _, sc := range b.Succs {
			if !reach[sc] {
				reach[sc] = true
				stk = append(stk, sc)
			}
		}
	}
	return out
}

// resolveSpill sees through a result spilled to a local (functions with defer):
// a load of a local alloc is replaced by the value last stored in the same block.
func resolveSpill(v ssa.Value) ssa.Value {
	u, ok := v.(*ssa.UnOp)
	if !ok || u.Op != token.MUL {
		return v
	}
	a, ok := u.X.(*ssa.Alloc)
	if !ok {
		return v
	}
	blk := u.Block()
	for i := instrIndex(u) - 1; i >= 0; i-- {
		if st, ok := blk.Instrs[i].(*ssa.Store); ok && st.Addr == a {
			return st.Val
		}
	}
	return v
}

// chanReceives finds receive values on the same channel, through closure bindings.
func chanReceives(ch ssa.Value) []ssa.Value {
	var out []ssa.Value
	src := ch
	if u, ok := ch.(*ssa.UnOp); ok && u.Op == token.MUL {
		if fv, ok := u.X.(*ssa.FreeVar); ok {
			ch = fv
			src = fv
		} else if a, ok := u.X.(*ssa.Alloc); ok {
			src = a
		}
	}
	if fv, ok := ch.(*ssa.FreeVar); ok {
		fn := fv.Parent()
		idx := -1
		for i, v := range fn.FreeVars {
			if v == fv {
				idx = i
			}
		}
		parent := fn.Parent()
		if parent == nil || idx < 0 {
			return nil
		}
		allInstrs(parent, func(ins ssa.Instruction) {
			if mc, ok := ins.(*ssa.MakeClosure); ok && mc.Fn == fn && idx < len(mc.Bindings) {
				src = mc.Bindings[idx]
			}
		})
	}
	// src may be an alloc holding the channel; collect loads
	var chans []ssa.Value
	chans = append(chans, src)
	if a, ok := src.(*ssa.Alloc); ok {
		if rs := a.Referrers(); rs != nil {
			for _, r := range *rs {
				if u, ok := r.(*ssa.UnOp); ok && u.Op == token.MUL {
					chans = append(chans, u)
				}
			}
		}
	}
	for _, cv := range chans {
		rs := cv.Referrers()
		if rs == nil {
			continue
		}
		for _, r := range *rs {
			if u, ok := r.(*ssa.UnOp); ok && u.Op == token.ARROW {
				if u.CommaOk {
					for _, rr := range *u.Referrers() {
						if ex, ok := rr.(*ssa.Extract); ok && ex.Index == 0 {
							out = append(out, ex)
						}
					}
				} else {
					out = append(out, u)
				}
			}
		}
	}
	return out
}

// nilTest: if ins is `if v ==/!= nil` on a carrier, returns the non-nil successor.
func nilTestSucc(iff *ssa.If, C map[ssa.Value]bool) *ssa.BasicBlock {
	b, ok := iff.Cond.(*ssa.BinOp)
	if !ok || (b.Op != token.NEQ && b.Op != token.EQL) {
		return nil
	}
	var other ssa.Value
	if C[b.X] {
		other = b.Y
	} else if C[b.Y] {
		other = b.X
	} else {
		return nil
	}
	if !isNilConst(other) {
		return nil
	}
	if b.Op == token.NEQ {
		return iff.Block().Succs[0]
	}
	return iff.Block().Succs[1]
}

// sentinelEqSucc: block ends with `if carrier ==/!= <global error>`; returns the successor taken when equal.
func sentinelEqSucc(b *ssa.BasicBlock, C map[ssa.Value]bool) *ssa.BasicBlock {
	cond, t, f := condEdge(b)
	bo, ok := cond.(*ssa.BinOp)
	if !ok || (bo.Op != token.NEQ && bo.Op != token.EQL) {
		return nil
	}
	var other ssa.Value
	if C[bo.X] {
		other = bo.Y
	} else if C[bo.Y] {
		other = bo.X
	} else {
		return nil
	}
	if _, ok := isGlobalErrLoad(other); !ok {
		return nil
	}
	if bo.Op == token.EQL {
		return t
	}
	return f
}

// regionProblems walks every path from the non-nil successor S and reports
// how the error can be lost.  Returns problems and the idioms used.
func (ef *errflow) regionProblems(f *ssa.Function, S *ssa.BasicBlock, C map[ssa.Value]bool, idioms map[string]bool, wrong *string) []string {
	var problems []string
	errIdx := errResultIndex(f.Signature)
	seen := map[*ssa.BasicBlock]bool{}
	// values constructed inside the region count as fresh errors
	inRegion := func(b *ssa.BasicBlock) bool { return b == S || S.Dominates(b) }
	var walk func(from, b *ssa.BasicBlock, rolledBack bool)
	walk = func(from, b *ssa.BasicBlock, rolledBack bool) {
		if seen[b] {
			return
		}
		if !inRegion(b) {
			// rejoin
			if errIdx < 0 && rolledBack && ef.sync != nil && ef.c.onlyCalledFromFamily(f, ef.sync) && onlyReturns(b) {
				// the commit tail split off from the sync root: after rolling back it reports "go on" and the root retries
				// the block (I3), exactly as when the code sat in the root
				idioms["I3"] = true
				return
			}
			if from != nil && errIdx >= 0 && ef.mergedReturn(from, b, errIdx, C, S) {
				idioms["I1"] = true // `failed = err; break` ... `return failed`: the error leaves through a merged return
				return
			}
			if f == ef.sync {
				if msg := ef.retryOK(f, b, rolledBack); msg == "" {
					idioms["I3"] = true
				} else {
					problems = append(problems, msg)
				}
				return
			}
			problems = append(problems, fmt.Sprintf("error branch rejoins normal flow at block %d (%s): error is logged or dropped, execution continues", b.Index, ef.c.ipos(firstPosInstr(b))))
			return
		}
		seen[b] = true
		for _, ins := range b.Instrs {
			if ci, ok := ins.(ssa.CallInstruction); ok {
				if noReturnCall(ci.Common()) {
					idioms["I5"] = true
					return
				}
				if calleeName(ci.Common()) == "database/sql.Tx.Rollback" {
					rolledBack = true
				}
				// a helper that always rolls back the transaction it is given
				if sc := ci.Common().StaticCallee(); sc != nil && isNewHelper(sc) {
					for i := range ci.Common().Args {
						if mustCallOnParam(sc, i, "database/sql.Tx.Rollback") {
							rolledBack = true
						}
					}
				}
			}
			if ret, ok := ins.(*ssa.Return); ok {
				if errIdx < 0 {
					// a stage split off from the sync root that rolls the block back and tells the root to go on with its
					// loop: the block is retried without having been committed (I3), exactly as when the code sat in the root
					if rolledBack && ef.sync != nil && ef.c.onlyCalledFromFamily(f, ef.sync) {
						idioms["I3"] = true
						return
					}
					problems = append(problems, fmt.Sprintf("function has no error result: error turned into a plain %s result at %s", resultKinds(f), ef.c.ipos(ret)))
					return
				}
				op := ret.Results[errIdx]
				switch k := ef.classifyRet(op, C, S); k {
				case "carrier", "fresh", "sentinel":
					idioms["I1"] = true
				case "nil":
					problems = append(problems, fmt.Sprintf("returns nil error inside the error branch at %s", ef.c.ipos(ret)))
				default:
					msg := fmt.Sprintf("returns a different error variable (%s) inside the error branch at %s", k, ef.c.ipos(ret))
					problems = append(problems, msg)
					*wrong = msg
				}
				return
			}
		}
		eq := sentinelEqSucc(b, C)
		for _, s := range b.Succs {
			if s == eq {
				idioms["I4"] = true
				continue // tolerated sentinel path
			}
			walk(b, s, rolledBack)
		}
	}
	walk(nil, S, false)
	return problems
}

// mergedReturn: the edge from->b leaves the error region for a block that does nothing but return, and the error
// result returned is a phi whose value on that edge is the error (or one made from it in the region).
func (ef *errflow) mergedReturn(from, b *ssa.BasicBlock, errIdx int, C map[ssa.Value]bool, S *ssa.BasicBlock) bool {
	cur, prev := b, from
	var edgeVal = map[*ssa.Phi]ssa.Value{}
	isErr := func(v ssa.Value) bool {
		switch ef.classifyRet(v, C, S) {
		case "carrier", "sentinel":
			return true
		case "fresh":
			// made inside the error branch: counts when it cannot be nil (fmt.Errorf, a wrapped error) - the result of
			// another attempt at the failed call can be nil and would drop the error
			return ef.c.errNonNilAt(v, from, 0)
		}
		return false
	}
	for hop := 0; hop < 5; hop++ {
		idx := -1
		for i, p := range cur.Preds {
			if p == prev {
				idx = i
			}
		}
		var next *ssa.BasicBlock
		for _, ins := range cur.Instrs {
			switch x := ins.(type) {
			case *ssa.Phi:
				if idx >= 0 {
					v := x.Edges[idx]
					if ph, ok := v.(*ssa.Phi); ok {
						if ev, ok := edgeVal[ph]; ok {
							v = ev
						}
					}
					edgeVal[x] = v
				}
			case *ssa.DebugRef, *ssa.RunDefers:
			case *ssa.BinOp:
				// the test of the merged variable itself (evaluated at the If below)
			case *ssa.Return:
				op := resolveSpill(x.Results[errIdx])
				if ph, ok := op.(*ssa.Phi); ok {
					if v, ok := edgeVal[ph]; ok {
						return isErr(v)
					}
				}
				return false
			case *ssa.Jump:
				next = cur.Succs[0]
			case *ssa.If:
				// `if failed != nil { return failed }` after the loop: on this way the merged variable holds the error
				bo, ok := x.Cond.(*ssa.BinOp)
				if !ok || (bo.Op != token.NEQ && bo.Op != token.EQL) {
					return false
				}
				var ph *ssa.Phi
				if p, ok := bo.X.(*ssa.Phi); ok && isNilConst(bo.Y) {
					ph = p
				} else if p, ok := bo.Y.(*ssa.Phi); ok && isNilConst(bo.X) {
					ph = p
				}
				v, had := edgeVal[ph]
				if ph == nil || !had || !isErr(v) {
					return false
				}
				if bo.Op == token.NEQ {
					next = cur.Succs[0]
				} else {
					next = cur.Succs[1]
				}
			default:
				return false // the merged block does more than test and return
			}
		}
		if next == nil {
			return false
		}
		prev, cur = cur, next
	}
	return false
}

func firstPosInstr(b *ssa.BasicBlock) ssa.Instruction {
	for _, ins := range b.Instrs {
		if ins.Pos().IsValid() {
			return ins
		}
	}
	if len(b.Instrs) > 0 {
		return b.Instrs[0]
	}
	return nil
}

func resultKinds(f *ssa.Function) string {
	r := f.Signature.Results()
	if r.Len() == 0 {
		return "(no)"
	}
	var s []string
	for i := 0; i < r.Len(); i++ {
		s = append(s, r.At(i).Type().String())
	}
	return strings.Join(s, ",")
}

// classifyRet classifies the error operand of a Return inside region S.
func (ef *errflow) classifyRet(op ssa.Value, C map[ssa.Value]bool, S *ssa.BasicBlock) string {
	if C[op] {
		return "carrier"
	}
	op = resolveSpill(op)
	op0 := op
	if C[op] {
		return "carrier"
	}
	op = unwrap(op)
	if C[op] {
		return "carrier"
	}
	if isNilConst(op) {
		return "nil"
	}
	if _, ok := isGlobalErrLoad(op); ok {
		return "sentinel"
	}
	if ins, ok := op.(ssa.Instruction); ok {
		b := ins.Block()
		if b == S || S.Dominates(b) {
			// constructed inside the region (fmt.Errorf, errors.New, wrapped, ...)
			return "fresh"
		}
	}
	if ph, ok := op.(*ssa.Phi); ok && (ph.Block() == S || S.Dominates(ph.Block())) {
		// all incoming edges from region blocks must be fine
		worst := "carrier"
		for i, e := range ph.Edges {
			pb := ph.Block().Preds[i]
			if pb == S || S.Dominates(pb) {
				k := ef.classifyRet(e, C, S)
				if k != "carrier" && k != "fresh" && k != "sentinel" {
					worst = k
				}
			}
		}
		return worst
	}
	n := op0.Name()
	if vp := valuePath(op0); vp != "" {
		n = vp
	}
	return "value " + n
}

// retryOK implements I3 for the SYNC root: the error path re-enters the loop;
// no Commit may be reachable from the rejoin point without a new BeginTx, and an
// open transaction must have been rolled back.
func (ef *errflow) retryOK(f *ssa.Function, rejoin *ssa.BasicBlock, rolledBack bool) string {
	begin := map[*ssa.BasicBlock]bool{}
	var commits []ssa.Instruction
	allInstrs(f, func(ins ssa.Instruction) {
		if ci, ok := ins.(ssa.CallInstruction); ok {
			switch calleeName(ci.Common()) {
			case "database/sql.DB.BeginTx", "database/sql.DB.Begin":
				begin[ins.Block()] = true
			case "database/sql.Tx.Commit":
				commits = append(commits, ins)
			}
		}
	})
	if len(begin) == 0 {
		return "no BeginTx in SYNC root"
	}
	r := reachAvoiding(rejoin, begin)
	for _, cm := range commits {
		if r[cm.Block()] {
			return fmt.Sprintf("error path rejoins at block %d from which Commit (%s) is reachable without a new BeginTx", rejoin.Index, ef.c.ipos(cm))
		}
	}
	_ = rolledBack
	return ""
}

// analyse classifies one call site.
func (ef *errflow) analyse(f *ssa.Function, ci ssa.CallInstruction, site *ErrSite) {
	name := calleeName(ci.Common())
	if name == "database/sql.Rows.Close" || name == "database/sql.Stmt.Close" {
		site.Idiom = "I7"
		return
	}
	e, _ := errValueOf(ci)
	if e == nil {
		if _, isDefer := ci.(*ssa.Defer); isDefer {
			site.Problem = "deferred call: error result discarded"
		} else {
			site.Problem = "error result not bound (call statement or blank identifier)"
		}
		return
	}
	C := ef.carriers(e)
	idioms := map[string]bool{}
	var problems []string
	handled := false
	// functions owning carriers (the site's function, plus the parent for channel hand-over)
	owners := map[*ssa.Function]bool{}
	for v := range C {
		if ins, ok := v.(ssa.Instruction); ok && ins.Parent() != nil {
			owners[ins.Parent()] = true
		}
	}
	if len(owners) > 1 {
		idioms["I8"] = true
	}
	for v := range C {
		refs := v.Referrers()
		if refs == nil {
			continue
		}
		for _, r := range *refs {
			switch x := r.(type) {
			case *ssa.Return:
				ei := errResultIndex(x.Parent().Signature)
				if ei >= 0 && x.Results[ei] == v {
					handled = true
					// direct return: I2 when the call result is returned in the same block untested
					if x.Block() == ci.Block() {
						idioms["I2"] = true
					} else {
						idioms["I1"] = true
					}
				}
			case *ssa.Call:
				if len(C) > 1 {
					if sc := x.Call.StaticCallee(); sc != nil && fnInModule(sc) {
						idioms["I8"] = true
					}
				}
			}
		}
	}
	// nil tests
	var tests []ntest
	for g := range owners {
		allInstrs(g, func(ins ssa.Instruction) {
			iff, ok := ins.(*ssa.If)
			if !ok {
				return
			}
			S := nilTestSucc(iff, C)
			if S == nil {
				return
			}
			bo := iff.Cond.(*ssa.BinOp)
			v := bo.X
			if !C[v] {
				v = bo.Y
			}
			N := iff.Block().Succs[0]
			if N == S {
				N = iff.Block().Succs[1]
			}
			tests = append(tests, ntest{v, iff, S, N})
		})
	}
	tested := map[*ssa.BasicBlock]bool{}
	for _, t := range tests {
		// a test dominated by the nil edge of an earlier test of the same SSA value is redundant:
		// its non-nil branch is dead
		dead := false
		for _, u := range tests {
			if u.iff != t.iff && u.v == t.v && u.N != u.S && len(u.N.Preds) == 1 && (u.N == t.iff.Block() || u.N.Dominates(t.iff.Block())) {
				dead = true
			}
		}
		// a later test whose block can only be reached from an earlier test's error side through a tolerated-sentinel
		// edge (`if err != nil && err != ErrX { return err }; if err == nil {...}`): on its non-nil side the error is
		// that sentinel, which the earlier test already let pass
		if !dead {
			for _, u := range tests {
				if u.iff == t.iff || !(u.iff.Block() == t.iff.Block() || u.iff.Block().Dominates(t.iff.Block())) || u.S == t.iff.Block() {
					continue
				}
				// reach from u's non-nil successor without crossing a sentinel-equal edge
				seenB := map[*ssa.BasicBlock]bool{}
				var walkB func(b *ssa.BasicBlock)
				walkB = func(b *ssa.BasicBlock) {
					if seenB[b] {
						return
					}
					seenB[b] = true
					eq := sentinelEqSucc(b, C)
					for _, sx := range b.Succs {
						if sx != eq {
							walkB(sx)
						}
					}
				}
				walkB(u.S)
				viaSentinelOnly := !seenB[t.iff.Block()]
				// and the sentinel edge does lead there
				if viaSentinelOnly && reachAvoiding(u.S, nil)[t.iff.Block()] {
					dead = true
					idioms["I4"] = true
				}
			}
		}
		// `failed = f(); if failed != nil { break }`: the non-nil edge runs straight into a merge block where the value
		// becomes the merged variable - it is handled where that variable is tested (its own tests are in this list)
		if !dead && len(t.S.Preds) > 1 {
			for _, ins := range t.S.Instrs {
				ph, ok := ins.(*ssa.Phi)
				if !ok {
					break
				}
				for i, p := range t.S.Preds {
					if p == t.iff.Block() && C[ph.Edges[i]] && C[ph] {
						for _, u := range tests {
							if u.v == ssa.Value(ph) {
								dead = true
							}
						}
					}
				}
			}
		}
		if dead || tested[t.S] {
			continue
		}
		tested[t.S] = true
		handled = true
		ps := ef.regionProblems(t.iff.Parent(), t.S, C, idioms, &site.Wrong)
		problems = append(problems, ps...)
	}
	// path check: from the point where the error value becomes known, no path may reach a place where
	// the value is lost (the defining instruction again, i.e. the next loop iteration, or a return that
	// does not carry it) without passing one of its nil tests.
	if handled && len(problems) == 0 {
		if msg := ef.untestedPath(e, C, tests2blocks(tests)); msg != "" {
			problems = append(problems, msg)
		} else if msg := ef.overwrittenPath(e, C, tests); msg != "" {
			problems = append(problems, msg)
		}
	}
	if !handled {
		// used only for logging, compared with sentinels only, or never read
		site.Problem = "error value is bound but never tested against nil nor returned (reassigned, logged or ignored)"
		return
	}
	if len(problems) > 0 {
		site.Problem = strings.Join(problems, "; ")
		return
	}
	var ks []string
	for k := range idioms {
		ks = append(ks, k)
	}
	sort.Strings(ks)
	site.Idiom = strings.Join(ks, "+")
	if site.Idiom == "" {
		site.Idiom = "I1"
	}
}

type ntest struct {
	v    ssa.Value
	iff  *ssa.If
	S, N *ssa.BasicBlock
}

func tests2blocks(ts []ntest) map[*ssa.BasicBlock]bool {
	m := map[*ssa.BasicBlock]bool{}
	for _, t := range ts {
		m[t.iff.Block()] = true
	}
	return m
}

// untestedPath looks, for every carrier that is a "root" (the call result, a channel receive), for a path
// from its definition that loses the value without testing it.
func (ef *errflow) untestedPath(e ssa.Value, C map[ssa.Value]bool, testBlocks map[*ssa.BasicBlock]bool) string {
	for v := range C {
		ins, ok := v.(ssa.Instruction)
		if !ok {
			continue
		}
		// roots only: values that are not phis/loads of other carriers
		switch v.(type) {
		case *ssa.Phi:
			continue
		case *ssa.UnOp:
			if u := v.(*ssa.UnOp); u.Op != token.ARROW {
				continue
			}
		}
		f := ins.Parent()
		start := ins.Block()
		if testBlocks[start] {
			continue
		}
		// blocks in which a carrier is returned count as handling
		retBlocks := map[*ssa.BasicBlock]bool{}
		errIdx := errResultIndex(f.Signature)
		allInstrs(f, func(j ssa.Instruction) {
			if ret, ok := j.(*ssa.Return); ok && errIdx >= 0 && (C[ret.Results[errIdx]] || C[resolveSpill(ret.Results[errIdx])]) {
				retBlocks[j.Block()] = true
			}
		})
		// handing the value to another goroutine over a channel counts as handling here (the receive
		// side is a root of its own)
		if v.Referrers() != nil {
			for _, rf := range *v.Referrers() {
				if sd, ok := rf.(*ssa.Send); ok && sd.X == v {
					retBlocks[sd.Block()] = true
				}
			}
		}
		if retBlocks[start] {
			continue
		}
		seen := map[*ssa.BasicBlock]bool{}
		stack := []*ssa.BasicBlock{}
		// `e, open := <-errs; if !open { break }`: on the not-open edge the channel was closed and e is the zero
		// value, not an error that still has to be looked at
		closedEdge := map[[2]*ssa.BasicBlock]bool{}
		if ex, ok := v.(*ssa.Extract); ok {
			if u, ok := ex.Tuple.(*ssa.UnOp); ok && u.Op == token.ARROW && u.CommaOk {
				for _, b := range f.Blocks {
					cond, tb, fb := condEdge(b)
					if un, ok := cond.(*ssa.UnOp); ok && un.Op == token.NOT {
						cond, tb, fb = un.X, fb, tb
					}
					_ = tb
					if e1, ok := cond.(*ssa.Extract); ok && e1.Tuple == ssa.Value(u) && e1.Index == 1 && fb != nil {
						closedEdge[[2]*ssa.BasicBlock{b, fb}] = true
					}
				}
			}
		}
		{
			eq := sentinelEqSucc(start, C)
			for _, sc := range start.Succs {
				if (sc == eq && eq != nil) || closedEdge[[2]*ssa.BasicBlock{start, sc}] {
					continue
				}
				stack = append(stack, sc)
			}
		}
		for len(stack) > 0 {
			b := stack[len(stack)-1]
			stack = stack[:len(stack)-1]
			if seen[b] {
				continue
			}
			seen[b] = true
			if b == start {
				return fmt.Sprintf("the error can be overwritten by the next loop iteration without having been tested (a path from %s back to it avoids every nil test of the value)", ef.c.ipos(ins))
			}
			if testBlocks[b] || retBlocks[b] {
				continue
			}
			lost := false
			for _, j := range b.Instrs {
				if ci, ok := j.(ssa.CallInstruction); ok && noReturnCall(ci.Common()) {
					lost = false
					goto next
				}
				if _, ok := j.(*ssa.Return); ok {
					lost = true
				}
			}
			if lost {
				return fmt.Sprintf("a return at block %d (%s) is reachable from %s without the error having been tested", b.Index, ef.c.ipos(firstPosInstr(b)), ef.c.ipos(ins))
			}
			{
				// `if err == ErrTolerated {...} else if err != nil { return err }`: on the equal edge the value is known
				// (the tolerated sentinel, idiom I4); only the other edge still has to meet a nil test
				eq := sentinelEqSucc(b, C)
				for _, sc := range b.Succs {
					if (sc == eq && eq != nil) || closedEdge[[2]*ssa.BasicBlock{b, sc}] {
						continue
					}
					stack = append(stack, sc)
				}
			}
		next:
		}
	}
	return ""
}

// overwrittenPath: the variable the error was assigned to is assigned another call's result on some path before
// it has been tested (`x, err := f(); if c { y, err = g() }; if err != nil {...}`): the later test then looks at
// the other value, and f's failure is lost on that path. Decided on the merge points: an edge into a merge of
// the variable that brings a value which is not this error, reached from the call without a test of it.
func (ef *errflow) overwrittenPath(e ssa.Value, C map[ssa.Value]bool, tests []ntest) string {
	ins, ok := e.(ssa.Instruction)
	if !ok {
		return ""
	}
	if ex, isEx := e.(*ssa.Extract); isEx {
		if ti, ok := ex.Tuple.(ssa.Instruction); ok {
			ins = ti
		}
	}
	f := ins.Parent()
	start := ins.Block()
	testBlocks := tests2blocks(tests)
	if testBlocks[start] {
		return ""
	}
	errIdx := errResultIndex(f.Signature)
	retBlocks := map[*ssa.BasicBlock]bool{}
	allInstrs(f, func(j ssa.Instruction) {
		if ret, ok := j.(*ssa.Return); ok && errIdx >= 0 && (C[ret.Results[errIdx]] || C[resolveSpill(ret.Results[errIdx])]) {
			retBlocks[j.Block()] = true
		}
	})
	if retBlocks[start] {
		return ""
	}
	seen := map[*ssa.BasicBlock]bool{start: true}
	stack := []*ssa.BasicBlock{start}
	for len(stack) > 0 {
		p := stack[len(stack)-1]
		stack = stack[:len(stack)-1]
		eq := sentinelEqSucc(p, C)
		for _, b := range p.Succs {
			if b == eq && eq != nil {
				continue
			}
			// does this edge replace the value in every merge of the variable at b?
			nphi, nlost := 0, 0
			var other ssa.Value
			for _, j := range b.Instrs {
				ph, isPhi := j.(*ssa.Phi)
				if !isPhi {
					break
				}
				if !C[ph] {
					continue
				}
				nphi++
				lost := true
				for i, q := range b.Preds {
					if q == p && C[ph.Edges[i]] {
						lost = false
					}
				}
				if lost {
					for i, q := range b.Preds {
						if q == p {
							other = ph.Edges[i]
						}
					}
					nlost++
				}
			}
			if nphi > 0 && nlost == nphi && other != nil {
				if k, isK := other.(*ssa.Const); !isK || k.Value != nil {
					// a non-nil replacement only when it is another call's error (a fresh error made for this failure is idiom I2)
					if _, isCallRes := errSourceCall(other); isCallRes {
						return fmt.Sprintf("on the path through block %d (%s) the variable is assigned another call's error before this one has been tested: the failure is lost there", p.Index, ef.c.ipos(firstPosInstr(p)))
					}
				}
			}
			if seen[b] || testBlocks[b] || retBlocks[b] {
				continue
			}
			seen[b] = true
			stack = append(stack, b)
		}
	}
	return ""
}

// errSourceCall: v is the error result of a call (directly or as the extracted element of its tuple).
func errSourceCall(v ssa.Value) (ssa.CallInstruction, bool) {
	switch x := v.(type) {
	case *ssa.Call:
		return x, true
	case *ssa.Extract:
		if c, ok := x.Tuple.(*ssa.Call); ok {
			return c, true
		}
	}
	return nil, false
}

// rowsIterationObligations: I6 — every rows.Next() must be followed by a handled rows.Err().
func (ef *errflow) rowsIteration(f *ssa.Function, r *Report, rule string) {
	ordn := newOrdinals()
	allInstrs(f, func(ins ssa.Instruction) {
		ci, ok := ins.(ssa.CallInstruction)
		if !ok || calleeName(ci.Common()) != "database/sql.Rows.Next" {
			return
		}
		rows := ci.Common().Args[0]
		n := ordn.next("next")
		cons := fmt.Sprintf("%s rows.Next %s", fname(f), ord(n))
		var errCalls []ssa.CallInstruction
		allInstrs(f, func(j ssa.Instruction) {
			if cj, ok := j.(ssa.CallInstruction); ok && calleeName(cj.Common()) == "database/sql.Rows.Err" && sameVarValue(cj.Common().Args[0], rows) {
				errCalls = append(errCalls, cj)
			}
		})
		after := false
		for _, ec := range errCalls {
			if instrReaches(ins, ec) {
				after = true
			}
		}
		switch {
		case len(errCalls) == 0:
			r.viol(rule, cons, ef.c.ipos(ins), "rows.Next() result consumed but rows.Err() is never consulted: an iteration error makes a truncated result look complete")
		case !after:
			r.viol(rule, cons, ef.c.ipos(ins), "rows.Err() is consulted only before rows.Next(): an iteration error is not seen")
		default:
			r.okNT(rule, cons, ef.c.ipos(ins), "rows.Err() called after the iteration (its own handling is a separate obligation)")
		}
	})
}

// runErrflow evaluates E1 over the given function set.
// auditedErrSites: error values that are deliberately not consulted on some path, with the reason.
var auditedErrSites = map[string]string{
	"node.Pegnetd.SyncBlock -> node.Pegnetd.GradeS #1": "below V20HeightActivation the SPR grading result is not used at all (ApplyGradedSPRBlock and the SPR rate combination are dead there: C11/C12 era tables), so its error is only consulted from 2.0 on",
}

func runErrflow(c *Ctx, eff *Effects, r *Report, scope map[*ssa.Function]bool, rule string, lintAll bool) []*ErrSite {
	ef := &errflow{c: c, eff: eff, sync: c.Sync}
	var sites []*ErrSite
	total, pure := 0, 0
	type wrongGroup struct {
		fn      *ssa.Function
		at      ssa.CallInstruction
		callees []string
	}
	wrongGroups := map[string]*wrongGroup{}
	var wrongOrder []string
	defer func() {
		for _, w := range wrongOrder {
			g := wrongGroups[w]
			sort.Strings(g.callees)
			r.viol(rule+"/wrong-variable", fmt.Sprintf("%s error branch of %s", strings.Join(c.ownerNames(g.fn), "/"), strings.Join(dedupStrings(g.callees), "|")), c.ipos(g.at), w)
		}
	}()
	for _, f := range sortedFuncs(scope) {
		ordn := newOrdinals()
		for _, ci := range callsOf(f) {
			cc := ci.Common()
			if errResultIndex(cc.Signature()) < 0 {
				continue
			}
			total++
			name := calleeName(cc)
			n := ordn.next(name)
			site := &ErrSite{Fn: f, Call: ci, Callee: name, Ord: n}
			effectful := eff.fallibleCall(cc)
			ef.analyse(f, ci, site)
			if !effectful {
				pure++
				// companion lint only
				if lintAll && site.Wrong != "" {
					// one finding per branch, named after every call whose error arrives there (whichever the source puts
					// first), helpers split off from the reference code named by the calls they forward
					g := wrongGroups[site.Wrong]
					if g == nil {
						g = &wrongGroup{fn: f, at: ci}
						wrongGroups[site.Wrong] = g
						wrongOrder = append(wrongOrder, site.Wrong)
					}
					g.callees = append(g.callees, forwardedCallees(ci)...)
				}
				continue
			}
			sites = append(sites, site)
			if why, ok := auditedErrSites[site.construct()]; ok && site.Problem != "" && strings.Contains(site.Problem, "without the error having been tested") {
				r.audited(rule, site.construct(), c.ipos(ci), why)
			} else if site.Problem != "" {
				r.viol(rule, site.construct(), c.ipos(ci), "swallowed: "+site.Problem)
			} else if site.Idiom == "I1" || site.Idiom == "I2" {
				r.ok(rule, site.construct(), c.ipos(ci), "handled by "+site.Idiom)
			} else {
				r.okNT(rule, site.construct(), c.ipos(ci), "handled by "+site.Idiom)
			}
		}
		ef.rowsIteration(f, r, rule+"/rows-iteration")
	}
	r.Extra["error_returning_call_sites"] = total
	r.Extra["pure_callee_sites_excluded"] = pure
	r.Extra["effectful_sites"] = len(sites)
	return sites
}

// runErrflowSites: the error rule for selected call sites only (a property that shares the rule for the calls its
// own clause depends on), reported under that property's rule name.
func runErrflowSites(c *Ctx, eff *Effects, r *Report, scope []*ssa.Function, rule string, keep func(names []string) bool) int {
	ef := &errflow{c: c, eff: eff, sync: c.Sync}
	n := 0
	for _, f := range scope {
		ordn := newOrdinals()
		for _, ci := range callsOf(f) {
			cc := ci.Common()
			if errResultIndex(cc.Signature()) < 0 {
				continue
			}
			name := calleeName(cc)
			k := ordn.next(name)
			if !keep(forwardedCallees(ci)) {
				continue
			}
			site := &ErrSite{Fn: f, Call: ci, Callee: name, Ord: k}
			ef.analyse(f, ci, site)
			n++
			if why, ok := auditedErrSites[site.construct()]; ok && site.Problem != "" && strings.Contains(site.Problem, "without the error having been tested") {
				r.audited(rule, site.construct(), c.ipos(ci), why)
			} else if site.Problem != "" {
				r.viol(rule, site.construct(), c.ipos(ci), "swallowed: "+site.Problem)
			} else {
				r.okNT(rule, site.construct(), c.ipos(ci), "handled by "+site.Idiom)
			}
		}
	}
	return n
}

// forwardedCallees: the name of the called function, or - for a helper the reference tree does not have - the names of
// the calls whose error it hands back.
func forwardedCallees(ci ssa.CallInstruction) []string {
	sc := ci.Common().StaticCallee()
	if sc == nil || !isNewHelper(sc) || sc.Blocks == nil {
		return []string{calleeName(ci.Common())}
	}
	var out []string
	ef := &errflow{}
	for _, cj := range callsOf(sc) {
		ev, _ := errValueOf(cj)
		if ev == nil {
			continue
		}
		for v := range ef.carriers(ev) {
			if v.Referrers() == nil {
				continue
			}
			for _, rf := range *v.Referrers() {
				if _, ok := rf.(*ssa.Return); ok {
					out = append(out, forwardedCallees(cj)...)
				}
			}
		}
	}
	if len(out) == 0 {
		return []string{calleeName(ci.Common())}
	}
	return out
}

// onlyReturns: from b the function does nothing but return (no calls on the way).
func onlyReturns(b *ssa.BasicBlock) bool {
	cur := b
	for hop := 0; hop < 4; hop++ {
		for _, ins := range cur.Instrs {
			switch ins.(type) {
			case *ssa.Phi, *ssa.DebugRef, *ssa.Jump, *ssa.RunDefers:
			case *ssa.Return:
				return true
			default:
				return false
			}
		}
		if len(cur.Succs) != 1 {
			return false
		}
		cur = cur.Succs[0]
	}
	return false
}
