package main

// Height classes and the era/feature oracle (DESIGN.md Appendix B).

import (
	"go/constant"
	"go/token"
	"sort"
	"strings"

	"golang.org/x/tools/go/ssa"
)

type Acts struct {
	m map[string]uint32
	// literal constants a height is compared with, and moduli it is reduced by, anywhere on the
	// consensus path: they delimit height classes too, so representatives are generated around them
	extraConsts []uint32
	moduli      []uint32
}

var actNames = []string{"PegnetActivation", "GradingV2Activation", "TransactionConversionActivation", "PEGPricingActivation",
	"OneWaypFCTConversions", "PegnetConversionLimitActivation", "PEGFreeFloatingPriceActivation", "V4OPRUpdate", "V20HeightActivation",
	"V20DevRewardsHeightActivation", "SprSignatureActivation", "OneWaySmallAssetsConversions", "V202EnhanceActivation",
	"V204EnhanceActivation", "V204BurnMintedTokenActivation", "PIP10AverageActivation"}

func (c *Ctx) activations() *Acts {
	gi := c.globalInits()
	a := &Acts{m: map[string]uint32{}}
	for _, n := range actNames {
		g := c.global("config", n)
		v, ok := gi[g]
		if !ok || !v.isConst() {
			die(2, "unresolved anchor: initial value of config.%s", n)
		}
		u, _ := constant.Uint64Val(v.C)
		a.m[n] = uint32(u)
	}
	g := c.global("fat2", "Fat2RCDEActivation")
	if v, ok := gi[g]; ok && v.isConst() {
		u, _ := constant.Uint64Val(v.C)
		a.m["Fat2RCDEActivation"] = uint32(u)
	} else {
		die(2, "unresolved anchor: initial value of fat2.Fat2RCDEActivation")
	}
	a.extraConsts, a.moduli = c.heightLiterals()
	return a
}

// heightLike: the value is a block height (parameter or field) possibly offset by a constant / converted.
func heightLike(v ssa.Value, depth int) bool {
	if depth > 4 {
		return false
	}
	switch x := v.(type) {
	case *ssa.Parameter:
		n := strings.ToLower(x.Name())
		return strings.Contains(n, "height") && isIntType(x.Type())
	case *ssa.Convert:
		return heightLike(x.X, depth+1)
	case *ssa.BinOp:
		if x.Op == token.ADD || x.Op == token.SUB {
			if _, ok := x.Y.(*ssa.Const); ok {
				return heightLike(x.X, depth+1)
			}
		}
	case *ssa.UnOp:
		if x.Op == token.MUL {
			tp := typePath(x)
			return strings.HasSuffix(tp, ".Height") || tp == "pegnet.BlockSync.Synced"
		}
	case *ssa.Phi:
		return strings.Contains(strings.ToLower(x.Comment), "height")
	}
	return false
}

// heightLiterals scans the consensus path for integer literals compared with a height and for moduli.
func (c *Ctx) heightLiterals() (consts, moduli []uint32) {
	cs, ms := map[uint32]bool{}, map[uint32]bool{}
	scope := map[*ssa.Function]bool{}
	for f := range c.RSync {
		scope[f] = true
	}
	for _, f := range c.Funcs {
		if f.Pkg != nil && (f.Pkg.Pkg.Name() == "fat2" || f.Pkg.Pkg.Name() == "conversions") {
			scope[f] = true
		}
	}
	for f := range scope {
		allInstrs(f, func(ins ssa.Instruction) {
			bo, ok := ins.(*ssa.BinOp)
			if !ok {
				return
			}
			var k *ssa.Const
			var other ssa.Value
			if kc, ok := bo.Y.(*ssa.Const); ok {
				k, other = kc, bo.X
			} else if kc, ok := bo.X.(*ssa.Const); ok {
				k, other = kc, bo.Y
			}
			if k == nil || k.Value == nil || k.Value.Kind() != constant.Int || !heightLike(other, 0) {
				return
			}
			v, ok := constant.Uint64Val(k.Value)
			if !ok || v > 1<<31 {
				return
			}
			switch bo.Op {
			case token.EQL, token.NEQ, token.LSS, token.LEQ, token.GTR, token.GEQ:
				if v >= 1000 {
					cs[uint32(v)] = true
				}
			case token.REM, token.QUO:
				if v > 1 {
					ms[uint32(v)] = true
				}
			}
		})
	}
	for v := range cs {
		consts = append(consts, v)
	}
	for v := range ms {
		moduli = append(moduli, v)
	}
	sort.Slice(consts, func(i, j int) bool { return consts[i] < consts[j] })
	sort.Slice(moduli, func(i, j int) bool { return moduli[i] < moduli[j] })
	return
}

func (a *Acts) get(n string) uint32 {
	v, ok := a.m[n]
	if !ok {
		die(2, "unknown activation %s", n)
	}
	return v
}

// reps returns representative heights: A-2..A+2 for every activation value, and for every
// interval between consecutive activation values the first two multiples of 144 and a non-multiple.
// thorough adds every height within ±150 of every activation.
func (a *Acts) reps(thorough bool) []uint32 {
	set := map[uint32]bool{}
	var vals []uint32
	seen := map[uint32]bool{}
	for _, v := range a.m {
		if !seen[v] {
			seen[v] = true
			vals = append(vals, v)
		}
	}
	for _, v := range a.extraConsts {
		if !seen[v] {
			seen[v] = true
			vals = append(vals, v)
		}
	}
	sort.Slice(vals, func(i, j int) bool { return vals[i] < vals[j] })
	for _, v := range vals {
		for d := -2; d <= 2; d++ {
			set[uint32(int64(v)+int64(d))] = true
		}
		if thorough {
			for d := -150; d <= 150; d++ {
				set[uint32(int64(v)+int64(d))] = true
			}
		}
	}
	bounds := append([]uint32{vals[0] - 1000}, vals...)
	bounds = append(bounds, vals[len(vals)-1]+100000)
	for i := 0; i+1 < len(bounds); i++ {
		lo, hi := bounds[i], bounds[i+1]
		m := (lo/144 + 1) * 144
		for k := 0; k < 2 && m < hi; k++ {
			set[m] = true
			set[m+1] = true
			m += 144
		}
		set[lo+(hi-lo)/2|1] = true
		// other moduli found in the code: first multiples inside the interval
		for _, md := range a.moduli {
			if md == 144 {
				continue
			}
			m := (lo/md + 1) * md
			for k := 0; k < 2 && m < hi; k++ {
				set[m] = true
				set[m+1] = true
				m += md
			}
		}
	}
	var out []uint32
	for h := range set {
		out = append(out, h)
	}
	sort.Slice(out, func(i, j int) bool { return out[i] < out[j] })
	return out
}

// ---- oracle (Appendix B), written from the doc comments of config/activations.go and the property statements ----

func (a *Acts) oprGraderVersion(h uint32) int64 {
	switch {
	case h < a.get("GradingV2Activation"):
		return 1
	case h < a.get("PEGFreeFloatingPriceActivation"):
		return 2
	case h < a.get("V4OPRUpdate"):
		return 3
	case h < a.get("V20HeightActivation"):
		return 4
	}
	return 5
}

func (a *Acts) sprGraderVersion(h uint32) int64 {
	switch {
	case h < a.get("SprSignatureActivation"):
		return 5
	case h < a.get("V202EnhanceActivation"):
		return 6
	}
	return 7
}

// pegPhase: 1 zero, 2 equation, 3 floating
func (a *Acts) pegPhase(h uint32) int64 {
	switch {
	case h < a.get("PEGPricingActivation"):
		return 1
	case h < a.get("PEGFreeFloatingPriceActivation"):
		return 2
	}
	return 3
}

func (a *Acts) isV20(h uint32) bool    { return h >= a.get("V20HeightActivation") }
func (a *Acts) snapshot(h uint32) bool { return a.isV20(h) && h%144 == 0 }
func (a *Acts) devPayout(h uint32) bool {
	return h >= a.get("V20DevRewardsHeightActivation") && h%144 == 0
}
func (a *Acts) txActive(h uint32) bool { return h >= a.get("TransactionConversionActivation") }
func (a *Acts) mint(h uint32) bool     { return h == a.get("V204EnhanceActivation") }
func (a *Acts) burnMint(h uint32) bool { return h == a.get("V204BurnMintedTokenActivation") }
func (a *Acts) nullifyBurn(h uint32) bool {
	return h == a.get("V20DevRewardsHeightActivation") || h == a.get("V202EnhanceActivation")
}
func (a *Acts) v202(h uint32) bool { return h >= a.get("V202EnhanceActivation") }
