package main

// Path rules shared by several properties:
//
//   loop completion  - a loop that applies one element per iteration (a transaction of a batch, a height of the
//                      holding window, a winner, a request) is left only by its own bound test or by a return
//                      that carries a non-nil error (which fails and rolls back the block);
//   must pass        - every return that can report success has passed through a given call (eras excepted).
//
// Both are decided on the CFG of the function the reference tree has (and of helpers split off from it).

import (
	"fmt"
	"go/token"
	"sort"
	"strings"

	"golang.org/x/tools/go/ssa"
)

// errNonNilAt: the error value v cannot be nil when control is in block `at`.
func (c *Ctx) errNonNilAt(v ssa.Value, at *ssa.BasicBlock, depth int) bool {
	if depth > 4 || v == nil {
		return false
	}
	v = resolveSpill(v)
	if isNilConst(v) {
		return false
	}
	if _, ok := isGlobalErrLoad(v); ok {
		return true
	}
	switch x := v.(type) {
	case *ssa.MakeInterface:
		return true // a concrete value boxed into the interface
	case *ssa.Call:
		switch calleeName(x.Common()) {
		case "fmt.Errorf", "errors.New":
			return true
		}
	case *ssa.Phi:
		for i, e := range x.Edges {
			if !c.errNonNilAt(e, x.Block().Preds[i], depth+1) {
				return false
			}
		}
		return true
	}
	if _, ok := v.(ssa.Instruction); ok {
		for _, t := range nilTestsOf(c, v) {
			if t.S != t.N && len(t.S.Preds) == 1 && blockOrDom(t.S, at) {
				return true
			}
		}
	}
	return false
}

// returnsOf: the Return instructions in the given blocks.
func returnsIn(bs map[*ssa.BasicBlock]bool) []*ssa.Return {
	var out []*ssa.Return
	for b := range bs {
		if len(b.Instrs) == 0 {
			continue
		}
		if rt, ok := b.Instrs[len(b.Instrs)-1].(*ssa.Return); ok {
			out = append(out, rt)
		}
	}
	sort.Slice(out, func(i, j int) bool { return out[i].Block().Index < out[j].Block().Index })
	return out
}

// mayReportSuccess: the return can hand the caller a nil error (or the function has no error result at all).
func (c *Ctx) mayReportSuccess(rt *ssa.Return) bool {
	f := rt.Parent()
	idx := errResultIndex(f.Signature)
	if idx < 0 || idx >= len(rt.Results) {
		return true
	}
	return !c.errNonNilAt(rt.Results[idx], rt.Block(), 0)
}

// boundExit: block b (in loop l) ends in the loop's own bound test - an ordering comparison on an induction value of
// the loop, the `ok` of a range iterator, or rows.Next().
func boundExit(b *ssa.BasicBlock, l *natLoop) bool {
	cond, _, _ := condEdge(b)
	if cond == nil {
		return false
	}
	isInduction := func(v ssa.Value) bool {
		v = unwrapConv(v)
		if bo, ok := v.(*ssa.BinOp); ok && (bo.Op == token.ADD || bo.Op == token.SUB) {
			v = unwrapConv(bo.X)
		}
		ph, ok := v.(*ssa.Phi)
		return ok && l.blocks[ph.Block()]
	}
	if x, y, _, _ := ordEdges(b); x != nil {
		return isInduction(x) || isInduction(y)
	}
	if ex, ok := cond.(*ssa.Extract); ok {
		if _, ok := ex.Tuple.(*ssa.Next); ok && ex.Index == 0 {
			return true
		}
	}
	if call, ok := cond.(*ssa.Call); ok {
		n := calleeName(call.Common())
		if n == "database/sql.Rows.Next" || strings.HasSuffix(n, ".Next") && calleePkgPath(call.Common()) == "database/sql" {
			return true
		}
	}
	return false
}

// loopExitProblems lists the ways loop l of f can be left with elements unprocessed and without failing.
func (c *Ctx) loopExitProblems(f *ssa.Function, l *natLoop) []string {
	var out []string
	var bs []*ssa.BasicBlock
	for b := range l.blocks {
		bs = append(bs, b)
	}
	sort.Slice(bs, func(i, j int) bool { return bs[i].Index < bs[j].Index })
	for _, b := range bs {
		for _, s := range b.Succs {
			if l.blocks[s] {
				continue
			}
			if boundExit(b, l) {
				continue
			}
			if c.edgeReturnsNonNil(b, s) {
				continue
			}
			R := reachableFrom(s, true)
			reenters := false
			for x := range R {
				if l.blocks[x] {
					reenters = true
				}
			}
			where := c.ipos(firstPosInstr(s))
			if reenters {
				out = append(out, "left at "+where+" for the enclosing loop (the remaining elements are skipped)")
				continue
			}
			for _, rt := range returnsIn(R) {
				if c.mayReportSuccess(rt) {
					out = append(out, fmt.Sprintf("left at %s and %s can return a nil error at %s (the remaining elements are skipped and the block is still committed)", where, fname(f), c.ipos(rt)))
					break
				}
			}
		}
	}
	return out
}

// ruleLoopCompletes: every loop around the calls to `anchor` in root's family runs to its bound.
func ruleLoopCompletes(c *Ctx, r *Report, rule string, root *ssa.Function, anchor, what string) int {
	n := 0
	seen := map[*ssa.BasicBlock]bool{}
	for _, ci := range c.findCallsFam(root, anchor) {
		var site ssa.Instruction = ci
		for depth := 0; depth < 5 && site != nil; depth++ {
			f := site.Parent()
			for _, l := range naturalLoops(f) {
				if !l.blocks[site.Block()] || seen[l.header] {
					continue
				}
				seen[l.header] = true
				n++
				cons := fmt.Sprintf("%s: loop #%d around %s", strings.Join(c.ownerNames(f), "/"), n, shortName(anchor))
				probs := c.loopExitProblems(f, l)
				if len(probs) == 0 {
					r.ok(rule, cons, c.ipos(firstPosInstr(l.header)), what+": left only by its bound test or by a return with a non-nil error")
				} else {
					r.viol(rule, cons, c.ipos(firstPosInstr(l.header)), what+": "+strings.Join(probs, "; "))
				}
			}
			if f == root {
				break
			}
			// go up: the closure's or helper's single call site
			if f.Parent() != nil {
				up := c.liftSite(site, f.Parent())
				if up == nil || up == site {
					break
				}
				site = up
				continue
			}
			if !isNewHelper(f) {
				break
			}
			cs := c.familyCallSites(f)
			if len(cs) != 1 {
				break
			}
			site = cs[0]
		}
	}
	return n
}

func shortName(n string) string {
	if i := strings.LastIndex(n, "."); i >= 0 {
		return n[i+1:]
	}
	return n
}

// eraGuardSkips: the edges by which an era test (ordering or equality against a constant) skips block xb.
func eraGuardSkips(xb *ssa.BasicBlock) map[[2]int]bool {
	out := map[[2]int]bool{}
	for d := xb.Idom(); d != nil; d = d.Idom() {
		cond, t, f := condEdge(d)
		if cond == nil {
			continue
		}
		bo, ok := cond.(*ssa.BinOp)
		if !ok {
			continue
		}
		if !isEraBound(bo.X) && !isEraBound(bo.Y) {
			continue
		}
		switch bo.Op {
		case token.LSS, token.LEQ, token.GTR, token.GEQ:
		default:
			continue
		}
		tIn, fIn := blockOrDom(t, xb), blockOrDom(f, xb)
		if tIn && !fIn {
			out[[2]int{d.Index, f.Index}] = true
		} else if fIn && !tIn {
			out[[2]int{d.Index, t.Index}] = true
		}
	}
	return out
}

// rulePassThrough: in root, every return that can report success has executed a call to `callee` (made in root or in
// a helper split off from it); an activation test around the call is the only accepted way past it.
func rulePassThrough(c *Ctx, r *Report, rule string, root *ssa.Function, callee, what, consequence string) {
	cons := fmt.Sprintf("%s: %s on every successful path", fname(root), shortName(callee))
	avoid := map[*ssa.BasicBlock]bool{}
	skip := map[[2]int]bool{}
	var first ssa.Instruction
	for _, ci := range c.findCallsFam(root, callee) {
		s := c.liftSite(ci, root)
		if s == nil {
			continue
		}
		// a deferred or go'd call does not execute here
		if _, isCall := s.(*ssa.Call); !isCall {
			continue
		}
		avoid[s.Block()] = true
		if first == nil {
			first = s
		}
		for k := range eraGuardSkips(s.Block()) {
			skip[k] = true
		}
	}
	if len(avoid) == 0 {
		r.viol(rule, cons, c.pos(root.Pos()), what+": no call to "+shortName(callee)+" is left in "+fname(root)+"; "+consequence)
		return
	}
	seen := map[*ssa.BasicBlock]bool{root.Blocks[0]: true}
	st := []*ssa.BasicBlock{root.Blocks[0]}
	if avoid[root.Blocks[0]] {
		st = nil
	}
	for len(st) > 0 {
		b := st[len(st)-1]
		st = st[:len(st)-1]
		for _, s := range b.Succs {
			if seen[s] || avoid[s] || skip[[2]int{b.Index, s.Index}] {
				continue
			}
			seen[s] = true
			st = append(st, s)
		}
	}
	for b := range avoid {
		delete(seen, b)
	}
	for _, rt := range returnsIn(seen) {
		if c.mayReportSuccess(rt) {
			r.viol(rule, cons, c.ipos(rt), fmt.Sprintf("%s: the return at %s can report success without %s having been called; %s", what, c.ipos(rt), shortName(callee), consequence))
			return
		}
	}
	r.ok(rule, cons, c.ipos(first), what)
}

// isEraBound: a constant, or the value of a package-level variable (the activation heights are variables of package
// config).
func isEraBound(v ssa.Value) bool {
	v = unwrapConv(v)
	if _, ok := v.(*ssa.Const); ok {
		return true
	}
	if u, ok := v.(*ssa.UnOp); ok && u.Op == token.MUL {
		_, isG := u.X.(*ssa.Global)
		return isG
	}
	return false
}

// edgeReturnsNonNil: the edge from->b leads (through blocks that do nothing else) to a return whose error result is a
// phi, and the value that phi takes on this edge is a non-nil error (`failed = err; break` ... `return failed`).
func (c *Ctx) edgeReturnsNonNil(from, b *ssa.BasicBlock) bool {
	errIdx := errResultIndex(b.Parent().Signature)
	if errIdx < 0 {
		return false
	}
	cur, prev := b, from
	edgeVal := map[*ssa.Phi]ssa.Value{}
	edgePred := map[*ssa.Phi]*ssa.BasicBlock{}
	for hop := 0; hop < 4; hop++ {
		idx := -1
		for i, p := range cur.Preds {
			if p == prev {
				idx = i
			}
		}
		for _, ins := range cur.Instrs {
			switch x := ins.(type) {
			case *ssa.Phi:
				if idx >= 0 {
					v := x.Edges[idx]
					if ph, ok := v.(*ssa.Phi); ok {
						if ev, ok := edgeVal[ph]; ok {
							v = ev
						}
					}
					edgeVal[x] = v
					if _, had := edgePred[x]; !had {
						edgePred[x] = prev
					}
					if ph, ok := x.Edges[idx].(*ssa.Phi); ok {
						if pp, ok := edgePred[ph]; ok {
							edgePred[x] = pp
						}
					}
				}
			case *ssa.DebugRef, *ssa.RunDefers, *ssa.Jump:
			case *ssa.Return:
				op := resolveSpill(x.Results[errIdx])
				if ph, ok := op.(*ssa.Phi); ok {
					if v, ok := edgeVal[ph]; ok {
						return c.errNonNilOnEdge(v, edgePred[ph], ph.Block()) || c.errNonNilAt(v, edgePred[ph], 0)
					}
				}
				return false
			default:
				return false
			}
		}
		if len(cur.Succs) != 1 {
			return false
		}
		prev, cur = cur, cur.Succs[0]
	}
	return false
}

// errNonNilOnEdge: block from ends in a nil test of v and to is the successor taken when v is not nil
// (`if err != nil { break }` compiled to a direct edge into the block after the loop).
func (c *Ctx) errNonNilOnEdge(v ssa.Value, from, to *ssa.BasicBlock) bool {
	if from == nil || to == nil {
		return false
	}
	if _, ok := v.(ssa.Instruction); !ok {
		return false
	}
	for _, t := range nilTestsOf(c, v) {
		if t.If.Block() == from && t.S == to && t.N != to {
			return true
		}
	}
	return false
}
