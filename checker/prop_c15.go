package main

import (
	"fmt"
	"go/constant"
	"math"
	"strings"

	"golang.org/x/tools/go/ssa"
)

func init() { props["C15"] = propC15 }

func propC15(c *Ctx, r *Report) {
	r.Explain = "Decision tables by specialised constant propagation over every height class (intervals between and points at all activation constants, both residues mod 144): which of the scheduled issuance functions are executable at a height and with which height argument - MintTokensForBalance only at V204EnhanceActivation, NullifyMintedTokens only at V204BurnMintedTokenActivation, NullifyBurnAddress only when the next height is V20DevRewardsHeightActivation or V202EnhanceActivation (old burn address with history rows before 2.0.2, global burn address without from it), DevelopersPayouts iff height >= V20DevRewardsHeightActivation and height %% 144 == 0. Constant evaluation of the developer reward for each literal percentage in both eras (float64 semantics), totals 2,000 PEG resp. 2,000 x 144 PEG, percentages sum to 100, one PEG credit per developer. Who-may-call: the one-time mutators have no other call site. Mint table: no duplicate ticker, amounts fit uint64 after x1e8."
	r.NotDec = "the amounts of the 2.0.4 mint are the specification (table literal); effects of a fault during these functions (C10 findings)"
	r.Trusted = []string{"mainnet activation constants as initialised in config/activations.go (the --testing overrides are outside the table)", "go/ssa", "go/constant arithmetic; float64 operations evaluated in IEEE double"}
	e := newEraCtx(c, r)
	r.rule("C15/era-table", 5, "scheduled issuance functions executable exactly at their heights")
	e.evalRows(r, e.rowsC15(r))
	// exactly once: the block (with its one-time adjustments at the top of SyncBlock) is not applied a second time on
	// the transaction a failed attempt already wrote into
	ruleOneAttemptPerTx(c, r, "C15/one-attempt-per-tx")

	// NullifyBurnAddress internals by era
	r.rule("C15/burn-address", 2, "burn-address zeroing uses the address and history rows of its era")
	nb := c.fn("node.Pegnetd.NullifyBurnAddress")
	for _, h := range []uint32{e.a.get("V20DevRewardsHeightActivation"), e.a.get("V202EnhanceActivation")} {
		sc := &Scenario{Params: map[string]AVal{"type:uint32": hconst(h)}, MaxDepth: 1}
		t := newSCCP(c, sc).analyse(nb, nil)
		r.Scen++
		// which address string reaches NewFAAddress: by value (the initial values of the two address variables), so that
		// selecting it through a helper or a local makes no difference
		inits := c.globalInits()
		nameOf := map[string]string{}
		for _, gn := range []string{"GlobalOldBurnAddress", "GlobalBurnAddress", "GlobalMintAddress"} {
			if g, ok := c.pkg("node").Members[gn].(*ssa.Global); ok {
				if v, ok := inits[g]; ok {
					nameOf[v.String()] = "node." + gn
				}
			}
		}
		addr := map[string]bool{}
		for _, lc := range t.CallsTo("NewFAAddress") {
			if n, ok := nameOf[lc.Args[0].String()]; ok {
				addr[n] = true
			} else {
				addr[valuePath(lc.Instr.Common().Args[0])] = true
			}
		}
		wantAddr := "node.GlobalOldBurnAddress"
		wantHist := true
		if e.a.v202(h) {
			wantAddr, wantHist = "node.GlobalBurnAddress", false
		}
		gotHist := t.Live("InsertZeroingCoinbase")
		okk := len(addr) == 1 && addr[wantAddr] && gotHist == wantHist && t.Live("SubFromBalance")
		r.check(okk, "C15/burn-address", fmt.Sprintf("NullifyBurnAddress at height %d", h), c.pos(nb.Pos()),
			fmt.Sprintf("address %s, history rows %v, SubFromBalance per ticker", wantAddr, wantHist),
			fmt.Sprintf("expected address %s and history rows=%v; code uses %v, history rows=%v, SubFromBalance live=%v", wantAddr, wantHist, keys(addr), gotHist, t.Live("SubFromBalance")))
	}

	ruleDevRewards(c, r, e, "C15/dev-rewards")
	pcts := devPctLiterals(c)
	dp := c.fn("node.Pegnetd.DevelopersPayouts")
	perBlock := 2000.0 * 1e8

	// configuration variants: activations aligned with the 144-block cadence (the property quantifies over
	// every alignment; mainnet's are all unaligned)
	r.rule("C15/alignment-variants", 3, "the same tables when an activation height is itself a multiple of 144")
	for _, v := range []struct {
		name string
		ov   map[string]uint32
	}{
		{"V202EnhanceActivation aligned (274032)", map[string]uint32{"V202EnhanceActivation": 274032, "OneWaySmallAssetsConversions": 274032}},
		{"V20DevRewardsHeightActivation aligned (260064)", map[string]uint32{"V20DevRewardsHeightActivation": 260064, "SprSignatureActivation": 260064}},
		{"V204 mint and burn aligned (288864, 294192)", map[string]uint32{"V204EnhanceActivation": 288864, "V204BurnMintedTokenActivation": 294192}},
	} {
		ev := newEraCtxVariant(c, r, v.ov)
		rr := newReport("tmp", c.Tier)
		ev.evalRows(rr, ev.rowsC15(rr))
		r.Scen += rr.Scen
		var bad []string
		for _, o := range rr.Obls {
			if o.Status == VIOL {
				bad = append(bad, o.Construct+": "+o.Detail)
			}
		}
		// developer amounts around the (possibly aligned) 2.0.2 activation: a payout AT the activation height is x144
		v202 := ev.a.get("V202EnhanceActivation")
		for _, h := range []uint32{v202 - v202%144, v202 - v202%144 + 144} {
			if !ev.a.devPayout(h) {
				continue
			}
			var total uint64
			okAll := true
			for _, p := range pcts {
				sc := &Scenario{Params: map[string]AVal{"type:uint32": hconst(h)}, Paths: map[string]AVal{"node.DevReward.DevRewardPct": {K: AConst, C: constant.MakeFloat64(p)}}, MaxDepth: 1, Globals: ev.globals}
				t := newSCCP(c, sc).analyse(dp, nil)
				r.Scen++
				calls := t.CallsTo("AddToBalance")
				if len(calls) != 1 {
					okAll = false
					continue
				}
				amt, ok := calls[0].Args[4].intVal()
				if !ok {
					okAll = false
				}
				total += uint64(amt)
			}
			want := uint64(perBlock)
			if h >= v202 {
				want *= 144
			}
			if !okAll || total != want {
				bad = append(bad, fmt.Sprintf("developer payout at height %d totals %d, expected %d", h, total, want))
			}
		}
		if len(bad) > 3 {
			bad = bad[:3]
		}
		r.check(len(bad) == 0, "C15/alignment-variants", v.name, "-", "era table and developer totals agree with the oracle", strings.Join(bad, "; "))
	}

	r.rule("C15/no-carried-state", 1, "scheduled issuance depends on the height and the database only")
	// the burn of the minted supply touches exactly the minted tickers: address = the mint address, ticker = the
	// table entry's, amount = the balance read for that ticker
	ruleMintBurnScope(c, r, "C15/mint-burn-scope")
	// the statements of the scheduled adjustments can succeed: no parameter that database/sql refuses
	ruleU64Params(c, r, "C15/statements-can-succeed", reachOf(c, "node.Pegnetd.MintTokensForBalance", "node.Pegnetd.NullifyMintedTokens", "node.Pegnetd.NullifyBurnAddress", "node.Pegnetd.DevelopersPayouts"), 3)
	ruleNoCarriedReads(c, newSharedAnalysis(c), r, "C15/no-carried-state", reachOf(c, "node.Pegnetd.MintTokensForBalance", "node.Pegnetd.NullifyMintedTokens", "node.Pegnetd.NullifyBurnAddress", "node.Pegnetd.DevelopersPayouts"), carriedAllowedSync, "scheduled issuance")

	// who may call the one-time mutators
	r.rule("C15/one-time-callers", 3, "one-time mutators are called from their scheduled site only")
	for _, spec := range []struct {
		fn, caller string
		n          int
	}{
		{"node.Pegnetd.MintTokensForBalance", "node.Pegnetd.SyncBlock", 1},
		{"node.Pegnetd.NullifyMintedTokens", "node.Pegnetd.SyncBlock", 1},
		{"node.Pegnetd.NullifyBurnAddress", "node.Pegnetd.DBlockSync", 2},
		{"node.Pegnetd.DevelopersPayouts", "node.Pegnetd.SyncBlock", 1},
	} {
		f := c.fn(spec.fn)
		sites := c.callSitesOf(f)
		bad := ""
		for _, s := range sites {
			// the scheduled site, or a closure/stage of it (keyed by the owning reference function)
			owned := false
			for _, on := range c.ownerNames(s.Caller) {
				if on == spec.caller {
					owned = true
				}
			}
			if fname(s.Caller) != spec.caller && !owned {
				bad += fmt.Sprintf("called from %s at %s; ", fname(s.Caller), c.ipos(s.Site))
			}
		}
		if len(sites) != spec.n {
			bad += fmt.Sprintf("%d call sites, expected %d", len(sites), spec.n)
		}
		// function values (address taken) would bypass the table
		for _, ed := range c.In[f] {
			if ed.Kind == "fnvalue" {
				bad += "function value taken in " + fname(ed.Caller)
			}
		}
		r.check(bad == "", "C15/one-time-callers", fname(f), c.pos(f.Pos()), fmt.Sprintf("%d call site(s), all in %s", len(sites), spec.caller), bad)
	}

	// mint table sanity
	r.rule("C15/mint-table", 1, "2.0.4 mint table: unique tickers, amounts fit")
	mintTableCheck(c, r)
}

func keys(m map[string]bool) []string {
	var s []string
	for k := range m {
		s = append(s, k)
	}
	return s
}

func mintTableCheck(c *Ctx, r *Report) {
	seen := map[int64]int{}
	n := 0
	bad := ""
	for _, f := range c.Funcs {
		if f.Name() != "init" || f.Pkg == nil || f.Pkg.Pkg.Name() != "node" {
			continue
		}
		tick := map[int64]int64{}
		amt := map[int64]uint64{}
		allInstrs(f, func(ins ssa.Instruction) {
			st, ok := ins.(*ssa.Store)
			if !ok {
				return
			}
			fa, ok := st.Addr.(*ssa.FieldAddr)
			if !ok {
				return
			}
			ia, ok := fa.X.(*ssa.IndexAddr)
			if !ok {
				return
			}
			stt := derefStruct(fa.X.Type())
			k, okc := st.Val.(*ssa.Const)
			ic, oki := ia.Index.(*ssa.Const)
			if stt == nil || !okc || !oki || k.Value == nil {
				return
			}
			if n, ok := ia.X.Type().Underlying().(interface{ String() string }); ok {
				_ = n
			}
			if namedShort(fa.X.Type()) != "node.MintSupply" {
				return
			}
			switch stt.Field(fa.Field).Name() {
			case "Ticker":
				tick[ic.Int64()] = k.Int64()
			case "Amount":
				amt[ic.Int64()] = k.Uint64()
			}
		})
		for i, t := range tick {
			n++
			seen[t]++
			if seen[t] > 1 {
				bad += fmt.Sprintf("ticker %d listed twice; ", t)
			}
			if t < 1 || t > 62 {
				bad += fmt.Sprintf("entry %d has invalid ticker %d; ", i, t)
			}
			if a := amt[i]; a > math.MaxUint64/100000000 {
				bad += fmt.Sprintf("entry %d amount %d overflows uint64 after x1e8; ", i, a)
			}
		}
	}
	r.check(bad == "" && n > 0, "C15/mint-table", "node.MintTotalSupplyMap", "-", fmt.Sprintf("%d entries, unique valid tickers, amounts x1e8 fit uint64", n), bad+fmt.Sprintf("(%d entries)", n))
	// the mint credits Amount*1e8 of the same entry's ticker
	mt := c.fn("node.Pegnetd.MintTokensForBalance")
	okk := false
	for _, ci := range findCalls(mt, "pegnet.Pegnet.AddToBalance") {
		args := ci.Common().Args
		bo, ok := args[4].(*ssa.BinOp)
		// by the declaring type, not by the name of the loop variable: Amount and Ticker of the same MintSupply element
		sameElem := false
		if ok {
			ra, rt := elemRoots(bo.X), elemRoots(args[3])
			sameElem = len(ra) > 0 && len(rt) > 0 && ra[0] == rt[0]
			if !sameElem {
				sameElem = valuePath(bo.X) != "" && strings.TrimSuffix(valuePath(bo.X), ".Amount") == strings.TrimSuffix(valuePath(args[3]), ".Ticker")
			}
		}
		if ok && sameElem && typePath(bo.X) == "node.MintSupply.Amount" && typePath(args[3]) == "node.MintSupply.Ticker" {
			if k, ok := bo.Y.(*ssa.Const); ok && k.Uint64() == 100000000 {
				okk = true
			}
		}
	}
	r.check(okk, "C15/mint-table", "mint credits Amount x 1e8 of the entry's own ticker", c.pos(mt.Pos()), "", "MintTokensForBalance does not credit tokenSupply.Amount*1e8 of tokenSupply.Ticker")
}

// tableWriters: module functions that (transitively) issue a write on table.
func tableWriters(c *Ctx, cat *SQLCat, table string) map[*ssa.Function]bool {
	w := map[*ssa.Function]bool{}
	for _, st := range cat.Stmts {
		if st.Table == table && st.isWrite() && st.Verb != "CREATE" && st.Verb != "CREATE-INDEX" && st.Verb != "ALTER" {
			w[st.Fn] = true
		}
	}
	for changed := true; changed; {
		changed = false
		for _, f := range c.Funcs {
			if w[f] {
				continue
			}
			for _, e := range c.CG[f] {
				if w[e.Callee] {
					w[f] = true
					changed = true
					break
				}
			}
		}
	}
	return w
}

// poolReaders: functions that (transitively) SELECT from table through the connection pool.
func poolReaders(c *Ctx, cat *SQLCat, table string) map[*ssa.Function]bool {
	p := map[*ssa.Function]bool{}
	qaSel := map[*ssa.Function]bool{}
	for _, st := range cat.Stmts {
		if st.Table != table || st.Verb != "SELECT" {
			continue
		}
		if st.Recv == "DB" {
			p[st.Fn] = true
		} else if st.Recv == "QA" {
			qaSel[st.Fn] = true
		}
	}
	for f := range qaSel {
		idx := qaParamIndex(f)
		for _, e := range c.In[f] {
			if ci, ok := e.Site.(ssa.CallInstruction); ok && e.Kind == "static" && idx >= 0 && idx < len(ci.Common().Args) {
				if classifyQAArg(ci.Common().Args[idx]) == "DB" {
					p[e.Caller] = true
				}
			}
		}
	}
	for changed := true; changed; {
		changed = false
		for _, f := range c.Funcs {
			if p[f] {
				continue
			}
			for _, e := range c.CG[f] {
				if p[e.Callee] {
					p[f] = true
					changed = true
					break
				}
			}
		}
	}
	return p
}

func init() {
	prev := props["C15"]
	props["C15"] = func(c *Ctx, r *Report) {
		prev(c, r)
		e := newEraCtx(c, r)
		cat := buildSQLCat(c)
		// must-execute in the no-fault scenario
		r.rule("C15/must-execute", 3, "at its scheduled heights the issuance call lies on every non-failing path through SyncBlock")
		for _, spec := range []struct {
			callee string
			when   func(h uint32) bool
		}{{"MintTokensForBalance", e.a.mint}, {"NullifyMintedTokens", e.a.burnMint}, {"DevelopersPayouts", e.a.devPayout}} {
			bad := ""
			n := 0
			var pos string
			for _, h := range e.reps {
				if !spec.when(h) {
					continue
				}
				n++
				r.Scen++
				t := e.syncBlockNoFault(h)
				calls := t.CallsTo(spec.callee)
				if len(calls) == 0 {
					bad = fmt.Sprintf("h=%d: %s is not executable although no error occurs", h, spec.callee)
					break
				}
				pos = c.ipos(calls[0].Instr)
				if m := mustPassDeep(t.Root, calls[0].Instr); m != "" { // the call may sit in a stage or step split off from SyncBlock
					bad = fmt.Sprintf("h=%d: %s can be skipped without any error: %s", h, spec.callee, m)
					break
				}
			}
			r.check(bad == "" && n > 0, "C15/must-execute", spec.callee+" unconditional at its heights", pos, fmt.Sprintf("%d scheduled height classes: on every non-failing path", n), bad)
		}
		// adjustments that read committed balances must precede every balance write of the block
		r.rule("C15/adjust-on-committed-balances", 1, "a step that reads balances through the pool and then writes them in the tx runs before any other balance write of the block")
		wr := tableWriters(c, cat, "pn_addresses")
		pr := poolReaders(c, cat, "pn_addresses")
		for _, root := range []struct {
			fn    *ssa.Function
			trace func(h uint32) *Trace
		}{{c.fn("node.Pegnetd.SyncBlock"), e.syncBlockNoFault}, {c.Sync, e.dblockSync}} {
			for _, ci := range callsOf(root.fn) {
				F := ci.Common().StaticCallee()
				if F == nil || !fnInModule(F) || !wr[F] || !pr[F] {
					continue
				}
				// F debits an amount that it read through the pool: stale-read hazard
				if !debitsPoolReadAmount(c, F, pr) {
					continue
				}
				bad := ""
				n := 0
				for _, h := range e.reps {
					t := root.trace(h)
					var fcalls []LiveCall
					for _, lc := range t.Calls {
						if lc.Depth == 0 && lc.Instr == ci {
							fcalls = append(fcalls, lc)
						}
					}
					if len(fcalls) == 0 {
						continue
					}
					n++
					r.Scen++
					for _, lc := range t.Calls {
						if lc.Depth != 0 || lc.Instr == ci {
							continue
						}
						G := lc.Instr.Common().StaticCallee()
						if G == nil || !wr[G] {
							continue
						}
						if execReachesSameTx(t.Root, lc.Instr, ci) {
							bad = fmt.Sprintf("h=%d: %s (writes pn_addresses in the block's tx) can run before %s, which reads balances through the connection pool (committed state) and subtracts them in the tx: the amounts read are stale", h, lc.Short, fname(F))
						}
					}
				}
				if n > 0 {
					r.check(bad == "", "C15/adjust-on-committed-balances", fmt.Sprintf("%s called from %s", fname(F), fname(root.fn)), c.ipos(ci), fmt.Sprintf("%d live height classes: no balance write of the block precedes it", n), bad)
				}
			}
		}
	}
}

// debitsPoolReadAmount: F calls SubFromBalance with an amount data-dependent on the result of a pool read of balances.
func debitsPoolReadAmount(c *Ctx, F *ssa.Function, pr map[*ssa.Function]bool) bool {
	sub := c.fn("pegnet.Pegnet.SubFromBalance")
	found := false
	for _, ci := range callsOf(F) {
		call, ok := ci.(*ssa.Call)
		if !ok {
			continue
		}
		sc := call.Call.StaticCallee()
		if sc == nil || !pr[sc] {
			continue
		}
		// forward data slice of the read result
		D := map[ssa.Value]bool{call: true}
		work := []ssa.Value{call}
		for len(work) > 0 {
			v := work[len(work)-1]
			work = work[:len(work)-1]
			if v.Referrers() == nil {
				continue
			}
			for _, rf := range *v.Referrers() {
				switch x := rf.(type) {
				case *ssa.Extract, *ssa.Lookup, *ssa.Phi, *ssa.Convert, *ssa.ChangeType, *ssa.BinOp, *ssa.Index, *ssa.Field, *ssa.UnOp:
					if val := x.(ssa.Value); !D[val] {
						D[val] = true
						work = append(work, val)
					}
				case *ssa.Call:
					if x.Call.StaticCallee() == sub {
						for _, a := range x.Call.Args {
							if D[a] {
								found = true
							}
						}
					}
				}
			}
		}
	}
	return found
}

// execReachesSameTx: like execReaches but paths may not pass a block that begins a new transaction.
func execReachesSameTx(st *fnState, a, b ssa.Instruction) bool {
	begin := map[*ssa.BasicBlock]bool{}
	allInstrs(st.fn, func(ins ssa.Instruction) {
		if ci, ok := ins.(ssa.CallInstruction); ok {
			n := calleeName(ci.Common())
			if n == "database/sql.DB.BeginTx" || n == "database/sql.DB.Begin" {
				begin[ins.Block()] = true
			}
		}
	})
	if a.Block() == b.Block() && instrIndex(a) < instrIndex(b) {
		return true
	}
	seen := map[*ssa.BasicBlock]bool{}
	stack := []*ssa.BasicBlock{a.Block()}
	for len(stack) > 0 {
		x := stack[len(stack)-1]
		stack = stack[:len(stack)-1]
		for _, sc := range x.Succs {
			if !st.execE[[2]int{x.Index, sc.Index}] || seen[sc] {
				continue
			}
			if sc == b.Block() {
				if begin[sc] {
					// b after BeginTx in the same block: new transaction
					continue
				}
				return true
			}
			seen[sc] = true
			if begin[sc] {
				continue
			}
			stack = append(stack, sc)
		}
	}
	return false
}

// payout heights (multiples of 144) adjacent to an activation: the function is only ever called at those
func lastPayoutBelow(a uint32) uint32 {
	h := a - a%144
	if h >= a {
		h -= 144
	}
	if h == a {
		h -= 144
	}
	return h
}

func firstPayoutFrom(a uint32) uint32 {
	if a%144 == 0 {
		return a
	}
	return a - a%144 + 144
}

// ruleDevRewards: developer reward per table entry and totals in both eras, by constant evaluation (shared with C04).
func ruleDevRewards(c *Ctx, r *Report, e *eraCtx, rule string) {
	// developer rewards: constant evaluation
	r.rule(rule, 4, "developer reward per table entry and totals, both eras")
	pcts := devPctLiterals(c)
	dp := c.fn("node.Pegnetd.DevelopersPayouts")
	sumPct := 0.0
	for _, p := range pcts {
		sumPct += p
	}
	r.check(len(pcts) >= 1 && math.Abs(sumPct-100) < 1e-9, rule, "developer percentages sum to 100", c.pos(dp.Pos()), fmt.Sprintf("%d entries, sum %.4f", len(pcts), sumPct), fmt.Sprintf("%d entries sum to %.6f", len(pcts), sumPct))
	perBlock := 2000.0 * 1e8
	for _, era := range []struct {
		name  string
		h     uint32
		total uint64
	}{{"before 2.0.2", lastPayoutBelow(e.a.get("V202EnhanceActivation")), uint64(perBlock)}, {"from 2.0.2", firstPayoutFrom(e.a.get("V202EnhanceActivation")), uint64(perBlock) * 144}} {
		var total uint64
		bad := ""
		for i, p := range pcts {
			sc := &Scenario{Params: map[string]AVal{"type:uint32": hconst(era.h)}, Paths: map[string]AVal{"node.DevReward.DevRewardPct": {K: AConst, C: constant.MakeFloat64(p)}}, MaxDepth: 1}
			t := newSCCP(c, sc).analyse(dp, nil)
			r.Scen++
			calls := t.CallsTo("AddToBalance")
			if len(calls) != 1 {
				bad = fmt.Sprintf("entry %d: %d AddToBalance call sites live (want 1)", i, len(calls))
				break
			}
			amt, ok := calls[0].Args[4].intVal()
			tick, _ := calls[0].Args[3].intVal()
			want := uint64(math.Round(float64(era.total) * p / 100))
			if !ok || uint64(amt) != want {
				bad = fmt.Sprintf("entry %d (%.2f%%): credited %s, expected %d", i, p, calls[0].Args[4], want)
				break
			}
			if tick != 1 {
				bad = fmt.Sprintf("entry %d: credited ticker %s, expected PEG", i, calls[0].Args[3])
				break
			}
			// history row carries the same amount
			for _, hc := range t.CallsTo("InsertDeveloperRewardCoinbase") {
				if v, ok := hc.Args[6].intVal(); !ok || uint64(v) != want {
					bad = fmt.Sprintf("entry %d: history row amount %s differs from credited %d", i, hc.Args[6], want)
				}
			}
			total += uint64(amt)
		}
		if bad == "" && total != era.total {
			bad = fmt.Sprintf("total credited %d, expected %d", total, era.total)
		}
		r.check(bad == "", rule, "developer rewards "+era.name, c.pos(dp.Pos()), fmt.Sprintf("%d credits, total %d PEG-units, each = pct x total, history row = credit", len(pcts), total), bad)
	}
	// exactly one AddToBalance per developer iteration: structural (one call site inside the range loop)
	nAdd := len(findCalls(dp, "pegnet.Pegnet.AddToBalance"))
	r.check(nAdd == 1, rule, "one credit call site in DevelopersPayouts", c.pos(dp.Pos()), "", fmt.Sprintf("%d AddToBalance call sites", nAdd))

}

// ruleMintBurnScope: NullifyMintedTokens debits the mint table's tickers only (shared with C04).
func ruleMintBurnScope(c *Ctx, r *Report, rule string) {
	r.rule(rule, 1, "NullifyMintedTokens debits the mint table's tickers only")
	{
		nm := c.fn("node.Pegnetd.NullifyMintedTokens")
		subs := c.findCallsFam(nm, "pegnet.Pegnet.SubFromBalance")
		var bad []string
		if len(subs) != 1 {
			bad = append(bad, fmt.Sprintf("%d SubFromBalance call sites", len(subs)))
		} else {
			a := subs[0].Common().Args
			if typePath(a[3]) != "node.MintSupply.Ticker" {
				bad = append(bad, "the ticker debited is not the Ticker of a mint-table entry but "+stablePath(a[3], 0)+": balances of assets that were never minted are burned as well")
			}
			if !sliceHas(a[2], func(v ssa.Value) bool {
				call, ok := v.(*ssa.Call)
				return ok && shortCallee(call.Common()) == "NewFAAddress" && valuePath(call.Call.Args[0]) == "node.GlobalMintAddress"
			}) {
				bad = append(bad, "the address debited is not NewFAAddress(GlobalMintAddress)")
			}
			lk, _ := a[4].(*ssa.Lookup)
			if ex, ok := a[4].(*ssa.Extract); ok {
				lk, _ = ex.Tuple.(*ssa.Lookup)
			}
			if lk == nil || unwrapConv(lk.Index) != unwrapConv(a[3]) || !sliceHas(lk.X, func(v ssa.Value) bool { return isCallTo(v, "SelectBalances") }) {
				bad = append(bad, "the amount debited is not the balance read for that ticker")
			}
		}
		r.check(len(bad) == 0, rule, "NullifyMintedTokens", c.pos(nm.Pos()), "SubFromBalance(mint address, entry.Ticker, balances[entry.Ticker]) per mint-table entry", strings.Join(bad, "; "))
	}
}
