package main

// Rules added for the ninth seeded wave, and the registrations that share existing rules with the property a
// change was written for.  DESIGN.md §9.3.

import (
	"fmt"
	"go/token"
	"regexp"
	"sort"
	"strings"

	"golang.org/x/tools/go/ssa"
)

func init() {
	wrap := func(id string, more func(c *Ctx, r *Report)) {
		prev := props[id]
		props[id] = func(c *Ctx, r *Report) {
			prev(c, r)
			more(c, r)
		}
	}
	wrap("C01", func(c *Ctx, r *Report) {
		ruleNoRecover(c, r, "C01/no-recover")
	})
	wrap("C02", func(c *Ctx, r *Report) {
		ruleRowsIteration(c, r, "C02-R14/reads-complete")
	})
	wrap("C03", func(c *Ctx, r *Report) {
		ruleNoCarriedReads(c, newSharedAnalysis(c), r, "C03-R19/no-carried-state", c.RSync, carriedAllowedAverages, "block processing")
		ruleHoldingWindow(c, r, "C03-R20/holding-window")
	})
	wrap("C04", func(c *Ctx, r *Report) {
		winnerTable(c, r, newEraCtx(c, r), "C04-R21/winners-gate-execution")
	})
	wrap("C05", func(c *Ctx, r *Report) {
		shareRule(c, r, "C15", "C15/burn-address", "C05-R12/burn-address", "the one-time zeroing debits the burn address of its era only (no other address is debited without a signed batch)")
	})
	wrap("C06", func(c *Ctx, r *Report) {
		ruleScannedHeight(c, r, "C06-R13/window-bound-is-scanned-height")
		shareRule(c, r, "C16", "C16/era-table", "C06-R14/era-table", "a PEG request is credited by exactly one of recordBatch and the settlement in every height class")
	})
	wrap("C07", func(c *Ctx, r *Report) {
		ruleRatesReadComplete(c, r, "C07-R16/rates-read-complete")
		r.rule("C07-R17/cache-fill-errors", 1, "a failed rate read while filling the averaging window is not skipped")
		scope := map[*ssa.Function]bool{}
		for _, f := range c.family(c.fn("node.Pegnetd.GetPegNetRateAverages")) {
			scope[f] = true
		}
		runErrflow(c, computeEffects(c), r, scope, "C07-R17/cache-fill-errors", false)
	})
	wrap("C08", func(c *Ctx, r *Report) {
		ruleDecoderCallees(c, r, "C08/decoder-callees")
	})
	wrap("C09", func(c *Ctx, r *Report) {
		ruleAllLoopsComplete(c, r, "C09/burn-scan-completes", c.fn("node.Pegnetd.ApplyFactoidBlock"), "a block is committed with every burn it contains or not at all (a stop request does not cut the scan short without an error)")
		r.rule("C09/height-recorded-with-commit", 10, "typestate of the block transaction in the sync root: every commit is preceded by the height record")
		ruleTxTypestate(c, r, "C09/height-recorded-with-commit")
	})
	wrap("C11", func(c *Ctx, r *Report) {
		ruleNilGradeOnlyForAbsentBlock(c, r, "C11/graded-unless-absent")
	})
	wrap("C12", func(c *Ctx, r *Report) {
		ruleNoCarriedReads(c, newSharedAnalysis(c), r, "C12/no-carried-state", c.RSync, carriedAllowedAverages, "block processing")
	})
	wrap("C14", func(c *Ctx, r *Report) {
		ruleColumnOrder(c, r, "C14/column-order")
		shareRule(c, r, "C16", "C16/payouts-table", "C14/payouts-table", "the staking payouts are the values of the same Payouts(): full stake below the cap, proportional share otherwise - also when the stake total exceeds 64 bits")
	})
	wrap("C17", func(c *Ctx, r *Report) {
		ruleSettersAlwaysWrite(c, r, "C17-P17/setters-always-write")
		ruleHandlersStateless(c, newSharedAnalysis(c), r, "C17-P18/answers-not-memoised")
	})
	wrap("C18", func(c *Ctx, r *Report) {
		ruleHandlersStateless(c, newSharedAnalysis(c), r, "C18-R13/handlers-stateless")
	})
	wrap("C20", func(c *Ctx, r *Report) {
		ruleRawUntouched(c, r, "C20/raw-fields-untouched")
		ruleTickerDecodeChecked(c, r, "C20/ticker-decode-checked")
	})
}

// shareRule runs another property's check in a scratch report (once per process) and registers the obligations of
// one of its rules under this property's rule name.
var sharedRuns = map[string]*Report{}
var sharedRunning = map[string]bool{}

func shareRule(c *Ctx, r *Report, fromProp, fromRule, asRule, doc string) {
	src := sharedRuns[fromProp]
	if src == nil {
		if sharedRunning[fromProp] {
			r.undecided(asRule, "shared rule "+fromRule, "-", "cyclic sharing between properties")
			return
		}
		sharedRunning[fromProp] = true
		src = newReport(fromProp, r.Tier)
		props[fromProp](c, src)
		sharedRunning[fromProp] = false
		sharedRuns[fromProp] = src
	}
	floor := 1
	if rs := src.Rules[fromRule]; rs != nil && rs.Floor > 0 {
		floor = rs.Floor
	}
	r.rule(asRule, floor, doc)
	for _, o := range src.Obls {
		if o.Rule == fromRule {
			cp := *o
			cp.Rule = asRule
			r.add(&cp)
		}
	}
	r.Scen += src.Scen
}

// ruleNoRecover: nothing on the block path recovers a panic: a function that panics half-way leaves whatever it
// had written to memory behind (deferred functions run while the panic unwinds), and a recovered panic lets the
// same process go on with that state, where the crash it replaces made the restart rebuild it from the database.
var recoverAudited = map[string]string{
	"node.multiFetch": "a fetch worker that dies quietly when it sends on the results channel after multiFetch has returned and closed it; the worker writes nothing but the entry it was fetching, and multiFetch has already reported the first error",
}

func ruleNoRecover(c *Ctx, r *Report, rule string) {
	r.rule(rule, 1, "no recover() on the block path")
	n := 0
	for _, f := range sortedFuncs(c.RSync) {
		if !fnInModule(f) {
			continue
		}
		n++
		for _, ci := range callsOf(f) {
			if b, ok := ci.Common().Value.(*ssa.Builtin); ok && b.Name() == "recover" {
				audited := false
				for _, on := range c.ownerNames(f) {
					if why, ok := recoverAudited[on]; ok {
						r.audited(rule, fname(f)+" recovers a panic", c.ipos(ci), why)
						audited = true
						break
					}
				}
				if audited {
					continue
				}
				r.viol(rule, fname(f)+" recovers a panic", c.ipos(ci), "a panic raised while a block is applied is turned into an ordinary error: the block is rolled back and retried by the same process with the in-memory state the panicking call left behind (its deferred cache update included), so the retry does not see what a restarted daemon sees")
			}
		}
	}
	r.check(n > 0, rule, "functions on the block path", "-", fmt.Sprintf("%d functions examined", n), "no function on the block path")
}

// ruleRowsIteration: idiom I6 of the error rule for every reader on the block path, registered on its own.
func ruleRowsIteration(c *Ctx, r *Report, rule string) {
	r.rule(rule, 5, "every rows.Next() loop on the block path is followed by a handled rows.Err()")
	ef := &errflow{c: c, eff: computeEffects(c), sync: c.Sync}
	for _, f := range sortedFuncs(c.RSync) {
		if fnInModule(f) {
			ef.rowsIteration(f, r, rule)
		}
	}
}

// ruleScannedHeight: the height SelectMostRecentRatesBeforeHeight hands back with a nil error is the value its row
// scan wrote (zero only when no row was scanned): the holding executor starts its window there.
func ruleScannedHeight(c *Ctx, r *Report, rule string) {
	r.rule(rule, 1, "the most-recent-rates height is the scanned column on every successful return")
	f := c.fn("pegnet.Pegnet.SelectMostRecentRatesBeforeHeight")
	n := 0
	for _, g := range c.family(f) {
		if g != f && !(isNewHelper(g) && g.Signature.Results().Len() == f.Signature.Results().Len()) {
			continue
		}
		dests := map[*ssa.Alloc]bool{}
		for _, h := range c.family(g) { // the scan may sit in a closure that captures the variable
			for _, ci := range callsOf(h) {
				if calleeName(ci.Common()) != "database/sql.Rows.Scan" && calleeName(ci.Common()) != "database/sql.Row.Scan" {
					continue
				}
				args := ci.Common().Args
				for _, el := range varargElems(args[len(args)-1]) {
					v := el
					if mi, ok := v.(*ssa.MakeInterface); ok {
						v = mi.X
					}
					switch x := v.(type) {
					case *ssa.Alloc:
						dests[x] = true
					case *ssa.FreeVar:
						if al, _ := closureBinding(x); al != nil {
							dests[al] = true
						}
					}
				}
			}
		}
		allInstrs(g, func(ins ssa.Instruction) {
			ret, ok := ins.(*ssa.Return)
			if !ok || len(ret.Results) != 3 || !isNilConst(resolveSpill(ret.Results[2])) {
				return
			}
			n++
			v := unwrapConv(resolveSpill(ret.Results[1]))
			okk := false
			if u, isU := v.(*ssa.UnOp); isU && u.Op == token.MUL {
				if al, isA := u.X.(*ssa.Alloc); isA && dests[al] {
					okk = true
				}
			}
			if call, isCall := v.(*ssa.Extract); isCall {
				if cc, ok2 := call.Tuple.(*ssa.Call); ok2 {
					if sc := cc.Call.StaticCallee(); sc != nil && isNewHelper(sc) {
						okk = true // decided in the helper
					}
				}
			}
			r.check(okk, rule, fmt.Sprintf("%s successful return", fname(g)), c.ipos(ret), "height = the variable the row scan fills", "a successful return hands back "+stablePath(v, 0)+" as the height of the most recent rates, not the scanned column: the holding executor takes that height as the lower end of its window, so a made-up value (0 = 'never rated') makes it walk holding heights it has already considered, and batches rejected then are considered again")
		})
	}
	if n == 0 {
		r.viol(rule, "successful returns of SelectMostRecentRatesBeforeHeight", c.pos(f.Pos()), "no successful return found")
	}
}

// ruleDecoderCallees: the functions of other modules that the batch decoder calls with entry content are a
// closed, audited set - each was read for panics on arbitrary input.
var decoderCalleeAudit = map[string]string{
	"encoding/json.Unmarshal":                               "returns errors, never panics on input",
	"encoding/json.Marshal":                                 "encodes module types",
	"encoding/json.RawMessage.MarshalJSON":                  "copies bytes",
	"github.com/Factom-Asset-Tokens/factom/jsonlen.Compact": "byte scanner without arithmetic on values",
	"fmt.Errorf":      "formatting",
	"fmt.Sprintf":     "formatting",
	"errors.New":      "constructor",
	"strconv.Itoa":    "formatting",
	"bytes.Equal":     "comparison",
	"bytes.Compare":   "comparison",
	"math/bits.Add64": "carry arithmetic, total",
	"strings.Trim":    "total",
	"strings.ToLower": "total",
}

func ruleDecoderCallees(c *Ctx, r *Report, rule string) {
	r.rule(rule, 3, "functions of other modules called while decoding an entry are an audited set")
	root := c.fn("fat2.NewTransactionBatch")
	scope := map[*ssa.Function]bool{}
	var walk func(f *ssa.Function)
	walk = func(f *ssa.Function) {
		if scope[f] || !fnInModule(f) || f.Blocks == nil {
			return
		}
		// validation (signatures, addresses) is the business of C05; this rule is about turning bytes into the batch
		if n := fname(f); strings.Contains(n, ".Valid") || strings.HasSuffix(n, ".Validate") {
			return
		}
		scope[f] = true
		for _, e := range c.CG[f] {
			walk(e.Callee)
		}
	}
	walk(root)
	n := 0
	seen := map[string]bool{}
	for _, f := range sortedFuncs(scope) {
		for _, ci := range callsOf(f) {
			sc := ci.Common().StaticCallee()
			if sc == nil || fnInModule(sc) || sc.Pkg == nil {
				continue
			}
			name := calleeName(ci.Common())
			if sc.Pkg != nil && !strings.Contains(name, "/") && !strings.Contains(name, ".") {
				name = sc.Pkg.Pkg.Path() + "." + name
			}
			full := sc.Pkg.Pkg.Path() + "." + sc.Name()
			if sc.Signature.Recv() != nil {
				full = name
			}
			key := fname(f) + " -> " + full
			if seen[key] {
				continue
			}
			seen[key] = true
			n++
			why, ok := decoderCalleeAudit[full]
			if !ok {
				why, ok = decoderCalleeAudit[name]
			}
			if ok {
				r.ok(rule, key, c.ipos(ci), why)
			} else {
				r.viol(rule, key, c.ipos(ci), full+" is called while an entry anyone can write is decoded and has not been read for panics on arbitrary values (a helper that loops on a power of ten, divides, or indexes by a decoded number takes the sync goroutine down on every node, at every retry)")
			}
		}
	}
	r.Extra["decoder_scope_functions"] = len(scope)
	if n == 0 {
		r.viol(rule, "decoder callees", c.pos(root.Pos()), "no call into another module found in the decoder")
	}
}

// ruleNilGradeOnlyForAbsentBlock: Grade/GradeS hand back "no graded block, no error" only for a directory block
// without the chain (their parameter is nil): any other shortcut pays no winner of a block that has winners.
func ruleNilGradeOnlyForAbsentBlock(c *Ctx, r *Report, rule string) {
	r.rule(rule, 2, "Grade/GradeS return (nil, nil) only when there is no entry block")
	for _, fnName := range []string{"node.Pegnetd.Grade", "node.Pegnetd.GradeS"} {
		f := c.fn(fnName)
		var blockParam *ssa.Parameter
		for _, p := range f.Params {
			if strings.HasSuffix(p.Type().String(), "factom.EBlock") {
				blockParam = p
			}
		}
		n := 0
		var bad []string
		allInstrs(f, func(ins ssa.Instruction) {
			ret, ok := ins.(*ssa.Return)
			if !ok || len(ret.Results) != 2 || !isNilConst(resolveSpill(ret.Results[0])) || !isNilConst(resolveSpill(ret.Results[1])) {
				return
			}
			n++
			guarded := false
			for _, b := range f.Blocks {
				bo, _, eq := eqEdges(b)
				if bo == nil || eq == nil {
					continue
				}
				x, y := unwrapConv(bo.X), unwrapConv(bo.Y)
				isParamNil := (x == ssa.Value(blockParam) && isNilConst(y)) || (y == ssa.Value(blockParam) && isNilConst(x))
				if isParamNil && len(eq.Preds) == 1 && blockOrDom(eq, ret.Block()) {
					guarded = true
				}
			}
			if !guarded {
				bad = append(bad, "the return at "+c.ipos(ret)+" reports 'nothing to grade' for a block that exists")
			}
		})
		r.check(len(bad) == 0 && blockParam != nil, rule, fnName, c.pos(f.Pos()), fmt.Sprintf("%d (nil, nil) returns, all behind `block == nil`", n), strings.Join(bad, "; ")+": the block's records are never handed to the grader, so its winners (ten in the first grading version, whatever the number of records) are paid nothing and no rates are recorded")
	}
}

// ruleColumnOrder: the balance table and the two snapshot tables are copied into each other positionally
// (INSERT ... SELECT *), and a database created by an earlier release gets its newer columns from the migrations:
// the columns the migrations append, in the order they append them, are the tail of the column list of the
// CREATE TABLE template.
var alterAddRe = regexp.MustCompile(`(?is)alter\s+table\s+"?(\w+)"?\s+add\s+(?:column\s+)?"?(\w+)"?`)

func ruleColumnOrder(c *Ctx, r *Report, rule string) {
	r.rule(rule, 1, "columns appended by the migrations come in the order of the CREATE TABLE template")
	cat := buildSQLCat(c)
	t := cat.Tables["pn_addresses"]
	if t == nil {
		r.viol(rule, "pn_addresses definition", "-", "no CREATE TABLE for pn_addresses in the catalogue")
		return
	}
	type alt struct {
		pos token.Pos
		idx int
		col string
	}
	var alts []alt
	for i, st := range cat.Stmts {
		if st.Verb != "ALTER" {
			continue
		}
		m := alterAddRe.FindStringSubmatch(st.Text)
		if m == nil || m[1] != "pn_addresses" {
			continue
		}
		alts = append(alts, alt{st.Site.Pos(), i, strings.ToLower(m[2])})
	}
	sort.SliceStable(alts, func(i, j int) bool {
		if alts[i].pos != alts[j].pos {
			return alts[i].pos < alts[j].pos
		}
		return alts[i].idx < alts[j].idx
	})
	if len(alts) == 0 {
		r.viol(rule, "pn_addresses migrations", "-", "no ALTER TABLE pn_addresses ADD statement found")
		return
	}
	var cols []string
	for _, col := range t.Cols {
		cols = append(cols, strings.ToLower(col))
	}
	bad := ""
	if len(alts) > len(cols) {
		bad = "the migrations add more columns than the template has"
	} else {
		tail := cols[len(cols)-len(alts):]
		for i, a := range alts {
			if tail[i] != a.col {
				bad = fmt.Sprintf("column %d from the end of the template is %s, the migrations append %s there", len(alts)-i, tail[i], a.col)
				break
			}
		}
	}
	// the positional copies this matters for
	copies := 0
	for _, st := range cat.Stmts {
		if st.Verb == "INSERT" && strings.Contains(strings.ToLower(st.Text), "select *") {
			copies++
		}
	}
	r.check(bad == "", rule, "pn_addresses: template vs migrations", "-", fmt.Sprintf("%d appended columns in template order; %d positional copies depend on it", len(alts), copies), bad+": on a database upgraded in place the balance table and the snapshot tables then disagree on the position of these columns, and `INSERT ... SELECT *` files one asset's balance under another asset")
}

// ruleSettersAlwaysWrite: the history setters write their row on every path that reports success - whatever the
// amounts are (a zero PEG yield still has a refund output to record).
func ruleSettersAlwaysWrite(c *Ctx, r *Report, rule string) {
	r.rule(rule, 2, "the history amount setters execute their UPDATE on every successful path")
	cat := buildSQLCat(c)
	for _, name := range []string{"pegnet.Pegnet.SetTransactionHistoryConvertedAmount", "pegnet.Pegnet.SetTransactionHistoryPEGConvertedRequestAmount"} {
		root := c.fn(name)
		fam := map[*ssa.Function]bool{}
		for _, g := range c.family(root) {
			fam[g] = true
		}
		sites := map[*ssa.Function][]ssa.Instruction{}
		for _, st := range cat.Stmts {
			if !fam[st.Fn] || st.Table != "pn_history_transaction" || st.Verb != "UPDATE" {
				continue
			}
			var site ssa.Instruction = st.Site
			if st.ArgsOf != nil {
				site = st.ArgsOf
			}
			sites[site.Parent()] = append(sites[site.Parent()], site)
		}
		bad := ""
		if len(sites) == 0 {
			bad = "no UPDATE of pn_history_transaction found"
		}
		for depth := 0; depth < 4 && bad == "" && len(sites) > 0; depth++ {
			next := map[*ssa.Function][]ssa.Instruction{}
			for f, ss := range sites {
				avoid := map[*ssa.BasicBlock]bool{}
				for _, s := range ss {
					avoid[s.Block()] = true
				}
				if !avoid[f.Blocks[0]] {
					seen := reachAvoiding(f.Blocks[0], avoid)
					for _, rt := range returnsIn(seen) {
						if c.mayReportSuccess(rt) {
							bad = fmt.Sprintf("the return at %s reports success without the UPDATE having been executed", c.ipos(rt))
						}
					}
				}
				if f != root {
					for _, cs := range c.familyCallSites(f) {
						if fam[cs.Parent()] {
							next[cs.Parent()] = append(next[cs.Parent()], cs)
						}
					}
				}
			}
			sites = next
		}
		r.check(bad == "", rule, name, c.pos(root.Pos()), "UPDATE on every path to a nil error", bad+": the ledger was credited (a refund, when the PEG yield rounds to nothing) while the history row keeps saying nothing was paid, so replaying the history does not reproduce the balance")
	}
}

// ruleHandlersStateless: request handlers keep nothing in memory between requests: every answer is computed from
// the database as it is when the request is served (history rows of a height change after that height was synced).
var handlerStateAudited = map[string]string{}

func ruleHandlersStateless(c *Ctx, sa *sharedAnalysis, r *Report, rule string) {
	r.rule(rule, 1, "API handlers write no package variable or field of a long-lived object")
	sum := sa.summarize()
	var locs []string
	for l := range sum {
		locs = append(locs, l)
	}
	sort.Strings(locs)
	n := 0
	for _, l := range locs {
		s := sum[l]
		if len(s.APIW) == 0 {
			continue
		}
		for _, fw := range sortedFuncs(fnSet(s.APIW)) {
			ws := byFn(s.APIW)[fw]
			cons := fmt.Sprintf("location %s written by %s while serving a request", l, fname(fw))
			if why, ok := handlerStateAudited[l]; ok {
				r.audited(rule, cons, c.ipos(ws[0].Ins), why)
				continue
			}
			n++
			r.viol(rule, cons, c.ipos(ws[0].Ins), fmt.Sprintf("%s (%s) outlives the request: a later request is answered from what an earlier one left there instead of from the database (rows of a synced height still change when held conversions execute)", l, ws[0].How))
		}
	}
	if n == 0 {
		r.okNT(rule, "no location that outlives a request is written on API goroutines", "-", fmt.Sprintf("%d locations examined", len(locs)))
	}
}

// ruleRawUntouched: in the fat2 decoders the raw record that json.Unmarshal filled is not modified afterwards:
// the expected-length computation and the fields copied out of it see exactly what was decoded (dropping a
// `"metadata":null` there makes the decoder refuse what the encoder writes).
func ruleRawUntouched(c *Ctx, r *Report, rule string) {
	r.rule(rule, 3, "the raw record filled by json.Unmarshal is not modified by the decoder")
	n := 0
	for _, f := range c.Funcs {
		if f.Pkg == nil || f.Pkg.Pkg.Name() != "fat2" || f.Name() != "UnmarshalJSON" {
			continue
		}
		for _, g := range c.family(f) {
			for _, ci := range callsOf(g) {
				if calleeName(ci.Common()) != "encoding/json.Unmarshal" {
					continue
				}
				dst := ci.Common().Args[1]
				if mi, ok := dst.(*ssa.MakeInterface); ok {
					dst = mi.X
				}
				al, ok := dst.(*ssa.Alloc)
				if !ok || al.Referrers() == nil {
					continue
				}
				n++
				bad := ""
				for _, rf := range *al.Referrers() {
					fa, ok := rf.(*ssa.FieldAddr)
					if !ok || fa.Referrers() == nil {
						continue
					}
					for _, r2 := range *fa.Referrers() {
						if st, ok := r2.(*ssa.Store); ok && st.Addr == ssa.Value(fa) && instrReaches(ci, st) {
							bad = "field #" + fmt.Sprint(fa.Field) + " of the raw record is overwritten at " + c.ipos(st) + " after decoding"
						}
					}
				}
				r.check(bad == "", rule, fname(f)+" raw record", c.ipos(ci), "read-only after json.Unmarshal", bad+": the length accounting no longer sees the bytes that were decoded, so content the encoder itself produces (or content that is not canonical) is judged by a different text than the one on chain")
			}
		}
	}
	if n == 0 {
		r.viol(rule, "fat2 decoders", "-", "no json.Unmarshal into a local raw record found in the fat2 decoders")
	}
}

// ruleTickerDecodeChecked: a ticker decoded from entry content either comes through PTicker.UnmarshalJSON (which
// refuses unknown names) or, when it is looked up with StringToTicker, is compared with the invalid ticker.
func ruleTickerDecodeChecked(c *Ctx, r *Report, rule string) {
	r.rule(rule, 1, "no decoder accepts an unknown ticker name")
	n := 0
	for _, f := range c.Funcs {
		if f.Pkg == nil || f.Pkg.Pkg.Name() != "fat2" || f.Name() != "UnmarshalJSON" {
			continue
		}
		if strings.HasSuffix(fname(f), "PTicker.UnmarshalJSON") {
			// the ticker's own decoder: must be able to fail
			n++
			r.check(len(errorReturnsOf(f)) > 0, rule, fname(f)+" can refuse a name", c.pos(f.Pos()), "has an error return", "PTicker.UnmarshalJSON never returns an error: every unknown name decodes to some ticker")
			continue
		}
		for _, g := range c.family(f) {
			for _, ci := range findCalls(g, "fat2.StringToTicker") {
				n++
				call, _ := ci.(*ssa.Call)
				checked := false
				if call != nil {
					// the result, or the field it was stored in, is compared with the constant 0 (PTickerInvalid)
					vals := map[ssa.Value]bool{call: true}
					if call.Referrers() != nil {
						for _, rf := range *call.Referrers() {
							if st, ok := rf.(*ssa.Store); ok && st.Val == ssa.Value(call) {
								for _, u := range loadsReachedByStore(st) {
									vals[u] = true
								}
							}
						}
					}
					allInstrs(g, func(ins ssa.Instruction) {
						bo, ok := ins.(*ssa.BinOp)
						if !ok || (bo.Op != token.EQL && bo.Op != token.NEQ) {
							return
						}
						for _, pair := range [][2]ssa.Value{{bo.X, bo.Y}, {bo.Y, bo.X}} {
							if k, ok := pair[1].(*ssa.Const); ok && k.Value != nil && k.Int64() == 0 && vals[unwrapConv(pair[0])] {
								checked = true
							}
						}
					})
				}
				r.check(checked, rule, fname(g)+" -> StringToTicker", c.ipos(ci), "result compared with the invalid ticker", "the decoder looks the name up with StringToTicker, which answers PTickerInvalid for an unknown name instead of failing, and never tests for it: a batch naming an asset that does not exist is accepted with ticker 0")
			}
		}
	}
	if n == 0 {
		r.viol(rule, "ticker decoding", "-", "PTicker.UnmarshalJSON not found")
	}
}

// errorReturnsOf: returns of f whose error result is not the nil constant.
func errorReturnsOf(f *ssa.Function) []*ssa.Return {
	var out []*ssa.Return
	idx := errResultIndex(f.Signature)
	if idx < 0 {
		return nil
	}
	allInstrs(f, func(ins ssa.Instruction) {
		if ret, ok := ins.(*ssa.Return); ok && idx < len(ret.Results) && !isNilConst(resolveSpill(ret.Results[idx])) {
			out = append(out, ret)
		}
	})
	return out
}
