package main

// Rules added after the fifth wave of seeded changes.  Each is a structural necessary condition of the property it
// is registered under; the prop files say which.

import (
	"fmt"
	"go/constant"
	"go/token"
	"sort"
	"strings"

	"golang.org/x/tools/go/ssa"
)

// ---------------------------------------------------------------------------------------------------------------
// insert-only tables (C06-R5, shared with C17): holding and history rows are plain INSERTs on uniquely keyed tables,
// the holding table is never updated or deleted from, and the DDL declares no conflict resolution that would turn
// the plain INSERT into a silent overwrite or no-op.

func ruleInsertOnly(c *Ctx, r *Report, cat *SQLCat, rule string) {
	r.rule(rule, 4, "holding and history rows are plain inserts on uniquely keyed tables")
	for _, tn := range []string{"pn_transaction_batch_holding", "pn_history_txbatch", "pn_history_transaction"} {
		t := cat.Tables[tn]
		keyed := t != nil
		if t != nil {
			keyed = false
			for _, u := range t.Uniques {
				for _, col := range u {
					if col == "entry_hash" {
						keyed = true
					}
				}
			}
		}
		r.check(keyed, rule, tn+" uniquely keyed by entry_hash", "-", "", tn+" has no unique key containing entry_hash")
		if t != nil {
			r.check(len(t.ConflictClauses) == 0, rule, tn+" declares no conflict resolution", "-", "constraints abort the statement", fmt.Sprintf("the table definition carries %q: a plain INSERT of a second copy no longer fails, it replaces or silently drops a row", strings.Join(t.ConflictClauses, "; ")))
		}
		ordn := newOrdinals()
		for _, st := range cat.Stmts {
			if st.Table != tn || !st.isWrite() || st.Verb == "CREATE" || st.Verb == "CREATE-INDEX" {
				continue
			}
			if !c.RSync[st.Fn] {
				continue
			}
			key := fmt.Sprintf("%s %s in %s", tn, st.Verb, fname(st.Fn))
			cons := fmt.Sprintf("%s %s", key, ord(ordn.next(key)))
			switch {
			case tn == "pn_transaction_batch_holding" && st.Verb != "INSERT":
				r.viol(rule, cons, c.ipos(st.Site), "the holding table is modified by "+st.Verb+": a held conversion could be considered again or dropped (its history row would then say pending for ever)")
			case st.Verb == "INSERT" && st.Conflict != "":
				r.viol(rule, cons, c.ipos(st.Site), "INSERT "+st.Conflict+": a second copy of an entry whose first copy is pending or was rejected is filed (or overwrites the first) instead of being refused; the replay guard only knows executed entries, so the copy can change the ledger and the history no longer has one row per entry")
			case st.Verb == "INSERT" || st.Verb == "UPDATE":
				r.ok(rule, cons, c.ipos(st.Site), "plain "+st.Verb)
			default:
				r.viol(rule, cons, c.ipos(st.Site), "unexpected "+st.Verb)
			}
		}
	}
}

// ruleDDLAborts: the named tables declare no ON CONFLICT REPLACE/IGNORE (write-once rows stay write-once under a
// plain INSERT).  A self-test keeps the parser honest: a definition with the clause must be recognised.
func ruleDDLAborts(c *Ctx, r *Report, cat *SQLCat, rule string, tables []string, consequence string) {
	probe := &SQLCat{c: c, Tables: map[string]*SQLTable{}}
	probe.addTable("probe", `CREATE TABLE "probe" ("height" INTEGER, "token" TEXT, UNIQUE("height","token") ON CONFLICT REPLACE);`)
	if p := probe.Tables["probe"]; p == nil || len(p.ConflictClauses) != 1 {
		r.viol(rule, "self-test: a table-level ON CONFLICT REPLACE is recognised", "-", "the DDL parser did not report the clause of the probe definition")
		return
	}
	for _, tn := range tables {
		t := cat.Tables[tn]
		if t == nil {
			r.viol(rule, tn+" definition found", "-", "no CREATE TABLE for "+tn+" in the catalogue")
			continue
		}
		r.check(len(t.ConflictClauses) == 0, rule, tn+" constraints abort a conflicting statement", "-", "no ON CONFLICT REPLACE/IGNORE in the definition", fmt.Sprintf("the definition carries %q: %s", strings.Join(t.ConflictClauses, "; "), consequence))
	}
}

// ---------------------------------------------------------------------------------------------------------------
// C02: the database is opened with a rollback journal that survives the process.

var volatileDSN = []string{"_journal=memory", "_journal=off", "_journal_mode=memory", "_journal_mode=off", "_sync=0", "_sync=off", "_synchronous=0", "_synchronous=off", "mode=memory", ":memory:"}

func volatileSetting(s string) string {
	l := strings.ToLower(s)
	for _, k := range volatileDSN {
		if strings.Contains(l, k) {
			return k
		}
	}
	return ""
}

func ruleDurableJournal(c *Ctx, r *Report, cat *SQLCat, rule string) {
	r.rule(rule, 1, "the store is opened with an on-disk journal and synchronous writes")
	if volatileSetting("file.db?_journal=MEMORY&x") == "" || volatileSetting("file.db?_journal=WAL&") != "" {
		r.viol(rule, "self-test", "-", "the DSN classifier does not separate _journal=MEMORY from _journal=WAL")
		return
	}
	n := 0
	for _, f := range c.Funcs {
		if !c.RStartup[f] && !c.RSync[f] && f != c.Startup {
			continue
		}
		for _, ci := range callsOf(f) {
			if calleeName(ci.Common()) != "database/sql.Open" {
				continue
			}
			n++
			var bad []string
			var seen []string
			backSlice(ci.Common().Args[1], func(v ssa.Value) bool {
				if k, ok := v.(*ssa.Const); ok && k.Value != nil && k.Value.Kind() == constant.String {
					s := constant.StringVal(k.Value)
					if s != "" {
						seen = append(seen, s)
					}
					if w := volatileSetting(s); w != "" {
						bad = append(bad, fmt.Sprintf("%q", s))
					}
				}
				return true
			})
			sort.Strings(seen)
			cons := fname(f) + ": data source name given to sql.Open"
			if len(bad) == 0 {
				r.ok(rule, cons, c.ipos(ci), fmt.Sprintf("constants on the way into the name: %q", dedupStrings(seen)))
			} else {
				r.viol(rule, cons, c.ipos(ci), "the data source name can contain "+strings.Join(dedupStrings(bad), ", ")+": with the rollback journal in memory (or synchronous writes off) a kill during a block leaves pages of that block in the file with nothing to undo them, so the database no longer holds exactly the blocks up to the recorded height")
			}
		}
	}
	for _, st := range cat.Stmts {
		u := strings.ToUpper(st.Text)
		if !strings.Contains(u, "PRAGMA") {
			continue
		}
		l := strings.ReplaceAll(strings.ToLower(st.Text), " ", "")
		if strings.Contains(l, "journal_mode=memory") || strings.Contains(l, "journal_mode=off") || strings.Contains(l, "synchronous=off") || strings.Contains(l, "synchronous=0") {
			r.viol(rule, fname(st.Fn)+": PRAGMA", c.ipos(st.Site), "the statement "+oneLine(st.Text)+" turns the on-disk journal or synchronous writes off")
		}
	}
	if n == 0 {
		r.viol(rule, "sql.Open call found", "-", "no call to database/sql.Open on the start-up path")
	}
}

// ---------------------------------------------------------------------------------------------------------------
// C08: the verdict of the tolerance-band comparison does not become a block failure.

func ruleRateVerdictDropped(c *Ctx, r *Report, rule string, dropped map[string]bool) {
	r.rule(rule, 1, "a disagreement between the winning records is not returned as a block failure")
	// functions that construct one of the audited verdict messages
	makers := map[*ssa.Function]bool{}
	for _, f := range sortedFuncs(c.RBlock) {
		for _, ci := range callsOf(f) {
			n := calleeName(ci.Common())
			if n != "fmt.Errorf" && n != "errors.New" {
				continue
			}
			if k, ok := ci.Common().Args[0].(*ssa.Const); ok && k.Value != nil && k.Value.Kind() == constant.String && dropped[constant.StringVal(k.Value)] {
				top := f
				for top.Parent() != nil {
					top = top.Parent()
				}
				makers[top] = true
			}
		}
	}
	// close over callers that hand the verdict on (a function whose returned error can be a maker's error)
	ef := &errflow{c: c}
	returnsErrOf := func(f *ssa.Function, ci ssa.CallInstruction) bool {
		ev, _ := errValueOf(ci)
		if ev == nil {
			return false
		}
		for v := range ef.carriers(ev) {
			if v.Referrers() == nil {
				continue
			}
			for _, rf := range *v.Referrers() {
				if _, ok := rf.(*ssa.Return); ok {
					return true
				}
			}
		}
		return false
	}
	n := 0
	sb := c.fn("node.Pegnetd.SyncBlock")
	for changed := true; changed; {
		changed = false
		for _, f := range sortedFuncs(c.RBlock) {
			top := f
			for top.Parent() != nil {
				top = top.Parent()
			}
			if makers[top] {
				continue
			}
			for _, ci := range callsOf(f) {
				sc := ci.Common().StaticCallee()
				if sc == nil || !makers[sc] {
					continue
				}
				if !returnsErrOf(f, ci) {
					continue
				}
				if c.inFamily(top, sb) || top == sb {
					continue // judged below
				}
				makers[top] = true
				changed = true
			}
		}
	}
	topOf := func(f *ssa.Function) *ssa.Function {
		for f.Parent() != nil {
			f = f.Parent()
		}
		return f
	}
	// a helper split off from SyncBlock that merely hands the verdict back is judged at its call site
	for changed := true; changed; {
		changed = false
		for _, f := range c.family(sb) {
			t := topOf(f)
			if t == sb || makers[t] || !isNewHelper(t) {
				continue
			}
			for _, ci := range callsOf(f) {
				if sc := ci.Common().StaticCallee(); sc != nil && makers[sc] && returnsErrOf(f, ci) {
					makers[t] = true
					changed = true
				}
			}
		}
	}
	for _, f := range c.family(sb) {
		if makers[topOf(f)] {
			continue
		}
		for _, ci := range callsOf(f) {
			sc := ci.Common().StaticCallee()
			if sc == nil || !makers[sc] {
				continue
			}
			n++
			cons := fmt.Sprintf("SyncBlock: verdict of %s", strings.Join(dedupStrings(sortedCopy(forwardedCallees(ci))), "|"))
			if returnsErrOf(f, ci) {
				r.viol(rule, cons, c.ipos(ci), "the error of "+fname(sc)+" (the winning OPR and SPR disagree beyond the tolerance band) is returned by SyncBlock: DBlockSync rolls back and retries the same height for ever, so prices that miners and stakers are free to post make a block permanently unsyncable")
			} else {
				r.ok(rule, cons, c.ipos(ci), "not returned (the block goes on without new rates; the drop itself is the C10 finding)")
			}
		}
	}
	if n == 0 {
		r.viol(rule, "rate-selection call sites in SyncBlock", c.pos(sb.Pos()), "no call from SyncBlock to a function constructing the audited tolerance-band verdicts")
	}
}

// ---------------------------------------------------------------------------------------------------------------
// C10: a failed attempt is retried at the same height.

func ruleRetrySameHeight(c *Ctx, r *Report, rule string) {
	r.rule(rule, 1, "the height attempted after a failure is the one that failed")
	root := c.Sync
	// success edges of Commit in the sync root
	var commitOK []nilTest
	for _, ci := range c.findCallsFam(root, "database/sql.Tx.Commit") {
		s := c.liftSite(ci, root)
		if s == nil {
			continue
		}
		if cs, ok := s.(ssa.CallInstruction); ok {
			if ev, _ := errValueOf(cs); ev != nil {
				commitOK = append(commitOK, nilTestsOf(c, ev)...)
			}
		}
	}
	afterCommit := func(b *ssa.BasicBlock) bool {
		for _, t := range commitOK {
			if nilEdgeDom(t, b) {
				return true
			}
		}
		return false
	}
	n := 0
	for _, ci := range c.findCallsFam(root, "node.Pegnetd.SyncBlock") {
		s := c.liftSite(ci, root)
		if s == nil || s != ssa.Instruction(ci) {
			// inside a helper: the height is judged through originLeaves below
		}
		n++
		h := ci.Common().Args[len(ci.Common().Args)-1]
		cons := "height handed to SyncBlock"
		var bad []string
		var walk func(v ssa.Value, depth int)
		seen := map[ssa.Value]bool{}
		walk = func(v ssa.Value, depth int) {
			v = unwrapConv(v)
			if seen[v] || depth > 6 {
				return
			}
			seen[v] = true
			switch x := v.(type) {
			case *ssa.Phi:
				for _, e := range x.Edges {
					walk(e, depth+1)
				}
				return
			case *ssa.BinOp:
				if x.Op == token.ADD || x.Op == token.SUB {
					if _, isK := x.Y.(*ssa.Const); isK {
						if ph, ok := unwrapConv(x.X).(*ssa.Phi); ok && seen[ph] {
							// a step of a counter: it may be taken only after the block was committed
							if !afterCommit(x.Block()) {
								bad = append(bad, fmt.Sprintf("the height counter is stepped at %s on a path that has not passed a successful Commit (a `continue` after a failed BeginTx or SyncBlock moves on to the next height and the failed one is never applied)", c.ipos(x)))
							}
							return
						}
					}
				}
			}
			if !c.isExecHeight(v) {
				bad = append(bad, "origin "+c.describeOrigin(v)+" is not the committed in-memory height + 1")
			}
		}
		walk(h, 0)
		r.check(len(bad) == 0, rule, cons, c.ipos(ci), "recomputed from the committed height (or stepped only after Commit succeeded)", strings.Join(dedupStrings(bad), "; "))
	}
	if n == 0 {
		r.viol(rule, "SyncBlock call in the sync root", c.pos(root.Pos()), "not found")
	}
}

// ---------------------------------------------------------------------------------------------------------------
// C11: staking eligibility is read from the committed ledger.

func ruleEligibilityView(c *Ctx, r *Report, cat *SQLCat, rule string) {
	r.rule(rule, 1, "grading reads the committed ledger, not the open block transaction")
	gs := c.reach(c.fn("node.Pegnetd.GradeS"), c.fn("node.Pegnetd.Grade"))
	n := 0
	ordn := newOrdinals()
	for _, st := range cat.Stmts {
		if !gs[st.Fn] {
			continue
		}
		n++
		key := fmt.Sprintf("%s %s %s", fname(st.Fn), st.Verb, st.Table)
		cons := fmt.Sprintf("%s %s", key, ord(ordn.next(key)))
		r.check(st.Recv == "DB" && st.Verb == "SELECT", rule, cons, c.ipos(st.Site), "SELECT on the database handle", fmt.Sprintf("%s through %s: the open block transaction already contains this block's one-time adjustments (burn-address zeroing, 2.0.4 mint and its burn), so the top-100 list it shows is not the one of the committed ledger and a record of an address outside (or inside) the real top 100 is graded the other way", st.Verb, map[string]string{"Tx": "the block transaction", "QA": "a caller-supplied handle"}[st.Recv]))
	}
	if n == 0 {
		r.viol(rule, "eligibility statement found", "-", "no SQL statement reachable from Grade/GradeS")
	}
}

// ---------------------------------------------------------------------------------------------------------------
// C14/C16: Payouts() is a pure function of the set.

func rulePayoutsPure(c *Ctx, r *Report, rule string) {
	r.rule(rule, 2, "Payouts() computes a fresh map and leaves the set untouched")
	pf := c.fn("conversions.ConversionSupplySet.Payouts")
	var writes []string
	for _, g := range c.family(pf) {
		allInstrs(g, func(ins ssa.Instruction) {
			switch x := ins.(type) {
			case *ssa.Store:
				if tp := typePath(x.Addr); strings.HasPrefix(tp, "conversions.ConversionSupplySet.") {
					writes = append(writes, fmt.Sprintf("store to %s at %s", tp, c.ipos(x)))
				}
			case *ssa.MapUpdate:
				if tp := typePath(x.Map); strings.HasPrefix(tp, "conversions.ConversionSupplySet.") {
					writes = append(writes, fmt.Sprintf("update of %s at %s", tp, c.ipos(x)))
				}
			}
		})
	}
	r.check(len(writes) == 0, rule, "Payouts writes no field of the set", c.pos(pf.Pos()), "", strings.Join(writes, "; ")+": the callers invoke Payouts() once for the history rows and once for the credits; state kept between the calls (a cached split that the dust is added into) makes the second answer differ from the first, so the credits exceed the cap and disagree with the recorded payouts")
	var bad []string
	var fresh func(v ssa.Value, depth int) bool
	fresh = func(v ssa.Value, depth int) bool {
		if depth > 5 {
			return false
		}
		switch x := unwrap(v).(type) {
		case *ssa.MakeMap:
			return true
		case *ssa.Phi:
			for _, e := range x.Edges {
				if !fresh(e, depth+1) {
					return false
				}
			}
			return true
		case *ssa.Call:
			sc := x.Common().StaticCallee()
			if sc == nil || !isNewHelper(sc) || sc.Blocks == nil {
				return false
			}
			for _, rt := range returnsIn(blockSet(sc)) {
				if len(rt.Results) == 0 || !fresh(rt.Results[0], depth+1) {
					return false
				}
			}
			return true
		case *ssa.Extract:
			// one result of a helper that builds the map and returns it with something else (the total paid)
			if call, ok := x.Tuple.(*ssa.Call); ok {
				sc := call.Common().StaticCallee()
				if sc == nil || !isNewHelper(sc) || sc.Blocks == nil {
					return false
				}
				for _, rt := range returnsIn(blockSet(sc)) {
					if x.Index >= len(rt.Results) || !fresh(rt.Results[x.Index], depth+1) {
						return false
					}
				}
				return true
			}
		case *ssa.UnOp:
			// a local spilled to memory (captured by a closure): every store to it must be fresh
			if al, ok := x.X.(*ssa.Alloc); ok && x.Op == token.MUL && al.Referrers() != nil {
				n := 0
				for _, rf := range *al.Referrers() {
					if st, ok := rf.(*ssa.Store); ok && st.Addr == al {
						n++
						if !fresh(st.Val, depth+1) {
							return false
						}
					}
				}
				return n > 0
			}
		}
		return false
	}
	for _, rt := range returnsIn(blockSet(pf)) {
		if len(rt.Results) == 0 || !fresh(rt.Results[0], 0) {
			bad = append(bad, c.ipos(rt))
		}
	}
	r.check(len(bad) == 0, rule, "Payouts returns a map made in the call", c.pos(pf.Pos()), "", "the map returned at "+strings.Join(bad, ", ")+" is not allocated by this call: callers that adjust or merely re-request it see the dust of the previous call added again")
}

func blockSet(f *ssa.Function) map[*ssa.BasicBlock]bool {
	m := map[*ssa.BasicBlock]bool{}
	for _, b := range f.Blocks {
		m[b] = true
	}
	return m
}

// ---------------------------------------------------------------------------------------------------------------
// C18: a response that lists balances is read with one statement (one SQLite read snapshot = one committed block).

func ruleOneSnapshotPerResponse(c *Ctx, r *Report, cat *SQLCat, rule string) {
	r.rule(rule, 2, "balance listings are read by a single statement")
	// statements on pn_addresses reachable from API handlers
	stmtIn := map[*ssa.Function][]*SQLStmt{}
	for _, st := range cat.Stmts {
		if st.Verb == "SELECT" && (st.Table == "pn_addresses" || st.From == "pn_addresses") && c.RAPI[st.Fn] {
			stmtIn[st.Fn] = append(stmtIn[st.Fn], st)
		}
	}
	// reads[f]: f (transitively) executes such a statement
	reads := map[*ssa.Function]bool{}
	for f := range stmtIn {
		reads[f] = true
	}
	for changed := true; changed; {
		changed = false
		for _, f := range c.Funcs {
			if reads[f] || !c.RAPI[f] {
				continue
			}
			for _, e := range c.CG[f] {
				if reads[e.Callee] {
					reads[f] = true
					changed = true
					break
				}
			}
		}
	}
	inLoop := func(ins ssa.Instruction) bool {
		return innermostLoop(ins.Parent(), ins.Block()) != nil
	}
	n := 0
	for _, f := range sortedFuncs(reads) {
		if !c.RAPI[f] {
			continue
		}
		var sites []ssa.Instruction
		var looped []string
		for _, st := range stmtIn[f] {
			sites = append(sites, st.Site)
			if inLoop(st.Site) {
				looped = append(looped, c.ipos(st.Site))
			}
		}
		for _, e := range c.CG[f] {
			if reads[e.Callee] && e.Site != nil && e.Callee != f {
				sites = append(sites, e.Site)
				if inLoop(e.Site) {
					looped = append(looped, c.ipos(e.Site)+" (call to "+fname(e.Callee)+")")
				}
			}
		}
		if len(sites) == 0 {
			continue
		}
		n++
		cons := fname(f) + ": balance reads"
		if len(looped) > 0 {
			sort.Strings(looped)
			if why, ok := balanceLoopAudited[strings.Join(c.ownerNames(f), "/")]; ok {
				r.audited(rule, cons, looped[0], why)
				continue
			}
			r.viol(rule, cons, looped[0], "pn_addresses is read inside a loop ("+strings.Join(dedupStrings(looped), ", ")+"): every execution is its own read snapshot and the sync goroutine may commit a block between two of them, so the response is stitched together from different blocks - a sender already debited next to a receiver not yet credited")
		} else {
			r.ok(rule, cons, c.ipos(sites[0]), fmt.Sprintf("%d statement/call site(s), none in a loop", len(sites)))
		}
	}
	if n == 0 {
		r.viol(rule, "balance reads found on the API path", "-", "none")
	}
}

var balanceLoopAudited = map[string]string{}

// ---------------------------------------------------------------------------------------------------------------
// C20: the length accounting of the decoders sees the bytes compacted by the encoding/json scanner.

func ruleCompactOrigin(c *Ctx, r *Report, rule string) {
	r.rule(rule, 4, "decoders compact their input with the encoding/json scanner before accounting for its length")
	okCompact := func(n string) bool {
		return n == "github.com/Factom-Asset-Tokens/factom/jsonlen.Compact" || n == "encoding/json.Compact" || strings.HasSuffix(n, "jsonlen.Compact")
	}
	var onlyCompacted func(p *ssa.Parameter, depth int) (bool, string)
	onlyCompacted = func(p *ssa.Parameter, depth int) (bool, string) {
		if depth > 3 || p.Referrers() == nil {
			return false, "unused"
		}
		n := 0
		for _, rf := range *p.Referrers() {
			switch x := rf.(type) {
			case *ssa.DebugRef:
				continue
			case ssa.CallInstruction:
				cn := calleeName(x.Common())
				if okCompact(cn) {
					n++
					continue
				}
				if sc := x.Common().StaticCallee(); sc != nil && isNewHelper(sc) {
					idx := -1
					for i, a := range x.Common().Args {
						if a == ssa.Value(p) {
							idx = i
						}
					}
					if idx >= 0 && idx < len(sc.Params) {
						if ok, _ := onlyCompacted(sc.Params[idx], depth+1); ok {
							n++
							continue
						}
					}
				}
				return false, "passed to " + cn + " at " + c.ipos(x)
			case *ssa.Store:
				// spilled parameter: follow the loads
				if al, ok := x.Addr.(*ssa.Alloc); ok && x.Val == ssa.Value(p) && al.Referrers() != nil {
					for _, r2 := range *al.Referrers() {
						ld, ok := r2.(*ssa.UnOp)
						if !ok || ld.Referrers() == nil {
							continue
						}
						for _, r3 := range *ld.Referrers() {
							ci, ok := r3.(ssa.CallInstruction)
							if !ok {
								if _, dbg := r3.(*ssa.DebugRef); dbg {
									continue
								}
								return false, "raw bytes used at " + c.ipos(r3)
							}
							if okCompact(calleeName(ci.Common())) {
								n++
								continue
							}
							return false, "passed to " + calleeName(ci.Common()) + " at " + c.ipos(ci)
						}
					}
					continue
				}
				return false, "raw bytes stored at " + c.ipos(x)
			default:
				return false, "raw bytes used at " + c.ipos(rf)
			}
		}
		return n > 0, "never compacted"
	}
	for _, name := range []string{"fat2.AddressAmountTuple.UnmarshalJSON", "fat2.TypedAddressAmountTuple.UnmarshalJSON", "fat2.Transaction.UnmarshalJSON", "fat2.TransactionBatch.UnmarshalJSON"} {
		f := c.fn(name)
		p := f.Params[len(f.Params)-1]
		ok, why := onlyCompacted(p, 0)
		r.check(ok, rule, name+": raw input only reaches the JSON scanner's Compact", c.pos(f.Pos()), "", "the raw bytes are "+why+": a hand-written whitespace stripper that disagrees with the JSON grammar (escapes, quotes) lets an entry whose strings differ from the canonical ones decode as the canonical batch, and the expected-length test is computed on bytes json.Unmarshal never saw")
	}
}

// ruleEncoderGate: MarshalJSON refuses a batch only for reasons the decoder refuses it for.
func ruleEncoderGate(c *Ctx, r *Report, rule string) {
	r.rule(rule, 1, "the encoder rejects nothing the decoder accepts")
	enc := c.fn("fat2.TransactionBatch.MarshalJSON")
	dec := c.reach(c.fn("fat2.TransactionBatch.Validate"), c.fn("fat2.TransactionBatch.UnmarshalJSON"))
	dec[c.fn("fat2.TransactionBatch.Validate")] = true
	ef := &errflow{c: c}
	n := 0
	for _, f := range c.family(enc) {
		for _, ci := range callsOf(f) {
			sc := ci.Common().StaticCallee()
			if sc == nil || !fnInModule(sc) || errResultIndex(sc.Signature) < 0 || isNewHelper(sc) {
				continue
			}
			ev, _ := errValueOf(ci)
			if ev == nil {
				continue
			}
			propagated := false
			for v := range ef.carriers(ev) {
				if v.Referrers() == nil {
					continue
				}
				for _, rf := range *v.Referrers() {
					if _, ok := rf.(*ssa.Return); ok {
						propagated = true
					}
				}
			}
			if !propagated {
				continue
			}
			n++
			// every error the gate can construct must be one the decoder can construct as well
			var extra []string
			for g := range c.reach(sc) {
				if dec[g] {
					continue
				}
				for _, cj := range callsOf(g) {
					cn := calleeName(cj.Common())
					if cn == "fmt.Errorf" || cn == "errors.New" {
						extra = append(extra, fname(g)+" at "+c.ipos(cj))
					}
				}
			}
			if !dec[sc] {
				for _, cj := range callsOf(sc) {
					cn := calleeName(cj.Common())
					if cn == "fmt.Errorf" || cn == "errors.New" {
						extra = append(extra, fname(sc)+" at "+c.ipos(cj))
					}
				}
			}
			sort.Strings(extra)
			extra = dedupStrings(extra)
			r.check(len(extra) == 0, rule, "MarshalJSON gate "+fname(sc), c.ipos(ci), "every rejection it can raise is one Validate/UnmarshalJSON raise too", "the encoder is gated on "+fname(sc)+", which rejects for reasons the decoder does not know ("+strings.Join(firstN(extra, 3), "; ")+"): a batch the decoder accepts can no longer be re-encoded (or signed), so re-encoding an accepted batch does not yield an entry that decodes to the same transactions")
		}
	}
	if n == 0 {
		r.viol(rule, "MarshalJSON gate found", c.pos(enc.Pos()), "MarshalJSON propagates the error of no validation call: it would encode batches the decoder refuses")
	}
}

// ---------------------------------------------------------------------------------------------------------------
// C07: the averaging window is private to the sync goroutine.

func ruleAveragesCachePrivate(c *Ctx, sa *sharedAnalysis, r *Report, rule string) {
	r.rule(rule, 1, "the averaging window used for pricing is touched by the sync goroutine only")
	sum := sa.summarize()
	var bad []string
	n := 0
	for l, s := range sum {
		if !strings.HasPrefix(l, "node.Pegnetd.LastAverages") {
			continue
		}
		n++
		for _, a := range append(append([]*Access{}, s.APIR...), s.APIW...) {
			bad = append(bad, fmt.Sprintf("%s %s in %s at %s", map[bool]string{true: "written", false: "read"}[a.Write], l, fname(a.Fn), c.ipos(a.Ins)))
		}
	}
	sort.Strings(bad)
	r.check(len(bad) == 0 && n > 0, rule, "node.Pegnetd.LastAverages* accessed from API handlers", "-", "never", strings.Join(firstN(dedupStrings(bad), 4), "; ")+": a request slides (or reads half-way through an update of) the window the next conversion is priced from, so the average is no longer that of the 288 heights ending at the previous graded block")
}

// ---------------------------------------------------------------------------------------------------------------
// C08: an asset the block records with rate 0 (out of tolerance, from 2.0.2) is never handed to Convert by the
// snapshot valuation - Convert rejects a zero rate and SnapshotPayouts returns that error, which fails the block at
// every retry.  Same scenarios as the C14 valuation table, read for liveness of the failing call.
func ruleUnpricedNotValued(c *Ctx, r *Report, rule string) {
	r.rule(rule, 2, "a zero rate recorded for the block never reaches the valuation's Convert")
	e := newEraCtx(c, nil)
	v202 := e.a.get("V202EnhanceActivation")
	sp := c.fn("node.Pegnetd.SnapshotPayouts")
	tick, _ := c.tickers()
	acc := newTableAcc()
	for _, cs := range []struct {
		name      string
		rate, usd AVal
	}{
		{"asset present with rate 0 (from 2.0.2)", cUint(0), cUint(100)},
		{"pUSD present with rate 0 (from 2.0.2)", cUint(100), cUint(0)},
	} {
		sc := &Scenario{Params: map[string]AVal{"type:uint32": hconst(v202 + 144)}, Phis: map[string]AVal{"type:fat2.PTicker": cInt(tick["XBT"])},
			Paths:    map[string]AVal{"pegnet.BalancesPair.Balances[]": cUint(5)},
			MaxDepth: 0, AllErrorsNil: true}
		sc.Params["type:map[fat2.PTicker]uint64"] = containerOf(cs.rate, map[string]AVal{fmt.Sprintf("%d", tick["USD"]): cs.usd})
		t, _ := acc.run(c, r, sp, sc)
		live := t.Live("conversions.Convert")
		r.check(!live, rule, "SnapshotPayouts: "+cs.name, c.pos(sp.Pos()), "skipped before Convert", "Convert is reachable with a zero rate: it returns 'invalid rate: 0', SnapshotPayouts returns it and the snapshot block can never be synced - rates of 0 are what InsertRates records for an asset the winning OPR and SPR disagree on, i.e. chain content")
	}
	acc.report(c, r, rule, sp)
}
