package main

import (
	"fmt"
	"go/constant"
	"go/token"
	"go/types"
	"sort"
	"strings"

	"golang.org/x/tools/go/ssa"
)

func init() { props["C12"] = propC12 }

func propC12(c *Ctx, r *Report) {
	r.Explain = "Era tables (SCCP per height class): PEG pricing phase and height passed to InsertRates, which rate-combination function runs, which height the pending rates are read for. Winner table: with no graded block, or graded blocks without winners, InsertRates and the execution of held conversions are dead at every height; with winners both are live. Tolerance-band tables of GetAssetRates/GetAssetRatesV0 over the position of the OPR rate relative to the band (below, on the low edge, inside, on the high edge, above) per era: band constant (1%/0.1%, 10%, 25%), inclusive edges, in-band value taken from the OPR winner, out-of-band outcome (error before 2.0.2, SPR entry with rate 0 from it). Immutability: the only statement that ever writes pn_rate is the plain INSERT in insertRate, reachable only through InsertRates from SyncBlock; pn_rate is UNIQUE(height, token). PEG phase table of InsertRates; the token name recorded and the name used to look up issuance agree."
	r.NotDec = "that the inserted values equal the winners' values for all inputs (dataflow shows they are the GetOrderedAssetsUint() elements); float rounding of the band edges beyond IEEE evaluation of the constants"
	r.Trusted = []string{"mainnet activation constants", "go/ssa", "SQLite UNIQUE constraint"}
	e := newEraCtx(c, r)
	r.rule("C12/era-table", 6, "rate recording by height class")
	e.evalRows(r, e.rowsC12(r))

	winnerTable(c, r, e, "C12/winner-table")

	// immutability
	cat := buildSQLCat(c)
	r.rule("C12/write-once-ddl", 1, "the rate table's constraints abort a second write")
	ruleDDLAborts(c, r, cat, "C12/write-once-ddl", []string{"pn_rate"}, "the unchanged plain INSERT in insertRate then replaces (or silently skips) the recorded row instead of failing the block, so rates recorded for a height can change")
	ruleEveryQuoteRecorded(c, r, "C12/every-quote-recorded")
	r.rule("C12/returns-combined-list", 2, "the rate combination returns the list it built")
	ruleReturnsFilteredList(c, r, "C12/returns-combined-list")
	r.rule("C12/rates-immutable", 3, "pn_rate is insert-only, keyed by (height, token), written from one place")
	ruleTableWriters(c, cat, r, "C12/rates-immutable", "pn_rate", []writerSpec{{"pegnet.Pegnet.insertRate|pegnet.Pegnet.InsertRates", "INSERT", ""}}, true)
	uniq := false
	if t := cat.Tables["pn_rate"]; t != nil {
		for _, u := range t.Uniques {
			if len(u) == 2 && ((u[0] == "height" && u[1] == "token") || (u[1] == "height" && u[0] == "token")) {
				uniq = true
			}
		}
	}
	r.check(uniq, "C12/rates-immutable", "pn_rate UNIQUE(height, token)", "-", "", "pn_rate has no unique key on (height, token): a height's rates could be inserted twice")
	for _, spec := range []struct{ fn, caller string }{{"pegnet.Pegnet.insertRate", "pegnet.Pegnet.InsertRates"}, {"pegnet.Pegnet.InsertRates", "node.Pegnetd.SyncBlock"}} {
		f := c.fnOpt(spec.fn)
		if f == nil && spec.fn != "pegnet.Pegnet.InsertRates" {
			continue // the private helper was inlined into InsertRates: the writers rule above covers it
		}
		if f == nil {
			f = c.fn(spec.fn)
		}
		bad := ""
		for _, s := range c.callSitesOf(f) {
			if fname(s.Caller) != spec.caller {
				bad += fmt.Sprintf("called from %s at %s; ", fname(s.Caller), c.ipos(s.Site))
			}
		}
		r.check(bad == "", "C12/rates-immutable", fname(f)+" callers", c.pos(f.Pos()), "only "+spec.caller, bad)
	}

	// tolerance band tables
	r.rule("C12/band-table", 8, "tolerance band constant, inclusive edges, in-band and out-of-band outcome per era")
	bandTables(c, r, e)
	ruleRatesReadComplete(c, r, "C12/rates-read-complete")
	ruleNoCarriedDecision(c, r, "C12/band-table", c.fn("node.Pegnetd.GetAssetRates"), c.fn("node.Pegnetd.GetAssetRatesV0"))

	// PEG phase table of InsertRates
	r.rule("C12/peg-phase", 4, "PEG rate by pricing phase")
	irf := c.fn("pegnet.Pegnet.InsertRates")
	for ph := int64(0); ph <= 3; ph++ {
		sc := &Scenario{Params: map[string]AVal{"type:pegnet.PEGPricingPhase": cInt(ph)}, MaxDepth: 0, AllErrorsNil: true}
		t := newSCCP(c, sc).analyse(irf, nil)
		r.Scen++
		iss := t.Live("SelectIssuances")
		errs := strings.Join(errorReturns(t.Root), "|")
		zero := false
		for _, lc := range t.CallsTo("math/big.Int.SetUint64") {
			if v, ok := lc.Args[1].intVal(); ok && v == 0 && lc.Depth == 0 {
				zero = true
			}
		}
		pegInsert := false
		tokens := rateInsertTokens(c, t)
		for _, tok := range tokens {
			if sliceHas(tok, func(v ssa.Value) bool { return isCallTo(v, "String") }) {
				pegInsert = true
			}
		}
		anyInsert := len(tokens) > 0
		var want, got string
		switch ph {
		case 0:
			want = "error, nothing inserted"
			got = fmt.Sprintf("%s", map[bool]string{true: "error, nothing inserted", false: "returns " + errs + fmt.Sprintf(" rate insert live=%v", anyInsert)}[errs == "err:fresh" && !anyInsert])
		case 1:
			want = "PEG=0 issuance-read=false insert=true"
			got = fmt.Sprintf("PEG=%s issuance-read=%v insert=%v", map[bool]string{true: "0", false: "?"}[zero], iss, pegInsert)
		case 2:
			want = "issuance-read=true insert=true"
			got = fmt.Sprintf("issuance-read=%v insert=%v", iss, pegInsert)
		case 3:
			want = "PEG=winner rate issuance-read=false insert=true"
			got = fmt.Sprintf("PEG=%s issuance-read=%v insert=%v", map[bool]string{true: "0", false: "winner rate"}[zero], iss, pegInsert)
		}
		r.check(want == got, "C12/peg-phase", fmt.Sprintf("InsertRates phase=%d", ph), c.pos(irf.Pos()), want, "expected "+want+", code gives "+got)
	}
	// name agreement between the recorded token and the issuance lookup
	nameAgreement(c, r, irf)
}

// prefixed: the string value carries the "p" prefix.
func tokenPrefixed(f *ssa.Function, v ssa.Value) (bool, string) {
	if bo, ok := v.(*ssa.BinOp); ok && bo.Op == token.ADD {
		if k, ok := bo.X.(*ssa.Const); ok && k.Value != nil && k.Value.Kind() == constant.String && constant.StringVal(k.Value) == "p" {
			return true, "\"p\" + name"
		}
	}
	tp := typePath(v)
	if tp == "" {
		return false, "unknown"
	}
	// a store of "p"+… to the same field that dominates v, or precedes the loop v is in
	pref := false
	allInstrs(f, func(ins ssa.Instruction) {
		st, ok := ins.(*ssa.Store)
		if !ok || typePath(st.Addr) != tp {
			return
		}
		if p, _ := tokenPrefixed(f, st.Val); p {
			if vi, ok := v.(ssa.Instruction); ok && (instrDominates(st, vi) || st.Block().Index < vi.Block().Index && instrReaches(st, vi)) {
				pref = true
			}
		}
	})
	return pref, tp
}

func nameAgreement(c *Ctx, r *Report, irf *ssa.Function) {
	rule := "C12/peg-phase"
	var ins, look []ssa.Value
	for _, ci := range findCalls(irf, "pegnet.Pegnet.insertRate") {
		cands := c.stringArgs(ci)
		for _, a := range cands {
			if !sliceHas(a, func(v ssa.Value) bool { return isCallTo(v, "String") }) {
				ins = append(ins, a)
			}
		}
	}
	// the same statement issued by InsertRates itself: the token is the string-typed parameter
	for _, ci := range callsOf(irf) {
		switch shortCallee(ci.Common()) {
		case "Exec", "ExecContext":
			if cls, _ := recvClass(ci.Common()); cls == "" {
				continue
			}
			vals, _ := sqlParamValues(ci.Common())
			for _, a := range vals {
				if b, ok := a.Type().Underlying().(*types.Basic); ok && b.Kind() == types.String {
					if !sliceHas(a, func(v ssa.Value) bool { return isCallTo(v, "String") }) {
						ins = append(ins, a)
					}
				}
			}
		}
	}
	for _, ci := range findCalls(irf, "fat2.StringToTicker") {
		look = append(look, ci.Common().Args[0])
	}
	if len(ins) == 0 || len(look) == 0 {
		r.viol(rule, "token name recorded vs name used for issuance lookup", c.pos(irf.Pos()), fmt.Sprintf("anchors not found: %d asset inserts, %d StringToTicker lookups", len(ins), len(look)))
		return
	}
	p1, d1 := tokenPrefixed(irf, ins[0])
	p2, d2 := tokenPrefixed(irf, look[0])
	r.check(p1 && p2, rule, "token name recorded vs name used for issuance lookup", c.pos(irf.Pos()), "both carry the p prefix ("+d1+"; "+d2+")", fmt.Sprintf("recorded token name prefixed=%v (%s) but the equation-phase issuance lookup uses a name with prefixed=%v (%s): StringToTicker then yields the invalid ticker and the market-cap PEG price is computed from zero issuance", p1, d1, p2, d2))
}

// bandTables evaluates GetAssetRates / GetAssetRatesV0 over the position of the OPR rate relative to the band.
func bandTables(c *Ctx, r *Report, e *eraCtx) {
	positions := []string{"below", "low-edge", "inside", "high-edge", "above"}
	type era struct {
		name   string
		fn     *ssa.Function
		h      uint32
		sprBig bool
		tol    float64
		outErr bool // out of band -> error (else zero-rate entry)
	}
	v202 := e.a.get("V202EnhanceActivation")
	gar := c.fn("node.Pegnetd.GetAssetRates")
	gv0 := c.fn("node.Pegnetd.GetAssetRatesV0")
	eras := []era{
		{"GetAssetRatesV0 spr<100000", gv0, 0, false, 0.01, true},
		{"GetAssetRatesV0 spr>=100000", gv0, 0, true, 0.001, true},
		{"GetAssetRates before 2.0.2", gar, v202 - 1, false, 0.10, true},
		{"GetAssetRates at 2.0.2", gar, v202, false, 0.25, false},
		{"GetAssetRates after 2.0.2", gar, v202 + 1, false, 0.25, false},
	}
	for _, er := range eras {
		acc := newTableAcc()
		var bad []string
		for _, pos := range positions {
			pos := pos
			sprV := sym("spr")
			sc := &Scenario{
				// (oprWinners, sprWinners): two slices of 32 records whose Value fields are the symbols opr / spr
				Params: map[string]AVal{"type:[]opr.AssetUint#0": sliceOfStructs(32, map[string]AVal{"Value": sym("opr")}), "type:[]opr.AssetUint#1": sliceOfStructs(32, map[string]AVal{"Value": sprV})},
				Order: func(a, b AVal) (int, bool) {
					// spr against the 100000 threshold
					if a.K == ASym && a.Sym == "spr" && b.isConst() {
						if er.sprBig {
							return 1, true
						}
						return -1, true
					}
					if a.K == ASym && a.Sym == "opr" && b.K == ASym && strings.HasPrefix(b.Sym, "spr*") {
						var f float64
						fmt.Sscanf(strings.TrimPrefix(b.Sym, "spr*"), "%g", &f)
						lowEdge := f < 1
						switch pos {
						case "below":
							return -1, true
						case "low-edge":
							if lowEdge {
								return 0, true
							}
							return -1, true
						case "inside":
							if lowEdge {
								return 1, true
							}
							return -1, true
						case "high-edge":
							if lowEdge {
								return 1, true
							}
							return 0, true
						case "above":
							return 1, true
						}
					}
					return 0, false
				},
				MaxDepth: 0,
			}
			if er.fn == gar {
				sc.Params["type:uint32"] = hconst(er.h)
			}
			t, s := acc.run(c, r, er.fn, sc)
			_ = s
			// observed band constants: symbolic products spr*k seen in comparisons
			ks := map[string]bool{}
			for _, fs := range s.memo { // the root and every helper analysed with it (the band test may have been split off)
				if fs == nil {
					continue
				}
				for v, a := range fs.val {
					if bo, ok := v.(*ssa.BinOp); ok && bo.Op == token.MUL && a.K == ASym && strings.HasPrefix(a.Sym, "spr*") {
						ks[strings.TrimPrefix(a.Sym, "spr*")] = true
					}
				}
			}
			var kl []string
			for k := range ks {
				kl = append(kl, k)
			}
			sort.Strings(kl)
			wantK := []string{fmt.Sprintf("%g", 1-er.tol), fmt.Sprintf("%g", 1+er.tol)}
			sort.Strings(wantK)
			if strings.Join(kl, ",") != strings.Join(wantK, ",") {
				bad = append(bad, fmt.Sprintf("%s: band factors {%s}, expected {%s}", pos, strings.Join(kl, ","), strings.Join(wantK, ",")))
			}
			// outcome
			inBand, zeroed, errOut := false, false, false
			for _, b := range er.fn.Blocks {
				if !t.Root.execB[b] {
					continue
				}
				hasAppend, hasZero := false, false
				var appended ssa.Value
				for _, ins := range b.Instrs {
					if call, ok := ins.(*ssa.Call); ok {
						if bi, ok := call.Call.Value.(*ssa.Builtin); ok && bi.Name() == "append" {
							hasAppend = true
							if els := varargElems(call.Call.Args[1]); len(els) == 1 {
								appended = els[0]
							}
						}
						if calleeName(call.Common()) == "fmt.Errorf" {
							if k, ok := call.Call.Args[0].(*ssa.Const); ok && strings.Contains(k.Value.ExactString(), "tolerance band") {
								errOut = true
							}
						}
					}
					if st, ok := ins.(*ssa.Store); ok {
						if k, ok := st.Val.(*ssa.Const); ok && k.Value != nil && k.Value.Kind() == constant.Int && k.Uint64() == 0 && strings.HasSuffix(typePath(st.Addr), ".Value") {
							hasZero = true
						}
					}
				}
				if hasAppend && hasZero {
					zeroed = true
					if appended != nil && !sliceHas(appended, func(v ssa.Value) bool { p, ok := v.(*ssa.Parameter); return ok && ownParam(p, p.Parent()) == 2 }) {
						bad = append(bad, pos+": the zero-rate entry is not the SPR winner's entry")
					}
				} else if hasAppend {
					inBand = true
					if appended != nil && !sliceHas(appended, func(v ssa.Value) bool { p, ok := v.(*ssa.Parameter); return ok && ownParam(p, p.Parent()) == 1 }) {
						bad = append(bad, pos+": the in-band rate is not taken from the OPR winner")
					}
				}
			}
			within := pos == "low-edge" || pos == "inside" || pos == "high-edge"
			wantIn, wantZero, wantErr := within, !within && !er.outErr, !within && er.outErr
			if inBand != wantIn || zeroed != wantZero || errOut != wantErr {
				bad = append(bad, fmt.Sprintf("%s: in-band append=%v zero-rate append=%v band error=%v, expected %v/%v/%v", pos, inBand, zeroed, errOut, wantIn, wantZero, wantErr))
			}
		}
		acc.report(c, r, "C12/band-table", er.fn)
		r.check(len(bad) == 0, "C12/band-table", er.name, c.pos(er.fn.Pos()), fmt.Sprintf("band %g%%, inclusive edges, 5 positions", er.tol*100), strings.Join(bad, "; "))
	}
	// one side absent: the other side's rates are used unchanged
	for _, spec := range []struct {
		fn       *ssa.Function
		opr, spr AVal
		lo, ls   int64
		want     string
	}{
		{gar, nonNil, nilVal, 32, 0, "oprWinners"}, {gar, nilVal, nonNil, 0, 32, "sprWinners"},
		{gv0, nonNil, nilVal, 32, 0, "oprWinners"}, {gv0, nilVal, nonNil, 0, 32, "sprWinners"},
	} {
		mk := func(v AVal, n int64) AVal {
			if v.isNil() {
				return v
			}
			return sliceOfStructs(n, nil)
		}
		sc := &Scenario{Params: map[string]AVal{"type:[]opr.AssetUint#0": mk(spec.opr, spec.lo), "type:[]opr.AssetUint#1": mk(spec.spr, spec.ls)}, MaxDepth: 0}
		t := newSCCP(c, sc).analyse(spec.fn, nil)
		r.Scen++
		var got []string
		for rt := range t.Root.rets {
			if t.Root.execB[rt.Block()] {
				got = append(got, map[int]string{1: "oprWinners", 2: "sprWinners"}[ownParam(resolveSpill(rt.Results[0]), spec.fn)])
			}
		}
		sort.Strings(got)
		r.check(len(got) == 1 && got[0] == spec.want, "C12/band-table", fmt.Sprintf("%s with only %s present", fname(spec.fn), spec.want), c.pos(spec.fn.Pos()), "returns "+spec.want+" unchanged", fmt.Sprintf("returns %v", got))
	}
}

func winnerTable(c *Ctx, r *Report, e *eraCtx, rule string) {
	// winners table
	r.rule(rule, 3, "no winners: no rates, no held conversions executed; winners: both")
	sb := c.fn("node.Pegnetd.SyncBlock")
	type wsc struct {
		name    string
		calls   map[string]AVal
		lens    map[string]AVal
		winners bool
	}
	noneT := AVal{K: ATuple, Tup: []AVal{nilVal, nilVal}}
	someT := AVal{K: ATuple, Tup: []AVal{nonNil, nilVal}}
	scs := []wsc{
		{"no graded block", map[string]AVal{"Grade": noneT, "GradeS": noneT}, nil, false},
		{"graded blocks without winners", map[string]AVal{"Grade": someT, "GradeS": someT}, map[string]AVal{"Winners()": cInt(0)}, false},
		{"graded blocks with winners", map[string]AVal{"Grade": someT, "GradeS": someT, "GetAssetRates": {K: ATuple, Tup: []AVal{nonNil, nilVal}}, "GetAssetRatesV0": {K: ATuple, Tup: []AVal{nonNil, nilVal}}}, map[string]AVal{"Winners()": cInt(25)}, true},
	}
	for _, w := range scs {
		var bad []string
		acc := newTableAcc()
		for _, h := range e.reps {
			sc := &Scenario{Params: map[string]AVal{"type:uint32": hconst(h)}, Calls: w.calls, Lens: w.lens, MaxDepth: 0, AllErrorsNil: true}
			t, _ := acc.run(c, r, sb, sc)
			ir, ex := t.Live("InsertRates"), t.Live("ApplyTransactionBatchesInHolding")
			wantEx := w.winners && e.a.txActive(h)
			if ir != w.winners || ex != wantEx {
				if len(bad) < 4 {
					bad = append(bad, fmt.Sprintf("h=%d: InsertRates %s (expected %s), held conversions %s (expected %s)", h, liveStr(ir), liveStr(w.winners), liveStr(ex), liveStr(wantEx)))
				}
			}
			if w.winners {
				// on the no-fault path rates must be recorded before conversions execute
				for _, lc := range t.CallsTo("ApplyTransactionBatchesInHolding") {
					okOrder := false
					for _, ic := range t.CallsTo("InsertRates") {
						// either call may sit in a stage split off from SyncBlock: compare the calls that stand for them
						ia, la := c.liftSite(ic.Instr, sb), c.liftSite(lc.Instr, sb)
						if ia != nil && la != nil && ia != la && execReaches(t.Root, ia, la) {
							okOrder = true
						}
					}
					if !okOrder && len(bad) < 4 {
						bad = append(bad, fmt.Sprintf("h=%d: held conversions can execute before this block's rates are inserted", h))
					}
				}
			}
		}
		acc.report(c, r, rule, sb)
		r.check(len(bad) == 0, rule, w.name, c.pos(sb.Pos()), fmt.Sprintf("%d height classes", len(e.reps)), strings.Join(bad, "; "))
	}

}

// rateInsertTokens: the token-name values of the live INSERTs into pn_rate of a trace, whether issued through the
// private insertRate helper or directly.
func rateInsertTokens(c *Ctx, t *Trace) []ssa.Value {
	var out []ssa.Value
	for _, lc := range t.Calls {
		if lc.Depth != 0 {
			continue
		}
		switch lc.Short {
		case "insertRate":
			out = append(out, c.stringArgs(lc.Instr)...)
		case "Exec", "ExecContext":
			if stmtLabel(c, lc.Instr) != "INSERT pn_rate" {
				continue
			}
			vals, _ := sqlParamValues(lc.Instr.Common())
			for _, a := range vals {
				if b, ok := a.Type().Underlying().(*types.Basic); ok && b.Kind() == types.String {
					out = append(out, a)
				}
			}
		}
	}
	return out
}

// ruleNoCarriedDecision: the per-asset loops of the rate-combination functions carry nothing from one asset to the
// next except the loop index and the result list: every asset is judged on its own band.
func ruleNoCarriedDecision(c *Ctx, r *Report, rule string, fns ...*ssa.Function) {
	for _, f := range fns {
		var bad []string
		n := 0
		for _, l := range naturalLoops(f) {
			for _, ins := range l.header.Instrs {
				ph, ok := ins.(*ssa.Phi)
				if !ok {
					continue
				}
				n++
				okk := false
				switch ph.Type().Underlying().(type) {
				case *types.Slice:
					// accumulator: every in-loop edge is the phi itself or an append to it
					okk = true
					for i, e := range ph.Edges {
						if !l.blocks[l.header.Preds[i]] {
							continue
						}
						if e == ssa.Value(ph) {
							continue
						}
						if !sliceHas(e, func(v ssa.Value) bool {
							call, ok := v.(*ssa.Call)
							if !ok {
								return false
							}
							b, ok := call.Call.Value.(*ssa.Builtin)
							return ok && b.Name() == "append"
						}) {
							okk = false
						}
					}
				case *types.Basic:
					// induction variable: in-loop edges are phi + constant
					if ph.Type().Underlying().(*types.Basic).Info()&types.IsInteger != 0 {
						okk = true
						for i, e := range ph.Edges {
							if !l.blocks[l.header.Preds[i]] {
								continue
							}
							bo, ok := e.(*ssa.BinOp)
							if !ok || bo.Op != token.ADD || bo.X != ssa.Value(ph) {
								okk = false
								continue
							}
							if _, ok := bo.Y.(*ssa.Const); !ok {
								okk = false
							}
						}
					}
				}
				if !okk {
					d := ph.Comment
					if d == "" {
						d = shortType(ph.Type()) + " variable"
					}
					bad = append(bad, fmt.Sprintf("%s at %s keeps its value from one asset to the next", d, c.pos(ph.Pos())))
				}
			}
		}
		r.check(len(bad) == 0 && n > 0, rule, fname(f)+": each asset is judged on its own", c.pos(f.Pos()), fmt.Sprintf("%d loop variables: index and result list only", n), strings.Join(bad, "; ")+": a decision made for one asset (e.g. a narrowed tolerance) applies to the assets after it")
	}
}

// ruleRatesReadComplete: the functions that read pn_rate rows into a map put every scanned row into it (no row is
// left out on a condition): a stored 0 is information - it counts as a missing sample of the rolling average.
func ruleRatesReadComplete(c *Ctx, r *Report, rule string) {
	r.rule(rule, 1, "rate readers return every stored row")
	n := 0
	for _, f := range c.Funcs {
		if f.Pkg == nil || f.Pkg.Pkg.Name() != "pegnet" {
			continue
		}
		for _, l := range naturalLoops(f) {
			driven := false
			for b := range l.blocks {
				for _, ins := range b.Instrs {
					if ci, ok := ins.(ssa.CallInstruction); ok && calleeName(ci.Common()) == "database/sql.Rows.Next" {
						driven = true
					}
				}
			}
			if !driven {
				continue
			}
			for b := range l.blocks {
				for _, ins := range b.Instrs {
					mu, ok := ins.(*ssa.MapUpdate)
					if !ok || shortType(mu.Map.Type()) != "map[fat2.PTicker]uint64" {
						continue
					}
					n++
					// rows may be filtered by their name (prefix, unknown ticker) - never by their value: no branch inside
					// the loop tests the scanned rate
					var valSlot ssa.Value
					if u, ok := mu.Value.(*ssa.UnOp); ok && u.Op == token.MUL {
						valSlot = u.X
					}
					bad := ""
					for b := range l.blocks {
						iff, ok := b.Instrs[len(b.Instrs)-1].(*ssa.If)
						if !ok || valSlot == nil {
							continue
						}
						if sliceHas(iff.Cond, func(v ssa.Value) bool {
							u, ok := v.(*ssa.UnOp)
							return ok && u.Op == token.MUL && u.X == valSlot
						}) {
							bad = c.ipos(iff)
						}
					}
					r.check(bad == "" && valSlot != nil, rule, fname(f)+" stores every scanned rate row whatever its value", c.ipos(mu), "", "the branch at "+bad+" decides on the scanned rate: a row (e.g. a rate of 0) is dropped, so the averaging window misses the sample that marks the asset as unpriced in that block")
				}
			}
		}
	}
	if n == 0 {
		r.viol(rule, "rate readers", "-", "no loop over result rows filling a rate map found in package pegnet")
	}
}

// stringArgs: the string-typed arguments of a call, and the string fields of struct arguments the caller fills in.
func (c *Ctx) stringArgs(ci ssa.CallInstruction) []ssa.Value {
	var cands []ssa.Value
	for _, a := range ci.Common().Args {
		if b, ok := a.Type().Underlying().(*types.Basic); ok && b.Kind() == types.String {
			cands = append(cands, a)
		}
		if stt, ok := a.Type().Underlying().(*types.Struct); ok {
			for k := 0; k < stt.NumFields(); k++ {
				if b, ok := stt.Field(k).Type().Underlying().(*types.Basic); ok && b.Kind() == types.String {
					cands = append(cands, c.structFieldSources(a, k, 0)...)
				}
			}
		}
	}
	return cands
}
