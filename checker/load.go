package main

// Loader, program facts, module call graph, roots.  DESIGN.md §2.1.

import (
	"fmt"
	"go/token"
	"go/types"
	"os"
	"sort"
	"strings"
	"sync"

	"golang.org/x/tools/go/packages"
	"golang.org/x/tools/go/ssa"
	"golang.org/x/tools/go/ssa/ssautil"
)

const modPath = "github.com/pegnet/pegnetd"

// Ctx is everything the engines share.
type Ctx struct {
	Repo       string
	Pkgs       []*packages.Package // module packages only
	All        []*packages.Package
	Fset       *token.FileSet
	Prog       *ssa.Program
	SPkg       map[string]*ssa.Package // short name -> ssa package (module only)
	PPkg       map[string]*packages.Package
	Funcs      []*ssa.Function // every module function incl. anonymous, sorted by name
	ownersMemo map[*ssa.Function][]string
	CG         map[*ssa.Function][]*Edge
	In         map[*ssa.Function][]*Edge

	Sync    *ssa.Function   // DBlockSync (structurally derived)
	Block   []*ssa.Function // callees of Sync that receive the block *sql.Tx
	API     []*ssa.Function // JSON-RPC handlers
	Startup *ssa.Function   // NewPegnetd
	CLI     []*ssa.Function

	RSync, RAPI, RStartup, RBlock map[*ssa.Function]bool

	Verif  string
	Tier   string
	allFns map[*ssa.Function]bool
}

type Edge struct {
	Caller *ssa.Function
	Callee *ssa.Function
	Site   ssa.Instruction // call/go/defer/makeclosure/address-taken instruction
	Kind   string          // static, closure, invoke, fnvalue, json
}

func die(code int, format string, a ...interface{}) {
	fmt.Fprintf(os.Stderr, "pegcheck: "+format+"\n", a...)
	fmt.Printf("ANALYSIS-ERROR: "+format+"\n", a...)
	os.Exit(code)
}

func inModule(p *types.Package) bool {
	return p != nil && (p.Path() == modPath || strings.HasPrefix(p.Path(), modPath+"/"))
}

func fnInModule(f *ssa.Function) bool {
	if f == nil {
		return false
	}
	if f.Pkg != nil {
		return inModule(f.Pkg.Pkg)
	}
	if f.Parent() != nil {
		return fnInModule(f.Parent())
	}
	if o := f.Object(); o != nil {
		return inModule(o.Pkg())
	}
	return false
}

// fname gives a short stable name: pkg.Func, pkg.(*T).M, pkg.T.M, pkg.F$1.
var fnameCache sync.Map

func fname(f *ssa.Function) string {
	if f == nil {
		return "<nil>"
	}
	if s, ok := fnameCache.Load(f); ok {
		return s.(string)
	}
	s := fname1(f)
	fnameCache.Store(f, s)
	return s
}

func fname1(f *ssa.Function) string {
	if f.Parent() != nil {
		return fname(f.Parent()) + strings.TrimPrefix(f.Name(), f.Parent().Name())
	}
	pk := ""
	if f.Pkg != nil {
		pk = f.Pkg.Pkg.Name()
		if !inModule(f.Pkg.Pkg) {
			pk = f.Pkg.Pkg.Path()
		}
	} else if o := f.Object(); o != nil && o.Pkg() != nil {
		pk = o.Pkg().Path()
		if inModule(o.Pkg()) {
			pk = o.Pkg().Name()
		}
	}
	if recv := f.Signature.Recv(); recv != nil {
		t := recv.Type()
		star := ""
		if p, ok := t.(*types.Pointer); ok {
			t = p.Elem()
			star = "*"
		}
		tn := t.String()
		if n, ok := t.(*types.Named); ok {
			tn = n.Obj().Name()
			if n.Obj().Pkg() != nil {
				pk = n.Obj().Pkg().Path()
				if inModule(n.Obj().Pkg()) {
					pk = n.Obj().Pkg().Name()
				}
			}
		}
		_ = star // names do not depend on the receiver kind: pkg.T.M for both (T) and (*T) receivers
		return fmt.Sprintf("%s.%s.%s", pk, tn, f.Name())
	}
	return pk + "." + f.Name()
}

func (c *Ctx) pos(p token.Pos) string {
	if !p.IsValid() {
		return "-"
	}
	ps := c.Fset.Position(p)
	return fmt.Sprintf("%s:%d:%d", strings.TrimPrefix(ps.Filename, c.Repo+"/"), ps.Line, ps.Column)
}

func (c *Ctx) ipos(i ssa.Instruction) string {
	if i == nil {
		return "-"
	}
	p := i.Pos()
	if !p.IsValid() {
		// fall back to any operand with a position, then to the function
		if v, ok := i.(ssa.Value); ok {
			_ = v
		}
		for _, op := range i.Operands(nil) {
			if op != nil && *op != nil && (*op).Pos().IsValid() {
				p = (*op).Pos()
				break
			}
		}
	}
	if !p.IsValid() && i.Parent() != nil {
		p = i.Parent().Pos()
	}
	return c.pos(p)
}

func load(repo string) *Ctx {
	os.Unsetenv("GOWORK")
	cfg := &packages.Config{
		Mode:  packages.LoadAllSyntax,
		Dir:   repo,
		Tests: false,
		Env:   append(os.Environ(), "GOFLAGS=-mod=mod", "GOPROXY=off", "GOSUMDB=off", "GOTOOLCHAIN=local", "GOWORK=off"),
	}
	pkgs, err := packages.Load(cfg, "./...")
	if err != nil {
		die(2, "load: %v", err)
	}
	if len(pkgs) < 9 {
		die(2, "load: only %d packages (expected >= 9)", len(pkgs))
	}
	nerr := 0
	packages.Visit(pkgs, nil, func(p *packages.Package) {
		for _, e := range p.Errors {
			if inModule(p.Types) || p.PkgPath == modPath {
				fmt.Fprintf(os.Stderr, "type error: %v\n", e)
				nerr++
			}
		}
	})
	if nerr > 0 {
		die(2, "load: %d type errors in module packages", nerr)
	}
	prog, _ := ssautil.AllPackages(pkgs, ssa.InstantiateGenerics)
	prog.Build()
	c := &Ctx{Repo: repo, All: pkgs, Fset: prog.Fset, Prog: prog,
		SPkg: map[string]*ssa.Package{}, PPkg: map[string]*packages.Package{}}
	for _, p := range pkgs {
		if p.Types == nil || !inModule(p.Types) {
			continue
		}
		c.Pkgs = append(c.Pkgs, p)
		sp := prog.Package(p.Types)
		if sp == nil {
			die(2, "no ssa package for %s", p.PkgPath)
		}
		c.SPkg[p.Types.Name()] = sp
		c.PPkg[p.Types.Name()] = p
	}
	for f := range ssautil.AllFunctions(prog) {
		if fnInModule(f) && f.Blocks != nil {
			c.Funcs = append(c.Funcs, f)
		}
	}
	sort.Slice(c.Funcs, func(i, j int) bool {
		a, b := fname(c.Funcs[i]), fname(c.Funcs[j])
		if a != b {
			return a < b
		}
		return c.Funcs[i].Pos() < c.Funcs[j].Pos()
	})
	canonParamOrder(c)
	c.buildCG()
	c.findRoots()
	return c
}

// ---------- lookups (anchors) ----------

func (c *Ctx) pkg(short string) *ssa.Package {
	p := c.SPkg[short]
	if p == nil {
		die(2, "unresolved anchor: package %s", short)
	}
	return p
}

// fn resolves "pkg.Func" or "pkg.Type.Method" (pointer or value receiver).
func (c *Ctx) fn(name string) *ssa.Function {
	f := c.fnOpt(name)
	if f == nil {
		die(2, "unresolved anchor: function %s", name)
	}
	return f
}

func (c *Ctx) fnOpt(name string) *ssa.Function {
	parts := strings.Split(name, ".")
	p := c.SPkg[parts[0]]
	if p == nil {
		return nil
	}
	switch len(parts) {
	case 2:
		return p.Func(parts[1])
	case 3:
		t := p.Type(parts[1])
		if t == nil {
			return nil
		}
		for _, T := range []types.Type{t.Type(), types.NewPointer(t.Type())} {
			ms := c.Prog.MethodSets.MethodSet(T)
			for i := 0; i < ms.Len(); i++ {
				if ms.At(i).Obj().Name() == parts[2] {
					if f := c.Prog.MethodValue(ms.At(i)); f != nil && f.Synthetic == "" {
						return f
					} else if f != nil {
						// wrapper: find the declared method
						if fo, ok := ms.At(i).Obj().(*types.Func); ok {
							if df := c.Prog.FuncValue(fo); df != nil {
								return df
							}
						}
					}
				}
			}
		}
	}
	return nil
}

func (c *Ctx) global(pkg, name string) *ssa.Global {
	p := c.pkg(pkg)
	g, _ := p.Members[name].(*ssa.Global)
	if g == nil {
		die(2, "unresolved anchor: global %s.%s", pkg, name)
	}
	return g
}

// ---------- call graph ----------

func (c *Ctx) addEdge(caller, callee *ssa.Function, site ssa.Instruction, kind string) {
	if caller == nil || callee == nil {
		return
	}
	e := &Edge{caller, callee, site, kind}
	c.CG[caller] = append(c.CG[caller], e)
	c.In[callee] = append(c.In[callee], e)
}

// moduleImplementors returns module methods implementing iface method m.
func (c *Ctx) moduleImplementors(iface *types.Interface, m *types.Func) []*ssa.Function {
	var out []*ssa.Function
	for _, p := range c.Pkgs {
		sc := p.Types.Scope()
		for _, n := range sc.Names() {
			tn, ok := sc.Lookup(n).(*types.TypeName)
			if !ok || tn.IsAlias() {
				continue
			}
			if _, isIface := tn.Type().Underlying().(*types.Interface); isIface {
				continue
			}
			for _, T := range []types.Type{tn.Type(), types.NewPointer(tn.Type())} {
				if !types.Implements(T, iface) {
					continue
				}
				sel := c.Prog.MethodSets.MethodSet(T).Lookup(m.Pkg(), m.Name())
				if sel == nil {
					continue
				}
				if fo, ok := sel.Obj().(*types.Func); ok {
					if f := c.Prog.FuncValue(fo); f != nil && fnInModule(f) {
						out = append(out, f)
					}
				}
				break
			}
		}
	}
	return out
}

// jsonCallbacks: module (Un)MarshalJSON methods reachable through the static type t.
func (c *Ctx) jsonCallbacks(t types.Type, method string, seen map[types.Type]bool, out *[]*ssa.Function) {
	if t == nil || seen[t] {
		return
	}
	seen[t] = true
	if n, ok := t.(*types.Named); ok && n.Obj().Pkg() != nil && inModule(n.Obj().Pkg()) {
		for _, T := range []types.Type{n, types.NewPointer(n)} {
			if sel := c.Prog.MethodSets.MethodSet(T).Lookup(nil, method); sel != nil {
				if fo, ok := sel.Obj().(*types.Func); ok {
					if f := c.Prog.FuncValue(fo); f != nil && fnInModule(f) {
						*out = append(*out, f)
					}
				}
				break
			}
		}
	}
	switch u := t.Underlying().(type) {
	case *types.Pointer:
		c.jsonCallbacks(u.Elem(), method, seen, out)
	case *types.Slice:
		c.jsonCallbacks(u.Elem(), method, seen, out)
	case *types.Array:
		c.jsonCallbacks(u.Elem(), method, seen, out)
	case *types.Map:
		c.jsonCallbacks(u.Elem(), method, seen, out)
	case *types.Struct:
		for i := 0; i < u.NumFields(); i++ {
			c.jsonCallbacks(u.Field(i).Type(), method, seen, out)
		}
	}
}

func (c *Ctx) buildCG() {
	c.CG = map[*ssa.Function][]*Edge{}
	c.In = map[*ssa.Function][]*Edge{}
	for _, f := range c.Funcs {
		for _, b := range f.Blocks {
			for _, ins := range b.Instrs {
				// closures and function values
				for _, op := range ins.Operands(nil) {
					if op == nil || *op == nil {
						continue
					}
					switch v := (*op).(type) {
					case *ssa.Function:
						if fnInModule(v) {
							if ci, ok := ins.(ssa.CallInstruction); ok && ci.Common().Value == v {
								continue // static call handled below
							}
							c.addEdge(f, v, ins, "fnvalue")
						}
					}
				}
				if mc, ok := ins.(*ssa.MakeClosure); ok {
					if cf, ok := mc.Fn.(*ssa.Function); ok {
						c.addEdge(f, cf, ins, "closure")
					}
				}
				ci, ok := ins.(ssa.CallInstruction)
				if !ok {
					continue
				}
				cc := ci.Common()
				if sc := cc.StaticCallee(); sc != nil {
					if fnInModule(sc) {
						c.addEdge(f, sc, ins, "static")
					} else if sc.Pkg != nil && sc.Pkg.Pkg.Path() == "encoding/json" &&
						(sc.Name() == "Unmarshal" || sc.Name() == "Marshal" || sc.Name() == "MarshalIndent") {
						method := "UnmarshalJSON"
						argi := 1
						if sc.Name() != "Unmarshal" {
							method, argi = "MarshalJSON", 0
						}
						if argi < len(cc.Args) {
							a := cc.Args[argi]
							if mi, ok := a.(*ssa.MakeInterface); ok {
								a = mi.X
							}
							var cbs []*ssa.Function
							c.jsonCallbacks(a.Type(), method, map[types.Type]bool{}, &cbs)
							for _, cb := range cbs {
								c.addEdge(f, cb, ins, "json")
							}
						}
					}
					continue
				}
				if cc.IsInvoke() {
					if iface, ok := cc.Value.Type().Underlying().(*types.Interface); ok {
						for _, impl := range c.moduleImplementors(iface, cc.Method) {
							c.addEdge(f, impl, ins, "invoke")
						}
					}
				}
				// dynamic call of a function value: targets were added as fnvalue
				// edges at the point where the value was created.
			}
		}
	}
}

func (c *Ctx) reach(roots ...*ssa.Function) map[*ssa.Function]bool {
	seen := map[*ssa.Function]bool{}
	var st []*ssa.Function
	for _, r := range roots {
		if r != nil && !seen[r] {
			seen[r] = true
			st = append(st, r)
		}
	}
	for len(st) > 0 {
		f := st[len(st)-1]
		st = st[:len(st)-1]
		for _, e := range c.CG[f] {
			if !seen[e.Callee] {
				seen[e.Callee] = true
				st = append(st, e.Callee)
			}
		}
	}
	return seen
}

// pathTo returns one call path root -> ... -> target (names), for diagnostics.
func (c *Ctx) pathTo(root, target *ssa.Function) []string {
	prev := map[*ssa.Function]*ssa.Function{root: nil}
	q := []*ssa.Function{root}
	for len(q) > 0 {
		f := q[0]
		q = q[1:]
		if f == target {
			var p []string
			for x := f; x != nil; x = prev[x] {
				p = append([]string{fname(x)}, p...)
			}
			return p
		}
		for _, e := range c.CG[f] {
			if _, ok := prev[e.Callee]; !ok {
				prev[e.Callee] = f
				q = append(q, e.Callee)
			}
		}
	}
	return nil
}

func sortedFuncs(m map[*ssa.Function]bool) []*ssa.Function {
	var out []*ssa.Function
	for f := range m {
		out = append(out, f)
	}
	sort.Slice(out, func(i, j int) bool { return fname(out[i]) < fname(out[j]) })
	return out
}

// ---------- roots ----------

func isSQLTxPtr(t types.Type) bool {
	p, ok := t.(*types.Pointer)
	if !ok {
		return false
	}
	n, ok := p.Elem().(*types.Named)
	return ok && n.Obj().Pkg() != nil && n.Obj().Pkg().Path() == "database/sql" && n.Obj().Name() == "Tx"
}

func isNamed(t types.Type, pkgPath, name string) bool {
	if p, ok := t.(*types.Pointer); ok {
		t = p.Elem()
	}
	n, ok := t.(*types.Named)
	return ok && n.Obj().Pkg() != nil && n.Obj().Pkg().Path() == pkgPath && n.Obj().Name() == name
}

func (c *Ctx) findRoots() {
	// SYNC: in package cmd, the function (closure) that contains `go (*srv.APIServer).Start(..)`;
	// the module method called after it on the node value.
	for _, f := range c.Funcs {
		if f.Pkg == nil && f.Parent() == nil {
			continue
		}
		var sawGo bool
		for _, b := range f.Blocks {
			for _, ins := range b.Instrs {
				if g, ok := ins.(*ssa.Go); ok {
					if sc := g.Call.StaticCallee(); sc != nil && fname(sc) == "srv.APIServer.Start" {
						sawGo = true
					}
					continue
				}
				if !sawGo {
					continue
				}
				if call, ok := ins.(*ssa.Call); ok {
					if sc := call.Call.StaticCallee(); sc != nil && fnInModule(sc) && sc.Signature.Recv() != nil &&
						isNamed(sc.Signature.Recv().Type(), modPath+"/node", "Pegnetd") {
						c.Sync = sc
					}
				}
			}
		}
		if sawGo && c.Sync != nil {
			c.CLI = append(c.CLI, f)
		}
	}
	if c.Sync == nil {
		die(2, "unresolved anchor: SYNC root (method called after `go apiserver.Start`)")
	}
	// BLOCK: callees of SYNC that take a *sql.Tx.
	seen := map[*ssa.Function]bool{}
	for _, e := range c.CG[c.Sync] {
		if e.Kind != "static" || seen[e.Callee] {
			continue
		}
		ps := e.Callee.Signature.Params()
		for i := 0; i < ps.Len(); i++ {
			if isSQLTxPtr(ps.At(i).Type()) {
				seen[e.Callee] = true
				c.Block = append(c.Block, e.Callee)
				break
			}
		}
	}
	if len(c.Block) < 2 {
		die(2, "unresolved anchor: BLOCK roots (callees of %s taking *sql.Tx): %d", fname(c.Sync), len(c.Block))
	}
	// API: function values in the jrpc.MethodMap literal of (*srv.APIServer).jrpcMethods.
	jm := c.fn("srv.APIServer.jrpcMethods")
	apiSeen := map[*ssa.Function]bool{}
	for _, b := range jm.Blocks {
		for _, ins := range b.Instrs {
			mu, ok := ins.(*ssa.MapUpdate)
			if !ok {
				continue
			}
			v := mu.Value
			for {
				switch x := v.(type) {
				case *ssa.ChangeType:
					v = x.X
					continue
				case *ssa.MakeInterface:
					v = x.X
					continue
				case *ssa.Convert:
					v = x.X
					continue
				}
				break
			}
			var target *ssa.Function
			switch x := v.(type) {
			case *ssa.MakeClosure:
				target, _ = x.Fn.(*ssa.Function)
				// bound-method closure: follow to the real method
				if target != nil && target.Synthetic != "" {
					for _, e := range callsOf(target) {
						if sc := e.Common().StaticCallee(); sc != nil && fnInModule(sc) {
							target = sc
						}
					}
				}
			case *ssa.Function:
				target = x
			case *ssa.Call:
				// handler returned by a factory: every closure the factory creates
				if sc := x.Call.StaticCallee(); sc != nil {
					for _, e := range c.CG[sc] {
						if e.Kind == "closure" && !apiSeen[e.Callee] {
							apiSeen[e.Callee] = true
							c.API = append(c.API, e.Callee)
						}
					}
					if !apiSeen[sc] {
						apiSeen[sc] = true
						c.API = append(c.API, sc)
					}
				}
			}
			if target != nil && !apiSeen[target] {
				apiSeen[target] = true
				c.API = append(c.API, target)
			}
		}
	}
	if len(c.API) < 10 {
		die(2, "unresolved anchor: API roots from jrpcMethods: %d (<10)", len(c.API))
	}
	c.Startup = c.fn("node.NewPegnetd")
	c.RSync = c.reach(c.Sync)
	c.RAPI = c.reach(c.API...)
	backSliceCtx = c
	c.RStartup = c.reach(c.Startup)
	c.RBlock = c.reach(c.Block...)
}

func callsOf(f *ssa.Function) []ssa.CallInstruction {
	var out []ssa.CallInstruction
	for _, b := range f.Blocks {
		for _, ins := range b.Instrs {
			if ci, ok := ins.(ssa.CallInstruction); ok {
				out = append(out, ci)
			}
		}
	}
	return out
}

// allFunctions: every function of the program (module and dependencies).
func (c *Ctx) allFunctions() map[*ssa.Function]bool {
	if c.allFns == nil {
		c.allFns = ssautil.AllFunctions(c.Prog)
	}
	return c.allFns
}
