package main

// E3 txstate — typestate of the block *sql.Tx over the CFG of the sync root.

import (
	"fmt"
	"go/token"
	"strings"

	"golang.org/x/tools/go/ssa"
)

type nilTest struct {
	If   *ssa.If
	S, N *ssa.BasicBlock // non-nil successor, nil successor
}

// nilTestsOf returns the nil tests on the carriers of error value e.
func nilTestsOf(c *Ctx, e ssa.Value) []nilTest {
	ef := &errflow{c: c}
	C := ef.carriers(e)
	var out []nilTest
	f := e.(ssa.Instruction).Parent()
	allInstrs(f, func(ins ssa.Instruction) {
		iff, ok := ins.(*ssa.If)
		if !ok {
			return
		}
		S := nilTestSucc(iff, C)
		if S == nil {
			return
		}
		N := iff.Block().Succs[0]
		if N == S {
			N = iff.Block().Succs[1]
		}
		out = append(out, nilTest{iff, S, N})
	})
	return out
}

func blockOrDom(a, b *ssa.BasicBlock) bool { return a == b || a.Dominates(b) }

// nilEdgeDom: block b is reachable only through the nil-error edge of test t (the nil successor is
// entered by that edge alone and dominates b).
func nilEdgeDom(t nilTest, b *ssa.BasicBlock) bool {
	return t.N != t.S && len(t.N.Preds) == 1 && blockOrDom(t.N, b)
}

// fieldStorePath: for a Store, the access path of the address ("d.Sync.Synced").
func storePath(st *ssa.Store) string { return valuePath(st.Addr) }

func ruleTxTypestate(c *Ctx, r *Report, rule string) {
	f := c.Sync
	pos := c.pos(f.Pos())
	begins := findCalls(f, "database/sql.DB.BeginTx")
	begins = append(begins, findCalls(f, "database/sql.DB.Begin")...)
	if len(begins) != 1 {
		r.viol(rule, "sync root begins exactly one transaction per block", pos, fmt.Sprintf("found %d BeginTx/Begin calls in %s", len(begins), fname(f)))
		return
	}
	// helpers split off from the root work on the root's transaction; none opens one of its own
	for _, g := range c.family(f) {
		if g == f {
			continue
		}
		for _, n := range []string{"database/sql.DB.BeginTx", "database/sql.DB.Begin"} {
			for _, ci := range findCalls(g, n) {
				r.viol(rule, fname(g)+" begins a transaction of its own", c.ipos(ci), "a second transaction on the sync path: what it commits is not rolled back with the block (and is committed while the recorded height still says the block was not applied)")
			}
		}
	}
	begin := begins[0].(*ssa.Call)
	var T, Berr ssa.Value
	for _, rf := range *begin.Referrers() {
		if ex, ok := rf.(*ssa.Extract); ok {
			if ex.Index == 0 {
				T = ex
			} else {
				Berr = ex
			}
		}
	}
	if T == nil || Berr == nil {
		r.viol(rule, "BeginTx results bound", c.ipos(begin), "transaction or error result of BeginTx is not bound")
		return
	}
	// a view: a function together with the value that is the block transaction inside it (the BeginTx result in the
	// sync root; the parameter that receives it in a helper split off from the root)
	type txView struct {
		fn *ssa.Function
		T  ssa.Value
	}
	// the slot the transaction is kept in when a closure captures it (`tx` then lives in memory): loads of it are T
	txSlotOf := func(v txView) *ssa.Alloc {
		if v.T.Referrers() == nil {
			return nil
		}
		for _, rf := range *v.T.Referrers() {
			st, ok := rf.(*ssa.Store)
			if !ok || st.Val != v.T {
				continue
			}
			al, ok := st.Addr.(*ssa.Alloc)
			if !ok || al.Referrers() == nil {
				continue
			}
			only := true
			for _, r2 := range *al.Referrers() {
				if s2, ok := r2.(*ssa.Store); ok && s2.Addr == ssa.Value(al) && s2.Val != v.T {
					only = false
				}
			}
			if only {
				return al
			}
		}
		return nil
	}
	isT := func(v txView, a ssa.Value) bool {
		if a == v.T {
			return true
		}
		if u, ok := a.(*ssa.UnOp); ok && u.Op == token.MUL {
			if sl := txSlotOf(v); sl != nil && u.X == ssa.Value(sl) {
				return true
			}
		}
		if p, ok := v.T.(*ssa.Parameter); ok && spilledParam(a) == p {
			return true
		}
		return false
	}
	onTv := func(v txView, ci ssa.CallInstruction) bool {
		for _, a := range ci.Common().Args {
			if isT(v, a) {
				return true
			}
		}
		return false
	}
	root := txView{f, T}
	onT := func(ci ssa.CallInstruction) bool { return onTv(root, ci) }
	commitsIn := func(v txView) []ssa.CallInstruction {
		var out []ssa.CallInstruction
		for _, ci := range findCalls(v.fn, "database/sql.Tx.Commit") {
			if onTv(v, ci) {
				out = append(out, ci)
			}
		}
		return out
	}
	rollbacksIn := func(v txView) []ssa.CallInstruction {
		var out []ssa.CallInstruction
		for _, ci := range findCalls(v.fn, "database/sql.Tx.Rollback") {
			if onTv(v, ci) {
				out = append(out, ci)
			}
		}
		// a closure of this function that captures the transaction's slot and rolls it back on every path stands for
		// the Rollback where it is called
		if sl := txSlotOf(v); sl != nil {
			for _, ci := range callsOf(v.fn) {
				mc, ok := ci.Common().Value.(*ssa.MakeClosure)
				if !ok {
					continue
				}
				g, ok := mc.Fn.(*ssa.Function)
				if !ok || g.Blocks == nil {
					continue
				}
				for i, b := range mc.Bindings {
					if b != ssa.Value(sl) || i >= len(g.FreeVars) {
						continue
					}
					fv := g.FreeVars[i]
					done := map[*ssa.BasicBlock]bool{}
					for _, rb := range findCalls(g, "database/sql.Tx.Rollback") {
						if u, ok := rb.Common().Args[0].(*ssa.UnOp); ok && u.Op == token.MUL && u.X == ssa.Value(fv) {
							done[rb.Block()] = true
						}
					}
					if len(done) == 0 {
						continue
					}
					always := true
					for blk := range reachAvoiding(g.Blocks[0], done) {
						if len(blk.Instrs) > 0 {
							if _, isRet := blk.Instrs[len(blk.Instrs)-1].(*ssa.Return); isRet {
								always = false
							}
						}
					}
					if always {
						out = append(out, ci)
					}
				}
			}
		}
		// a helper introduced after the reference tree that always rolls back the transaction it is given
		// stands for the Rollback at its call site
		for _, ci := range callsOf(v.fn) {
			sc := ci.Common().StaticCallee()
			if sc == nil || !isNewHelper(sc) || !onTv(v, ci) {
				continue
			}
			for i, a := range ci.Common().Args {
				if isT(v, a) && mustCallOnParam(sc, i, "database/sql.Tx.Rollback") {
					out = append(out, ci)
				}
			}
		}
		return out
	}
	commits := commitsIn(root)
	rollbacks := rollbacksIn(root)
	// the commit phase (record the height, commit, publish) may have been split off into a helper that is given the
	// transaction: it is then analysed in that helper, and its call stands for it in the root
	cf := root
	var cfSite ssa.CallInstruction
	if len(commits) == 0 {
		for _, ci := range callsOf(f) {
			sc := ci.Common().StaticCallee()
			if sc == nil || !isNewHelper(sc) || sc.Parent() != nil || !onT(ci) {
				continue
			}
			for i, a := range ci.Common().Args {
				if a != T || i >= len(sc.Params) {
					continue
				}
				hv := txView{sc, sc.Params[i]}
				if cs := commitsIn(hv); len(cs) > 0 && cfSite == nil {
					cf, cfSite, commits = hv, ci, cs
				}
			}
		}
	}
	if len(commits) != 1 {
		r.viol(rule, "exactly one Commit of the block transaction", pos, fmt.Sprintf("found %d", len(commits)))
		return
	}
	commit := commits[0]
	cfRollbacks := rollbacks
	if cfSite != nil {
		cfRollbacks = rollbacksIn(cf)
		if len(c.familyCallSites(cf.fn)) != 1 {
			r.undecided(rule, "commit phase in a helper", c.pos(cf.fn.Pos()), fname(cf.fn)+" is called from more than one place")
			return
		}
	}
	// lift: the instruction of the root that stands for an instruction of the commit helper
	lift := func(x ssa.Instruction) ssa.Instruction {
		if x.Parent() == f || cfSite == nil {
			return x
		}
		return cfSite
	}
	rollbacksOf := func(x ssa.Instruction) []ssa.CallInstruction {
		if x.Parent() == f {
			return rollbacks
		}
		return cfRollbacks
	}
	r.ok(rule, "one BeginTx, one Commit on its result", c.ipos(commit), fmt.Sprintf("%d rollback sites", len(rollbacks)))

	// the block call and the sync-height write, both on T
	var blockCall, syncedCall *ssa.Call
	insertSynced := c.fn("pegnet.Pegnet.InsertSynced")
	for _, ci := range callsOf(cf.fn) {
		if call, ok := ci.(*ssa.Call); ok && onTv(cf, ci) && call.Call.StaticCallee() == insertSynced {
			syncedCall = call
		}
	}
	for _, ci := range callsOf(f) {
		call, ok := ci.(*ssa.Call)
		if !ok || !onT(ci) {
			continue
		}
		sc := call.Call.StaticCallee()
		if sc == nil || !fnInModule(sc) {
			continue
		}
		if sc == insertSynced {
			// found above
		} else if ev, _ := errValueOf(call); ev != nil && errResultIndex(sc.Signature) >= 0 {
			// the block-applying call: takes T and a height, error result bound
			if blockCall == nil || len(c.reach(sc)) > len(c.reach(blockCall.Call.StaticCallee())) {
				blockCall = call
			}
		}
	}
	if blockCall == nil || syncedCall == nil {
		r.viol(rule, "block call and InsertSynced both take the block transaction", pos, fmt.Sprintf("block call found=%v InsertSynced(T) found=%v", blockCall != nil, syncedCall != nil))
		return
	}
	bname := fname(blockCall.Call.StaticCallee())
	// (a) ordering and gating
	r.check(instrDominates(blockCall, lift(syncedCall)), rule, "block call dominates InsertSynced", c.ipos(syncedCall), bname+" is applied before the height is recorded", "InsertSynced can execute without "+bname+" having run on this transaction")
	r.check(instrDominates(syncedCall, commit), rule, "InsertSynced dominates Commit", c.ipos(commit), "the sync height is written inside the transaction before it is committed", "Commit can execute without the sync height having been written on the same transaction: a crash after Commit leaves the block applied but the height not advanced")
	beginBlocks := map[*ssa.BasicBlock]bool{begin.Block(): true}
	for _, x := range []*ssa.Call{blockCall, syncedCall} {
		nm := calleeName(x.Common())
		ev, _ := errValueOf(x)
		if ev == nil {
			r.viol(rule, "error of "+nm+" gates Commit", c.ipos(x), "error result not bound")
			continue
		}
		tests := nilTestsOf(c, ev)
		if len(tests) == 0 {
			r.viol(rule, "error of "+nm+" gates Commit", c.ipos(x), "error result never tested")
			continue
		}
		okAll := true
		detail := ""
		// the commit as seen from the function the tested call sits in
		target := ssa.Instruction(commit)
		avoid := map[*ssa.BasicBlock]bool{}
		if x.Parent() == f {
			target = lift(commit)
			avoid = beginBlocks
		}
		for _, t := range tests {
			if !nilEdgeDom(t, target.Block()) {
				okAll = false
				detail = "Commit is not confined to the nil-error branch"
			}
			if reachAvoiding(t.S, avoid)[target.Block()] {
				okAll = false
				detail = "Commit is reachable from the error branch without a new BeginTx"
			}
		}
		r.check(okAll, rule, "error of "+nm+" gates Commit", c.ipos(x), "Commit only on the nil-error branch; error branch cannot reach Commit before the next BeginTx", detail)
	}
	// (b) no leak: from the success edge of BeginTx every path to a Return or back to BeginTx passes Commit or Rollback on T
	tests := nilTestsOf(c, Berr)
	if len(tests) != 1 {
		r.viol(rule, "BeginTx error tested", c.ipos(begin), fmt.Sprintf("%d nil tests on the BeginTx error", len(tests)))
	} else {
		done := map[*ssa.BasicBlock]bool{lift(commit).Block(): true}
		for _, rb := range rollbacks {
			done[rb.Block()] = true
		}
		if cfSite != nil {
			// the helper closes the transaction on every path to a return
			hd := map[*ssa.BasicBlock]bool{commit.Block(): true}
			for _, rb := range cfRollbacks {
				hd[rb.Block()] = true
			}
			open := ""
			for b := range reachAvoiding(cf.fn.Blocks[0], hd) {
				if _, isRet := b.Instrs[len(b.Instrs)-1].(*ssa.Return); isRet {
					open = c.ipos(b.Instrs[len(b.Instrs)-1])
				}
			}
			r.check(open == "", rule, fname(cf.fn)+" closes the transaction on every path", c.pos(cf.fn.Pos()), "every return follows Commit or Rollback", "return at "+open+" with the transaction neither committed nor rolled back")
		}
		reach := reachAvoiding(tests[0].N, done)
		leak := ""
		for b := range reach {
			if b == begin.Block() && b != tests[0].N {
				leak = fmt.Sprintf("path from BeginTx success back to BeginTx (block %d) without Commit/Rollback", b.Index)
			}
			for _, ins := range b.Instrs {
				if _, ok := ins.(*ssa.Return); ok {
					// returning with the transaction open: acceptable only before any write? flag it.
					leak = fmt.Sprintf("Return at %s reachable with the transaction open", c.ipos(ins))
				}
			}
		}
		// the isDone(ctx) return inside the inner loop happens before BeginTx; if it is reachable after, it is a leak
		r.check(leak == "", rule, "no path leaks the open transaction", c.ipos(begin), "every path from BeginTx success reaches Commit or Rollback before a Return or the next BeginTx", leak)
	}
	// rollback on each error branch with the tx open
	for _, x := range []ssa.CallInstruction{blockCall, syncedCall, commit} {
		ev, _ := errValueOf(x)
		nm := calleeName(x.Common())
		if ev == nil {
			continue
		}
		for _, t := range nilTestsOf(c, ev) {
			has := false
			for _, rb := range rollbacksOf(x) {
				if blockOrDom(t.S, rb.Block()) {
					has = true
				}
			}
			r.check(has, rule, "error branch of "+nm+" rolls back", c.ipos(t.If), "Rollback on the block transaction in the error branch", "no Rollback of the block transaction in the error branch")
		}
	}
	// (d) height argument of the block call is load(height)+1
	hpath, hTP := "", ""
	for _, a := range blockCall.Call.Args {
		for _, l := range c.originLeaves(a, map[*ssa.Function]bool{f: true}) { // through an explaining local
			if bo, ok := l.(*ssa.BinOp); ok && bo.Op == token.ADD {
				if k, ok := bo.Y.(*ssa.Const); ok && k.Int64() == 1 && valuePath(bo.X) != "" {
					hpath, hTP = valuePath(bo.X), typePath(bo.X)
				}
			}
		}
	}
	// the in-memory height location, recognised in the root and in the commit helper alike: the field by its declaring
	// type, on an object that is not a local of the function
	isHeightLoc := func(addr ssa.Value) bool {
		if hTP == "" || typePath(addr) != hTP {
			return valuePath(addr) == hpath && hpath != ""
		}
		rootV := addr
		for {
			switch y := rootV.(type) {
			case *ssa.FieldAddr:
				rootV = y.X
				continue
			case *ssa.UnOp:
				if y.Op == token.MUL {
					rootV = y.X
					continue
				}
			}
			break
		}
		_, local := rootV.(*ssa.Alloc)
		return !local
	}
	if hpath == "" {
		r.viol(rule, "block call applies height = synced+1", c.ipos(blockCall), "the height passed to "+bname+" is not <in-memory sync height>+1")
		return
	}
	r.okNT(rule, "block call applies height = synced+1", c.ipos(blockCall), "argument is "+hpath+"+1")
	r.Extra["sync_height_location"] = hpath
	isPlusOne := func(v ssa.Value) bool {
		bo, ok := v.(*ssa.BinOp)
		if !ok || bo.Op != token.ADD || !isHeightLoc(bo.X) {
			return false
		}
		k, ok := bo.Y.(*ssa.Const)
		return ok && k.Int64() == 1
	}
	// (c) publications of the in-memory height
	type pub struct {
		ins  ssa.Instruction
		kind string // inc, dec, set
	}
	var pubs []pub
	scanPubs := func(ins ssa.Instruction) {
		switch x := ins.(type) {
		case *ssa.Store:
			if !isHeightLoc(x.Addr) {
				return
			}
			k := "set"
			if bo, ok := x.Val.(*ssa.BinOp); ok && isHeightLoc(bo.X) {
				if kk, ok := bo.Y.(*ssa.Const); ok && kk.Int64() == 1 {
					if bo.Op == token.ADD {
						k = "inc"
					} else if bo.Op == token.SUB {
						k = "dec"
					}
				}
			}
			pubs = append(pubs, pub{ins, k})
		case ssa.CallInstruction:
			if calleePkgPath(x.Common()) == "sync/atomic" && len(x.Common().Args) > 0 && isHeightLoc(x.Common().Args[0]) {
				n := calleeName(x.Common())
				if strings.Contains(n, "Store") || strings.Contains(n, "Add") || strings.Contains(n, "Swap") {
					pubs = append(pubs, pub{ins, "set"})
				}
			}
		}
	}
	allInstrs(f, scanPubs)
	if cfSite != nil {
		allInstrs(cf.fn, scanPubs)
	}
	commitTests := func() []nilTest {
		ev, _ := errValueOf(commit)
		if ev == nil {
			return nil
		}
		return nilTestsOf(c, ev)
	}()
	afterCommit := func(ins ssa.Instruction) bool {
		for _, t := range commitTests {
			if nilEdgeDom(t, ins.Block()) {
				return true
			}
		}
		return false
	}
	var decBlocks = map[*ssa.BasicBlock]bool{}
	for _, p := range pubs {
		if p.kind == "dec" {
			decBlocks[p.ins.Block()] = true
		}
	}
	nAdv := 0
	for _, p := range pubs {
		if p.kind == "dec" {
			continue
		}
		nAdv++
		cons := fmt.Sprintf("in-memory height advance %s", ord(nAdv))
		if p.ins.Parent() != commit.Parent() {
			r.undecided(rule, cons, c.ipos(p.ins), "the height is advanced in "+fname(p.ins.Parent())+" while the transaction is committed in "+fname(commit.Parent())+": order not decided across the two")
			continue
		}
		if afterCommit(p.ins) {
			r.okNT(rule, cons, c.ipos(p.ins), hpath+" advanced only on the nil-error edge of Commit: a failed or rolled-back block never moves it")
			continue
		}
		// after Commit but not confined to its nil-error edge: the failure path publishes too
		if !instrDominates(p.ins, commit) {
			r.viol(rule, cons, c.ipos(p.ins), hpath+" is advanced after Commit on a path that is also taken when Commit failed: the in-memory height gets ahead of the database and the next iteration skips a block")
			continue
		}
		// advanced before Commit: must follow the block call and be compensated on every failing path
		if !instrDominates(blockCall, lift(p.ins)) {
			r.viol(rule, cons, c.ipos(p.ins), hpath+" advanced before "+bname+" has succeeded")
			continue
		}
		miss := ""
		for _, x := range []ssa.CallInstruction{syncedCall, commit} {
			if !instrDominates(p.ins, x) {
				continue
			}
			ev, _ := errValueOf(x)
			if ev == nil {
				continue
			}
			for _, t := range nilTestsOf(c, ev) {
				if decBlocks[t.S] {
					continue
				}
				for b := range reachAvoiding(t.S, decBlocks) {
					if !blockOrDom(t.S, b) {
						miss = fmt.Sprintf("error branch of %s leaves through block %d without restoring %s: the next iteration would skip a height", calleeName(x.Common()), b.Index, hpath)
					}
				}
			}
		}
		r.check(miss == "", rule, cons, c.ipos(p.ins), hpath+" advanced before Commit and restored on every failing path", miss)
	}
	if nAdv == 0 {
		r.viol(rule, "in-memory height advance", pos, "the sync root never advances "+hpath)
	}
	// the height recorded by InsertSynced is the height just applied
	okBS := false
	detail := ""
	for _, a := range syncedCall.Call.Args {
		if cfSite != nil {
			// the record handed to the commit helper: judged where it is built, in the root
			if i := ownParam(a, cf.fn); i >= 0 && i < len(cfSite.Common().Args) {
				a = cfSite.Common().Args[i]
			}
		}
		vp := valuePath(a)
		if vp != "" && strings.HasPrefix(hpath, vp+".") {
			// the shared object itself: an increment must dominate the call
			for _, p := range pubs {
				if p.kind == "inc" && instrDominates(p.ins, syncedCall) {
					okBS = true
					detail = "the object holding " + hpath + ", incremented before the call"
				}
			}
		}
		if al, ok := a.(*ssa.Alloc); ok {
			// a fresh record whose height field is hpath+1
			if refs := al.Referrers(); refs != nil {
				for _, rf := range *refs {
					fa, ok := rf.(*ssa.FieldAddr)
					if !ok || fa.Referrers() == nil {
						continue
					}
					for _, rr := range *fa.Referrers() {
						if st, ok := rr.(*ssa.Store); ok && st.Addr == fa && isPlusOne(st.Val) && ((st.Parent() == syncedCall.Parent() && instrDominates(st, syncedCall)) || (st.Parent() != syncedCall.Parent() && instrDominates(st, lift(syncedCall)))) {
							okBS = true
							detail = "a fresh record holding " + hpath + "+1"
						}
					}
				}
			}
		}
	}
	r.check(okBS, rule, "InsertSynced records the height just applied", c.ipos(syncedCall), detail, "InsertSynced is not given "+hpath+"+1 (the height of the block applied on this transaction)")
}
