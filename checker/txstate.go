package main

// E3 txstate — typestate of the block *sql.Tx over the CFG of the sync root.

import (
	"fmt"
	"go/token"
	"strings"

	"golang.org/x/tools/go/ssa"
)

type nilTest struct {
	If   *ssa.If
	S, N *ssa.BasicBlock // non-nil successor, nil successor
}

// nilTestsOf returns the nil tests on the carriers of error value e.
func nilTestsOf(c *Ctx, e ssa.Value) []nilTest {
	ef := &errflow{c: c}
	C := ef.carriers(e)
	var out []nilTest
	f := e.(ssa.Instruction).Parent()
	allInstrs(f, func(ins ssa.Instruction) {
		iff, ok := ins.(*ssa.If)
		if !ok {
			return
		}
		S := nilTestSucc(iff, C)
		if S == nil {
			return
		}
		N := iff.Block().Succs[0]
		if N == S {
			N = iff.Block().Succs[1]
		}
		out = append(out, nilTest{iff, S, N})
	})
	return out
}

func blockOrDom(a, b *ssa.BasicBlock) bool { return a == b || a.Dominates(b) }

// nilEdgeDom: block b is reachable only through the nil-error edge of test t (the nil successor is
// entered by that edge alone and dominates b).
func nilEdgeDom(t nilTest, b *ssa.BasicBlock) bool {
	return t.N != t.S && len(t.N.Preds) == 1 && blockOrDom(t.N, b)
}

// fieldStorePath: for a Store, the access path of the address ("d.Sync.Synced").
func storePath(st *ssa.Store) string { return valuePath(st.Addr) }

func ruleTxTypestate(c *Ctx, r *Report, rule string) {
	f := c.Sync
	pos := c.pos(f.Pos())
	begins := findCalls(f, "database/sql.DB.BeginTx")
	begins = append(begins, findCalls(f, "database/sql.DB.Begin")...)
	if len(begins) != 1 {
		r.viol(rule, "sync root begins exactly one transaction per block", pos, fmt.Sprintf("found %d BeginTx/Begin calls in %s", len(begins), fname(f)))
		return
	}
	begin := begins[0].(*ssa.Call)
	var T, Berr ssa.Value
	for _, rf := range *begin.Referrers() {
		if ex, ok := rf.(*ssa.Extract); ok {
			if ex.Index == 0 {
				T = ex
			} else {
				Berr = ex
			}
		}
	}
	if T == nil || Berr == nil {
		r.viol(rule, "BeginTx results bound", c.ipos(begin), "transaction or error result of BeginTx is not bound")
		return
	}
	onT := func(ci ssa.CallInstruction) bool {
		for _, a := range ci.Common().Args {
			if a == T {
				return true
			}
		}
		return false
	}
	var commits, rollbacks []ssa.CallInstruction
	for _, ci := range findCalls(f, "database/sql.Tx.Commit") {
		if onT(ci) {
			commits = append(commits, ci)
		}
	}
	for _, ci := range findCalls(f, "database/sql.Tx.Rollback") {
		if onT(ci) {
			rollbacks = append(rollbacks, ci)
		}
	}
	// a helper introduced after the reference tree that always rolls back the transaction it is given
	// stands for the Rollback at its call site
	for _, ci := range callsOf(f) {
		sc := ci.Common().StaticCallee()
		if sc == nil || !isNewHelper(sc) || !onT(ci) {
			continue
		}
		for i, a := range ci.Common().Args {
			if a == T && mustCallOnParam(sc, i, "database/sql.Tx.Rollback") {
				rollbacks = append(rollbacks, ci)
			}
		}
	}
	if len(commits) != 1 {
		r.viol(rule, "exactly one Commit of the block transaction", pos, fmt.Sprintf("found %d", len(commits)))
		return
	}
	commit := commits[0]
	r.ok(rule, "one BeginTx, one Commit on its result", c.ipos(commit), fmt.Sprintf("%d rollback sites", len(rollbacks)))

	// the block call and the sync-height write, both on T
	var blockCall, syncedCall *ssa.Call
	insertSynced := c.fn("pegnet.Pegnet.InsertSynced")
	for _, ci := range callsOf(f) {
		call, ok := ci.(*ssa.Call)
		if !ok || !onT(ci) {
			continue
		}
		sc := call.Call.StaticCallee()
		if sc == nil || !fnInModule(sc) {
			continue
		}
		if sc == insertSynced {
			syncedCall = call
		} else if ev, _ := errValueOf(call); ev != nil && errResultIndex(sc.Signature) >= 0 {
			// the block-applying call: takes T and a height, error result bound
			if blockCall == nil || len(c.reach(sc)) > len(c.reach(blockCall.Call.StaticCallee())) {
				blockCall = call
			}
		}
	}
	if blockCall == nil || syncedCall == nil {
		r.viol(rule, "block call and InsertSynced both take the block transaction", pos, fmt.Sprintf("block call found=%v InsertSynced(T) found=%v", blockCall != nil, syncedCall != nil))
		return
	}
	bname := fname(blockCall.Call.StaticCallee())
	// (a) ordering and gating
	r.check(instrDominates(blockCall, syncedCall), rule, "block call dominates InsertSynced", c.ipos(syncedCall), bname+" is applied before the height is recorded", "InsertSynced can execute without "+bname+" having run on this transaction")
	r.check(instrDominates(syncedCall, commit), rule, "InsertSynced dominates Commit", c.ipos(commit), "the sync height is written inside the transaction before it is committed", "Commit can execute without the sync height having been written on the same transaction: a crash after Commit leaves the block applied but the height not advanced")
	beginBlocks := map[*ssa.BasicBlock]bool{begin.Block(): true}
	for _, x := range []*ssa.Call{blockCall, syncedCall} {
		nm := calleeName(x.Common())
		ev, _ := errValueOf(x)
		if ev == nil {
			r.viol(rule, "error of "+nm+" gates Commit", c.ipos(x), "error result not bound")
			continue
		}
		tests := nilTestsOf(c, ev)
		if len(tests) == 0 {
			r.viol(rule, "error of "+nm+" gates Commit", c.ipos(x), "error result never tested")
			continue
		}
		okAll := true
		detail := ""
		for _, t := range tests {
			if !nilEdgeDom(t, commit.Block()) {
				okAll = false
				detail = "Commit is not confined to the nil-error branch"
			}
			if reachAvoiding(t.S, beginBlocks)[commit.Block()] {
				okAll = false
				detail = "Commit is reachable from the error branch without a new BeginTx"
			}
		}
		r.check(okAll, rule, "error of "+nm+" gates Commit", c.ipos(x), "Commit only on the nil-error branch; error branch cannot reach Commit before the next BeginTx", detail)
	}
	// (b) no leak: from the success edge of BeginTx every path to a Return or back to BeginTx passes Commit or Rollback on T
	tests := nilTestsOf(c, Berr)
	if len(tests) != 1 {
		r.viol(rule, "BeginTx error tested", c.ipos(begin), fmt.Sprintf("%d nil tests on the BeginTx error", len(tests)))
	} else {
		done := map[*ssa.BasicBlock]bool{commit.Block(): true}
		for _, rb := range rollbacks {
			done[rb.Block()] = true
		}
		reach := reachAvoiding(tests[0].N, done)
		leak := ""
		for b := range reach {
			if b == begin.Block() && b != tests[0].N {
				leak = fmt.Sprintf("path from BeginTx success back to BeginTx (block %d) without Commit/Rollback", b.Index)
			}
			for _, ins := range b.Instrs {
				if _, ok := ins.(*ssa.Return); ok {
					// returning with the transaction open: acceptable only before any write? flag it.
					leak = fmt.Sprintf("Return at %s reachable with the transaction open", c.ipos(ins))
				}
			}
		}
		// the isDone(ctx) return inside the inner loop happens before BeginTx; if it is reachable after, it is a leak
		r.check(leak == "", rule, "no path leaks the open transaction", c.ipos(begin), "every path from BeginTx success reaches Commit or Rollback before a Return or the next BeginTx", leak)
	}
	// rollback on each error branch with the tx open
	for _, x := range []ssa.CallInstruction{blockCall, syncedCall, commit} {
		ev, _ := errValueOf(x)
		nm := calleeName(x.Common())
		if ev == nil {
			continue
		}
		for _, t := range nilTestsOf(c, ev) {
			has := false
			for _, rb := range rollbacks {
				if blockOrDom(t.S, rb.Block()) {
					has = true
				}
			}
			r.check(has, rule, "error branch of "+nm+" rolls back", c.ipos(t.If), "Rollback on the block transaction in the error branch", "no Rollback of the block transaction in the error branch")
		}
	}
	// (d) height argument of the block call is load(height)+1
	hpath := ""
	for _, a := range blockCall.Call.Args {
		if bo, ok := a.(*ssa.BinOp); ok && bo.Op == token.ADD {
			if k, ok := bo.Y.(*ssa.Const); ok && k.Int64() == 1 && valuePath(bo.X) != "" {
				hpath = valuePath(bo.X)
			}
		}
	}
	if hpath == "" {
		r.viol(rule, "block call applies height = synced+1", c.ipos(blockCall), "the height passed to "+bname+" is not <in-memory sync height>+1")
		return
	}
	r.okNT(rule, "block call applies height = synced+1", c.ipos(blockCall), "argument is "+hpath+"+1")
	r.Extra["sync_height_location"] = hpath
	isPlusOne := func(v ssa.Value) bool {
		bo, ok := v.(*ssa.BinOp)
		if !ok || bo.Op != token.ADD || valuePath(bo.X) != hpath {
			return false
		}
		k, ok := bo.Y.(*ssa.Const)
		return ok && k.Int64() == 1
	}
	// (c) publications of the in-memory height
	type pub struct {
		ins  ssa.Instruction
		kind string // inc, dec, set
	}
	var pubs []pub
	allInstrs(f, func(ins ssa.Instruction) {
		switch x := ins.(type) {
		case *ssa.Store:
			if valuePath(x.Addr) != hpath {
				return
			}
			k := "set"
			if bo, ok := x.Val.(*ssa.BinOp); ok && valuePath(bo.X) == hpath {
				if kk, ok := bo.Y.(*ssa.Const); ok && kk.Int64() == 1 {
					if bo.Op == token.ADD {
						k = "inc"
					} else if bo.Op == token.SUB {
						k = "dec"
					}
				}
			}
			pubs = append(pubs, pub{ins, k})
		case ssa.CallInstruction:
			if calleePkgPath(x.Common()) == "sync/atomic" && len(x.Common().Args) > 0 && valuePath(x.Common().Args[0]) == hpath {
				n := calleeName(x.Common())
				if strings.Contains(n, "Store") || strings.Contains(n, "Add") || strings.Contains(n, "Swap") {
					pubs = append(pubs, pub{ins, "set"})
				}
			}
		}
	})
	commitTests := func() []nilTest {
		ev, _ := errValueOf(commit)
		if ev == nil {
			return nil
		}
		return nilTestsOf(c, ev)
	}()
	afterCommit := func(ins ssa.Instruction) bool {
		for _, t := range commitTests {
			if nilEdgeDom(t, ins.Block()) {
				return true
			}
		}
		return false
	}
	var decBlocks = map[*ssa.BasicBlock]bool{}
	for _, p := range pubs {
		if p.kind == "dec" {
			decBlocks[p.ins.Block()] = true
		}
	}
	nAdv := 0
	for _, p := range pubs {
		if p.kind == "dec" {
			continue
		}
		nAdv++
		cons := fmt.Sprintf("in-memory height advance %s", ord(nAdv))
		if afterCommit(p.ins) {
			r.okNT(rule, cons, c.ipos(p.ins), hpath+" advanced only on the nil-error edge of Commit: a failed or rolled-back block never moves it")
			continue
		}
		// after Commit but not confined to its nil-error edge: the failure path publishes too
		if !instrDominates(p.ins, commit) {
			r.viol(rule, cons, c.ipos(p.ins), hpath+" is advanced after Commit on a path that is also taken when Commit failed: the in-memory height gets ahead of the database and the next iteration skips a block")
			continue
		}
		// advanced before Commit: must follow the block call and be compensated on every failing path
		if !instrDominates(blockCall, p.ins) {
			r.viol(rule, cons, c.ipos(p.ins), hpath+" advanced before "+bname+" has succeeded")
			continue
		}
		miss := ""
		for _, x := range []ssa.CallInstruction{syncedCall, commit} {
			if !instrDominates(p.ins, x) {
				continue
			}
			ev, _ := errValueOf(x)
			if ev == nil {
				continue
			}
			for _, t := range nilTestsOf(c, ev) {
				if decBlocks[t.S] {
					continue
				}
				for b := range reachAvoiding(t.S, decBlocks) {
					if !blockOrDom(t.S, b) {
						miss = fmt.Sprintf("error branch of %s leaves through block %d without restoring %s: the next iteration would skip a height", calleeName(x.Common()), b.Index, hpath)
					}
				}
			}
		}
		r.check(miss == "", rule, cons, c.ipos(p.ins), hpath+" advanced before Commit and restored on every failing path", miss)
	}
	if nAdv == 0 {
		r.viol(rule, "in-memory height advance", pos, "the sync root never advances "+hpath)
	}
	// the height recorded by InsertSynced is the height just applied
	okBS := false
	detail := ""
	for _, a := range syncedCall.Call.Args {
		vp := valuePath(a)
		if vp != "" && strings.HasPrefix(hpath, vp+".") {
			// the shared object itself: an increment must dominate the call
			for _, p := range pubs {
				if p.kind == "inc" && instrDominates(p.ins, syncedCall) {
					okBS = true
					detail = "the object holding " + hpath + ", incremented before the call"
				}
			}
		}
		if al, ok := a.(*ssa.Alloc); ok {
			// a fresh record whose height field is hpath+1
			if refs := al.Referrers(); refs != nil {
				for _, rf := range *refs {
					fa, ok := rf.(*ssa.FieldAddr)
					if !ok || fa.Referrers() == nil {
						continue
					}
					for _, rr := range *fa.Referrers() {
						if st, ok := rr.(*ssa.Store); ok && st.Addr == fa && isPlusOne(st.Val) && instrDominates(st, syncedCall) {
							okBS = true
							detail = "a fresh record holding " + hpath + "+1"
						}
					}
				}
			}
		}
	}
	r.check(okBS, rule, "InsertSynced records the height just applied", c.ipos(syncedCall), detail, "InsertSynced is not given "+hpath+"+1 (the height of the block applied on this transaction)")
}
