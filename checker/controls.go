package main

import (
	"encoding/json"
	"fmt"
	"os"
	"os/exec"
	"path/filepath"
	"sort"
	"strings"
)

// Detection controls (thorough tier, evidence only): every confirmed seeded change of the property is applied to a
// scratch copy of the tree under analysis (a temporary directory outside /repo and /verif, removed afterwards) and
// the same property's quick check is run on the copy in a child process. A control that applies must make the
// check report a violation; the outcome is written to coverage.controls. Controls never change the verdict or the
// exit code of the run on the real tree: on a modified tree a seeded patch may not apply or may interact with the
// modification, and neither says anything about the property.
type controlResult struct {
	Seed    string   `json:"seed"`
	Summary string   `json:"summary"`
	Applies bool     `json:"applies"`
	Exit    int      `json:"exit,omitempty"`
	Fired   []string `json:"fired_rules,omitempty"`
	Caught  bool     `json:"caught"`
	Note    string   `json:"note,omitempty"`
}

func runControls(repo, verif, prop string) []controlResult {
	dirs, _ := filepath.Glob(filepath.Join(verif, "seeded", prop+"-*"))
	sort.Strings(dirs)
	var out []controlResult
	self, err := os.Executable()
	if err != nil {
		return nil
	}
	for _, d := range dirs {
		patch := filepath.Join(d, "patch.rebased.diff")
		if _, err := os.Stat(patch); err != nil {
			patch = filepath.Join(d, "patch.diff")
		}
		if _, err := os.Stat(patch); err != nil {
			continue
		}
		res := controlResult{Seed: filepath.Base(d)}
		var meta struct {
			Summary string `json:"summary"`
		}
		if b, err := os.ReadFile(filepath.Join(d, "meta.json")); err == nil {
			json.Unmarshal(b, &meta)
			res.Summary = meta.Summary
			if len(res.Summary) > 160 {
				res.Summary = res.Summary[:160]
			}
		}
		tmp, err := os.MkdirTemp("", "pegctl-")
		if err != nil {
			res.Note = "no temporary directory: " + err.Error()
			out = append(out, res)
			continue
		}
		func() {
			defer os.RemoveAll(tmp)
			tree := filepath.Join(tmp, "tree")
			tv := filepath.Join(tmp, "verif")
			os.MkdirAll(tv, 0o755)
			// copy the working tree without its .git directory
			cp := exec.Command("sh", "-c", "mkdir -p \"$1\" && cd \"$0\" && tar --exclude=./.git -cf - . | tar -xf - -C \"$1\"", repo, tree)
			if b, err := cp.CombinedOutput(); err != nil {
				res.Note = "copy failed: " + strings.TrimSpace(string(b))
				return
			}
			if b, err := os.ReadFile(filepath.Join(verif, "known_findings.json")); err == nil {
				os.WriteFile(filepath.Join(tv, "known_findings.json"), b, 0o644)
			}
			ap := exec.Command("git", "apply", patch)
			ap.Dir = tree
			if err := ap.Run(); err != nil {
				res.Note = "the seeded patch does not apply to the tree under analysis"
				return
			}
			res.Applies = true
			ch := exec.Command(self, "-repo", tree, "-verif", tv, "-property", prop, "-tier", "quick")
			ch.Env = append(os.Environ(), "PEGCHECK_NO_CONTROLS=1")
			b, err := ch.Output()
			if ee, ok := err.(*exec.ExitError); ok {
				res.Exit = ee.ExitCode()
			} else if err != nil {
				res.Note = "child run failed: " + err.Error()
				return
			}
			seen := map[string]bool{}
			for _, l := range strings.Split(string(b), "\n") {
				if strings.HasPrefix(l, "  violation: [") {
					rule := strings.SplitN(strings.SplitN(l, "[", 2)[1], "]", 2)[0]
					if !seen[rule] {
						seen[rule] = true
						res.Fired = append(res.Fired, rule)
					}
				}
			}
			sort.Strings(res.Fired)
			res.Caught = res.Exit == 1 && len(res.Fired) > 0
		}()
		out = append(out, res)
	}
	return out
}

func controlsSummary(cs []controlResult) string {
	app, caught := 0, 0
	for _, c := range cs {
		if c.Applies {
			app++
			if c.Caught {
				caught++
			}
		}
	}
	return fmt.Sprintf("%d seeded changes, %d apply to this tree, %d of those reported", len(cs), app, caught)
}
