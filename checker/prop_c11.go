package main

import (
	"fmt"
	"go/types"
	"sort"
	"strings"

	"golang.org/x/tools/go/ssa"
)

func init() { props["C11"] = propC11 }

func propC11(c *Ctx, r *Report) {
	r.Explain = "Era tables by specialised constant propagation: grader version handed to grader.NewGrader / graderStake.NewGrader and the block height given to them for every height class; FCT burns applied only before 2.0, SPR winners paid only from 2.0, OPR winners whenever a graded block exists. Provenance on SSA: in both ApplyGraded*Block functions the loop ranges over Winners(), credits PEG, amount = Payout() and address = GetAddress() of the same element that is written to history, one credit per iteration. Decision table of ApplyFactoidBlock over the shape of a factoid transaction: a burn is registered in exactly one cell (1 EC output to the burn address with amount 0, 1 FCT input, no FCT output); credit = that input's amount and address, ticker pFCT. Previous winners read for the block height with sql.ErrNoRows as the only tolerated error. Staker identity: the external id checked against the top-100 PEG holders must be bound to the verified signing key."
	r.NotDec = "the graders' verdicts and reward amounts (dependency); 'fewer than the winner count pays nothing' lives in Winners() of the dependency; what the top-100 holder query computes (the meaning of its SQL under SQLite's NULL and ordering semantics - seeds C11-D, C11-S)"
	r.Trusted = []string{"pegnet/modules graders", "mainnet activation constants", "go/ssa"}
	e := newEraCtx(c, r)
	r.rule("C11/era-table", 7, "grader versions and payout steps by height class")
	e.evalRows(r, e.rowsC11(r))
	ruleEligibilityView(c, r, buildSQLCat(c), "C11/eligibility-view")
	ruleAllLoopsComplete(c, r, "C11/payout-loops-complete", c.fn("node.Pegnetd.ApplyFactoidBlock"), "every factoid transaction of the block is scanned for burns")
	r.rule("C11/previous-winners-query", 1, "previous winners are those of the newest graded block below the height")
	rulePreviousWinnersQuery(c, r, buildSQLCat(c), "C11/previous-winners-query")
	r.rule("C11/no-address-cache", 2, "a winner is paid at the address decoded from its own record")
	ruleNoAddressCache(c, r, "C11/no-address-cache")
	r.rule("C11/payout-loops-complete", 3, "every winner and every burn is paid, or the block fails")
	ruleLoopCompletes(c, r, "C11/payout-loops-complete", c.fn("node.Pegnetd.ApplyGradedOPRBlock"), "pegnet.Pegnet.AddToBalance", "every winning OPR is paid")
	ruleLoopCompletes(c, r, "C11/payout-loops-complete", c.fn("node.Pegnetd.ApplyGradedSPRBlock"), "pegnet.Pegnet.AddToBalance", "every winning SPR is paid")
	ruleLoopCompletes(c, r, "C11/payout-loops-complete", c.fn("node.Pegnetd.ApplyFactoidBlock"), "pegnet.Pegnet.AddToBalance", "every burn is credited")

	// payout provenance
	r.rule("C11/payout-provenance", 2, "winner credits: amount, address and history row come from the same Winners() element")
	for _, spec := range []struct{ fn, hist, rec string }{
		{"node.Pegnetd.ApplyGradedOPRBlock", "InsertCoinbase", "OPR"},
		{"node.Pegnetd.ApplyGradedSPRBlock", "InsertStaking100Coinbase", "SPR"},
	} {
		f := c.fn(spec.fn)
		adds := c.findCallsFam(f, "pegnet.Pegnet.AddToBalance")
		var bad []string
		if len(adds) != 1 {
			bad = append(bad, fmt.Sprintf("%d AddToBalance call sites (want exactly 1 per winner)", len(adds)))
		} else {
			add := adds[0]
			args := add.Common().Args
			// ticker PEG
			if k, ok := args[3].(*ssa.Const); !ok || k.Int64() != 1 {
				bad = append(bad, "credited ticker is not the constant PEG")
			}
			amtElems := sliceElems(args[4])
			adrElems := sliceElems(args[2])
			amtCalls := sliceCalls(args[4])
			adrCalls := sliceCalls(args[2])
			if len(amtCalls["Payout"]) == 0 {
				bad = append(bad, "credited amount does not come from Payout()")
			}
			if len(adrCalls["GetAddress"]) == 0 || len(adrCalls["NewFAAddress"]) == 0 {
				bad = append(bad, "credited address does not come from NewFAAddress(GetAddress())")
			}
			// the collection is the result of Winners()
			// a variable kept in memory for the closures of the loop body stands for the one value stored in it
			slotVal := func(v ssa.Value) ssa.Value {
				if al := slotOf(v); al != nil {
					if sts, ok := slotStores(al); ok && len(sts) == 1 {
						return sts[0].Val
					}
				}
				return v
			}
			fromWinners := func(el []elemRef) (ssa.Value, ssa.Value, bool) {
				for _, x := range el {
					if b := slotVal(x.base); isCallTo(b, "Winners") {
						return b, slotVal(x.index), true
					}
				}
				return nil, nil, false
			}
			wb, wi, ok1 := fromWinners(amtElems)
			ab, ai, ok2 := fromWinners(adrElems)
			if !ok1 || !ok2 {
				bad = append(bad, "amount or address is not taken from an element of Winners() (non-winning records must pay nothing)")
			} else if wb != ab || wi != ai {
				bad = append(bad, "amount and address come from different elements")
			}
			// history row gets the same element
			hs := c.findCallsFam(f, "pegnet.Pegnet."+spec.hist)
			if len(hs) != 1 {
				bad = append(bad, fmt.Sprintf("%d %s call sites", len(hs), spec.hist))
			} else if ok1 {
				hb, hi, ok3 := fromWinners(sliceElems(hs[0].Common().Args[2]))
				if !ok3 || hb != wb || hi != wi {
					bad = append(bad, "history row is written for a different element than the one credited")
				}
				sameSteps := false // two steps of one list of closures run in order by one loop
				if add.Parent() != hs[0].Parent() {
					la, lb := c.liftSite(add, f), c.liftSite(hs[0], f)
					sameSteps = la != nil && la == lb
				}
				if !sameSteps && !c.famDominates(f, add, hs[0]) && !c.famDominates(f, hs[0], add) {
					bad = append(bad, "credit and history row are not on the same path")
				}
			}
			// inside a loop over the winners: the index is a loop phi
			if ok1 {
				isInd := false
				if _, isPhi := wi.(*ssa.Phi); isPhi {
					isInd = true
				} else if bo, ok := wi.(*ssa.BinOp); ok {
					if _, isPhi := bo.X.(*ssa.Phi); isPhi {
						isInd = true
					}
				}
				if !isInd {
					bad = append(bad, "winner index is not a loop induction variable")
				}
			}
		}
		r.check(len(bad) == 0, "C11/payout-provenance", fname(f), c.pos(f.Pos()), "one PEG credit per Winners() element: amount = Payout(), address = GetAddress(), same element recorded in history", strings.Join(bad, "; "))
	}

	// factoid burn decision table
	afb := c.fn("node.Pegnetd.ApplyFactoidBlock")
	ruleBurnTable(c, r, "C11/burn-table")
	var bad []string
	// burn credit provenance
	adds := c.findCallsFam(afb, "pegnet.Pegnet.AddToBalance")
	bad = nil
	tick, _ := c.tickers()
	if len(adds) != 1 {
		bad = append(bad, fmt.Sprintf("%d AddToBalance call sites", len(adds)))
	} else {
		args := adds[0].Common().Args
		if k, ok := args[3].(*ssa.Const); !ok || k.Int64() != tick["FCT"] {
			bad = append(bad, "credited ticker is not pFCT")
		}
		fieldIn := func(v ssa.Value, last string) bool {
			ld, ok := v.(*ssa.UnOp)
			if !ok {
				return false
			}
			fa, ok := ld.X.(*ssa.FieldAddr)
			if !ok {
				return false
			}
			st := derefStruct(fa.X.Type())
			return st != nil && st.Field(fa.Field).Name() == last
		}
		hasField := func(v ssa.Value, name string) bool {
			return sliceHas(v, func(x ssa.Value) bool {
				if fa, ok := x.(*ssa.FieldAddr); ok {
					if st := derefStruct(fa.X.Type()); st != nil && st.Field(fa.Field).Name() == name {
						return true
					}
				}
				return false
			})
		}
		fromRegistered := func(v ssa.Value) bool {
			return sliceHas(v, func(x ssa.Value) bool {
				if call, ok := x.(*ssa.Call); ok {
					if b, ok := call.Call.Value.(*ssa.Builtin); ok && b.Name() == "append" {
						return true
					}
				}
				return false
			})
		}
		if !fieldIn(args[4], "Amount") || !hasField(args[4], "FCTInputs") || !fromRegistered(args[4]) {
			bad = append(bad, "credited amount is not FCTInputs[0].Amount of a registered burn")
		}
		if !hasField(args[2], "FCTInputs") || !hasField(args[2], "Address") || !fromRegistered(args[2]) {
			bad = append(bad, "credited address is not FCTInputs[0].Address of a registered burn")
		}
		hs := c.findCallsFam(afb, "pegnet.Pegnet.InsertFCTBurn")
		if len(hs) != 1 {
			bad = append(bad, "history row for the burn missing")
		} else if !fromRegistered(hs[0].Common().Args[3]) {
			bad = append(bad, "history row is not written for the registered burn")
		}
	}
	r.check(len(bad) == 0, "C11/burn-table", "burn credit provenance", c.pos(afb.Pos()), "pFCT credit of burns[i].FCTInputs[0].Amount to burns[i].FCTInputs[0].Address, with history row", strings.Join(bad, "; "))

	// pointers to per-loop variables (burn / winner registration must not alias the loop variable)
	r.rule("C11/loopvar-alias", 1, "no address of a per-loop variable is retained across iterations in block processing")
	ruleLoopVarAlias(c, r, "C11/loopvar-alias", c.RSync)

	ruleEveryRecordGraded(c, r, e, "C11/every-record-graded")
	// what is recorded as "previous winners" for the next block is the grader's own carried-forward list
	ruleWinnersRecorded(c, r, "C11/winners-recorded")
	// the graders see every record of the block: a failed download is not mistaken for an invalid record
	r.rule("C11/inputs-complete", 2, "errors of the parallel entry fetch reach SyncBlock")
	runErrflow(c, computeEffects(c), r, reachOfSelf(c, "node.multiFetch"), "C11/inputs-complete", false)
	// previous winners
	r.rule("C11/previous-winners", 1, "previous winners are read for the block being graded")
	gr := c.fn("node.Pegnetd.Grade")
	for _, ci := range findCalls(gr, "pegnet.Pegnet.SelectPreviousWinners") {
		// by type and origin, not by name: the Height field of the entry block Grade was given
		okk := false
		a := unwrapConv(ci.Common().Args[2])
		if u, ok := a.(*ssa.UnOp); ok && typePath(u) == "factom.EBlock.Height" {
			if fa, ok := u.X.(*ssa.FieldAddr); ok && c.rootParamOf(fa.X, gr, 0) != nil {
				okk = true
			}
		}
		r.check(okk, "C11/previous-winners", "SelectPreviousWinners(block.Height)", c.ipos(ci), "", "previous winners read for "+stablePath(a, 0))
		// result reaches NewGrader
		ng := findCalls(gr, "github.com/pegnet/pegnet/modules/grader.NewGrader")
		flows := false
		if len(ng) == 1 {
			flows = sliceHas(ng[0].Common().Args[2], func(v ssa.Value) bool { return v == ci.(ssa.Value) })
		}
		r.check(flows, "C11/previous-winners", "previous winners handed to the grader", c.ipos(ci), "", "the grader is not given the previous winners read from the database")
		if len(ng) == 1 {
			// no other source: in particular no in-memory field
			var other []string
			backSlice(ng[0].Common().Args[2], func(v ssa.Value) bool {
				if tp := typePath(v); strings.HasPrefix(tp, "node.Pegnetd.") || strings.HasPrefix(tp, "pegnet.Pegnet.") {
					// a data-carrying field (slice/map/string), not the receiver chain d.Pegnet
					switch v.Type().Underlying().(type) {
					case *types.Slice, *types.Map, *types.Basic:
						other = append(other, tp)
					}
				}
				return true
			})
			r.check(len(other) == 0, "C11/previous-winners", "previous winners come from the database only", c.ipos(ng[0]), "", "the previous winners given to the grader can come from in-memory state ("+strings.Join(uniq(other), ",")+"): after a rolled-back attempt or a restart they differ from what the database holds")
		}
	}

	r.rule("C11/no-carried-state", 1, "grading and reward payout read the chain and the database only")
	ruleNoCarriedReads(c, newSharedAnalysis(c), r, "C11/no-carried-state", reachOf(c, "node.Pegnetd.Grade", "node.Pegnetd.GradeS", "node.Pegnetd.ApplyGradedOPRBlock", "node.Pegnetd.ApplyGradedSPRBlock", "node.Pegnetd.ApplyFactoidBlock"), carriedAllowedSync, "grading/rewards")

	// staker identity binding
	r.rule("C11/staker-identity", 1, "the id checked against the top PEG holders is the key whose signature the grader verifies")
	stakerIdentity(c, r, "C11/staker-identity")
}

// stakerIdentity compares the external-id index gating admission in GradeS with the indices the
// staking validators of the dependency actually read.
func stakerIdentity(c *Ctx, r *Report, rule string) {
	gs := c.fn("node.Pegnetd.GradeS")
	calls := c.findCallsFam(gs, "pegnet.Pegnet.IsIncludedTopPEGAddress") // GradeS, its closures and helpers split off from it
	if len(calls) != 1 {
		r.viol(rule, "GradeS gates records on top-100 membership", c.pos(gs.Pos()), fmt.Sprintf("%d calls to IsIncludedTopPEGAddress: staking records are not restricted to top PEG holders", len(calls)))
		return
	}
	gate := calls[0]
	// AddSPR must be control-dependent on the gate's true result
	adds := c.findCallsFam(gs, "github.com/pegnet/pegnet/modules/graderStake.BlockGrader.AddSPR")
	gated := false
	for _, a := range adds {
		if a.Parent() != gate.Parent() {
			continue // gate and call must sit in the same function for the dominance argument
		}
		for _, b := range a.Parent().Blocks {
			cond, tb, _ := condEdge(b)
			if cond != nil && sliceHas(cond, func(v ssa.Value) bool { return v == gate.(ssa.Value) }) && blockOrDom(tb, a.Block()) && len(tb.Preds) == 1 {
				gated = true
			}
		}
	}
	r.check(gated && len(adds) == 1, rule, "AddSPR only for records whose staker id is a top-100 PEG holder", c.ipos(gate), "AddSPR is dominated by the true edge of the membership test", "a staking record reaches the grader without passing the top-100 membership test")
	// which extid index is the gate's argument?
	gateIdx := map[int64]bool{}
	for _, el := range sliceElems(gate.Common().Args[1]) {
		if k, ok := el.index.(*ssa.Const); ok {
			gateIdx[k.Int64()] = true
		}
	}
	// validators in the dependency: functions named ValidateS* in graderStake taking extids
	var validators []*ssa.Function
	for f := range c.allFunctions() {
		if f.Pkg != nil && f.Pkg.Pkg.Path() == "github.com/pegnet/pegnet/modules/graderStake" && strings.HasPrefix(f.Name(), "ValidateS") && f.Blocks != nil {
			validators = append(validators, f)
		}
	}
	sort.Slice(validators, func(i, j int) bool { return validators[i].Name() < validators[j].Name() })
	if len(validators) == 0 {
		r.undecided(rule, "graderStake validators", "-", "no ValidateS* function found in the dependency")
		return
	}
	for _, v := range validators {
		read := map[int64]bool{}
		var ext *ssa.Parameter
		for _, p := range v.Params {
			if p.Name() == "extids" {
				ext = p
			}
		}
		if ext == nil {
			continue
		}
		allInstrs(v, func(ins ssa.Instruction) {
			if ia, ok := ins.(*ssa.IndexAddr); ok && ia.X == ext {
				if k, ok := ia.Index.(*ssa.Const); ok {
					read[k.Int64()] = true
				}
			}
		})
		verifies := len(findCalls(v, "github.com/FactomProject/factomd/common/primitives.VerifySignature")) > 0
		var missing []string
		for i := range gateIdx {
			if !read[i] {
				missing = append(missing, fmt.Sprintf("ExtIDs[%d]", i))
			}
		}
		cons := fmt.Sprintf("GradeS gate id vs graderStake.%s", v.Name())
		if !verifies {
			r.okNT(rule, cons, c.ipos(gate), "this grader version does not verify signatures (unsigned era)")
			continue
		}
		if len(missing) > 0 {
			var rd []string
			for i := range read {
				rd = append(rd, fmt.Sprintf("%d", i))
			}
			sort.Strings(rd)
			r.viol(rule, cons, c.ipos(gate), fmt.Sprintf("GradeS admits a staking record when %s is among the top-100 PEG holders, but %s verifies the signature against a key taken from other external ids (indices read: %s) and never reads %s: the admitted identity is not bound to the signing key, so anyone can name a rich address and sign with their own key", strings.Join(missing, ","), v.Name(), strings.Join(rd, ","), strings.Join(missing, ",")))
		} else {
			r.okNT(rule, cons, c.ipos(gate), "the gated external id is read by the validator")
		}
	}
}

// ruleEveryRecordGraded: in Grade and GradeS every entry of the block that passes the enumerated gates (enough external
// ids; for staking records: signed by a top-100 holder) is handed to the grader - on the CFG specialised to a
// well-formed, admitted record no path round the entry loop avoids AddOPR / AddSPR. An extra skip (a dedupe map, an
// early break) lets a valid record go unpaid.
func ruleEveryRecordGraded(c *Ctx, r *Report, e *eraCtx, rule string) {
	r.rule(rule, 2, "every admitted record of the block reaches the grader")
	v20 := e.a.get("V20HeightActivation")
	for _, spec := range []struct {
		fn, add string
		h       uint32
	}{{"node.Pegnetd.Grade", "AddOPR", v20 - 10}, {"node.Pegnetd.GradeS", "AddSPR", v20 + 10}} {
		f := c.fn(spec.fn)
		sc := &Scenario{
			Paths: map[string]AVal{"factom.EBlock.Height": hconst(spec.h)},
			Lens:  map[string]AVal{"factom.Entry.ExtIDs": cInt(3)},
			Calls: map[string]AVal{"IsIncludedTopPEGAddress": {K: ATuple, Tup: []AVal{cBool(true), nilVal}}, spec.add: nilVal,
				"SelectPreviousWinners": {K: ATuple, Tup: []AVal{nonNil, nilVal}}, "NewGrader": {K: ATuple, Tup: []AVal{nonNil, nilVal}}},
			MaxDepth: 1, AllErrorsNil: true}
		s := newSCCP(c, sc)
		st := s.run(f, nil, 0)
		r.Scen++
		if st == nil {
			r.undecided(rule, fname(f), c.pos(f.Pos()), "function not analysable")
			continue
		}
		// the call may sit in the entry loop itself or in a closure / later helper that the loop calls once per entry
		var add ssa.CallInstruction
		var addState *fnState
		nAdds := 0
		var findAdd func(fs *fnState, depth int)
		findAdd = func(fs *fnState, depth int) {
			if fs == nil || depth > 3 {
				return
			}
			for _, ci := range callsOf(fs.fn) {
				if !fs.execB[ci.Block()] {
					continue
				}
				if shortCallee(ci.Common()) == spec.add {
					nAdds++
					add, addState = ci, fs
					continue
				}
				if sc := ci.Common().StaticCallee(); sc != nil && sameLogicalFunction(sc, fs.fn) {
					findAdd(fs.callees[ci], depth+1)
				}
			}
		}
		findAdd(st, 0)
		if nAdds != 1 {
			r.viol(rule, fname(f)+" -> "+spec.add, c.pos(f.Pos()), fmt.Sprintf("%d live %s call sites for an admitted record (want 1)", nAdds, spec.add))
			continue
		}
		skip := ""
		// inside the function that holds the call: no nil-error return without the call (when it is not f itself)
		loopSite := ssa.Instruction(add)
		if addState != st {
			done := map[*ssa.BasicBlock]bool{add.Block(): true}
			for b := range reachAvoiding(addState.fn.Blocks[0], done) {
				if !addState.execB[b] {
					continue
				}
				if ret, ok := b.Instrs[len(b.Instrs)-1].(*ssa.Return); ok {
					vals := addState.rets[ret]
					ei := errResultIndex(addState.fn.Signature)
					if ei < 0 || ei >= len(vals) || vals[ei].isNil() || vals[ei].K == ATop {
						// reachable without the call through executable edges only?
						if execReachAvoiding(addState, addState.fn.Blocks[0], done)[b] {
							skip = fmt.Sprintf("%s can return at %s without the call", fname(addState.fn), c.ipos(ret))
						}
					}
				}
			}
			// the loop in f calls that function
			loopSite = nil
			for ci, cs := range st.callees {
				if cs == addState {
					loopSite = ci
				}
			}
			if loopSite == nil {
				r.undecided(rule, fname(f)+" -> "+spec.add, c.pos(f.Pos()), "the function holding the call is not called directly from the entry loop")
				continue
			}
		}
		l := innermostLoop(f, loopSite.Block())
		if l == nil {
			r.viol(rule, fname(f)+" -> "+spec.add, c.ipos(add), spec.add+" is not inside the loop over the block's entries")
			continue
		}
		// executable path header -> header avoiding the block of the call (or leaving the loop by break, other than through a return of an error)
		seen := map[*ssa.BasicBlock]bool{}
		var walk func(b *ssa.BasicBlock)
		walk = func(b *ssa.BasicBlock) {
			if skip != "" || seen[b] || b == loopSite.Block() {
				return
			}
			seen[b] = true
			for _, sx := range b.Succs {
				if !st.execE[[2]int{b.Index, sx.Index}] {
					continue
				}
				if sx == l.header {
					skip = fmt.Sprintf("an iteration can end at block %d without the call", b.Index)
					return
				}
				if !l.blocks[sx] {
					// leaving the loop from inside the body: a break (not the loop's own exit at the header, not an error return)
					if b != l.header {
						if _, isRet := sx.Instrs[len(sx.Instrs)-1].(*ssa.Return); !isRet || len(sx.Instrs) > 3 {
							skip = fmt.Sprintf("the loop can be left from block %d before the remaining entries are seen", b.Index)
							return
						}
					}
					continue
				}
				walk(sx)
			}
		}
		// start from the loop body entry (the header's in-loop successors)
		for _, sx := range l.header.Succs {
			if l.blocks[sx] && st.execE[[2]int{l.header.Index, sx.Index}] {
				walk(sx)
			}
		}
		r.check(skip == "", rule, fname(f)+": every admitted entry reaches "+spec.add, c.ipos(add), "no executable path round the entry loop avoids the call for a well-formed, admitted record", skip+": a record that passes the stated gates is not graded (and so cannot be paid)")
	}
}

// execReachAvoiding: blocks reachable from `from` through executable edges of the specialised CFG, not entering `avoid`.
func execReachAvoiding(st *fnState, from *ssa.BasicBlock, avoid map[*ssa.BasicBlock]bool) map[*ssa.BasicBlock]bool {
	seen := map[*ssa.BasicBlock]bool{}
	if avoid[from] {
		return seen
	}
	seen[from] = true
	stack := []*ssa.BasicBlock{from}
	for len(stack) > 0 {
		b := stack[len(stack)-1]
		stack = stack[:len(stack)-1]
		for _, sx := range b.Succs {
			if seen[sx] || avoid[sx] || !st.execE[[2]int{b.Index, sx.Index}] {
				continue
			}
			seen[sx] = true
			stack = append(stack, sx)
		}
	}
	return seen
}

// ruleBurnTable: decision table of ApplyFactoidBlock over the shape of a factoid transaction - a burn is registered
// in exactly one cell (shared by C11 and C04).
func ruleBurnTable(c *Ctx, r *Report, rule string) {
	r.rule(rule, 1, "a factoid transaction is a burn in exactly one cell of its shape table")
	afb := c.fn("node.Pegnetd.ApplyFactoidBlock")
	ncell, nburn := 0, 0
	acc := newTableAcc()
	var bad []string
	for _, nec := range []int64{0, 1, 2} {
		for _, nin := range []int64{0, 1, 2} {
			for _, nout := range []int64{0, 1} {
				for _, addrEq := range []bool{true, false} {
					for _, amt := range []int64{0, 7} {
						sc := &Scenario{
							Lens:  map[string]AVal{"factom.FactoidTransaction.ECOutputs": cInt(nec), "factom.FactoidTransaction.FCTInputs": cInt(nin), "factom.FactoidTransaction.FCTOutputs": cInt(nout)},
							Paths: map[string]AVal{"factom.FactoidTransactionIO.Address": sym("outaddr"), "node.BurnRCD": sym("burnrcd"), "factom.FactoidTransactionIO.Amount": cUint(uint64(amt))},
							Calls: map[string]AVal{"isDone": cBool(false)},
							Order: func(a, b AVal) (int, bool) {
								if a.K == ASym && b.K == ASym && a.Sym != b.Sym {
									if addrEq {
										return 0, true
									}
									return 1, true
								}
								return 0, false
							},
							MaxDepth: 0,
						}
						t, _ := acc.run(c, r, afb, sc)
						ncell++
						registered := false
						for _, lc := range t.Calls {
							if lc.Callee == "builtin.append" && strings.Contains(valuePath(lc.Instr.Common().Args[0]), "burns") {
								registered = true
							}
						}
						// fall back: any append in the first loop
						if !registered {
							for _, lc := range t.Calls {
								if lc.Callee == "builtin.append" {
									registered = true
								}
							}
						}
						want := nec == 1 && nin == 1 && nout == 0 && addrEq && amt == 0
						if registered {
							nburn++
						}
						if registered != want && len(bad) < 4 {
							bad = append(bad, fmt.Sprintf("ECOutputs=%d FCTInputs=%d FCTOutputs=%d outputIsBurnAddress=%v outputAmount=%d: burn registered=%v, expected %v", nec, nin, nout, addrEq, amt, registered, want))
						}
					}
				}
			}
		}
	}
	acc.report(c, r, rule, afb)
	r.check(len(bad) == 0 && nburn == 1, rule, "ApplyFactoidBlock transaction shape table", c.pos(afb.Pos()), fmt.Sprintf("%d cells, burn registered in exactly 1", ncell), strings.Join(bad, "; ")+fmt.Sprintf(" (%d cells register a burn)", nburn))
}
