package main

import (
	"fmt"
	"go/token"
	"go/types"
	"strings"

	"golang.org/x/tools/go/ssa"
)

func init() { props["C02"] = propC02 }

func fieldAddrIs(v ssa.Value, structName, field string) bool {
	fa, ok := v.(*ssa.FieldAddr)
	if !ok {
		return false
	}
	st := derefStruct(fa.X.Type())
	if st == nil || st.Field(fa.Field).Name() != field {
		return false
	}
	t := fa.X.Type()
	if p, ok := t.Underlying().(*types.Pointer); ok {
		t = p.Elem()
	}
	n, ok := t.(*types.Named)
	return ok && n.Obj().Name() == structName
}

func propC02(c *Ctx, r *Report) {
	r.Explain = "Decides the structural commit protocol: (R1) every SQL write reachable from block processing executes on the caller-supplied *sql.Tx (receiver class of every statement, QueryAble arguments at every call site); (R2) typestate of that transaction in the sync root: one BeginTx, block call -> height record -> Commit in dominance order, Commit only on nil-error branches, Rollback on every error branch, no path leaks the open transaction, in-memory height incremented after the block and decremented on every failing path, block height = synced+1; (R3) Commit/Rollback/BeginTx nowhere else and no *sql.Tx escapes; (R4) InsertSynced writes version row and metadata on the same tx with errors propagated; (R5) pn_sync_version is keyed by height and written by a plain INSERT; (R6) start-up resumes from the persisted height."
	r.NotDec = "what SQLite leaves on disk at a kill (atomic commit is trusted); equality of ledgers after restart (C09)"
	r.Trusted = []string{"SQLite atomic commit and rollback", "database/sql transaction semantics", "x/tools go/ssa"}
	cat := buildSQLCat(c)
	r.Extra["sql_statements"] = len(cat.Stmts)
	r.Extra["sql_tables"] = len(cat.Tables)
	r.rule("C02-R1/writes-on-block-tx", 15, "every write statement reachable from the block roots is issued on the block's *sql.Tx")
	ruleBlockWritesOnTx(c, cat, r, "C02-R1/writes-on-block-tx")
	r.rule("C02-R2/tx-typestate", 10, "typestate of the block transaction in the sync root")
	ruleTxTypestate(c, r, "C02-R2/tx-typestate")
	heightWriters(c, newSharedAnalysis(c), r, "C02-R2/tx-typestate")
	r.rule("C02-R3/tx-confinement", 3, "transaction control only in the sync root; *sql.Tx never escapes")
	ruleTxConfinement(c, r, "C02-R3/tx-confinement")
	// R10: atomicity against a kill rests on SQLite finding its rollback journal (or WAL) on disk at the next open
	ruleDurableJournal(c, r, cat, "C02-R10/durable-journal")
	ruleDBFilesUntouched(c, r, "C02-R10/db-files-untouched")
	ruleErrPtrOverwrite(c, r, "C02-R8/error-not-overwritten", c.RSync)
	ruleOneAttemptPerTx(c, r, "C02-R2/one-attempt-per-tx")
	ruleNoSQLTxControl(c, r, cat, "C02-R3/no-sql-tx-control")
	// a failed read while the averaging window is refilled aborts the block without leaving a half-filled window behind
	// (shared with C09)
	r.rule("C02-R11/cache-fill-errors", 1, "a failed rate read while filling the averaging window is not skipped")
	{
		scope := map[*ssa.Function]bool{}
		for _, f := range c.family(c.fn("node.Pegnetd.GetPegNetRateAverages")) {
			scope[f] = true
		}
		runErrflow(c, computeEffects(c), r, scope, "C02-R11/cache-fill-errors", false)
	}

	// R7: restart equivalence of the one piece of derived state block processing keeps in memory (shared with C09)
	windowSize(c, r, "C02-R7/restart-window")
	// R8: a failed statement fails the block - in the executors between the sync root and the statements no error
	// is turned into a recorded status or dropped (same engine as C10, scoped to the executors)
	r.rule("C02-R8/failure-aborts-block", 8, "executor errors reach the sync root's rollback")
	{
		scope := map[*ssa.Function]bool{} // the root's own handling is R2; its two dropped NullifyBurnAddress results are recorded under C10
		for _, n := range []string{"node.Pegnetd.ApplyTransactionBlock", "node.Pegnetd.ApplyTransactionBatchesInHolding", "node.Pegnetd.recordBatch", "node.Pegnetd.recordPegnetRequests", "node.multiFetch"} {
			for _, g := range c.family(c.fn(n)) { // with closures and helpers split off
				scope[g] = true
			}
		}
		runErrflow(c, computeEffects(c), r, scope, "C02-R8/failure-aborts-block", false)
	}
	// R9: what a restarted daemon cannot have is not read: no in-memory state written by an earlier block or attempt
	ruleNoCarriedReads(c, newSharedAnalysis(c), r, "C02-R9/no-carried-state", c.RSync, carriedAllowedAverages, "block processing")
	// R4: InsertSynced chain
	r.rule("C02-R4/height-record", 4, "InsertSynced writes pn_sync_version and pn_metadata on the same tx, errors propagated")
	is := c.fn("pegnet.Pegnet.InsertSynced")
	mhs := c.fn("pegnet.Pegnet.MarkHeightSynced")
	mv := c.fn("pegnet.Pegnet.markHeightSyncedVersion")
	eff := computeEffects(c)
	scope := map[*ssa.Function]bool{}
	for _, g := range []*ssa.Function{is, mhs, mv} {
		for _, h := range c.family(g) { // with closures and helpers split off
			scope[h] = true
		}
	}
	runErrflow(c, eff, r, scope, "C02-R4/height-record", false)
	txp := is.Params[1]
	var mark ssa.CallInstruction
	for _, ci := range c.findCallsFam(is, "pegnet.Pegnet.MarkHeightSynced") {
		mark = ci
	}
	if mark == nil {
		r.viol("C02-R4/height-record", "InsertSynced calls MarkHeightSynced", c.pos(is.Pos()), "the per-height version row is not written by InsertSynced")
	} else {
		same := c.rootParamOf(mark.Common().Args[1], is, 0) == txp
		r.check(same, "C02-R4/height-record", "MarkHeightSynced receives InsertSynced's tx", c.ipos(mark), "same *sql.Tx parameter", "version row written on something other than the block transaction")
		// height argument is the Synced field of InsertSynced's record parameter (by type, not by name)
		hOK := false
		if u, ok := unwrapConv(mark.Common().Args[2]).(*ssa.UnOp); ok && typePath(u) == "pegnet.BlockSync.Synced" {
			if fa, ok := u.X.(*ssa.FieldAddr); ok && c.rootParamOf(fa.X, is, 0) == is.Params[2] {
				hOK = true
			}
		}
		r.check(hOK, "C02-R4/height-record", "MarkHeightSynced height is the recorded sync height", c.ipos(mark), "height = the record's Synced field", "height argument is "+stablePath(mark.Common().Args[2], 0))
	}
	metaOK := false
	for _, st := range cat.Stmts {
		if (st.Fn == is || c.inFamily(st.Fn, is)) && st.Table == "pn_metadata" && st.isWrite() {
			metaOK = st.Recv == "Tx" && c.rootParamOf(st.RecvVal, is, 0) == txp
		}
	}
	r.check(metaOK, "C02-R4/height-record", "pn_metadata written on InsertSynced's tx", c.pos(is.Pos()), "REPLACE INTO pn_metadata on the tx parameter", "pn_metadata write missing or not on the tx parameter")

	// R5 schema
	ruleHeightOnce(c, cat, r, "C02-R5/height-once")

	// R6 start-up resume
	r.rule("C02-R6/resume", 3, "NewPegnetd resumes from the persisted height")
	np := c.Startup
	var sel *ssa.Call
	for _, ci := range c.findCallsFam(np, "pegnet.Pegnet.SelectSynced") { // in NewPegnetd or a start-up stage split off from it
		if call, ok := ci.(*ssa.Call); ok {
			sel = call
		}
	}
	if sel == nil {
		r.viol("C02-R6/resume", "NewPegnetd reads the persisted height", c.pos(np.Pos()), "no call to SelectSynced")
		return
	}
	var v0, ev ssa.Value
	for _, rf := range *sel.Referrers() {
		if ex, ok := rf.(*ssa.Extract); ok {
			if ex.Index == 0 {
				v0 = ex
			} else {
				ev = ex
			}
		}
	}
	_ = ev
	// decided on the CFG specialised to the three outcomes of SelectSynced - whatever shape the branches have
	noRows := c.Prog.ImportedPackage("database/sql").Members["ErrNoRows"].(*ssa.Global)
	type outcome struct {
		name                   string
		res                    AVal
		wantPersisted, wantNew bool
		wantErr                bool
	}
	for _, oc := range []outcome{
		{"a sync record exists", AVal{K: ATuple, Tup: []AVal{nonNil, nilVal}}, true, false, false},
		{"empty database (sql.ErrNoRows)", AVal{K: ATuple, Tup: []AVal{nilVal, {K: ASentinel, G: noRows}}}, false, true, false},
		{"any other database error", AVal{K: ATuple, Tup: []AVal{nilVal, fresh}}, false, false, true},
	} {
		sc := &Scenario{Calls: map[string]AVal{"SelectSynced": oc.res}, MaxDepth: 1, AllErrorsNil: true,
			NoInline: map[string]bool{"CheckHardForks": true, "New": true, "Init": true, "InitLX": true, "FactomClientFromConfig": true, "InitChainsFromConfig": true}}
		s := newSCCP(c, sc)
		st := s.run(np, nil, 0)
		r.Scen++
		if st == nil {
			r.undecided("C02-R6/resume", "NewPegnetd: "+oc.name, c.pos(np.Pos()), "not analysable")
			continue
		}
		gotPersisted, gotNew, actOK := false, false, false
		for _, f := range c.family(np) {
			fs := st
			if f != np {
				fs = findStateOf(st, f, 0) // a stage split off from NewPegnetd, analysed at its call site
				if fs == nil {
					continue
				}
			}
			allInstrs(f, func(ins ssa.Instruction) {
				stt, ok := ins.(*ssa.Store)
				if !ok || !fs.execB[stt.Block()] {
					return
				}
				if fieldAddrIs(stt.Addr, "Pegnetd", "Sync") {
					if stt.Val == v0 {
						gotPersisted = true
					} else {
						gotNew = true
					}
				}
				if fieldAddrIs(stt.Addr, "BlockSync", "Synced") {
					if u, ok := stt.Val.(*ssa.UnOp); ok && u.Op == token.MUL {
						if g, ok := u.X.(*ssa.Global); ok && g.Name() == "PegnetActivation" {
							actOK = true
						}
					}
				}
			})
		}
		errs := strings.Join(errorReturns(st), "|")
		returnsErr := strings.Contains(errs, "err:") && !strings.Contains(errs, "nil")
		okk := gotPersisted == oc.wantPersisted && gotNew == oc.wantNew && returnsErr == oc.wantErr && (!oc.wantNew || actOK)
		r.check(okk, "C02-R6/resume", "NewPegnetd: "+oc.name, c.ipos(sel),
			fmt.Sprintf("resumes from the record=%v, starts fresh at PegnetActivation=%v, fails=%v", oc.wantPersisted, oc.wantNew, oc.wantErr),
			fmt.Sprintf("resumes from the record=%v (want %v), starts fresh=%v at PegnetActivation=%v (want %v), returns %s (want error=%v): a node that resumes from the wrong height re-applies or skips blocks of an existing ledger", gotPersisted, oc.wantPersisted, gotNew, actOK, oc.wantNew, errs, oc.wantErr))
	}
}

// ruleHeightOnce: pn_sync_version is keyed by height and written by a plain INSERT (shared with C19: the legacy
// back-fill relies on the key conflict to leave genuine version rows alone).
func ruleHeightOnce(c *Ctx, cat *SQLCat, r *Report, rule string) {
	r.rule(rule, 2, "a height can be recorded only once")
	t := cat.Tables["pn_sync_version"]
	keyed := false
	if t != nil {
		for _, u := range t.Uniques {
			if len(u) == 1 && u[0] == "height" {
				keyed = true
			}
		}
	}
	r.check(keyed, rule, "pn_sync_version keyed by height", "-", "PRIMARY KEY/UNIQUE(height)", "pn_sync_version has no unique key on height: a block could be applied twice unnoticed")
	for _, st := range cat.Stmts {
		if st.Table == "pn_sync_version" && st.isWrite() && st.Verb != "CREATE" {
			r.check(st.Verb == "INSERT" && st.Conflict == "", rule, "pn_sync_version written by plain INSERT in "+fname(st.Fn), c.ipos(st.Site), "plain INSERT", fmt.Sprintf("%s %s lets a height be recorded again", st.Verb, st.Conflict))
		}
	}

}
