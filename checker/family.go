package main

import (
	_ "embed"
	"sort"
	"strings"

	"golang.org/x/tools/go/ssa"
)

// The rules name the functions of the reference tree. A named function that is not in this list was introduced
// later - typically by extracting part of a listed function into a helper - and is analysed as part of its callers:
// calls inside it count as calls of the caller ("family"), guards are looked for at its call sites when they are
// not inside it, and who-may-call rules accept it when every caller is accepted.
//
//go:embed reference_funcs.txt
var referenceFuncsTxt string

var referenceFuncs = func() map[string]bool {
	m := map[string]bool{}
	for _, l := range strings.Split(referenceFuncsTxt, "\n") {
		if l = strings.TrimSpace(l); l != "" && !strings.HasPrefix(l, "#") {
			m[l] = true
		}
	}
	return m
}()

// isNewHelper: a named module function (or a closure inside one) that the reference tree does not have.
func isNewHelper(f *ssa.Function) bool {
	for f.Parent() != nil {
		f = f.Parent()
	}
	return fnInModule(f) && f.Synthetic == "" && !referenceFuncs[fname(f)]
}

// family: f, its closures, and the new helpers (with their closures) reachable from them through static calls that
// pass only through new helpers.
func (c *Ctx) family(f *ssa.Function) []*ssa.Function {
	seen := map[*ssa.Function]bool{}
	var order []*ssa.Function
	var walk func(g *ssa.Function)
	walk = func(g *ssa.Function) {
		if seen[g] {
			return
		}
		seen[g] = true
		order = append(order, g)
		for _, e := range c.CG[g] {
			if e.Callee.Parent() == g || (e.Kind == "closure" && sameTop(e.Callee, g)) {
				walk(e.Callee)
				continue
			}
			if (e.Kind == "static" || e.Kind == "closure" || e.Kind == "fnvalue") && isNewHelper(e.Callee) {
				walk(e.Callee)
			}
		}
		for _, an := range g.AnonFuncs {
			walk(an)
		}
	}
	walk(f)
	sort.SliceStable(order[1:], func(i, j int) bool { return fname(order[1+i]) < fname(order[1+j]) })
	return order
}

func sameTop(a, b *ssa.Function) bool {
	for a.Parent() != nil {
		a = a.Parent()
	}
	for b.Parent() != nil {
		b = b.Parent()
	}
	return a == b
}

// findCallsFam: calls to `name` in f's family (f, its closures, helpers split off from it and their closures).
func (c *Ctx) findCallsFam(f *ssa.Function, name string) []ssa.CallInstruction {
	var out []ssa.CallInstruction
	for _, g := range c.family(f) {
		out = append(out, findCalls(g, name)...)
	}
	return out
}

// familyCallSites: the static call sites of helper h (a member of some family), used to lift a local question
// ("is this instruction guarded?") to the callers when the helper itself does not answer it.
func (c *Ctx) familyCallSites(h *ssa.Function) []ssa.CallInstruction {
	var out []ssa.CallInstruction
	for _, e := range c.callSitesOf(h) {
		if ci, ok := e.Site.(ssa.CallInstruction); ok {
			out = append(out, ci)
		}
	}
	return out
}

// liftGuard answers "is site guarded?" for a predicate that is decided inside one function: true if local(site),
// else - when site sits in a new helper - if every call site of that helper is guarded (recursively).
func (c *Ctx) liftGuard(site ssa.CallInstruction, local func(ssa.CallInstruction) bool, depth int) bool {
	if local(site) {
		return true
	}
	f := site.Parent()
	if depth > 4 || !isNewHelper(f) || f.Parent() != nil {
		return false
	}
	sites := c.familyCallSites(f)
	if len(sites) == 0 {
		return false
	}
	for _, s := range sites {
		if !c.liftGuard(s, local, depth+1) {
			return false
		}
	}
	return true
}

// onlyCalledFromFamily: h is a new helper in root's family and every static call site of h is in that family; no
// address of h is taken (it cannot be called from elsewhere).
func (c *Ctx) onlyCalledFromFamily(h, root *ssa.Function) bool {
	for h.Parent() != nil {
		h = h.Parent()
	}
	if !isNewHelper(h) {
		return false
	}
	fam := map[*ssa.Function]bool{}
	for _, g := range c.family(root) {
		fam[g] = true
	}
	if !fam[h] || len(c.In[h]) == 0 {
		return false
	}
	for _, e := range c.In[h] {
		if e.Kind != "static" || !fam[e.Caller] {
			return false
		}
	}
	return true
}

// mustCallOnParam: every path from h's entry to a return executes a call to `callee` whose receiver/first argument is
// h's parameter #idx (process exits and panics do not count as returns). A caller may then treat `h(x)` as `x.callee()`.
func mustCallOnParam(h *ssa.Function, idx int, callee string) bool {
	if h.Blocks == nil || idx >= len(h.Params) {
		return false
	}
	done := map[*ssa.BasicBlock]bool{}
	for _, ci := range findCalls(h, callee) {
		if _, isDefer := ci.(*ssa.Defer); isDefer {
			return unwrap(ci.Common().Args[0]) == ssa.Value(h.Params[idx]) || spilledParam(ci.Common().Args[0]) == h.Params[idx]
		}
		if len(ci.Common().Args) > 0 && (spilledParam(ci.Common().Args[0]) == h.Params[idx]) {
			done[ci.Block()] = true
		}
	}
	if len(done) == 0 {
		return false
	}
	for b := range reachAvoiding(h.Blocks[0], done) {
		if len(b.Instrs) > 0 {
			if _, isRet := b.Instrs[len(b.Instrs)-1].(*ssa.Return); isRet {
				return false
			}
		}
	}
	return true
}

// liftSite: the instruction in root that stands for site - site itself when it is in root (or one of root's
// closures), else the call in root through which the new helper containing site is entered (helpers entered
// from more than one place, or not from root, give nil).
func (c *Ctx) liftSite(site ssa.Instruction, root *ssa.Function) ssa.Instruction {
	for i := 0; i < 5; i++ {
		f := site.Parent()
		if f == root {
			return site
		}
		if f.Parent() != nil {
			// a closure: the place where its enclosing function calls it (when it is called in one place)
			var calls []ssa.Instruction
			allInstrs(f.Parent(), func(ins ssa.Instruction) {
				if ci, ok := ins.(ssa.CallInstruction); ok {
					if mc, ok := ci.Common().Value.(*ssa.MakeClosure); ok && mc.Fn == ssa.Value(f) {
						calls = append(calls, ins)
					}
				}
			})
			if len(calls) != 1 {
				return nil
			}
			site = calls[0]
			continue
		}
		if !isNewHelper(f) {
			return nil
		}
		cs := c.familyCallSites(f)
		if len(cs) != 1 {
			return nil
		}
		site = cs[0]
	}
	return nil
}

// famOf: the reference function whose family contains f (f itself when it is a reference function).
func (c *Ctx) inFamily(f, root *ssa.Function) bool {
	for _, g := range c.family(root) {
		if g == f {
			return true
		}
	}
	return false
}

// ownerNames: the reference function(s) f belongs to - the top-level function for a closure, and for a helper that
// the reference tree does not have, every reference function whose family contains it. Audit tables are keyed by
// these names, so a reason recorded for a function also covers its closures and helpers later split off from it.
func (c *Ctx) ownerNames(f *ssa.Function) []string {
	top := f
	for top.Parent() != nil {
		top = top.Parent()
	}
	if !isNewHelper(top) {
		return []string{fname(top)}
	}
	if c.ownersMemo == nil {
		c.ownersMemo = map[*ssa.Function][]string{}
		for _, g := range c.Funcs {
			if g.Parent() != nil || isNewHelper(g) {
				continue
			}
			for _, h := range c.family(g) {
				ht := h
				for ht.Parent() != nil {
					ht = ht.Parent()
				}
				if ht != g && isNewHelper(ht) {
					c.ownersMemo[ht] = append(c.ownersMemo[ht], fname(g))
				}
			}
		}
	}
	out := dedupStrings(sortedCopy(c.ownersMemo[top]))
	if len(out) == 0 {
		return []string{fname(top)}
	}
	return out
}

func sortedCopy(a []string) []string {
	b := append([]string{}, a...)
	sort.Strings(b)
	return b
}
