package main

import (
	_ "embed"
	"go/token"
	"sort"
	"strings"

	"golang.org/x/tools/go/ssa"
)

// The rules name the functions of the reference tree. A named function that is not in this list was introduced
// later - typically by extracting part of a listed function into a helper - and is analysed as part of its callers:
// calls inside it count as calls of the caller ("family"), guards are looked for at its call sites when they are
// not inside it, and who-may-call rules accept it when every caller is accepted.
//
//go:embed reference_funcs.txt
var referenceFuncsTxt string

var referenceFuncs = func() map[string]bool {
	m := map[string]bool{}
	for _, l := range strings.Split(referenceFuncsTxt, "\n") {
		if l = strings.TrimSpace(l); l != "" && !strings.HasPrefix(l, "#") {
			m[l] = true
		}
	}
	return m
}()

// isNewHelper: a named module function (or a closure inside one) that the reference tree does not have.
func isNewHelper(f *ssa.Function) bool {
	for f.Parent() != nil {
		f = f.Parent()
	}
	return fnInModule(f) && f.Synthetic == "" && !referenceFuncs[fname(f)]
}

// family: f, its closures, and the new helpers (with their closures) reachable from them through static calls that
// pass only through new helpers.
func (c *Ctx) family(f *ssa.Function) []*ssa.Function {
	seen := map[*ssa.Function]bool{}
	var order []*ssa.Function
	var walk func(g *ssa.Function)
	walk = func(g *ssa.Function) {
		if seen[g] {
			return
		}
		seen[g] = true
		order = append(order, g)
		for _, e := range c.CG[g] {
			if e.Callee.Parent() == g || (e.Kind == "closure" && sameTop(e.Callee, g)) {
				walk(e.Callee)
				continue
			}
			if (e.Kind == "static" || e.Kind == "closure" || e.Kind == "fnvalue") && isNewHelper(e.Callee) {
				walk(e.Callee)
			}
		}
		for _, an := range g.AnonFuncs {
			walk(an)
		}
	}
	walk(f)
	sort.SliceStable(order[1:], func(i, j int) bool { return fname(order[1+i]) < fname(order[1+j]) })
	return order
}

func sameTop(a, b *ssa.Function) bool {
	for a.Parent() != nil {
		a = a.Parent()
	}
	for b.Parent() != nil {
		b = b.Parent()
	}
	return a == b
}

// findCallsFam: calls to `name` in f's family (f, its closures, helpers split off from it and their closures).
func (c *Ctx) findCallsFam(f *ssa.Function, name string) []ssa.CallInstruction {
	var out []ssa.CallInstruction
	for _, g := range c.family(f) {
		out = append(out, findCalls(g, name)...)
	}
	return out
}

// familyCallSites: the static call sites of helper h (a member of some family), used to lift a local question
// ("is this instruction guarded?") to the callers when the helper itself does not answer it.
func (c *Ctx) familyCallSites(h *ssa.Function) []ssa.CallInstruction {
	var out []ssa.CallInstruction
	for _, e := range c.callSitesOf(h) {
		if ci, ok := e.Site.(ssa.CallInstruction); ok {
			out = append(out, ci)
		}
	}
	return out
}

// liftGuard answers "is site guarded?" for a predicate that is decided inside one function: true if local(site),
// else - when site sits in a new helper - if every call site of that helper is guarded (recursively).
func (c *Ctx) liftGuard(site ssa.CallInstruction, local func(ssa.CallInstruction) bool, depth int) bool {
	if local(site) {
		return true
	}
	f := site.Parent()
	if depth > 4 || !isNewHelper(f) || f.Parent() != nil {
		return false
	}
	sites := c.familyCallSites(f)
	if len(sites) == 0 {
		return false
	}
	for _, s := range sites {
		if !c.liftGuard(s, local, depth+1) {
			return false
		}
	}
	return true
}

// onlyCalledFromFamily: h is a new helper in root's family and every static call site of h is in that family; no
// address of h is taken (it cannot be called from elsewhere).
func (c *Ctx) onlyCalledFromFamily(h, root *ssa.Function) bool {
	for h.Parent() != nil {
		h = h.Parent()
	}
	if !isNewHelper(h) {
		return false
	}
	fam := map[*ssa.Function]bool{}
	for _, g := range c.family(root) {
		fam[g] = true
	}
	if !fam[h] || len(c.In[h]) == 0 {
		return false
	}
	for _, e := range c.In[h] {
		if e.Kind != "static" || !fam[e.Caller] {
			return false
		}
	}
	return true
}

// mustCallOnParam: every path from h's entry to a return executes a call to `callee` whose receiver/first argument is
// h's parameter #idx (process exits and panics do not count as returns). A caller may then treat `h(x)` as `x.callee()`.
func mustCallOnParam(h *ssa.Function, idx int, callee string) bool {
	if h.Blocks == nil || idx >= len(h.Params) {
		return false
	}
	done := map[*ssa.BasicBlock]bool{}
	for _, ci := range findCalls(h, callee) {
		if _, isDefer := ci.(*ssa.Defer); isDefer {
			return unwrap(ci.Common().Args[0]) == ssa.Value(h.Params[idx]) || spilledParam(ci.Common().Args[0]) == h.Params[idx]
		}
		if len(ci.Common().Args) > 0 && (spilledParam(ci.Common().Args[0]) == h.Params[idx]) {
			done[ci.Block()] = true
		}
	}
	if len(done) == 0 {
		return false
	}
	for b := range reachAvoiding(h.Blocks[0], done) {
		if len(b.Instrs) > 0 {
			if _, isRet := b.Instrs[len(b.Instrs)-1].(*ssa.Return); isRet {
				return false
			}
		}
	}
	return true
}

// liftSite: the instruction in root that stands for site - site itself when it is in root (or one of root's
// closures), else the call in root through which the new helper containing site is entered (helpers entered
// from more than one place, or not from root, give nil).
func (c *Ctx) liftSite(site ssa.Instruction, root *ssa.Function) ssa.Instruction {
	for i := 0; i < 5; i++ {
		f := site.Parent()
		if f == root {
			return site
		}
		if f.Parent() != nil {
			// a closure: the place where its enclosing function calls it (when it is called in one place)
			var calls []ssa.Instruction
			allInstrs(f.Parent(), func(ins ssa.Instruction) {
				if ci, ok := ins.(ssa.CallInstruction); ok {
					if mc, ok := ci.Common().Value.(*ssa.MakeClosure); ok && mc.Fn == ssa.Value(f) {
						calls = append(calls, ins)
					}
				}
			})
			if len(calls) == 0 {
				// one of the steps of a local list of closures run in a loop: the call in that loop stands for it
				allInstrs(f.Parent(), func(ins ssa.Instruction) {
					ci, ok := ins.(ssa.CallInstruction)
					if !ok || ci.Common().StaticCallee() != nil || ci.Common().IsInvoke() {
						return
					}
					for _, mc := range localClosureSteps(ci.Common().Value, f.Parent()) {
						if mc.Fn == ssa.Value(f) {
							calls = append(calls, ins)
						}
					}
				})
			}
			if len(calls) != 1 {
				return nil
			}
			site = calls[0]
			continue
		}
		if !isNewHelper(f) {
			return nil
		}
		cs := c.familyCallSites(f)
		if len(cs) != 1 {
			return nil
		}
		site = cs[0]
	}
	return nil
}

// famOf: the reference function whose family contains f (f itself when it is a reference function).
func (c *Ctx) inFamily(f, root *ssa.Function) bool {
	for _, g := range c.family(root) {
		if g == f {
			return true
		}
	}
	return false
}

// ownerNames: the reference function(s) f belongs to - the top-level function for a closure, and for a helper that
// the reference tree does not have, every reference function whose family contains it. Audit tables are keyed by
// these names, so a reason recorded for a function also covers its closures and helpers later split off from it.
func (c *Ctx) ownerNames(f *ssa.Function) []string {
	top := f
	for top.Parent() != nil {
		top = top.Parent()
	}
	if !isNewHelper(top) {
		return []string{fname(top)}
	}
	if c.ownersMemo == nil {
		c.ownersMemo = map[*ssa.Function][]string{}
		for _, g := range c.Funcs {
			if g.Parent() != nil || isNewHelper(g) {
				continue
			}
			for _, h := range c.family(g) {
				ht := h
				for ht.Parent() != nil {
					ht = ht.Parent()
				}
				if ht != g && isNewHelper(ht) {
					c.ownersMemo[ht] = append(c.ownersMemo[ht], fname(g))
				}
			}
		}
	}
	out := dedupStrings(sortedCopy(c.ownersMemo[top]))
	if len(out) == 0 {
		return []string{fname(top)}
	}
	return out
}

func sortedCopy(a []string) []string {
	b := append([]string{}, a...)
	sort.Strings(b)
	return b
}

// bodyOf: the member of root's family that contains the calls to anchor - root itself on the reference tree, a closure
// or a helper when the body around them was moved out. root when there are none or they are spread over members.
func (c *Ctx) bodyOf(root *ssa.Function, anchor string) *ssa.Function {
	var body *ssa.Function
	for _, ci := range c.findCallsFam(root, anchor) {
		if body == nil {
			body = ci.Parent()
		} else if body != ci.Parent() {
			return root
		}
	}
	if body == nil {
		return root
	}
	return body
}

// everyPassFam: every completed iteration of the loop around site passes through site's block; when the loop body was
// moved into a closure or helper (no loop around site in its own function), every return of that function that can
// report success passes through it instead.
func (c *Ctx) everyPassFam(site ssa.Instruction) (bool, string) {
	f := site.Parent()
	if l := innermostLoop(f, site.Block()); l != nil {
		if everyIterationPasses(l, site.Block()) {
			return true, ""
		}
		return false, "an iteration can complete without it"
	}
	if !isNewHelper(f) && f.Parent() == nil {
		return false, "not inside a loop"
	}
	for b := range reachAvoiding(f.Blocks[0], map[*ssa.BasicBlock]bool{site.Block(): true}) {
		if len(b.Instrs) == 0 {
			continue
		}
		if rt, ok := b.Instrs[len(b.Instrs)-1].(*ssa.Return); ok && c.mayReportSuccess(rt) {
			return false, "the body can return success without it (" + c.ipos(rt) + ")"
		}
	}
	return true, ""
}

// rootParamOf: v is (a copy of) one parameter of root on every way it can arrive - directly, through the slot a closure
// captures, or through the parameters of helpers split off from root. nil otherwise.
func (c *Ctx) rootParamOf(v ssa.Value, root *ssa.Function, depth int) *ssa.Parameter {
	if depth > 5 {
		return nil
	}
	v = unwrapConv(unwrap(unwrapConv(v)))
	if p := spilledParam(v); p != nil {
		v = p
	}
	switch x := v.(type) {
	case *ssa.Parameter:
		f := x.Parent()
		if f == root {
			return x
		}
		if !isNewHelper(f) || f.Parent() != nil {
			return nil
		}
		idx := -1
		for i, p := range f.Params {
			if p == x {
				idx = i
			}
		}
		var res *ssa.Parameter
		for _, cs := range c.familyCallSites(f) {
			if idx >= len(cs.Common().Args) {
				return nil
			}
			p := c.rootParamOf(cs.Common().Args[idx], root, depth+1)
			if p == nil || (res != nil && res != p) {
				return nil
			}
			res = p
		}
		return res
	case *ssa.UnOp:
		if fv, ok := x.X.(*ssa.FreeVar); ok && x.Op == token.MUL {
			if al, _ := closureBinding(fv); al != nil && al.Referrers() != nil {
				var val ssa.Value
				n := 0
				for _, rf := range *al.Referrers() {
					if st, ok := rf.(*ssa.Store); ok && st.Addr == ssa.Value(al) {
						n++
						val = st.Val
					}
				}
				if n == 1 {
					return c.rootParamOf(val, root, depth+1)
				}
			}
		}
	case *ssa.FreeVar:
		// a captured value (not a slot)
		fn := x.Parent()
		for i, w := range fn.FreeVars {
			if w != x || fn.Parent() == nil {
				continue
			}
			var res *ssa.Parameter
			allInstrs(fn.Parent(), func(ins ssa.Instruction) {
				if mc, ok := ins.(*ssa.MakeClosure); ok && mc.Fn == ssa.Value(fn) && i < len(mc.Bindings) {
					res = c.rootParamOf(mc.Bindings[i], root, depth+1)
				}
			})
			return res
		}
	}
	return nil
}

// famDominates: a executes before b on every path to b, where each may sit in root or in a stage split off from it.
func (c *Ctx) famDominates(root *ssa.Function, a, b ssa.Instruction) bool {
	if a.Parent() == b.Parent() {
		return instrDominates(a, b)
	}
	la, lb := c.liftSite(a, root), c.liftSite(b, root)
	if la == nil || lb == nil || la == lb {
		return false
	}
	// a's stage must reach its end only through a (so that "the stage ran" implies "a ran")
	if la != a {
		if okk, _ := c.everyPassFam(a); !okk && a.Parent() != root {
			pass := true
			for blk := range reachAvoiding(a.Parent().Blocks[0], map[*ssa.BasicBlock]bool{a.Block(): true}) {
				if len(blk.Instrs) > 0 {
					if rt, ok := blk.Instrs[len(blk.Instrs)-1].(*ssa.Return); ok && c.mayReportSuccess(rt) {
						pass = false
					}
				}
			}
			if !pass {
				return false
			}
		}
	}
	return instrDominates(la, lb)
}
