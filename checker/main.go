package main

import (
	"strings"
	"flag"
	"fmt"
	"os"
	"runtime"
	"runtime/pprof"
	"sort"
	"strconv"

	"golang.org/x/tools/go/ssa"
)

type propFn func(c *Ctx, r *Report)

var props = map[string]propFn{}

func main() {
	repo := flag.String("repo", "/repo", "repository to analyse")
	verif := flag.String("verif", "/verif", "verification directory (evidence, known findings, spec)")
	prop := flag.String("property", "", "property id (C01..C20)")
	tier := flag.String("tier", "quick", "quick|thorough")
	list := flag.Bool("list", false, "list properties")
	dump := flag.String("dump", "", "debug: dump facts (roots|cg|sql)")
	flag.Parse()
	// many threads allocating at once make this VM spend most of its time in the kernel (page faults);
	// four is the measured sweet spot for load + SSA construction
	if os.Getenv("GOMAXPROCS") == "" {
		runtime.GOMAXPROCS(4)
	}
	if *list {
		var ids []string
		for id := range props {
			ids = append(ids, id)
		}
		sort.Strings(ids)
		for _, id := range ids {
			fmt.Println(id)
		}
		return
	}
	seed := int64(0)
	if s := os.Getenv("VERIF_SEED"); s != "" {
		if v, err := strconv.ParseInt(s, 10, 64); err == nil {
			seed = v
		}
	}
	if pf := os.Getenv("PEGCHECK_PROF"); pf != "" {
		f, _ := os.Create(pf)
		pprof.StartCPUProfile(f)
		defer pprof.StopCPUProfile()
	}
	c := load(*repo)
	c.Verif = *verif
	c.Tier = *tier
	if *dump != "" {
		dumpFacts(c, *dump)
		return
	}
	if *prop == "all" {
		// maintainer mode (seed matrix): every property in one process, one RESULT line each
		var ids []string
		for id := range props {
			ids = append(ids, id)
		}
		sort.Strings(ids)
		worst := 0
		for _, id := range ids {
			r := newReport(id, *tier)
			code := func() (code int) {
				defer func() {
					if e := recover(); e != nil {
						fmt.Printf("ANALYSIS-ERROR: %s panicked: %v\n", id, e)
						code = 2
					}
				}()
				props[id](c, r)
				return r.finish(*verif, seed)
			}()
			fmt.Printf("RESULT %s exit=%d\n", id, code)
			if code > worst {
				worst = code
			}
		}
		os.Exit(worst)
	}
	fn, ok := props[*prop]
	if !ok {
		die(2, "unknown property %q", *prop)
	}
	r := newReport(*prop, *tier)
	fmt.Printf("pegcheck property=%s tier=%s repo=%s packages=%d functions=%d R(SYNC)=%d R(API)=%d roots: SYNC=%s BLOCK=%d API=%d\n",
		*prop, *tier, *repo, len(c.Pkgs), len(c.Funcs), len(c.RSync), len(c.RAPI), fname(c.Sync), len(c.Block), len(c.API))
	r.Extra["packages"] = len(c.Pkgs)
	r.Extra["module_functions"] = len(c.Funcs)
	r.Extra["reachable_from_sync"] = len(c.RSync)
	r.Extra["reachable_from_api"] = len(c.RAPI)
	fn(c, r)
	if *tier == "thorough" && os.Getenv("PEGCHECK_NO_CONTROLS") == "" {
		cs := runControls(*repo, *verif, *prop)
		if len(cs) > 0 {
			r.Extra["controls"] = cs
			r.Extra["controls_summary"] = controlsSummary(cs)
			fmt.Println("controls (evidence only):", controlsSummary(cs))
		}
	}
	code := r.finish(*verif, seed)
	pprof.StopCPUProfile()
	os.Exit(code)
}

func dumpFacts(c *Ctx, what string) {
	switch what {
	case "roots":
		fmt.Println("SYNC", fname(c.Sync))
		for _, f := range c.Block {
			fmt.Println("BLOCK", fname(f))
		}
		for _, f := range c.API {
			fmt.Println("API", fname(f))
		}
		for _, f := range sortedFuncs(c.RSync) {
			fmt.Println("RSYNC", fname(f))
		}
		for _, f := range sortedFuncs(c.RAPI) {
			fmt.Println("RAPI", fname(f))
		}
	case "sigs":
		for _, f := range c.Funcs {
			if f.Parent() == nil && f.Synthetic == "" && len(f.Params) > 2 {
				var ts []string
				for _, p := range f.Params {
					ts = append(ts, p.Type().String())
				}
				fmt.Println(fname(f) + "\t" + strings.Join(ts, "|"))
			}
		}
	case "funcs":
		for _, f := range c.Funcs {
			if f.Parent() == nil {
				fmt.Println(fname(f))
			}
		}
	case "cg":
		for _, f := range c.Funcs {
			for _, e := range c.CG[f] {
				fmt.Printf("%s -> %s [%s]\n", fname(f), fname(e.Callee), e.Kind)
			}
		}
	case "cgcross":
		for _, spec := range []struct {
			name  string
			roots []*ssa.Function
			own   map[*ssa.Function]bool
		}{{"SYNC", []*ssa.Function{c.Sync}, c.RSync}, {"API", c.API, c.RAPI}} {
			m, e := crossCheckReach(c, spec.roots, spec.own)
			fmt.Println(spec.name, "reached by VTA but not by the module graph:", len(m))
			for _, x := range m {
				fmt.Println("  +", x)
			}
			fmt.Println(spec.name, "reached by the module graph but not by VTA:", len(e))
			for _, x := range e {
				fmt.Println("  -", x)
			}
		}
	case "sql":
		cat := buildSQLCat(c)
		cat.dump()
	}
}
