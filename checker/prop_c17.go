package main

import (
	"fmt"
	"go/token"
	"go/types"
	"strings"

	"golang.org/x/tools/go/ssa"
)

func propC17(c *Ctx, r *Report) {
	r.Explain = "Decides that ledger writes and history/status writes are paired inside the block transaction: (P1) in recordBatch every iteration that debits also sets the batch's status to the executing height, before any `continue`, error propagated; (P2) every rejection branch of both executors records a negative status before skipping (validation failure -2, the IsRejectedTx code of the sentinel, insufficient balance -1) with the error of that write propagated; (P3) every `return nil` of applyTransactionBatch is dominated by a successful recordBatch (a batch reported as applied has been recorded); (P4) the converted amount, PEG yield and refund written to history are the same SSA values that are credited; (P5) the arrival row is written with the literal status 0; (P6) status codes are negative and distinct; (P7) a lookup row is written for the input address of every transaction and the address of every transfer, unconditionally."
	r.NotDec = "that replaying the recorded history reproduces balances; exactly-once across pages (SQL ORDER BY/LIMIT behaviour); count/data predicate equivalence of the history queries"
	r.Trusted = []string{"go/ssa", "SQLite"}
	// a held batch's status is decided from the database, not from memory an aborted attempt left behind
	ruleNoCarriedReads(c, newSharedAnalysis(c), r, "C17-P8/no-carried-state", reachOf(c, "node.Pegnetd.ApplyTransactionBatchesInHolding", "node.Pegnetd.ApplyTransactionBlock"), carriedAllowedAverages, "the batch executors")
	// the developer coinbase recorded in history is the amount credited (shared with C15)
	ruleDevRewards(c, r, newEraCtx(c, r), "C17-P10/dev-reward-history")
	// each recorded action is returned as recorded: per-row records of the history readers are fresh
	ruleRowRecordFresh(c, r, "C17-P9/row-record-fresh", c.RAPI)
	// one history row per entry, pending only while the holding row exists: plain inserts, holding never deleted
	// (shared with C06-R5)
	ruleInsertOnly(c, r, buildSQLCat(c), "C17-P11/insert-only")
	ruleBurnTransferEra(c, r, "C17-P12/burn-transfer-era")
	// the recorded PEG yield is what was credited, once: a settled request list does not reach the next held height
	ruleSettleOnceFam(c, r, "C17-P13/settle-once")
	// what history lists as an output was credited: every transfer output but the burn address's (shared with C03-R8)
	r.rule("C17-P14/outputs-credited", 1, "only the burn address is exempt from being credited")
	ruleOutputsCredited(c, r, "C17-P14/outputs-credited")
	// the scheduled burn removes what remains, as a replay of the history assumes (shared with C15)
	ruleMintBurnScope(c, r, "C17-P15/mint-burn-scope")
	rb := c.fn("node.Pegnetd.recordBatch")
	hold := c.fn("node.Pegnetd.ApplyTransactionBatchesInHolding")
	atbk := c.fn("node.Pegnetd.ApplyTransactionBlock")
	atb := c.fn("node.Pegnetd.applyTransactionBatch")
	setName := "pegnet.Pegnet.SetTransactionHistoryExecuted"

	// P1
	r.rule("C17-P1/executed-status", 1, "a debited batch is marked executed at the executing height")
	{
		rbb := c.bodyOf(rb, "pegnet.Pegnet.SubFromBalance") // recordBatch, or the closure/helper its per-transaction body was moved into
		debits := findCalls(rbb, "pegnet.Pegnet.SubFromBalance")
		sets := findCalls(rbb, setName)
		var bad []string
		if len(debits) != 1 || len(sets) != 1 {
			bad = append(bad, fmt.Sprintf("%d debit and %d status call sites", len(debits), len(sets)))
		} else {
			set := sets[0]
			if !c.isExecHeight(set.Common().Args[3]) {
				bad = append(bad, "status written is "+valuePath(unwrapConv(set.Common().Args[3]))+", expected currentHeight")
			}
			if !instrDominates(debits[0], set) {
				bad = append(bad, "status can be set without the debit")
			}
			if okk, _ := c.everyPassFam(set); !okk {
				bad = append(bad, "an iteration that debits can complete (e.g. through the PEG-request `continue`) without marking the batch executed: its effects are applied while the status stays pending")
			}
			ev, _ := errValueOf(set)
			if ev == nil || len(nilTestsOf(c, ev)) == 0 {
				bad = append(bad, "error of the status update is not checked")
			}
		}
		r.check(len(bad) == 0, "C17-P1/executed-status", "recordBatch sets executed = currentHeight on every debiting iteration", c.pos(rb.Pos()), "", strings.Join(bad, "; "))
	}

	// P2 rejection statuses
	r.rule("C17-P2/rejection-status", 5, "every rejection records its negative status before the batch is skipped")
	codes := map[string]int64{}
	{
		rr := newReport("tmp", "quick")
		codes = rejectCodes(c, rr, "tmp")
	}
	statusArgs := func(t *Trace) []string {
		var out []string
		for _, lc := range t.CallsTo("SetTransactionHistoryExecuted") {
			if lc.Depth == 0 {
				out = append(out, lc.Args[3].String())
			}
		}
		return out
	}
	v20 := c.activations().get("V20HeightActivation")
	base := func() map[string]AVal {
		return map[string]AVal{"isDone": cBool(false), "ValidatePegTx": nilVal, "Validate": nilVal, "IsReplayTransaction": {K: ATuple, Tup: []AVal{cBool(false), nilVal}}, "HasPEGRequest": cBool(false)}
	}
	type rej struct {
		name string
		key  string
		val  AVal
		want string
		h    uint32
	}
	cases := []rej{
		{"held batch fails ValidatePegTx (from 2.0)", "ValidatePegTx", fresh, "-2", v20 + 10},
		{"held batch fails re-validation", "Validate", fresh, "-2", v20 - 10},
	}
	var sentNames []string
	for n := range codes {
		sentNames = append(sentNames, n)
	}
	sortStrings(sentNames)
	for _, n := range sentNames {
		cases = append(cases, rej{"held batch rejected with " + n, "applyTransactionBatch", AVal{K: ASentinel, G: c.global("pegnet", n)}, fmt.Sprintf("%d", codes[n]), v20 - 10})
	}
	for _, cs := range cases {
		calls := base()
		calls[cs.key] = cs.val
		sc := &Scenario{Params: map[string]AVal{"type:uint32": hconst(cs.h)}, Calls: calls, MaxDepth: 1, AllErrorsNil: true,
			NoInline: map[string]bool{"recordPegnetRequests": true, "GetPegNetRateAverages": true, "SetTransactionHistoryExecuted": true, "SelectMostRecentRatesBeforeHeight": true, "SelectTransactionBatchesInHoldingAtHeight": true, "SelectBankEntry": true}}
		t := newSCCP(c, sc).analyse(hold, nil)
		r.Scen++
		got := strings.Join(statusArgs(t), ",")
		r.check(got == cs.want, "C17-P2/rejection-status", cs.name, c.pos(hold.Pos()), "status "+cs.want, "status written: {"+got+"}, expected "+cs.want)
		if cs.key != "applyTransactionBatch" && t.Live("applyTransactionBatch") {
			r.viol("C17-P2/rejection-status", cs.name+": skipped", c.pos(hold.Pos()), "the rejected batch still reaches applyTransactionBatch")
		}
	}
	{
		calls := map[string]AVal{"NewTransactionBatch": {K: ATuple, Tup: []AVal{nonNil, nilVal}}, "IsReplayTransaction": {K: ATuple, Tup: []AVal{cBool(false), nilVal}}, "HasConversions": cBool(false),
			"applyTransactionBatch": {K: ASentinel, G: c.global("pegnet", "InsufficientBalanceErr")}}
		sc := &Scenario{Calls: calls, MaxDepth: 0, AllErrorsNil: true}
		t := newSCCP(c, sc).analyse(atbk, nil)
		r.Scen++
		got := strings.Join(statusArgs(t), ",")
		r.check(got == "-1", "C17-P2/rejection-status", "immediate batch with insufficient balance", c.pos(atbk.Pos()), "status -1", "status written: {"+got+"}, expected -1")
		// any other error fails the block
		calls["applyTransactionBatch"] = fresh
		t = newSCCP(c, &Scenario{Calls: calls, MaxDepth: 0, AllErrorsNil: true}).analyse(atbk, nil)
		r.Scen++
		errs := strings.Join(errorReturns(t.Root), "|")
		r.check(strings.Contains(errs, "err:fresh") && len(statusArgs(t)) == 0, "C17-P2/rejection-status", "immediate batch failing with another error fails the block", c.pos(atbk.Pos()), "", "returns "+errs+", statuses "+strings.Join(statusArgs(t), ","))
	}
	// errors of the status writes are propagated (E1 on the two executors' SetTransactionHistoryExecuted sites)
	eff := computeEffects(c)
	ef := &errflow{c: c, eff: eff, sync: c.Sync}
	for _, f := range []*ssa.Function{hold, atbk} {
		ordn := newOrdinals()
		for _, ci := range findCalls(f, setName) {
			site := &ErrSite{Fn: f, Call: ci, Callee: setName, Ord: ordn.next("s")}
			ef.analyse(f, ci, site)
			r.check(site.Problem == "", "C17-P2/rejection-status", site.construct()+" error handled", c.ipos(ci), site.Idiom, "swallowed: "+site.Problem+" (the rejection is not recorded and the block is committed)")
		}
	}

	// P3
	r.rule("C17-P3/applied-means-recorded", 1, "applyTransactionBatch returns nil only after recordBatch succeeded")
	{
		recs := findCalls(atb, "node.Pegnetd.recordBatch")
		if len(recs) != 1 {
			r.viol("C17-P3/applied-means-recorded", "recordBatch call in applyTransactionBatch", c.pos(atb.Pos()), fmt.Sprintf("%d call sites", len(recs)))
		} else {
			ev, _ := errValueOf(recs[0])
			tests := nilTestsOf(c, ev)
			ordn := newOrdinals()
			allInstrs(atb, func(ins ssa.Instruction) {
				ret, ok := ins.(*ssa.Return)
				if !ok || !isNilConst(resolveSpill(ret.Results[0])) {
					return
				}
				okk := false
				for _, t := range tests {
					if nilEdgeDom(t, ret.Block()) {
						okk = true
					}
				}
				cons := fmt.Sprintf("applyTransactionBatch return nil %s", ord(ordn.next("r")))
				// describe the guarding condition for the known finding
				r.check(okk, "C17-P3/applied-means-recorded", cons, c.ipos(ret), "dominated by the nil-error edge of recordBatch", "returns nil (which both callers treat as 'applied') before anything was recorded: a conversion whose amount cannot be converted (Convert error: overflow, unavailable average) is neither executed nor rejected - its status stays 0 (pending) for ever although it will never be looked at again")
			})
		}
	}

	// P4 amounts
	r.rule("C17-P4/recorded-amounts", 2, "amounts in history are the amounts credited")
	{
		hist := c.findCallsFam(rb, "pegnet.Pegnet.SetTransactionHistoryConvertedAmount")
		var credit ssa.CallInstruction
		for _, a := range c.findCallsFam(rb, "pegnet.Pegnet.AddToBalance") {
			if typePath(a.Common().Args[3]) == "fat2.Transaction.Conversion" {
				credit = a
			}
		}
		okk := len(hist) == 1 && credit != nil && unwrapConv(credit.Common().Args[4]) == unwrapConv(hist[0].Common().Args[4])
		okIdx := len(hist) == 1 && hist[0].Common().Args[3] != nil
		r.check(okk && okIdx, "C17-P4/recorded-amounts", "converted amount in history = amount credited", c.pos(rb.Pos()), "", "SetTransactionHistoryConvertedAmount is not given the credited Convert result")
		if okk {
			r.check(hist[0].Parent() == credit.Parent() && (instrDominates(hist[0], credit) || instrDominates(credit, hist[0])), "C17-P4/recorded-amounts", "history amount and credit on the same path", c.ipos(hist[0]), "", "the converted amount can be credited without being recorded (or vice versa)")
		}
	}
	// (PEG yield/refund provenance is C16/second-pass-provenance; reuse the same facts here)
	rp := c.fn("node.Pegnetd.recordPegnetRequests")
	{
		hist := c.findCallsFam(rp, "pegnet.Pegnet.SetTransactionHistoryPEGConvertedRequestAmount")
		adds := c.findCallsFam(rp, "pegnet.Pegnet.AddToBalance")
		okk := len(hist) == 1 && len(adds) == 2
		if okk {
			ha := hist[0].Common().Args
			m := 0
			for _, a := range adds {
				v := unwrapConv(a.Common().Args[4])
				if v == unwrapConv(ha[4]) || v == unwrapConv(ha[5]) {
					m++
				}
			}
			okk = m == 2
		}
		r.check(okk, "C17-P4/recorded-amounts", "PEG yield and refund in history = amounts credited", c.pos(rp.Pos()), "", "the PEG yield / refund recorded in history are not the values credited")
	}

	// P5 arrival status literal 0
	r.rule("C17-P5/arrival-pending", 1, "a batch is recorded as pending on arrival")
	ith := c.fn("pegnet.Pegnet.InsertTransactionHistoryTxBatch")
	{
		okk := false
		for _, ci := range findCalls(ith, "database/sql.Stmt.Exec") {
			els := varargElems(ci.Common().Args[1])
			if len(els) == 5 {
				if mi, ok := els[4].(*ssa.MakeInterface); ok {
					if k, ok := mi.X.(*ssa.Const); ok && k.Int64() == 0 {
						okk = true
					}
				}
			}
		}
		r.check(okk, "C17-P5/arrival-pending", "InsertTransactionHistoryTxBatch writes executed = 0", c.pos(ith.Pos()), "", "the arrival row is not written with the literal status 0")
	}

	// P6 codes
	r.rule("C17-P6/status-codes", 4, "status codes are negative and distinct")
	rejectCodes(c, r, "C17-P6/status-codes")

	// P7 lookup rows
	r.rule("C17-P7/lookup-rows", 2, "every involved address gets its lookup row")
	{
		n := 0
		var stmts []ssa.Value
		for _, ci := range findCalls(ith, "database/sql.Tx.Prepare") {
			if k, ok := ci.Common().Args[1].(*ssa.Const); ok && strings.Contains(k.Value.ExactString(), "pn_history_lookup") {
				if call, ok := ci.(*ssa.Call); ok {
					for _, rf := range *call.Referrers() {
						if ex, ok := rf.(*ssa.Extract); ok && ex.Index == 0 {
							stmts = append(stmts, ex)
						}
					}
				}
			}
		}
		for _, ci := range findCalls(ith, "database/sql.Stmt.Exec") {
			isLookup := false
			for _, s := range stmts {
				if ci.Common().Args[0] == s {
					isLookup = true
				}
			}
			if !isLookup {
				continue
			}
			n++
			l := innermostLoop(ith, ci.Block())
			els := varargElems(ci.Common().Args[1])
			what := "address"
			if len(els) == 3 {
				what = typePath(els[2])
				if what == "" {
					what = valuePath(els[2])
				}
			}
			okk := l != nil && everyIterationPasses(l, ci.Block())
			r.check(okk, "C17-P7/lookup-rows", fmt.Sprintf("lookup row %s for %s", ord(n), what), c.ipos(ci), "written on every iteration of its loop", "the lookup row is written only conditionally: an address involved in an action can be missing from the address index, so address queries omit the action")
		}
		if n < 2 {
			r.viol("C17-P7/lookup-rows", "lookup inserts in InsertTransactionHistoryTxBatch", c.pos(ith.Pos()), fmt.Sprintf("%d lookup Exec sites (expected input address per transaction and address per transfer)", n))
		}
	}
}

func sortStrings(s []string) {
	for i := 1; i < len(s); i++ {
		for j := i; j > 0 && s[j] < s[j-1]; j-- {
			s[j], s[j-1] = s[j-1], s[j]
		}
	}
}

// ruleRowRecordFresh: a record appended once per result row is built in a variable that is fresh for every row. A
// struct declared outside the rows loop keeps, for a later row, every field that this row's branch does not assign
// (e.g. the outputs of the previous action), so an action is returned with data of another one.
func ruleRowRecordFresh(c *Ctx, r *Report, rule string, scope map[*ssa.Function]bool) {
	r.rule(rule, 1, "records built from result rows do not carry fields over from the previous row")
	n := 0
	for _, f := range sortedFuncs(scope) {
		for _, l := range naturalLoops(f) {
			// a loop driven by rows.Next()
			driven := false
			for b := range l.blocks {
				for _, ins := range b.Instrs {
					if ci, ok := ins.(ssa.CallInstruction); ok && calleeName(ci.Common()) == "database/sql.Rows.Next" {
						driven = true
					}
				}
			}
			if !driven {
				continue
			}
			for b := range l.blocks {
				for _, ins := range b.Instrs {
					call, ok := ins.(*ssa.Call)
					if !ok {
						continue
					}
					bi, ok := call.Call.Value.(*ssa.Builtin)
					if !ok || bi.Name() != "append" || len(call.Call.Args) < 2 {
						continue
					}
					for _, el := range varargElems(call.Call.Args[1]) {
						u, ok := el.(*ssa.UnOp)
						if !ok || u.Op != token.MUL {
							continue
						}
						al, ok := u.X.(*ssa.Alloc)
						if !ok {
							continue
						}
						if _, isStruct := u.Type().Underlying().(*types.Struct); !isStruct {
							continue
						}
						n++
						cons := fmt.Sprintf("%s appends a %s per row", fname(f), shortType(u.Type()))
						r.check(l.blocks[al.Block()], rule, cons, c.ipos(call), "the record variable is declared inside the rows loop", "the record variable is declared outside the rows loop at "+c.pos(al.Pos())+": fields that a row's branch does not assign keep the previous row's values")
					}
				}
			}
		}
	}
	r.Extra["row_record_loops"] = n
}
