package main

// Rules added after the seventh wave of seeded changes.

import (
	"fmt"
	"go/constant"
	"go/token"
	"go/types"
	"regexp"
	"sort"
	"strings"

	"golang.org/x/tools/go/ssa"
)

// C02: no statement executed on the sync path controls the transaction itself (SAVEPOINT/ROLLBACK/COMMIT/BEGIN as SQL
// text): SQLite reads `ROLLBACK TRANSACTION name` as a full rollback, database/sql does not notice, and the rest of the
// block is then committed statement by statement.
func ruleNoSQLTxControl(c *Ctx, r *Report, cat *SQLCat, rule string) {
	r.rule(rule, 1, "no SQL text on the sync path begins, ends or partially rolls back a transaction")
	n := 0
	ctl := regexp.MustCompile(`(?i)^\s*(BEGIN|COMMIT|END|ROLLBACK|SAVEPOINT|RELEASE)\b`)
	for _, st := range cat.Stmts {
		if !c.RSync[st.Fn] {
			continue
		}
		n++
		if ctl.MatchString(st.Text) {
			r.viol(rule, fmt.Sprintf("%s executes %s", strings.Join(c.ownerNames(st.Fn), "/"), strings.ToUpper(strings.Fields(st.Text)[0])), c.ipos(st.Site), "the statement `"+oneLine(st.Text)+"` controls the transaction from inside it: the block's atomicity is then decided by SQLite's reading of that text, not by the sync root's Commit/Rollback (a `ROLLBACK TRANSACTION x` ends the whole transaction and the remaining statements of the block commit one by one)")
		}
	}
	r.okNT(rule, "statements on the sync path examined", "-", fmt.Sprintf("%d statements, none controls a transaction", n))
}

// C03/C16: HasConversions / HasPEGRequest answer "does any transaction ...": the flag they compute never falls back to
// false once set.
func ruleAnyOfFlags(c *Ctx, r *Report, rule string) {
	r.rule(rule, 2, "batch-level 'has any' answers are monotone over the transactions")
	for _, name := range []string{"fat2.TransactionBatch.HasConversions", "fat2.TransactionBatch.HasPEGRequest"} {
		f := c.fn(name)
		var bad []string
		nloops := 0
		for _, g := range c.family(f) {
			for _, l := range naturalLoops(g) {
				nloops++
				for _, ins := range l.header.Instrs {
					ph, ok := ins.(*ssa.Phi)
					if !ok {
						continue
					}
					if b, isB := ph.Type().Underlying().(*types.Basic); !isB || b.Kind() != types.Bool {
						continue
					}
					for i, e := range ph.Edges {
						if !l.blocks[ph.Block().Preds[i]] {
							continue
						}
						if !monotoneFlag(e, ph, 0) {
							bad = append(bad, fmt.Sprintf("the flag %q is overwritten by a per-transaction result at %s", ph.Comment, c.ipos(firstPosInstr(ph.Block().Preds[i]))))
						}
					}
				}
			}
		}
		r.check(len(bad) == 0 && nloops > 0, rule, name, c.pos(f.Pos()), "returns as soon as one transaction qualifies, or keeps a flag that is only ever set", strings.Join(dedupStrings(bad), "; ")+": the answer is that of the last transaction, so a batch whose PEG request is followed by another conversion is debited in recordBatch (per transaction) but never queued for the PEG settlement (per batch)")
	}
}

// monotoneFlag: the value carried round the loop is the flag itself, the constant true, or a merge of those.
func monotoneFlag(v ssa.Value, flag *ssa.Phi, depth int) bool {
	if depth > 4 {
		return false
	}
	if v == ssa.Value(flag) {
		return true
	}
	switch x := v.(type) {
	case *ssa.Const:
		return x.Value != nil && x.Value.Kind() == constant.Bool && constant.BoolVal(x.Value)
	case *ssa.Phi:
		for _, e := range x.Edges {
			if !monotoneFlag(e, flag, depth+1) {
				return false
			}
		}
		return true
	case *ssa.BinOp:
		// flag || x
		if x.Op == token.OR || x.Op == token.LOR {
			return monotoneFlag(x.X, flag, depth+1) || monotoneFlag(x.Y, flag, depth+1)
		}
	}
	return false
}

// C05: the activation heights are what package config (and the command line's testing overrides) say - nothing on the
// daemon's start-up path rewrites one.
func ruleActivationsNotRewritten(c *Ctx, r *Report, rule string) {
	r.rule(rule, 1, "no activation height is assigned outside the command-line overrides")
	n := 0
	var bad []string
	for _, f := range c.Funcs {
		if f.Pkg == nil || f.Pkg.Pkg.Name() == "cmd" || f.Name() == "init" || strings.HasPrefix(f.Name(), "init#") {
			continue
		}
		// the daemon's own paths (the helper the command line's --testing/--act flags call is not on them)
		if !c.RStartup[f] && !c.RSync[f] && !c.RAPI[f] && f != c.Startup {
			continue
		}
		allInstrs(f, func(ins ssa.Instruction) {
			st, ok := ins.(*ssa.Store)
			if !ok {
				return
			}
			g, ok := st.Addr.(*ssa.Global)
			if !ok || g.Pkg == nil || !inModule(g.Pkg.Pkg) {
				return
			}
			if !strings.Contains(g.Name(), "Activation") && !strings.HasSuffix(g.Name(), "Update") && !strings.HasPrefix(g.Name(), "OneWay") {
				return
			}
			if b, isB := g.Type().(*types.Pointer).Elem().Underlying().(*types.Basic); !isB || b.Info()&types.IsInteger == 0 {
				return
			}
			n++
			bad = append(bad, fmt.Sprintf("%s assigns %s.%s at %s", fname(f), g.Pkg.Pkg.Name(), g.Name(), c.ipos(st)))
		})
	}
	sort.Strings(bad)
	r.check(len(bad) == 0, rule, "stores to activation variables outside package cmd", "-", "none", strings.Join(bad, "; ")+": the height from which a key type (or a rule) is accepted then depends on a configuration value instead of the protocol constant - a node with that setting accepts signatures the network rejects at that height")
	_ = n
}

// C07: a rates reader returns the rows of exactly the height it is asked for.
func ruleRatesExactHeight(c *Ctx, r *Report, cat *SQLCat, rule string) {
	r.rule(rule, 2, "rate readers select the rows of the requested height only")
	exact := regexp.MustCompile(`^WHERE HEIGHT ==? (\?|\$1);?$`)
	for _, name := range []string{"pegnet.Pegnet.SelectRates", "pegnet.Pegnet.SelectPendingRates"} {
		f := c.fn(name)
		n := 0
		for _, st := range cat.Stmts {
			if (st.Fn != f && !c.inFamily(st.Fn, f)) || st.Verb != "SELECT" {
				continue
			}
			n++
			w := strings.ReplaceAll(strings.ToUpper(strings.Join(strings.Fields(st.Where), " ")), `"`, "")
			r.check(st.Table == "pn_rate" && exact.MatchString(w) && !st.Unres, rule, name+" reads pn_rate WHERE height = ?", c.ipos(st.Site), "", "the predicate is `"+oneLine(st.Where)+"`: asked for an ungraded height the reader answers with another block's rates - the averaging window (one call per height) then counts that block's rates again for every skipped height, so the average a conversion is priced with is wrong")
		}
		if n == 0 {
			r.viol(rule, name+" statement", c.pos(f.Pos()), "no SELECT found")
		}
	}
}

// C08/C06: the replay check asks for any relation row of the entry hash.
func ruleReplayPredicate(c *Ctx, r *Report, cat *SQLCat, rule string) {
	irt := c.fn("pegnet.Pegnet.IsReplayTransaction")
	exact := regexp.MustCompile(`^WHERE ENTRY_HASH ==? (\?|\$1);?$`)
	n := 0
	for _, st := range cat.Stmts {
		if (st.Fn != irt && !c.inFamily(st.Fn, irt)) || st.Verb != "SELECT" {
			continue
		}
		n++
		w := strings.ReplaceAll(strings.ToUpper(strings.Join(strings.Fields(st.Where), " ")), `"`, "")
		r.check(exact.MatchString(w) && !st.Limit || exact.MatchString(strings.TrimSpace(strings.SplitN(w, " LIMIT", 2)[0])), rule, "replay check predicate is the entry hash alone", c.ipos(st.Site), "WHERE entry_hash = ?", "the predicate is `"+oneLine(st.Where)+"`: relation rows of some executed entries do not match it (the input row of a conversion is written with to = 1), so such an entry is not recognised as a replay, is filed again and fails the block on the history tables' keys at every retry")
	}
	if n == 0 {
		r.viol(rule, "statement of IsReplayTransaction", c.pos(irt.Pos()), "no SELECT found")
	}
}

// C11: the address a winner is paid at is decoded from that record, not looked up in a table keyed by something else.
func ruleNoAddressCache(c *Ctx, r *Report, rule string) {
	for _, name := range []string{"node.Pegnetd.ApplyGradedOPRBlock", "node.Pegnetd.ApplyGradedSPRBlock"} {
		f := c.fn(name)
		for _, ci := range c.findCallsFam(f, "pegnet.Pegnet.AddToBalance") {
			viaMap := sliceHas(ci.Common().Args[2], func(v ssa.Value) bool {
				_, isLk := v.(*ssa.Lookup)
				return isLk
			})
			r.check(!viaMap, rule, name+": payout address decoded from the winning record itself", c.ipos(ci), "", "the address credited can come out of a map lookup (a per-block cache): if its key is not the address string itself (a miner id is free text), a winning record is paid at another record's address")
		}
	}
}

// C12: what the rate combination returns is the list it built.
func ruleReturnsFilteredList(c *Ctx, r *Report, rule string) {
	for _, name := range []string{"node.Pegnetd.GetAssetRates", "node.Pegnetd.GetAssetRatesV0"} {
		f := c.fn(name)
		var bad []string
		n := 0
		for _, rt := range returnsIn(blockSet(f)) {
			if len(rt.Results) != 2 || !isNilConst(rt.Results[1]) {
				continue
			}
			n++
			for _, l := range c.originLeaves(rt.Results[0], nil) {
				if p, ok := l.(*ssa.Parameter); ok && p.Parent() == f {
					bad = append(bad, c.ipos(rt))
				}
			}
			if p := c.rootParamOf(rt.Results[0], f, 0); p != nil {
				bad = append(bad, c.ipos(rt))
			}
			// one-sided blocks: with the other list nil there is nothing to combine, the list given is the answer
			if len(bad) > 0 && bad[len(bad)-1] == c.ipos(rt) {
				lenOfParam := func(v ssa.Value) bool {
					lc, isC := v.(*ssa.Call)
					if !isC {
						return false
					}
					bi, isB := lc.Call.Value.(*ssa.Builtin)
					if !isB || bi.Name() != "len" {
						return false
					}
					p, isP := lc.Call.Args[0].(*ssa.Parameter)
					return isP && p.Parent() == f
				}
				for _, b := range f.Blocks {
					// `0 < len(other)` false, or `len(other) < 1` true
					if x, y, lt, ge := ordEdges(b); x != nil {
						empty := (*ssa.BasicBlock)(nil)
						if k, isK := unwrapConv(x).(*ssa.Const); isK && k.Value != nil && k.Int64() == 0 && lenOfParam(y) {
							empty = ge
						}
						if k, isK := unwrapConv(y).(*ssa.Const); isK && k.Value != nil && k.Int64() == 1 && lenOfParam(x) {
							empty = lt
						}
						if empty != nil && edgeTargetDom(empty, rt.Block()) {
							for len(bad) > 0 && bad[len(bad)-1] == c.ipos(rt) {
								bad = bad[:len(bad)-1]
							}
						}
					}
				}
				for _, b := range f.Blocks {
					bo, _, eq := eqEdges(b)
					if bo == nil {
						continue
					}
					for _, pair := range [][2]ssa.Value{{bo.X, bo.Y}, {bo.Y, bo.X}} {
						emptyTest := false
						if p, isP := pair[0].(*ssa.Parameter); isP && p.Parent() == f && isNilConst(pair[1]) {
							emptyTest = true
						}
						if lc, isC := pair[0].(*ssa.Call); isC {
							if bi, isB := lc.Call.Value.(*ssa.Builtin); isB && bi.Name() == "len" {
								if p, isP := lc.Call.Args[0].(*ssa.Parameter); isP && p.Parent() == f {
									if k, isK := pair[1].(*ssa.Const); isK && k.Value != nil && k.Int64() == 0 {
										emptyTest = true
									}
								}
							}
						}
						if emptyTest && edgeTargetDom(eq, rt.Block()) {
							for len(bad) > 0 && bad[len(bad)-1] == c.ipos(rt) {
								bad = bad[:len(bad)-1]
							}
						}
					}
				}
			}
		}
		r.check(len(bad) == 0 && n > 0, rule, name+" returns the combined list", c.pos(f.Pos()), "", "the successful return at "+strings.Join(dedupStrings(bad), ", ")+" hands back one of the input lists unchanged: the tolerance-band outcome (the SPR's zeroed entry for an out-of-band asset from 2.0.2) is computed and then dropped")
	}
}

// C14/C16: a request is recorded with the amount it was made for.
func ruleRequestsUnaltered(c *Ctx, r *Report, rule string) {
	f := c.fn("conversions.ConversionSupplySet.AddConversion")
	n := 0
	var bad []string
	allInstrs(f, func(ins ssa.Instruction) {
		mu, ok := ins.(*ssa.MapUpdate)
		if !ok || !strings.HasSuffix(typePath(mu.Map), "ConversionSupplySet.ConversionRequests") {
			return
		}
		n++
		if ownParam(mu.Value, f) < 0 {
			bad = append(bad, c.ipos(mu))
		}
	})
	r.check(len(bad) == 0 && n > 0, rule, "AddConversion records the amount it is given", c.pos(f.Pos()), "", "the amount stored at "+strings.Join(bad, ", ")+" is not the parameter itself (clamped, scaled or merged with another value): shares are then proportional to the altered amounts, not to the stakes/requests, while their sum still equals the cap")
}

// C18: encoding a response cannot recurse without end.
func ruleMarshalNoRecursion(c *Ctx, r *Report, rule string) {
	r.rule(rule, 1, "no MarshalJSON method encodes a value that brings the same method back")
	n := 0
	var bad []string
	for _, f := range c.Funcs {
		if f.Signature.Recv() == nil || (f.Name() != "MarshalJSON" && f.Name() != "MarshalText") || f.Blocks == nil {
			continue
		}
		n++
		self := f.Object()
		for _, ci := range callsOf(f) {
			if calleeName(ci.Common()) != "encoding/json.Marshal" || len(ci.Common().Args) == 0 {
				continue
			}
			arg := ci.Common().Args[0]
			if mi, ok := arg.(*ssa.MakeInterface); ok {
				t := mi.X.Type()
				for _, tt := range []types.Type{t, types.NewPointer(t)} {
					ms := types.NewMethodSet(tt)
					for i := 0; i < ms.Len(); i++ {
						if ms.At(i).Obj() == self {
							bad = append(bad, fmt.Sprintf("%s encodes a %s at %s", fname(f), shortType(t), c.ipos(ci)))
						}
					}
				}
			}
		}
	}
	sort.Strings(bad)
	r.check(len(bad) == 0, rule, "MarshalJSON methods of the module", "-", fmt.Sprintf("%d methods, none re-enters itself", n), strings.Join(dedupStrings(bad), "; ")+": the value handed to json.Marshal has this very method in its method set (the type itself, or a struct that embeds it - the method is promoted), so encoding recurses until the stack overflows; that is a fatal runtime error no recover can stop - one request kills the daemon")
}

// C20: the command line's amount parser reads decimal digits only.
func ruleDecimalParse(c *Ctx, r *Report, rule string) {
	f := c.fn("cmd.FactoidToFactoshi")
	n := 0
	for _, g := range c.family(f) {
		for _, ci := range callsOf(g) {
			nm := calleeName(ci.Common())
			if nm != "strconv.ParseUint" && nm != "strconv.ParseInt" {
				continue
			}
			n++
			k, ok := ci.Common().Args[1].(*ssa.Const)
			r.check(ok && k.Value != nil && k.Int64() == 10, rule, "FactoidToFactoshi parses base 10", c.ipos(ci), "", "the base argument is "+ci.Common().Args[1].String()+": with base 0 a leading zero selects octal (010 is read as 8) and prefixes select hex/binary, so an amount is silently altered instead of converted exactly or rejected")
		}
	}
	if n == 0 {
		r.okNT(rule, "FactoidToFactoshi parses with Atoi (base 10)", c.pos(f.Pos()), "no ParseUint/ParseInt call")
	}
}

// C13: the availability test of an average counts the samples of the whole period.
func ruleAverageAvailability(c *Ctx, r *Report, rule string) {
	r.rule(rule, 1, "an average is available iff AveragePeriod - missing >= AverageRequired")
	f := c.fn("node.Pegnetd.GetPegNetRateAverages")
	n := 0
	var bad []string
	for _, g := range c.family(f) {
		for _, b := range g.Blocks {
			x, y, _, _ := ordEdges(b)
			if x == nil {
				continue
			}
			isReq := func(v ssa.Value) bool { return typePath(unwrapConv(v)) == "node.AverageRequired" }
			var other ssa.Value
			if isReq(y) {
				other = x
			} else if isReq(x) {
				other = y
			} else {
				continue
			}
			n++
			bo, ok := unwrapConv(other).(*ssa.BinOp)
			okk := ok && bo.Op == token.SUB
			if okk {
				if k, isK := unwrapConv(bo.X).(*ssa.Const); !(isK && k.Value != nil) && typePath(unwrapConv(bo.X)) != "node.AveragePeriod" {
					okk = false
				}
				if _, isCall := bo.Y.(*ssa.Call); !isCall {
					okk = false
				}
			}
			if !okk {
				bad = append(bad, c.ipos(b.Instrs[len(b.Instrs)-1]))
			}
		}
	}
	r.check(len(bad) == 0 && n > 0, rule, "GetPegNetRateAverages availability test", c.pos(f.Pos()), "AveragePeriod - numberMissing(series) compared with AverageRequired", "the test at "+strings.Join(bad, ", ")+" does not subtract the missing count from the whole period: numberMissing already counts the heights the window lacks, so any other minuend counts them twice (an unsigned wrap makes a nearly empty window look full - the conversion is executed although the average is unavailable)")
}

// ruleAveragesCacheReaders: the averaging cache is read by the averaging routine only (everything else asks it).
func ruleAveragesCacheReaders(c *Ctx, sa *sharedAnalysis, r *Report, rule string) {
	r.rule(rule, 1, "the averaging cache is read only by GetPegNetRateAverages")
	g := c.fn("node.Pegnetd.GetPegNetRateAverages")
	fam := map[*ssa.Function]bool{}
	for _, h := range c.family(g) {
		fam[h] = true
	}
	var bad []string
	n := 0
	for _, a := range sa.Acc {
		if !strings.HasPrefix(a.Loc, "node.Pegnetd.LastAverages") || a.Write || !c.RSync[a.Fn] {
			continue
		}
		n++
		if !fam[a.Fn] {
			bad = append(bad, fmt.Sprintf("%s reads %s at %s", fname(a.Fn), a.Loc, c.ipos(a.Ins)))
		}
	}
	sort.Strings(bad)
	r.check(len(bad) == 0 && n > 0, rule, "readers of node.Pegnetd.LastAverages* on the sync path", "-", "GetPegNetRateAverages and its closures", strings.Join(firstN(dedupStrings(bad), 3), "; ")+": the cache holds what this process happened to load (empty after a start, one graded block behind during a block), so a value taken from it instead of from the database differs between a long-running and a restarted daemon")
}

// ruleDebitOwnInput: recordBatch debits address, asset and amount of one and the same transaction.
func ruleDebitOwnInput(c *Ctx, r *Report, rule string) {
	rb := c.bodyOf(c.fn("node.Pegnetd.recordBatch"), "pegnet.Pegnet.SubFromBalance")
	n := 0
	for _, ci := range findCalls(rb, "pegnet.Pegnet.SubFromBalance") {
		n++
		a := ci.Common().Args
		ra, rt, rm := elemRoots(a[2]), elemRoots(a[3]), elemRoots(a[4])
		same := len(ra) > 0 && len(rt) > 0 && len(rm) > 0 && ra[0] == rt[0] && rt[0] == rm[0]
		r.check(same, rule, "debit (address, asset, amount) read from the same transaction", c.ipos(ci), "", "the three values are read from different transactions of the batch: a later transaction's amount is taken from the first transaction's asset, so the batch spends an asset it did not debit and overdraws the one it did")
	}
	if n == 0 {
		r.viol(rule, "debit in recordBatch", c.pos(rb.Pos()), "not found")
	}
}

// C08: the pooled bank pass updates the bank row of the executing height - the row SyncBank inserted earlier in the same
// block. Any other height has a row only by coincidence (none after an ungraded block) and UpdateBankEntry then fails
// with "bank entry not updated" at every retry.
func ruleBankRowHeight(c *Ctx, r *Report, rule string) {
	r.rule(rule, 1, "the pooled settlement updates the bank row of the executing height")
	hold := c.fn("node.Pegnetd.ApplyTransactionBatchesInHolding")
	n := 0
	for _, ci := range c.findCallsFam(hold, "node.Pegnetd.recordPegnetRequests") {
		a := ci.Common().Args
		pooled := false
		for _, x := range a {
			if sliceHas(x, func(v ssa.Value) bool { return isCallTo(v, "SelectBankEntry") }) {
				pooled = true
			}
		}
		if !pooled {
			continue
		}
		n++
		h := a[len(a)-1]
		r.check(c.isExecHeight(unwrapConv(h)), rule, "bank height handed to the pooled settlement", c.ipos(ci), "the executing height", "the bank height is "+c.describeOrigin(unwrapConv(h))+": the row updated is not the one SyncBank inserted for this block, so after an ungraded block there is no row to update and the block fails for ever")
	}
	if n == 0 {
		r.viol(rule, "pooled settlement call", c.pos(hold.Pos()), "no recordPegnetRequests call fed from SelectBankEntry found")
	}
}
