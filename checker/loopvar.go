package main

// Generic lint used by several properties: the address of a variable that is
// re-assigned on every iteration of a loop must not be retained across iterations
// (go.mod declares go 1.13: range and for variables are per-loop, not per-iteration).

import (
	"fmt"

	"golang.org/x/tools/go/ssa"
)

type natLoop struct {
	header *ssa.BasicBlock
	blocks map[*ssa.BasicBlock]bool
}

func naturalLoops(f *ssa.Function) []*natLoop {
	byHeader := map[*ssa.BasicBlock]*natLoop{}
	for _, b := range f.Blocks {
		for _, s := range b.Succs {
			if s.Dominates(b) || s == b { // back edge b -> s
				l := byHeader[s]
				if l == nil {
					l = &natLoop{header: s, blocks: map[*ssa.BasicBlock]bool{s: true}}
					byHeader[s] = l
				}
				// add blocks that reach b without passing s
				stack := []*ssa.BasicBlock{b}
				for len(stack) > 0 {
					x := stack[len(stack)-1]
					stack = stack[:len(stack)-1]
					if l.blocks[x] {
						continue
					}
					l.blocks[x] = true
					stack = append(stack, x.Preds...)
				}
			}
		}
	}
	var out []*natLoop
	for _, b := range f.Blocks {
		if l := byHeader[b]; l != nil {
			out = append(out, l)
		}
	}
	return out
}

func ruleLoopVarAlias(c *Ctx, r *Report, rule string, scope map[*ssa.Function]bool) {
	n := 0
	for _, f := range sortedFuncs(scope) {
		loops := naturalLoops(f)
		if len(loops) == 0 {
			continue
		}
		allInstrs(f, func(ins ssa.Instruction) {
			al, ok := ins.(*ssa.Alloc)
			if !ok || al.Referrers() == nil {
				return
			}
			for _, l := range loops {
				if l.blocks[al.Block()] {
					continue // allocated per iteration
				}
				// re-assigned inside the loop?
				reassigned := false
				for _, rf := range *al.Referrers() {
					if st, ok := rf.(*ssa.Store); ok && st.Addr == al && l.blocks[st.Block()] {
						reassigned = true
					}
				}
				if !reassigned {
					continue
				}
				for _, rf := range *al.Referrers() {
					if !l.blocks[rf.Block()] {
						continue
					}
					retained := ""
					switch x := rf.(type) {
					case *ssa.Store:
						if x.Val == al {
							retained = "stored"
						}
					case *ssa.MapUpdate:
						if x.Value == al {
							retained = "put in a map"
						}
					case *ssa.Send:
						if x.X == al {
							retained = "sent on a channel"
						}
					case *ssa.MakeInterface:
						retained = ""
					case *ssa.MakeClosure:
						// a closure that captures the variable and is kept for later (appended to a list of deferred
						// steps, stored): when it runs, the variable holds the last element
						captures := false
						for _, b := range x.Bindings {
							if b == ssa.Value(al) {
								captures = true
							}
						}
						if captures && x.Referrers() != nil {
							for _, r2 := range *x.Referrers() {
								switch y := r2.(type) {
								case *ssa.Store:
									if y.Val == ssa.Value(x) {
										retained = "captured by a closure that is stored"
									}
								case *ssa.MapUpdate:
									retained = "captured by a closure that is put in a map"
								case *ssa.Call:
									if bi, ok := y.Call.Value.(*ssa.Builtin); ok && bi.Name() == "append" {
										retained = "captured by a closure that is appended to a list"
									}
								}
							}
							// appended through a variadic slice literal
							for _, r2 := range *x.Referrers() {
								if st, ok := r2.(*ssa.Store); ok && st.Val == ssa.Value(x) {
									if ia, ok := st.Addr.(*ssa.IndexAddr); ok {
										if arr, isAlloc := ia.X.(*ssa.Alloc); isAlloc {
											retained = "captured by a closure that is appended to a list"
											if l.blocks[arr.Block()] && !listEscapesIteration(arr, l) {
												retained = "" // a list of steps made and run inside the iteration
											}
										}
									}
								}
							}
						}
					}
					if retained != "" {
						n++
						name := al.Comment
						r.viol(rule, fmt.Sprintf("%s &%s retained in loop", fname(f), name), c.ipos(rf), fmt.Sprintf("the address of %s, a variable re-assigned on every iteration of the loop (per-loop variable under go 1.13 semantics), is %s inside the loop: after the loop every retained pointer refers to the last element", name, retained))
					}
				}
			}
		})
	}
	if n == 0 {
		r.okNT(rule, "no retained address of a per-loop variable", "-", fmt.Sprintf("%d functions scanned", len(scope)))
	}
}

// everyIterationReaches: site lies in a loop, and no path from the loop header round to the header avoids site's block
// (paths that leave the function through a return - an error abort - do not count as iterations).
func everyIterationReaches(f *ssa.Function, site ssa.Instruction) (bool, string) {
	l := innermostLoop(f, site.Block())
	if l == nil {
		return false, "not inside a loop"
	}
	if !everyIterationPasses(l, site.Block()) {
		return false, "an iteration can complete without it"
	}
	return true, ""
}

// listEscapesIteration: the slice made from the per-iteration array arr flows into a value that lives across iterations
// (a loop-carried variable via append, a store to memory allocated outside the loop).
func listEscapesIteration(arr *ssa.Alloc, l *natLoop) bool {
	if arr.Referrers() == nil {
		return false
	}
	for _, rf := range *arr.Referrers() {
		sl, ok := rf.(*ssa.Slice)
		if !ok || sl.Referrers() == nil {
			continue
		}
		for _, r2 := range *sl.Referrers() {
			switch y := r2.(type) {
			case *ssa.Call:
				if bi, ok := y.Call.Value.(*ssa.Builtin); ok && bi.Name() == "append" {
					return true // appended to another list
				}
			case *ssa.Store:
				if y.Val == ssa.Value(sl) {
					if a, ok := y.Addr.(*ssa.Alloc); !ok || !l.blocks[a.Block()] {
						return true
					}
				}
			case *ssa.Phi:
				if y.Block() == l.header {
					return true
				}
			case *ssa.MapUpdate, *ssa.Return, *ssa.Send:
				return true
			}
		}
	}
	return false
}
