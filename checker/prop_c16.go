package main

import (
	"fmt"
	"go/constant"
	"go/token"
	"go/types"
	"strings"

	"golang.org/x/tools/go/ssa"
)

func init() { props["C16"] = propC16 }

// innermostLoop returns the smallest natural loop containing b.
func innermostLoop(f *ssa.Function, b *ssa.BasicBlock) *natLoop {
	var best *natLoop
	for _, l := range naturalLoops(f) {
		if l.blocks[b] && (best == nil || len(l.blocks) < len(best.blocks)) {
			best = l
		}
	}
	return best
}

// everyIterationPasses: inside loop l, every path from the header back to the header passes through x's block
// (paths that leave the loop or return are not iterations).
func everyIterationPasses(l *natLoop, x *ssa.BasicBlock) bool {
	if x == l.header {
		return true
	}
	seen := map[*ssa.BasicBlock]bool{}
	var st []*ssa.BasicBlock
	for _, s := range l.header.Succs {
		if l.blocks[s] && s != x {
			seen[s] = true
			st = append(st, s)
		}
	}
	for len(st) > 0 {
		b := st[len(st)-1]
		st = st[:len(st)-1]
		for _, s := range b.Succs {
			if s == l.header {
				return false // completed an iteration without passing x
			}
			if !l.blocks[s] || s == x || seen[s] {
				continue
			}
			seen[s] = true
			st = append(st, s)
		}
	}
	return true
}

func propC16(c *Ctx, r *Report) {
	r.Explain = "Era tables (SCCP per height class) for the legacy PEG conversion bank: PEG requests are deferred in recordBatch (no immediate credit) iff height >= PegnetConversionLimitActivation; held PEG requests are collected for the second pass iff 222270 <= height < V20; the per-height settlement (bank 5,000 PEG, bank height h-1) is executable iff 222270 <= h < V4OPRUpdate and the pooled settlement (bank = pn_bank row of h) iff V4 <= h < V20; pn_bank rows are inserted iff V4 <= h < V20 with 5,000e8 and updated iff bankHeight >= V4. Structure: the request list settled for one height is not carried into the next iteration; every second-pass PEG credit is a value of limit.Payouts(), the refund is Refund(height, input amount, that yield, rates[input], rates[PEG]) in the input asset, both go to tx.Input.Address, the history row carries the same two values, totalPaid sums the same yields and is recorded with TotalRequested(); Payouts(): requests paid in full iff total < bank else PayoutBig = Quo(Mul(request, bank), total) with the dust going to one deterministic request."
	r.NotDec = "sum(payouts) <= bank and yield + refund <= input (numeric; the first is what the existing unit test samples)"
	r.Trusted = []string{"mainnet activation constants", "math/big", "go/ssa"}
	e := newEraCtx(c, r)
	a := e.a
	limitAct, v4, v20 := a.get("PegnetConversionLimitActivation"), a.get("V4OPRUpdate"), a.get("V20HeightActivation")
	tick, _ := c.tickers()
	const bank5k = 5000 * 100000000
	r.rule("C16/bank-row-always-filled", 1, "the bank pass records used and requested for every block it runs in")
	rulePassThrough(c, r, "C16/bank-row-always-filled", c.fn("node.Pegnetd.recordPegnetRequests"), "pegnet.Pegnet.UpdateBankEntry", "from V4 on the bank row of the block is filled in on every successful pass, also with no request", "the row keeps its -1/-1 'to be filled' marker, so the bank ledger does not record the amount used and requested for that block")
	rulePayoutsPure(c, r, "C16/payouts-pure")
	r.rule("C16/requests-unaltered", 1, "a request is recorded with the amount it was made for")
	ruleRequestsUnaltered(c, r, "C16/requests-unaltered")
	ruleAnyOfFlags(c, r, "C16/any-of-flags")
	r.rule("C16/bank-update-columns", 1, "the bank row's columns receive the matching values")
	ruleBankUpdateColumns(c, r, buildSQLCat(c), "C16/bank-update-columns")
	r.rule("C16/request-index", 1, "a PEG request is filed under its position in the batch")
	ruleRequestIndex(c, r, "C16/request-index")
	r.rule("C16/settlement-loops-complete", 2, "every request is registered and every payout settled")
	ruleLoopCompletes(c, r, "C16/settlement-loops-complete", c.fn("node.Pegnetd.recordPegnetRequests"), "pegnet.Pegnet.AddToBalance", "every payout entry is credited and refunded")
	ruleLoopCompletes(c, r, "C16/settlement-loops-complete", c.fn("node.Pegnetd.recordPegnetRequests"), "conversions.ConversionSupplySet.AddConversion", "every PEG request of the batches is registered")

	// deferral in recordBatch
	r.rule("C16/era-table", 6, "PEG bank steps by height class")
	rb := c.fn("node.Pegnetd.recordBatch")
	hold := c.fn("node.Pegnetd.ApplyTransactionBatchesInHolding")
	acc := newTableAcc()
	evalEra := func(name string, fn *ssa.Function, mk func(h uint32) *Scenario, want, got func(h uint32, t *Trace) string) {
		var bad []string
		definite := false
		for _, h := range e.reps {
			t, _ := acc.run(c, r, fn, mk(h))
			w, g := want(h, t), got(h, t)
			if w != g {
				if !strings.Contains(g, "⊤") {
					definite = true
				}
				if len(bad) < 5 {
					bad = append(bad, fmt.Sprintf("h=%d expected %s, code gives %s", h, w, g))
				}
			}
		}
		_ = definite
		r.check(len(bad) == 0, "C16/era-table", name, c.pos(fn.Pos()), fmt.Sprintf("%d height classes", len(e.reps)), strings.Join(bad, "; "))
	}
	evalEra("PEG request credited immediately only before the conversion limit", rb,
		func(h uint32) *Scenario {
			return &Scenario{Params: map[string]AVal{"type:uint32": hconst(h)},
				Calls:    map[string]AVal{"fat2.Transaction.IsPEGRequest": cBool(true), "fat2.Transaction.IsConversion": cBool(true)},
				Paths:    map[string]AVal{"fat2.Transaction.Conversion": cInt(tick["PEG"])},
				MaxDepth: 0, AllErrorsNil: true}
		},
		func(h uint32, t *Trace) string { return liveStr(h < limitAct) },
		func(h uint32, t *Trace) string {
			live := false
			for _, lc := range t.CallsTo("AddToBalance") {
				if typePath(lc.Instr.Common().Args[3]) == "fat2.Transaction.Conversion" {
					live = true
				}
			}
			return liveStr(live)
		})
	evalEra("a non-PEG conversion is always credited immediately", rb,
		func(h uint32) *Scenario {
			return &Scenario{Params: map[string]AVal{"type:uint32": hconst(h)},
				Calls:    map[string]AVal{"fat2.Transaction.IsPEGRequest": cBool(false), "fat2.Transaction.IsConversion": cBool(true)},
				MaxDepth: 0, AllErrorsNil: true}
		},
		func(h uint32, t *Trace) string { return "live" },
		func(h uint32, t *Trace) string {
			for _, lc := range t.CallsTo("AddToBalance") {
				if typePath(lc.Instr.Common().Args[3]) == "fat2.Transaction.Conversion" {
					return "live"
				}
			}
			return "dead"
		})
	holdSc := func(h uint32) *Scenario {
		return &Scenario{Params: map[string]AVal{"type:uint32": hconst(h)},
			Calls: map[string]AVal{"HasPEGRequest": cBool(true), "isDone": cBool(false), "applyTransactionBatch": nilVal, "IsReplayTransaction": {K: ATuple, Tup: []AVal{cBool(false), nilVal}},
				"SelectBankEntry": {K: ATuple, Tup: []AVal{top, nilVal}}},
			MaxDepth: 1, AllErrorsNil: true, NoInline: map[string]bool{"recordPegnetRequests": true, "GetPegNetRateAverages": true}}
	}
	evalEra("held PEG requests collected for the second pass iff limit <= h < V20", hold, holdSc,
		func(h uint32, t *Trace) string { return liveStr(h >= limitAct && h < v20) },
		func(h uint32, t *Trace) string {
			for _, lc := range t.Calls {
				if lc.Callee == "builtin.append" && lc.Depth == 0 {
					return "live"
				}
			}
			return "dead"
		})
	// a height argument as the table sees it: its constant when the abstraction kept it, else what its origins say -
	// the executing height (h), the executing height minus one, or a definite "other" (an unrelated source is a
	// finding, not an unknown)
	heightArg := func(h uint32, a AVal, v ssa.Value) string {
		if _, ok := a.intVal(); ok {
			return a.String()
		}
		if c.isExecHeight(v) {
			return fmt.Sprintf("%d", h)
		}
		if bo, ok := unwrapConv(v).(*ssa.BinOp); ok && bo.Op == token.SUB && c.isExecHeight(bo.X) {
			if k, ok := bo.Y.(*ssa.Const); ok && k.Value != nil && k.Int64() == 1 {
				return fmt.Sprintf("%d", h-1)
			}
		}
		if d := c.describeOrigin(v); d != "" && !strings.Contains(d, "parameter") {
			return "other(" + d + ")"
		}
		return a.String()
	}
	evalEra("settlement call(s): per height with 5,000 PEG and bank height h-1 before V4, pooled with the pn_bank row of h from V4, none from V20", hold, holdSc,
		func(h uint32, t *Trace) string {
			switch {
			case h >= limitAct && h < v4:
				return fmt.Sprintf("per-height bank=%d bankHeight=%d", bank5k, h-1)
			case h >= v4 && h < v20:
				return fmt.Sprintf("pooled bank=BankAmount bankHeight=%d", h)
			}
			return "none"
		},
		func(h uint32, t *Trace) string {
			var out []string
			for _, lc := range t.CallsTo("recordPegnetRequests") {
				if lc.Depth != 0 {
					continue
				}
				kind := "pooled"
				if innermostLoop(hold, lc.Instr.Block()) != nil {
					kind = "per-height"
				}
				bank := lc.Args[6].String()
				if strings.HasSuffix(typePath(unwrapConv(lc.Instr.Common().Args[6])), "BankEntry.BankAmount") {
					bank = "BankAmount"
				}
				out = append(out, fmt.Sprintf("%s bank=%s bankHeight=%s", kind, bank, heightArg(h, lc.Args[7], lc.Instr.Common().Args[7])))
				if hs := heightArg(h, lc.Args[5], lc.Instr.Common().Args[5]); hs != fmt.Sprintf("%d", h) {
					out = append(out, "height="+hs)
				}
			}
			if len(out) == 0 {
				return "none"
			}
			return strings.Join(out, " + ")
		})
	evalEra("pooled settlement reads the pn_bank row of the executing height", hold, holdSc,
		func(h uint32, t *Trace) string {
			if h >= v4 && h < v20 {
				return fmt.Sprintf("%d", h)
			}
			return "dead"
		},
		func(h uint32, t *Trace) string {
			for _, lc := range t.Calls {
				if lc.Short == "SelectBankEntry" && lc.Depth == 0 {
					return heightArg(h, lc.Args[2], lc.Instr.Common().Args[2])
				}
			}
			return "dead"
		})
	ruleNoCarriedReads(c, newSharedAnalysis(c), r, "C16/no-carried-state", reachOf(c, "node.Pegnetd.SyncBank", "node.Pegnetd.recordPegnetRequests", "node.Pegnetd.ApplyTransactionBatchesInHolding"), carriedAllowedAverages, "the PEG bank")
	ruleRejectedNotCollected(c, r, e, "C16/rejected-not-collected")
	ruleRefundFormula(c, r, "C16/refund-formula")
	rulePooledListAccumulates(c, r, e, "C16/pooled-list")
	r.rule("C16/loopvar-alias", 1, "a recorded PEG request does not alias the loop variable it was read from")
	ruleLoopVarAlias(c, r, "C16/loopvar-alias", reachOf(c, "node.Pegnetd.recordPegnetRequests", "node.Pegnetd.ApplyTransactionBatchesInHolding"))
	sbk := c.fn("node.Pegnetd.SyncBank")
	evalEra("pn_bank row inserted iff V4 <= h < V20, with 5,000 PEG for height h", sbk,
		func(h uint32) *Scenario {
			return &Scenario{Params: map[string]AVal{"type:uint32": hconst(h)}, MaxDepth: 0}
		},
		func(h uint32, t *Trace) string {
			if h >= v4 && h < v20 {
				return fmt.Sprintf("(%d,%d)", h, bank5k)
			}
			return "dead"
		},
		func(h uint32, t *Trace) string {
			for _, lc := range t.CallsTo("InsertBankAmount") {
				return fmt.Sprintf("(%s,%s)", lc.Args[2], lc.Args[3])
			}
			return "dead"
		})
	rp := c.fn("node.Pegnetd.recordPegnetRequests")
	{
		var bad []string
		for _, bh := range []uint32{v4 - 2, v4 - 1, v4, v4 + 1} {
			sc := &Scenario{Params: map[string]AVal{"type:int32": cInt(int64(bh))}, MaxDepth: 0, AllErrorsNil: true}
			t, _ := acc.run(c, r, rp, sc)
			if t.Live("UpdateBankEntry") != (bh >= v4) {
				bad = append(bad, fmt.Sprintf("bankHeight=%d: UpdateBankEntry %s", bh, liveStr(t.Live("UpdateBankEntry"))))
			}
		}
		r.check(len(bad) == 0, "C16/era-table", "pn_bank row updated iff bankHeight >= V4OPRUpdate", c.pos(rp.Pos()), "", strings.Join(bad, "; "))
	}
	acc.report(c, r, "C16/era-table", rb)

	// the settled list is not carried over
	ruleSettleOnceFam(c, r, "C16/settle-once")

	// provenance of the second-pass credits
	r.rule("C16/second-pass-provenance", 2, "yield, refund, history and bank record come from the same payout values")
	{
		var bad []string
		// the anchors may sit in recordPegnetRequests or in a helper split off from it (per-request settlement)
		lp := c.findCallsFam(rp, "conversions.ConversionSupplySet.Payouts")
		adds := c.findCallsFam(rp, "pegnet.Pegnet.AddToBalance")
		ref := c.findCallsFam(rp, "conversions.Refund")
		hist := c.findCallsFam(rp, "pegnet.Pegnet.SetTransactionHistoryPEGConvertedRequestAmount")
		upd := c.findCallsFam(rp, "pegnet.Pegnet.UpdateBankEntry")
		ncs := c.findCallsFam(rp, "conversions.NewConversionSupply")
		if len(lp) != 1 || len(adds) != 2 || len(ref) != 1 || len(hist) != 1 || len(upd) != 1 || len(ncs) != 1 {
			bad = append(bad, fmt.Sprintf("anchors: Payouts=%d AddToBalance=%d Refund=%d history=%d UpdateBankEntry=%d NewConversionSupply=%d", len(lp), len(adds), len(ref), len(hist), len(upd), len(ncs)))
		} else {
			// pegYield = range value over Payouts()
			var yield0 ssa.Value
			allInstrs(lp[0].Parent(), func(ins ssa.Instruction) {
				if ex, ok := ins.(*ssa.Extract); ok && ex.Index == 2 {
					if nx, ok := ex.Tuple.(*ssa.Next); ok {
						if rg, ok := nx.Iter.(*ssa.Range); ok && sliceHas(rg.X, func(v ssa.Value) bool { return v == lp[0].(ssa.Value) }) {
							yield0 = ex
						}
					}
				}
			})
			// the yield as each function of the family sees it: the range value itself, or the parameter of a helper
			// that is handed it (possibly converted)
			yields := map[*ssa.Function]ssa.Value{}
			if yield0 != nil {
				yields[lp[0].Parent()] = yield0
				for changed, n := true, 0; changed && n < 4; n++ {
					changed = false
					for f, y := range yields {
						for _, ci := range callsOf(f) {
							sc := ci.Common().StaticCallee()
							if sc == nil || !isNewHelper(sc) || yields[sc] != nil {
								continue
							}
							for i, a := range ci.Common().Args {
								if unwrapConv(a) == y && i < len(sc.Params) {
									yields[sc] = sc.Params[i]
									changed = true
								}
							}
						}
					}
				}
			}
			isYield := func(v ssa.Value, at ssa.Instruction) bool {
				y := yields[at.Parent()]
				return y != nil && unwrapConv(v) == y
			}
			yield := yield0
			if yield == nil {
				bad = append(bad, "no range over limit.Payouts() found")
			} else {
				var pegAdd, refAdd ssa.CallInstruction
				for _, ad := range adds {
					if isYield(ad.Common().Args[4], ad) {
						pegAdd = ad
					} else {
						refAdd = ad
					}
				}
				if pegAdd == nil {
					bad = append(bad, "no credit whose amount is the Payouts() value")
				} else {
					if typePath(pegAdd.Common().Args[3]) != "fat2.Transaction.Conversion" {
						bad = append(bad, "PEG credit ticker is not tx.Conversion")
					}
					if !strings.HasSuffix(typePath(pegAdd.Common().Args[2]), "TypedAddressAmountTuple.Address") {
						bad = append(bad, "PEG credit does not go to tx.Input.Address")
					}
				}
				rcall := ref[0].(*ssa.Call)
				ra := rcall.Call.Args
				// the two rates are entries of recordPegnetRequests' first rate map (the spot rates), keyed by the input
				// asset and by the destination
				rateOf := func(v ssa.Value, key string) bool {
					lk, ok := v.(*ssa.Lookup)
					if !ok || typePath(lk.Index) != key {
						return false
					}
					p := c.rootParamOf(lk.X, rp, 0)
					if p == nil {
						return false
					}
					if _, isMap := p.Type().Underlying().(*types.Map); !isMap {
						return false
					}
					for _, q := range rp.Params {
						if q == p {
							break
						}
						if types.Identical(q.Type(), p.Type()) {
							return false // not the first of the rate maps
						}
					}
					return true
				}
				if !c.isExecHeight(ra[0]) || typePath(unwrapConv(ra[1])) != "fat2.TypedAddressAmountTuple.Amount" || !isYield(ra[2], rcall) ||
					!rateOf(ra[3], "fat2.TypedAddressAmountTuple.Type") || !rateOf(ra[4], "fat2.Transaction.Conversion") {
					bad = append(bad, fmt.Sprintf("Refund arguments are (%s, %s, yield=%v, %s, %s)", c.describeOrigin(ra[0]), typePath(unwrapConv(ra[1])), isYield(ra[2], rcall), stablePath(ra[3], 0), stablePath(ra[4], 0)))
				}
				if refAdd == nil || unwrapConv(refAdd.Common().Args[4]) != ssa.Value(rcall) {
					bad = append(bad, "the refund credit is not the Refund() result")
				} else {
					if typePath(refAdd.Common().Args[3]) != "fat2.TypedAddressAmountTuple.Type" {
						bad = append(bad, "refund is not credited in the input asset")
					}
					if !strings.HasSuffix(typePath(refAdd.Common().Args[2]), "TypedAddressAmountTuple.Address") {
						bad = append(bad, "refund does not go to tx.Input.Address")
					}
				}
				ha := hist[0].Common().Args
				if !isYield(ha[4], hist[0]) || ha[5] != ssa.Value(rcall) {
					bad = append(bad, "the history row does not carry the credited yield and refund")
				}
				// totalPaid accumulates the same yield; recorded with TotalRequested()
				ua := upd[0].Common().Args
				sumOK := sliceHas(ua[3], func(v ssa.Value) bool {
					bo, ok := v.(*ssa.BinOp)
					return ok && bo.Op == token.ADD && (isYield(bo.Y, bo) || isYield(bo.X, bo))
				})
				if !sumOK {
					bad = append(bad, "bank_used is not the sum of the yields paid")
				}
				if !sliceHas(ua[4], func(v ssa.Value) bool { return isCallTo(v, "TotalRequested") }) {
					bad = append(bad, "total_requested is not limit.TotalRequested()")
				}
				// by position and type, not by name: the bank row updated is recordPegnetRequests' int32 parameter (the era
				// table checks what the callers pass for it), the supply set is created with its uint64 parameter
				isOwn := func(v ssa.Value, kind types.BasicKind) bool {
					i := ownParam(v, rp)
					if i < 0 {
						return false
					}
					b, ok := rp.Params[i].Type().Underlying().(*types.Basic)
					return ok && b.Kind() == kind
				}
				if !isOwn(ua[2], types.Int32) {
					bad = append(bad, "the bank row updated is not the bank-height parameter")
				}
				if !isOwn(ncs[0].Common().Args[0], types.Uint64) {
					bad = append(bad, "the supply set is not created with the bank parameter")
				}
			}
		}
		r.check(len(bad) == 0, "C16/second-pass-provenance", "recordPegnetRequests", c.pos(rp.Pos()), "PEG credit = Payouts()[txid]; refund = Refund(h, input, yield, rates[in], rates[PEG]) in the input asset; both to tx.Input.Address; history and pn_bank carry the same values", strings.Join(bad, "; "))
	}
	// requests: AddConversion(txid, Convert(...)) for the executing height
	for _, ci := range findCalls(rp, "conversions.ConversionSupplySet.AddConversion") {
		okk := sliceHas(ci.Common().Args[2], func(v ssa.Value) bool {
			return isCallTo(v, "Convert")
		})
		r.check(okk, "C16/second-pass-provenance", "requested amount is the Convert yield", c.ipos(ci), "", "AddConversion is not given the PEG amount computed by Convert")
	}

	// Payouts() shape
	r.rule("C16/payouts-table", 4, "full payment below the bank, proportional share otherwise")
	pf := c.fn("conversions.ConversionSupplySet.Payouts")
	for _, rel := range []int{-1, 0, 1} {
		rel := rel
		sc := &Scenario{Lens: map[string]AVal{"conversions.ConversionSupplySet.ConversionRequests": cInt(3)},
			Calls: map[string]AVal{"math/big.Int.IsUint64": cBool(true), "math/big.Int.Uint64": sym("total")},
			Paths: map[string]AVal{"conversions.ConversionSupplySet.Bank": sym("bank")},
			Order: func(x, y AVal) (int, bool) {
				if x.K == ASym && y.K == ASym && x.Sym == "total" && y.Sym == "bank" {
					return rel, true
				}
				return 0, false
			}, MaxDepth: 0}
		t := newSCCP(c, sc).analyse(pf, nil)
		r.Scen++
		prop := t.Live("PayoutBig")
		r.check(prop == (rel >= 0), "C16/payouts-table", fmt.Sprintf("total requested %s bank", map[int]string{-1: "<", 0: "=", 1: ">"}[rel]), c.pos(pf.Pos()), map[bool]string{true: "proportional shares", false: "requests paid in full"}[rel >= 0], fmt.Sprintf("proportional path %s", liveStr(prop)))
	}
	// a total beyond 64 bits is never "below the bank", whatever its low 64 bits compare to
	{
		sc := &Scenario{Lens: map[string]AVal{"conversions.ConversionSupplySet.ConversionRequests": cInt(3)},
			Calls: map[string]AVal{"math/big.Int.IsUint64": cBool(false), "math/big.Int.Uint64": sym("total")},
			Paths: map[string]AVal{"conversions.ConversionSupplySet.Bank": sym("bank")},
			Order: func(x, y AVal) (int, bool) {
				if x.K == ASym && y.K == ASym && x.Sym == "total" && y.Sym == "bank" {
					return -1, true
				}
				return 0, false
			}, MaxDepth: 0}
		t := newSCCP(c, sc).analyse(pf, nil)
		r.Scen++
		prop := t.Live("PayoutBig")
		r.check(prop, "C16/payouts-table", "total requested beyond 2^64, low 64 bits < bank", c.pos(pf.Pos()), "proportional shares", fmt.Sprintf("proportional path %s: the total is compared through its truncated low 64 bits without IsUint64()", liveStr(prop)))
	}
	rulePayoutEntryPerRequest(c, r, "C16/payouts-table")
	pb := c.fn("conversions.PayoutBig")
	{
		muls := findCalls(pb, "math/big.Int.Mul")
		quos := findCalls(pb, "math/big.Int.Quo")
		okk := len(muls) == 1 && len(quos) == 1 && instrDominates(muls[0], quos[0])
		if okk {
			// by data flow: the product is of two distinct uint64 parameters, the divisor is the *big.Int parameter; at
			// the call in Payouts these are (a request of the set, the set's Bank, the set's total)
			q := quos[0].Common().Args
			m := muls[0].Common().Args
			usesParam := func(v ssa.Value) int {
				idx := -1
				backSlice(v, func(x ssa.Value) bool {
					if p, ok := x.(*ssa.Parameter); ok && p.Parent() == pb {
						idx = ownParam(p, pb)
					}
					return true
				})
				return idx
			}
			i1, i2, i3 := usesParam(m[1]), usesParam(m[2]), ownParam(q[2], pb)
			// the dividend is the product: the Mul call's result, or the object Mul stored the product in (its receiver)
			dividendIsProduct := sliceHas(q[1], func(v ssa.Value) bool { return v == muls[0].(ssa.Value) }) || unwrap(q[1]) == unwrap(m[0])
			i1b := usesParam(m[0])
			if i1 < 0 || i1 == i2 {
				i1 = i1b // x.Mul(x, y): the first factor is the receiver itself
			}
			okk = dividendIsProduct && i1 >= 0 && i2 >= 0 && i3 >= 0 && i1 != i2 && i1 != i3 && i2 != i3
			if okk {
				nsite := 0
				for _, ci := range c.findCallsFam(pf, "conversions.PayoutBig") {
					nsite++
					a := ci.Common().Args
					tpBank := typePath(a[i1]) == "conversions.ConversionSupplySet.Bank" || typePath(a[i2]) == "conversions.ConversionSupplySet.Bank"
					tot := typePath(a[i3])
					if !tpBank || !strings.HasPrefix(tot, "conversions.ConversionSupplySet.") || tot == "conversions.ConversionSupplySet.Bank" {
						okk = false
					}
				}
				okk = okk && nsite >= 1
			}
		}
		r.check(okk, "C16/payouts-table", "PayoutBig = Quo(Mul(requested, bank), totalRequested)", c.pos(pb.Pos()), "", "the proportional share is not floor(requested x bank / total) computed multiply-first")
	}
	// bank constant
	bc := c.pkg("conversions").Members["PerBlock"]
	okB := false
	if k, ok := bc.(*ssa.NamedConst); ok {
		okB = constant.Compare(k.Value.Value, token.EQL, constant.MakeUint64(bank5k))
	}
	r.check(okB, "C16/payouts-table", "conversions.PerBlock = 5,000 PEG", "-", "", "the legacy bank constant is not 5000e8")

	// cross-listed finding
	r.rule("C16/second-pass-peg-only", 1, "the PEG bank pass settles PEG requests only")
	secondPassPEGOnly(c, r, "C16/second-pass-peg-only")
}

// settleOnce: the request list handed to a settlement call inside loop l must not reach the next iteration.
func settleOnce(c *Ctx, r *Report, rule string, hold *ssa.Function, ci ssa.CallInstruction, l *natLoop) {
	list := ci.Common().Args[2]
	bad := ""
	for _, ins := range l.header.Instrs {
		ph, ok := ins.(*ssa.Phi)
		if !ok {
			continue
		}
		// is this the phi of the list variable? (the call argument derives from it)
		if !sliceHas(list, func(v ssa.Value) bool { return v == ssa.Value(ph) }) && list != ssa.Value(ph) {
			continue
		}
		callIns := ci.(ssa.Instruction)
		// reachInLoop: blocks reachable from the settlement call without leaving the loop or passing its header
		reach := map[*ssa.BasicBlock]bool{ci.Block(): true}
		stk := []*ssa.BasicBlock{ci.Block()}
		for len(stk) > 0 {
			x := stk[len(stk)-1]
			stk = stk[:len(stk)-1]
			for _, sx := range x.Succs {
				if sx == l.header || !l.blocks[sx] || reach[sx] {
					continue
				}
				reach[sx] = true
				stk = append(stk, sx)
			}
		}
		stale := func(v ssa.Value) bool {
			// the value is (derived from) the settled list and was defined before the call
			if !(v == list || v == ssa.Value(ph) || sliceHas(v, func(x ssa.Value) bool { return x == ssa.Value(ph) })) {
				return false
			}
			if vi, ok := v.(ssa.Instruction); ok {
				return vi.Block() != callIns.Block() && vi.Block().Dominates(callIns.Block()) || vi.Block() == callIns.Block() && instrIndex(vi) < instrIndex(callIns)
			}
			return true
		}
		var chk func(v ssa.Value, pred *ssa.BasicBlock, depth int)
		chk = func(v ssa.Value, pred *ssa.BasicBlock, depth int) {
			if depth > 8 || !l.blocks[pred] || !reach[pred] {
				return // this edge is not on a path that went through the settlement
			}
			if p2, ok := v.(*ssa.Phi); ok && p2 != ph && l.blocks[p2.Block()] && reach[p2.Block()] && !p2.Block().Dominates(callIns.Block()) {
				for j, e2 := range p2.Edges {
					chk(e2, p2.Block().Preds[j], depth+1)
				}
				return
			}
			if stale(v) {
				bad = "after recordPegnetRequests settled the collected PEG requests for one held height, the same list is carried into the next iteration: requests of an earlier height are paid (and refunded) again together with the next height's"
			}
		}
		for i, ed := range ph.Edges {
			chk(ed, l.header.Preds[i], 0)
		}
	}
	r.check(bad == "", rule, "per-height settlement resets the request list", c.ipos(ci), "the list variable is re-initialised on the path from the settlement to the loop latch", bad)
}

// ruleRejectedNotCollected: a held batch that applyTransactionBatch rejected (any reject sentinel) is not handed to
// the PEG settlement - nothing was debited for it, so a payout or refund would be created from nothing.
func ruleRejectedNotCollected(c *Ctx, r *Report, e *eraCtx, rule string) {
	r.rule(rule, 1, "a rejected batch is not collected for the PEG settlement")
	hold := c.fn("node.Pegnetd.ApplyTransactionBatchesInHolding")
	limitAct, v20 := e.a.get("PegnetConversionLimitActivation"), e.a.get("V20HeightActivation")
	acc := newTableAcc()
	var bad []string
	n := 0
	for _, sent := range []string{"InsufficientBalanceErr", "ZeroRatesError", "PFCTOneWayError"} {
		g := c.global("pegnet", sent)
		if g == nil {
			continue
		}
		for _, h := range e.reps {
			if h < limitAct || h >= v20 {
				continue
			}
			n++
			sc := &Scenario{Params: map[string]AVal{"type:uint32": hconst(h)},
				Calls: map[string]AVal{"HasPEGRequest": cBool(true), "isDone": cBool(false), "applyTransactionBatch": {K: ASentinel, G: g}, "IsReplayTransaction": {K: ATuple, Tup: []AVal{cBool(false), nilVal}},
					"SelectBankEntry": {K: ATuple, Tup: []AVal{top, nilVal}}, "SetTransactionHistoryExecuted": nilVal, "Validate": nilVal},
				MaxDepth: 1, NoInline: map[string]bool{"recordPegnetRequests": true, "GetPegNetRateAverages": true, "SelectMostRecentRatesBeforeHeight": true, "SelectTransactionBatchesInHoldingAtHeight": true}}
			t, _ := acc.run(c, r, hold, sc)
			for _, lc := range t.Calls {
				if lc.Callee == "builtin.append" && lc.Depth == 0 && len(bad) < 4 {
					bad = append(bad, fmt.Sprintf("h=%d, %s: the rejected batch is still appended to the list handed to recordPegnetRequests (%s)", h, sent, c.ipos(lc.Instr)))
				}
			}
		}
	}
	r.check(len(bad) == 0 && n > 0, rule, "ApplyTransactionBatchesInHolding, batch rejected by applyTransactionBatch", c.pos(hold.Pos()), fmt.Sprintf("%d (sentinel, height class) cells: not collected", n), strings.Join(bad, "; "))
}

// ruleRefundFormula: conversions.Refund has one outcome - the unfilled part of the request converted back into the
// input asset: every return is the result of a Convert call whose amount derives from (Convert(input) - yield); no
// path returns a constant.
func ruleRefundFormula(c *Ctx, r *Report, rule string) {
	r.rule(rule, 1, "Refund returns Convert(maxYield - yield) back into the input asset on every path")
	f := c.fn("conversions.Refund")
	var bad []string
	nret := 0
	allInstrs(f, func(ins ssa.Instruction) {
		ret, ok := ins.(*ssa.Return)
		if !ok || len(ret.Results) != 1 {
			return
		}
		nret++
		v := resolveSpill(ret.Results[0])
		okk := false
		if ex, ok := v.(*ssa.Extract); ok && ex.Index == 0 {
			cvf := c.fn("conversions.Convert")
			isConvert := func(cc *ssa.CallCommon) bool {
				if shortCallee(cc) == "Convert" {
					return true
				}
				sc := cc.StaticCallee() // the conversion proper, split off from Convert
				return sc != nil && isNewHelper(sc) && c.inFamily(sc, cvf)
			}
			if call, ok := ex.Tuple.(*ssa.Call); ok && isConvert(call.Common()) {
				// the amount converted back is a difference involving the yield parameter and an earlier Convert
				amt := call.Call.Args[1]
				hasSub := sliceHas(amt, func(x ssa.Value) bool { b, ok := x.(*ssa.BinOp); return ok && b.Op == token.SUB })
				hasFirst := sliceHas(amt, func(x ssa.Value) bool {
					c2, ok := x.(*ssa.Call)
					return ok && c2 != call && isConvert(c2.Common())
				})
				okk = hasSub && hasFirst
			}
		}
		if !okk {
			bad = append(bad, "the return at "+c.ipos(ret)+" is not the converted-back remainder (a constant or another value): the input of a request whose share of the bank is that value is destroyed or over-refunded")
		}
	})
	r.check(len(bad) == 0 && nret > 0, rule, "conversions.Refund", c.pos(f.Pos()), fmt.Sprintf("%d return(s)", nret), strings.Join(bad, "; "))
}

// rulePooledListAccumulates: from V4OPRUpdate the PEG requests of every height of the holding window are settled
// together after the loop; the list handed to that settlement therefore accumulates over the whole loop - in the CFG
// specialised to that era no (re)creation of an empty list inside the height loop can reach it.
func rulePooledListAccumulates(c *Ctx, r *Report, e *eraCtx, rule string) {
	r.rule(rule, 1, "the pooled settlement receives the requests of every height of the window")
	hold := c.fn("node.Pegnetd.ApplyTransactionBatchesInHolding")
	v4, v20 := e.a.get("V4OPRUpdate"), e.a.get("V20HeightActivation")
	var bad []string
	n := 0
	for _, h := range e.reps {
		if h < v4 || h >= v20 {
			continue
		}
		sc := &Scenario{Params: map[string]AVal{"type:uint32": hconst(h)},
			Calls: map[string]AVal{"HasPEGRequest": cBool(true), "isDone": cBool(false), "applyTransactionBatch": nilVal, "IsReplayTransaction": {K: ATuple, Tup: []AVal{cBool(false), nilVal}},
				"SelectBankEntry": {K: ATuple, Tup: []AVal{top, nilVal}}},
			MaxDepth: 1, AllErrorsNil: true, NoInline: map[string]bool{"recordPegnetRequests": true, "GetPegNetRateAverages": true}}
		s := newSCCP(c, sc)
		st := s.run(hold, nil, 0)
		r.Scen++
		if st == nil {
			continue
		}
		for _, ci := range c.findCallsFam(hold, "node.Pegnetd.recordPegnetRequests") {
			fs := findStateOf(st, ci.Parent(), 0)
			if fs == nil || !fs.execB[ci.Block()] {
				continue
			}
			// the settlement after the loop (in hold itself: not inside a loop; in a closure called after it: as lifted)
			site := c.liftSite(ci, hold)
			if site == nil || innermostLoop(hold, site.Block()) != nil {
				continue
			}
			n++
			backSlice(ci.Common().Args[2], func(v ssa.Value) bool {
				ins, ok := v.(ssa.Instruction)
				if !ok || ins.Parent() != hold || ins.Block() == nil {
					return true
				}
				empty := false
				switch x := v.(type) {
				case *ssa.MakeSlice:
					empty = true
				case *ssa.Slice:
					if a, ok := x.X.(*ssa.Alloc); ok {
						if arr, ok := a.Type().Underlying().(*types.Pointer); ok {
							if at, ok := arr.Elem().Underlying().(*types.Array); ok && at.Len() == 0 {
								empty = true
							}
						}
					}
				}
				if empty && innermostLoop(hold, ins.Block()) != nil && st.execB[ins.Block()] && len(bad) < 3 {
					bad = append(bad, fmt.Sprintf("h=%d: the list settled at %s can be the empty list created inside the height loop at %s", h, c.ipos(ci), c.ipos(ins)))
				}
				return true
			})
		}
	}
	r.check(len(bad) == 0 && n > 0, rule, "ApplyTransactionBatchesInHolding, V4OPRUpdate <= h < V20HeightActivation", c.pos(hold.Pos()), fmt.Sprintf("%d height classes: the list is created before the loop only", n), strings.Join(bad, "; ")+": requests collected at earlier heights of the window are dropped - their inputs were debited, they get neither PEG nor refund")
}

// rulePayoutEntryPerRequest: in the proportional branch of Payouts() every request gets an entry (possibly 0).
func rulePayoutEntryPerRequest(c *Ctx, r *Report, rule string) {
	pf := c.fn("conversions.ConversionSupplySet.Payouts")
	// every request of the set gets an entry (possibly 0): the settlement walks this map to pay AND to refund
	for _, ci := range c.findCallsFam(pf, "conversions.PayoutBig") {
		var upd *ssa.MapUpdate
		allInstrs(ci.Parent(), func(ins ssa.Instruction) {
			if mu, ok := ins.(*ssa.MapUpdate); ok && unwrapConv(mu.Value) == ci.(ssa.Value) {
				upd = mu
			}
		})
		if upd == nil {
			r.viol(rule, "proportional share stored per request", c.ipos(ci), "the result of PayoutBig is not stored in the payout map")
			continue
		}
		okk, why := everyIterationReaches(ci.Parent(), upd)
		r.check(okk, rule, "every request gets a payout entry", c.ipos(upd), "", why+": a request without an entry (e.g. a share that rounds to 0) is skipped by recordPegnetRequests, which also computes the refund - its debited input is never given back")
	}
}
