package main

import (
	"fmt"
	"go/constant"
	"go/token"
	"sort"
	"strings"

	"golang.org/x/tools/go/ssa"
)

func init() { props["C05"] = propC05 }

// fromValidatedConstructor: v is the *TransactionBatch result of fat2.NewTransactionBatch used on its nil-error path,
// or an element of the slice returned by the holding selector (whose elements are such results).
func batchOrigin(c *Ctx, use ssa.Instruction, v ssa.Value) (bool, string) {
	okk := false
	why := ""
	backSlice(v, func(x ssa.Value) bool {
		// a batch handed to a helper split off from an executor: judged at the helper's call sites
		if p, ok := x.(*ssa.Parameter); ok && isNewHelper(p.Parent()) && p.Parent().Parent() == nil {
			sites := c.familyCallSites(p.Parent())
			all := len(sites) > 0
			for i, q := range p.Parent().Params {
				if q != p {
					continue
				}
				for _, s := range sites {
					if o, w := batchOrigin(c, s, s.Common().Args[i]); !o {
						all = false
						why = w
					}
				}
			}
			if all {
				okk = true
			}
			return false
		}
		ex, ok := x.(*ssa.Extract)
		if !ok || ex.Index != 0 {
			return true
		}
		call, ok := ex.Tuple.(*ssa.Call)
		if !ok {
			return true
		}
		switch shortCallee(call.Common()) {
		case "NewTransactionBatch":
			var ev ssa.Value
			for _, rf := range *call.Referrers() {
				if e2, ok := rf.(*ssa.Extract); ok && e2.Index == 1 {
					ev = e2
				}
			}
			if ev == nil {
				why = "error of NewTransactionBatch is not bound"
				return false
			}
			for _, t := range nilTestsOf(c, ev) {
				if nilEdgeDom(t, use.Block()) {
					okk = true
				}
			}
			if !okk {
				why = "the batch is used on a path where NewTransactionBatch's error was not checked"
			}
			return false
		case "SelectTransactionBatchesInHoldingAtHeight":
			okk = true
			return false
		}
		return true
	})
	if !okk && why == "" {
		why = "the batch does not originate from fat2.NewTransactionBatch"
	}
	return okk, why
}

func propC05(c *Ctx, r *Report) {
	r.Explain = "Decides that every batch that can reach a debit has passed signature validation with the key-type mask of its height (the signature mathematics is in the factom/fat103 dependency and is trusted): (R1) the batch handed to record/hold/execute calls is the non-error result of fat2.NewTransactionBatch (directly, or via the holding selector whose elements are such results); (R2) NewTransactionBatch unmarshals and calls Validate(height), returning their errors; Validate calls ValidData and ValidExtIDs(height); ValidExtIDs calls fat103.Validate on the entry with the set of all input addresses and the flag; (R3) flag table: height < 0 all key types (CLI only), 0 <= height <= Fat2RCDEActivation type 1 only, above it types 1 and e; (R4) no call site on the sync path passes a constant or negative height; (R5) held batches are re-validated at the executing height before execution; (R6) ValidData rejects wrong version, empty batches and more than one input address. Dependency advisory: validated-bytes coverage of the RCD-e signature."
	r.NotDec = "signature verification itself, the +-12h salt window and 'exactly that content and chain' (inside fat103.Validate)"
	r.Trusted = []string{"factom fat103.Validate and the RCD validators", "go-ethereum secp256k1", "go/ssa"}
	e := newEraCtx(c, r)

	// R1
	r.rule("C05-R1/validated-origin", 3, "batches reaching the ledger come from the validating constructor")
	for _, spec := range []struct {
		fn, callee string
		arg        int
	}{
		{"node.Pegnetd.ApplyTransactionBlock", "node.Pegnetd.applyTransactionBatch", 2},
		{"node.Pegnetd.ApplyTransactionBlock", "pegnet.Pegnet.InsertTransactionBatchHolding", 2},
		{"node.Pegnetd.ApplyTransactionBlock", "pegnet.Pegnet.InsertTransactionHistoryTxBatch", 3},
		{"node.Pegnetd.ApplyTransactionBatchesInHolding", "node.Pegnetd.applyTransactionBatch", 2},
	} {
		f := c.fn(spec.fn)
		for _, ci := range c.findCallsFam(f, spec.callee) {
			okk, why := batchOrigin(c, ci, ci.Common().Args[spec.arg])
			r.check(okk, "C05-R1/validated-origin", fmt.Sprintf("%s -> %s", fname(f), shortCallee(ci.Common())), c.ipos(ci), "argument is a validated batch", why)
		}
	}
	// the selector only returns validated batches
	sel := c.fn("pegnet.Pegnet.SelectTransactionBatchesInHoldingAtHeight")
	{
		okk := false
		why := "no append of a validated batch found"
		allInstrs(sel, func(ins ssa.Instruction) {
			call, ok := ins.(*ssa.Call)
			if !ok {
				return
			}
			if b, ok := call.Call.Value.(*ssa.Builtin); !ok || b.Name() != "append" {
				return
			}
			for _, el := range varargElems(call.Call.Args[1]) {
				if o, w := batchOrigin(c, call, el); o {
					okk = true
				} else {
					why = w
				}
			}
		})
		r.check(okk, "C05-R1/validated-origin", "holding selector returns only batches built by NewTransactionBatch", c.pos(sel.Pos()), "", why)
	}

	// R2 validation chain
	r.rule("C05-R2/validation-chain", 5, "constructor -> Validate -> ValidData + ValidExtIDs -> fat103.Validate, errors returned")
	mustCallReturnErr := func(fn *ssa.Function, callee string, desc string) ssa.CallInstruction {
		cs := findCalls(fn, callee)
		if len(cs) == 0 {
			r.viol("C05-R2/validation-chain", desc, c.pos(fn.Pos()), fname(fn)+" does not call "+callee)
			return nil
		}
		ci := cs[0]
		ev, _ := errValueOf(ci)
		okk := ev != nil
		if okk {
			ef := &errflow{c: c, sync: c.Sync}
			site := &ErrSite{Fn: fn, Call: ci, Callee: callee, Ord: 1}
			ef.analyse(fn, ci, site)
			okk = site.Problem == ""
		}
		// every successful return of fn must be preceded by the call: the call dominates all returns whose error is nil
		dom := true
		idx := errResultIndex(fn.Signature)
		allInstrs(fn, func(ins ssa.Instruction) {
			if ret, ok := ins.(*ssa.Return); ok && idx >= 0 && isNilConst(resolveSpill(ret.Results[idx])) {
				if !instrDominates(ci, ret) {
					dom = false
				}
			}
		})
		r.check(okk && dom, "C05-R2/validation-chain", desc, c.ipos(ci), "called on every path to a nil-error return, error propagated", fmt.Sprintf("error handled=%v, dominates every successful return=%v", okk, dom))
		return ci
	}
	ntb := c.fn("fat2.NewTransactionBatch")
	mustCallReturnErr(ntb, "fat2.TransactionBatch.UnmarshalJSON", "NewTransactionBatch unmarshals the entry content")
	if ci := mustCallReturnErr(ntb, "fat2.TransactionBatch.Validate", "NewTransactionBatch validates"); ci != nil {
		r.check(ownParam(ci.Common().Args[1], ntb) >= 0, "C05-R2/validation-chain", "Validate is given the constructor's height", c.ipos(ci), "", "Validate is given "+valuePath(ci.Common().Args[1])+ci.Common().Args[1].String())
	}
	tv := c.fn("fat2.TransactionBatch.Validate")
	mustCallReturnErr(tv, "fat2.TransactionBatch.ValidData", "Validate checks the data")
	if ci := mustCallReturnErr(tv, "fat2.TransactionBatch.ValidExtIDs", "Validate checks the signatures"); ci != nil {
		r.check(ownParam(ci.Common().Args[1], tv) >= 0, "C05-R2/validation-chain", "ValidExtIDs is given Validate's height", c.ipos(ci), "", "ValidExtIDs is given "+valuePath(ci.Common().Args[1]))
	}
	vx := c.fn("fat2.TransactionBatch.ValidExtIDs")
	if ci := mustCallReturnErr(vx, factomPath+"/fat103.Validate", "ValidExtIDs verifies RCD/signature pairs"); ci != nil {
		a := ci.Common().Args
		okEntry := strings.HasSuffix(typePath(a[0]), "TransactionBatch.Entry") || strings.HasSuffix(valuePath(a[0]), ".Entry")
		// the expected-signers set is filled from every transaction's input address
		filled := false
		for _, g := range c.family(vx) { // ValidExtIDs and helpers split off from it
			allInstrs(g, func(ins ssa.Instruction) {
				if mu, ok := ins.(*ssa.MapUpdate); ok && sliceHas(a[1], func(v ssa.Value) bool { return v == mu.Map }) {
					if strings.HasSuffix(typePath(unwrapConv(mu.Key)), "TypedAddressAmountTuple.Address") && innermostLoop(g, mu.Block()) != nil && everyIterationPasses(innermostLoop(g, mu.Block()), mu.Block()) {
						filled = true
					}
				}
			})
		}
		r.check(okEntry && filled, "C05-R2/validation-chain", "fat103.Validate(entry, every input address, flag)", c.ipos(ci), "", fmt.Sprintf("entry argument ok=%v, signer set built from every tx.Input.Address=%v", okEntry, filled))
	}

	// R3 flag table
	r.rule("C05-R3/key-type-table", 5, "accepted RCD key types by height")
	fp := c.Prog.ImportedPackage(factomPath)
	cval := func(n string) int64 {
		if fp == nil {
			die(2, "unresolved anchor: package factom")
		}
		k, ok := fp.Members[n].(*ssa.NamedConst)
		if !ok {
			die(2, "unresolved anchor: factom.%s", n)
		}
		return k.Value.Int64()
	}
	rcd1, rcde, rall := cval("R_RCD1"), cval("R_RCDe"), cval("R_ALL")
	act := int64(e.a.get("Fat2RCDEActivation"))
	for _, h := range []int64{-1, 0, 1, act - 1, act, act + 1, act + 2, int64(e.a.get("V20HeightActivation"))} {
		sc := &Scenario{Params: map[string]AVal{"type:int32": cInt(h)}, MaxDepth: 0}
		t := newSCCP(c, sc).analyse(vx, nil)
		r.Scen++
		want := rcd1
		switch {
		case h < 0:
			want = rcd1 | rall
		case h > act:
			want = rcd1 | rcde
		}
		got := "not called"
		for _, lc := range t.CallsTo("Validate") {
			if len(lc.Args) == 3 {
				got = lc.Args[2].String()
			}
		}
		r.check(got == fmt.Sprintf("%d", want), "C05-R3/key-type-table", fmt.Sprintf("ValidExtIDs height=%d", h), c.pos(vx.Pos()), fmt.Sprintf("flag %d", want), fmt.Sprintf("flag passed to fat103.Validate is %s, expected %d (R_RCD1=%d R_RCDe=%d R_ALL=%d)", got, want, rcd1, rcde, rall))
	}

	// R4 heights at call sites
	r.rule("C05-R4/height-arguments", 3, "validation on the sync path uses the block's height")
	for _, f := range sortedFuncs(c.RSync) {
		ordn := newOrdinals()
		for _, ci := range callsOf(f) {
			n := calleeName(ci.Common())
			var harg ssa.Value
			switch n {
			case "fat2.NewTransactionBatch":
				harg = ci.Common().Args[1]
			case "fat2.TransactionBatch.Validate", "fat2.TransactionBatch.ValidatePegTx":
				if f.Pkg != nil && f.Pkg.Pkg.Name() == "fat2" {
					continue
				}
				harg = ci.Common().Args[1]
			default:
				continue
			}
			cons := fmt.Sprintf("%s -> %s %s", fname(f), shortCallee(ci.Common()), ord(ordn.next(n)))
			// by origin, not by name: the executing height, the height field of the fetched block, or a height of the
			// holding window (last rated height .. executing height) for batches read back from holding
			okk := true
			var descs []string
			leaves := c.originLeaves(harg, c.RSync)
			for _, l := range leaves {
				switch {
				case c.isExecHeight(l):
					descs = append(descs, "executing height")
				case typePath(l) == "factom.EBlock.Height" || typePath(l) == "factom.DBlock.Height":
					descs = append(descs, typePath(l))
				default:
					okL := false
					if ex, ok := l.(*ssa.Extract); ok {
						if call, ok := ex.Tuple.(*ssa.Call); ok && shortCallee(call.Common()) == "SelectMostRecentRatesBeforeHeight" {
							okL = true
							descs = append(descs, "last rated height")
						}
					}
					if bo, ok := l.(*ssa.BinOp); ok && bo.Op == token.ADD {
						if _, isPhi := bo.X.(*ssa.Phi); isPhi {
							if k, ok := bo.Y.(*ssa.Const); ok && k.Value != nil && k.Int64() == 1 {
								okL = true
								descs = append(descs, "holding-window height")
							}
						}
					}
					if !okL {
						okk = false
						descs = append(descs, stablePath(l, 0))
					}
				}
			}
			sort.Strings(descs)
			desc := strings.Join(dedupStrings(descs), ", ")
			r.check(okk && len(leaves) > 0, "C05-R4/height-arguments", cons, c.ipos(ci), "height = "+desc, "the height argument can be ["+desc+"]: a constant or foreign height selects the wrong key-type mask (a negative one accepts every key type)")
		}
	}

	ruleRevalidation(c, r, "C05-R5/revalidation")

	ruleValidDataTable(c, r, "C05-R6/valid-data")
	ruleActivationsNotRewritten(c, r, "C05-R9/activations-not-rewritten")

	// one signature, one execution: shared with C06 (replay guard dominance, same table on the block's tx)
	ruleReplayGuard(c, r, "C05-R7/one-signature-one-execution")
	ruleReplaySameTx(c, r, buildSQLCat(c), "C05-R7/one-signature-one-execution")

	// R8: what is validated is what the chain delivered
	r.rule("C05-R8/entry-untouched", 1, "block processing does not rewrite a delivered entry before (or after) validating it")
	{
		n := 0
		for _, f := range sortedFuncs(c.RSync) {
			if f.Pkg == nil || f.Pkg.Pkg.Path() == factomPath {
				continue
			}
			allInstrs(f, func(ins ssa.Instruction) {
				st, ok := ins.(*ssa.Store)
				if !ok {
					return
				}
				fa, ok := st.Addr.(*ssa.FieldAddr)
				if !ok {
					return
				}
				tp := typePath(fa)
				if !strings.HasPrefix(tp, "factom.Entry.") {
					return
				}
				n++
				root := fa.X
				for {
					if f2, ok := root.(*ssa.FieldAddr); ok {
						root = f2.X
						continue
					}
					break
				}
				fresh := false
				if a, ok := root.(*ssa.Alloc); ok {
					fresh = true
					for _, rf := range *a.Referrers() {
						if s2, ok := rf.(*ssa.Store); ok && s2.Addr == a {
							if _, isConst := s2.Val.(*ssa.Const); !isConst {
								fresh = false // a copy of an existing entry
							}
						}
					}
				}
				r.check(fresh, "C05-R8/entry-untouched", fname(f)+" stores "+tp, c.ipos(st), "the entry is a new local object being rebuilt from stored bytes", "a field of an entry delivered by the chain (or a copy of one) is overwritten on the sync path: signature, salt window and identity are then checked against data the author did not publish")
			})
		}
		r.Extra["entry_field_stores_on_sync_path"] = n
		if n == 0 {
			r.okNT("C05-R8/entry-untouched", "no store to a factom.Entry field on the sync path", "-", "")
		}
	}

	// dependency advisory → known finding: bytes of the RCD-e signature that are length-checked but never read
	r.rule("C05/validated-bytes", 1, "every length-checked signature byte is covered by the verification")
	validatedBytes(c, r, "C05/validated-bytes")
}

// validatedBytes: for RCD validators of the factom dependency with an equality length check on the signature,
// the index ranges read must cover the checked length.
func validatedBytes(c *Ctx, r *Report, rule string) {
	n := 0
	for f := range c.allFunctions() {
		if f.Pkg == nil || f.Pkg.Pkg.Path() != factomPath || !strings.HasPrefix(f.Name(), "ValidateRCD") || f.Blocks == nil {
			continue
		}
		var sig *ssa.Parameter
		for _, p := range f.Params {
			if p.Name() == "sig" {
				sig = p
			}
		}
		if sig == nil {
			continue
		}
		n++
		var want int64 = -1
		allInstrs(f, func(ins ssa.Instruction) {
			bo, ok := ins.(*ssa.BinOp)
			if !ok || (bo.Op != token.NEQ && bo.Op != token.EQL) {
				return
			}
			lc, ok := bo.X.(*ssa.Call)
			if !ok {
				return
			}
			if b, ok := lc.Call.Value.(*ssa.Builtin); ok && b.Name() == "len" && lc.Call.Args[0] == ssa.Value(sig) {
				if k, ok := bo.Y.(*ssa.Const); ok && k.Value != nil && k.Value.Kind() == constant.Int {
					want = k.Int64()
				}
			}
		})
		if want < 0 {
			r.ok(rule, "factom."+f.Name(), c.pos(f.Pos()), "no equality length check on the signature")
			continue
		}
		var max int64
		whole := false
		if sig.Referrers() != nil {
			for _, rf := range *sig.Referrers() {
				switch x := rf.(type) {
				case *ssa.Slice:
					if x.High == nil {
						whole = true
					} else if k, ok := x.High.(*ssa.Const); ok && k.Int64() > max {
						max = k.Int64()
					}
				case *ssa.IndexAddr:
					if k, ok := x.Index.(*ssa.Const); ok && k.Int64()+1 > max {
						max = k.Int64() + 1
					}
				case *ssa.Call:
					if b, ok := x.Call.Value.(*ssa.Builtin); ok && b.Name() == "len" {
						continue
					}
					whole = true // passed on as a whole
				}
			}
		}
		if whole || max >= want {
			r.okNT(rule, "factom."+f.Name(), c.pos(f.Pos()), fmt.Sprintf("signature length %d, bytes read up to %d", want, max))
		} else {
			r.viol(rule, "factom."+f.Name(), c.pos(f.Pos()), fmt.Sprintf("the signature must be exactly %d bytes but only sig[:%d] is verified: bytes %d..%d can be changed freely. The entry hash - the replay key - covers them, so anyone can re-submit a valid signed entry with another trailing byte and it is executed again (one signature, several debits)", want, max, max, want-1))
		}
	}
	if n == 0 {
		r.undecided(rule, "factom RCD validators", "-", "no ValidateRCD* function with a sig parameter found in the dependency")
	}
}

// ruleValidDataTable: ValidData accepts exactly version 1, at least one transaction, one input address (shared with C20).
func ruleValidDataTable(c *Ctx, r *Report, rule string) {
	// R6 ValidData table
	r.rule(rule, 4, "version, non-empty, single input address")
	vd := c.fn("fat2.TransactionBatch.ValidData")
	acc := newTableAcc()
	for _, cs := range []struct {
		name    string
		version uint64
		ntx     int64
		nuniq   int64
		ok      bool
	}{
		{"version 1, one input address", 1, 2, 1, true},
		{"version 2", 2, 2, 1, false},
		{"version 0", 0, 2, 1, false},
		{"no transactions", 1, 0, 1, false},
		{"two input addresses", 1, 2, 2, false},
		{"zero input addresses", 1, 2, 0, false},
	} {
		// len(uniqueInputs): the map is a local make; bind the builtin len of a map-typed local by a dedicated key
		sc := &Scenario{Paths: map[string]AVal{"fat2.TransactionBatch.Version": cUint(cs.version)},
			Lens:  map[string]AVal{"fat2.TransactionBatch.Transactions": cInt(cs.ntx), "<local map>": cInt(cs.nuniq)},
			Calls: map[string]AVal{"fat2.Transaction.Validate": nilVal}, MaxDepth: 0}
		s := newSCCP(c, sc)
		st := s.run(vd, nil, 0)
		acc.absorb(s)
		r.Scen++
		errs := errorReturns(st)
		hasNil := false
		for _, x := range errs {
			if x == "nil" {
				hasNil = true
			}
		}
		r.check(hasNil == cs.ok, rule, cs.name, c.pos(vd.Pos()), map[bool]string{true: "accepted", false: "rejected"}[cs.ok], fmt.Sprintf("results %v, expected %s", errs, map[bool]string{true: "accepted", false: "rejected"}[cs.ok]))
	}
	acc.report(c, r, rule, vd)
}

// ruleRevalidation: in the holding executor a batch is executed only behind the nil edge of Validate(executing height)
// on the same batch.
func ruleRevalidation(c *Ctx, r *Report, rule string) {
	r.rule(rule, 1, "held batches are validated again at the executing height")
	hold := c.fn("node.Pegnetd.ApplyTransactionBatchesInHolding")
	spec := &guardSpec{
		callee: "fat2.TransactionBatch.Validate",
		good: func(c *Ctx, g *ssa.Call) []*ssa.BasicBlock {
			var out []*ssa.BasicBlock
			if ev, _ := errValueOf(g); ev != nil {
				for _, t := range nilTestsOf(c, ev) {
					if t.N != t.S {
						out = append(out, t.N)
					}
				}
			}
			return out
		},
		accept: func(c *Ctx, g *ssa.Call, subject ssa.Value) bool {
			if subject == nil || !c.isExecHeight(g.Call.Args[1]) {
				return false
			}
			v := g.Call.Args[0]
			return v == subject || sameExpr(v, subject) || sliceHas(subject, func(x ssa.Value) bool { return x == v })
		},
	}
	n := 0
	for _, ex := range c.findCallsFam(hold, "node.Pegnetd.applyTransactionBatch") {
		n++
		okk := c.guardedByOutcome(ex, ex.Common().Args[2], spec, 0)
		r.check(okk, rule, "applyTransactionBatch in the holding executor", c.ipos(ex), "dominated by the nil edge of txBatch.Validate(int32(currentHeight))", "a held batch is executed without being validated again at the executing height (its timestamp salt may have left the validity window, or the accepted key types changed)")
	}
	if n == 0 {
		r.viol(rule, "applyTransactionBatch call in the holding executor", c.pos(hold.Pos()), "not found")
	}
}
