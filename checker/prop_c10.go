package main

func init() { props["C10"] = propC10 }

func propC10(c *Ctx, r *Report) {
	r.Explain = "E1 errflow: every call site in the functions reachable from the sync root whose callee can fail because of a storage or upstream fault (database/sql, factom client, or a module function reaching them) must handle the returned error by one of the idioms I1-I8 (propagate, direct return, retry-without-commit in the sync loop, tolerated sentinel, abort, rows.Err after iteration, deferred Close, hand-over); anything else (unbound, never tested, log-only, nil/other variable returned, converted to a plain result) is reported. Judged on the error region (blocks dominated by the non-nil branch)."
	r.NotDec = "that a retry after the fault clears reproduces the same ledger (follows from C02+C09+C01 where those hold); faults inside dependencies"
	r.Trusted = []string{"x/tools go/ssa construction", "database/sql and factom client return a non-nil error on every fault"}
	r.rule("E1/errflow", 100, "every effectful error-returning call site handles its error (idioms I1-I8)")
	r.rule("E1/errflow/rows-iteration", 3, "rows.Next() iteration must be followed by a handled rows.Err()")
	eff := computeEffects(c)
	runErrflow(c, eff, r, c.RSync, "E1/errflow", true)
	// state that survives a rollback
	r.rule("C10/state-across-rollback", 1, "block processing reads no in-memory state that a rolled-back attempt could have changed")
	r.rule("C10/height-restored", 1, "a failed block leaves the in-memory height where it was")
	heightWriters(c, newSharedAnalysis(c), r, "C10/height-restored")
	ruleRetrySameHeight(c, r, "C10/retry-same-height")
	ruleErrPtrOverwrite(c, r, "C10/error-not-overwritten", c.RSync)
	ruleNoCarriedReads(c, newSharedAnalysis(c), r, "C10/state-across-rollback", c.RSync, carriedAllowedAverages, "block processing")
	// recovered panics: a panic raised by a fault and recovered on the sync path lets the same process retry
	// with whatever in-memory state deferred functions left behind
	r.rule("C10/recover-sites", 1, "recover() on the sync path is limited to audited sites")
	auditedRecover := map[string]string{
		"node.multiFetch$1$1": "worker goroutine of multiFetch: guards a send on a channel the collector may already have closed; no state survives it",
	}
	n := 0
	for _, f := range sortedFuncs(c.RSync) {
		for _, ci := range callsOf(f) {
			if calleeName(ci.Common()) != "builtin.recover" {
				continue
			}
			n++
			if why, ok := auditedRecover[fname(f)]; ok {
				r.audited("C10/recover-sites", fname(f)+" recover()", c.ipos(ci), why)
			} else {
				r.viol("C10/recover-sites", fname(f)+" recover()", c.ipos(ci), "a panic is recovered on the sync path: a fault that used to end the process (so that a fresh process recomputes everything from the database) now lets the same process retry with in-memory state modified while the panic unwound (deferred cache updates)")
			}
		}
	}
	if n == 0 {
		r.ok("C10/recover-sites", "no recover() on the sync path", "-", "")
	}
}
