package main

func init() { props["C10"] = propC10 }

func propC10(c *Ctx, r *Report) {
	r.Explain = "E1 errflow: every call site in the functions reachable from the sync root whose callee can fail because of a storage or upstream fault (database/sql, factom client, or a module function reaching them) must handle the returned error by one of the idioms I1-I8 (propagate, direct return, retry-without-commit in the sync loop, tolerated sentinel, abort, rows.Err after iteration, deferred Close, hand-over); anything else (unbound, never tested, log-only, nil/other variable returned, converted to a plain result) is reported. Judged on the error region (blocks dominated by the non-nil branch)."
	r.NotDec = "that a retry after the fault clears reproduces the same ledger (follows from C02+C09+C01 where those hold); faults inside dependencies"
	r.Trusted = []string{"x/tools go/ssa construction", "database/sql and factom client return a non-nil error on every fault"}
	r.rule("E1/errflow", 100, "every effectful error-returning call site handles its error (idioms I1-I8)")
	r.rule("E1/errflow/rows-iteration", 4, "rows.Next() iteration must be followed by a handled rows.Err()")
	eff := computeEffects(c)
	runErrflow(c, eff, r, c.RSync, "E1/errflow", true)
}
