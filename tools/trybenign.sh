#!/bin/bash
# usage: trybenign.sh <benign-or-seed-name> <prop>...   (maintainer tool; scratch worktree under /tmp/tb, removed afterwards unless KEEP=1)
export GOFLAGS=-mod=mod GOPROXY=off GOSUMDB=off GOTOOLCHAIN=local GOMAXPROCS=4; unset GOWORK
n=$1; shift
BIN=${BIN:-/verif/bin/pegcheck}
d=/verif/benign/$n; [ -d $d ] || d=/verif/seeded/$n
p=$d/patch.diff; [ -f $d/patch.rebased.diff ] && p=$d/patch.rebased.diff
wt=/tmp/tb/$n
if [ ! -d $wt ]; then mkdir -p /tmp/tb; git -C /repo worktree add -q --detach $wt HEAD && git -C $wt apply $p || { echo APPLY-FAILED; exit 3; }; fi
mkdir -p /tmp/tb/v-$n; cp /verif/known_findings.json /tmp/tb/v-$n/
for prop in "$@"; do
  $BIN -repo $wt -verif /tmp/tb/v-$n -property $prop -tier quick | grep -v KNOWN | grep "violation:\|undecided:\|ERROR\|SUMMARY" | cut -c1-${W:-330}
done
if [ -z "$KEEP" ]; then git -C /repo worktree remove --force $wt; rm -rf /tmp/tb/v-$n; fi
