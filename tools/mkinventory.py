#!/usr/bin/env python3
"""Prints a markdown inventory of rules per property from evidence/*.json and the seed matrix."""
import json, glob, os
V=os.path.dirname(os.path.dirname(os.path.abspath(__file__)))
print("| property | rule | instances | floor | what it decides |\n|---|---|---|---|---|")
for f in sorted(glob.glob(V+"/evidence/C*.json")):
    e=json.load(open(f)); c=e["coverage"]
    for rs in c["rule_instances"]:
        print("| %s | `%s` | %d | %d | %s |"%(e["property_id"], rs["rule"], rs["instances"], rs["floor"], (rs.get("doc") or "").replace("|","/")))
print()
mx=json.load(open(V+"/seeded/MATRIX.json"))
print("| seeded change | summary | needs | rules that fire (own property first) |\n|---|---|---|---|")
for s in sorted(mx):
    m=json.load(open("%s/seeded/%s/meta.json"%(V,s)))
    own=s.split("-")[0]
    fired=mx[s]["fired"]
    parts=[]
    for p in sorted(fired, key=lambda p:(p!=own,p)):
        parts.append("%s: %s"%(p, ", ".join(r for r in fired[p])))
    print("| %s | %s | %s | %s |"%(s, m.get("summary","").replace("|","/")[:160], (m.get("needs") or "").replace("|","/")[:140], "; ".join(parts) or "NONE"))
