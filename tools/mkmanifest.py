#!/usr/bin/env python3
"""Regenerates /verif/MANIFEST.json from the table below (kept in one place so the
claims, techniques and not_applicable list stay consistent)."""
import json, os
HERE = os.path.dirname(os.path.dirname(os.path.abspath(__file__)))

CLAIMED = {
 "C10": dict(
   technique="static error-flow analysis over go/ssa: every storage/upstream-fallible call site reachable from the sync root is classified against the enumerated handling idioms on its dominated error region",
   text="Decides, for every call site reachable from DBlockSync whose callee can fail because of a database or factomd fault (212 sites today), that the returned error is propagated, retried without commit, tolerated as a named sentinel, or aborts; swallowed errors (unbound, never tested, log-only, nil/other variable returned, converted to a plain result, rows.Err missing) are reported by call site. This is the 'no block is committed with part of its effects missing because an error was ignored' clause for all fault positions at once, which no fault-injection sample reaches. It does not decide that the retried run reproduces the fault-free ledger.",
   note="Trusted: x/tools go/ssa; database/sql and the factom client report every fault as a non-nil error. Errors of pure callees (parsers, graders, Convert) are verdicts on chain content, not faults, and are outside the obligation set. Path-insensitive: an error tested on one path is taken as tested.",
   ref="DESIGN.md §2.5, §4 C10"),
 "C01": dict(
   technique="order-taint analysis over go/ssa: loop-carried-variable classification of every range-over-map loop, forward taint of slices built in map order up to a total-order sanitiser, forward slice of wall-clock values to database sinks, goroutine write-footprint check",
   text="Decides that no hash-map iteration order, partial-key sort of a map-derived slice, wall-clock value, randomness or goroutine scheduling can reach a ledger table from block processing: all map-range loops reachable from DBlockSync (11 today) are classified order-insensitive or produce an order-tainted slice that must be totally sorted on the elements' unique key (or measured / accessed as a guarded singleton) before any element use; all clock reads flow to logs or to pn_sync_version.unix_timestamp only; the one goroutine pool writes index-disjoint slots. Quantifies over every map seed and schedule at once. Does not decide SQLite row order, grader determinism or float behaviour across architectures.",
   note="Trusted: go/ssa; sanitiser table (transactionid.SortTxIDS, sort.Strings, sort.Slice with a comparator reading the unique-key field); commutative sink table (AddToBalance, keyed UPDATE/INSERT; row ids are outside the property).",
   ref="DESIGN.md §2.7 E2, §4 C01"),
 "C02": dict(
   technique="typestate of the block *sql.Tx over the SSA CFG of the sync root (dominance, reachability-avoiding) + receiver-class analysis of every SQL write statement reachable from block processing + escape check of *sql.Tx + schema rules from the embedded SQL",
   text="Decides that the program hands SQLite exactly one transaction per block containing all and only that block's writes plus the height record: every write reachable from SyncBlock/NullifyBurnAddress/InsertSynced runs on the caller's *sql.Tx (45+ statements, QueryAble arguments resolved per call site); in DBlockSync the order block -> InsertSynced -> Commit holds by dominance, Commit is confined to nil-error branches, every error branch rolls back, no path leaks the open transaction, the in-memory height can never get ahead of a failed block, the height applied is synced+1; Commit/Rollback exist nowhere else and the *sql.Tx never escapes; pn_sync_version is keyed by height and written by plain INSERT; start-up resumes from the persisted height. Every crash point inside a block is covered at once because all of them fall inside that one transaction. What SQLite does at a kill is trusted, not decided.",
   note="Trusted: SQLite atomic commit/rollback, database/sql transaction semantics, go/ssa. Reads through the connection pool inside a block are listed in the evidence (they see committed state) and do not affect atomicity.",
   ref="DESIGN.md §2.7 E3/E4, §4 C02"),
 "C03": dict(
   technique="SSA dominance of the debit statement by the balance comparison + schema rule over the SQL catalogue (CHECK per ticker column) + abstract decision table of the funds checks under the orderings amount ? balance + CFG rule 'no write before a rejection' + error-value flow of the mid-batch failure + guard rule for every unsigned subtraction",
   text="Decides the guards without which an overdraft or a half-applied batch is possible: the debit UPDATE in SubFromBalance is confined to balance >= value on the pending balance of the same address and ticker; all 62 ticker columns of pn_addresses and both snapshot tables (and the migrations) carry CHECK(col >= 0); both passes of applyTransactionBatch reject iff amount > balance (equal passes) for every ordering; no database write can precede any rejection return in applyTransactionBatch; a debit failure inside recordBatch is turned into a fresh unwrapped error and IsRejectedTx classifies by identity, so the block fails instead of committing a half-applied batch; every unsigned subtraction on the consensus path (20 sites) is dominated by the comparison that makes it safe or carries an audited reason; Transaction.Validate bounds each transfer by the remaining input without wrap-around and requires a zero remainder. Does not decide that the in-memory simulation matches the database for every in-batch interleaving.",
   note="Trusted: SQLite CHECK constraints, go/ssa. Three subtractions are discharged by audited reasons listed in the checker (dust = Bank - totalPaid; height - j; AveragePeriod - numberMissing()).",
   ref="DESIGN.md §4 C03"),
 "C04": dict(
   technique="who-may-write over the SQL catalogue + call-graph reachability avoiding the enumerated event roots + SSA provenance of debit/credit arguments (same transaction, same transfer element, same Convert result) + phi/era analysis of the burn exemption + shared C03 rules",
   text="Decides the structure of supply conservation: only the AddToBalance upsert (balance = balance + excluded) and the guarded SubFromBalance UPDATE write pn_addresses; every mutator call site (14) lies below one of the ten enumerated protocol-event functions on the sync path and is unreachable from API handlers and CLI; in recordBatch one debit of tx.Input per transaction, per transfer one credit of the same ticker with that transfer's own address and amount, conversion credit = the Convert result recorded in history, credited once to the sender in tx.Conversion, the two credit kinds being alternative branches; input = sum of transfers without wrap (shared with C03) and a mid-batch failure fails the block. Reports two known genuine legacy-era defects: the burn exemption compares with the zero address before 2.0.2, and the PEG-bank second pass has no PEG-request filter. Does not decide per-block numeric supply deltas.",
   note="Trusted: go/ssa, module call graph, SQL catalogue.",
   ref="DESIGN.md §4 C04"),
 "C07": dict(
   technique="abstract decision tables (SCCP with a symbolic order oracle over spot/average orderings; HasConversions scenarios) + SSA provenance/dominance (reaching definitions of the rates argument, holding window induction variable, Mul-before-Div dataflow, same-transaction roots of Convert inputs) + SQL catalogue table-reference rule",
   text="Decides timing and rate selection structurally: a batch with conversions is only ever placed in holding on arrival and a batch without is applied with nil rates; the rates given to the holding executor are SelectPendingRates of the executing block's own height (other reaching definitions enumerated), rate queries read pn_rate only; held batches are scanned for [last rated height, current) stepped by one with the averages of that last rated height. Decides the formula's shape: for all 27 (era x ordering) cells the source rate is fromRate before PIP-10 and min(fromRate, fromAvg) from it, the destination toRate resp. max(toRate, toAvg); result = Div(Mul(amount, source), destination) on big.Int with an IsInt64 guard; every Convert call site gets the executing height and takes amount and rate keys from one and the same transaction. Does not decide floor(a*r/s) over the numeric range (math/big trusted) nor exactly-once over arbitrary block patterns (C06).",
   note="Trusted: math/big, mainnet activation constants, go/ssa.",
   ref="DESIGN.md §2.6, §4 C07"),
 "C09": dict(
   technique="carried-state footprint: field-based shared-location analysis over go/ssa of every in-memory location written and read by functions reachable from the sync root, context = sync goroutine",
   text="Decides a sufficient structural condition and reports its exceptions: the only in-memory state that block n may leave for block n+1 is the sync height (persisted and restored). The footprint today is that height plus the three rolling-average cache fields, which are recorded as a known genuine defect (count-trimmed incrementally, window-rebuilt after restart); any new carried location or new writer of one is a violation. Does not decide equality of ledgers across restart placements.",
   note="Trusted: go/ssa, module call graph, field-based location abstraction. A future cache that is semantically transparent would be reported and would need an audited entry after review (stated in DESIGN.md §4 C09).",
   ref="DESIGN.md §2.7 E5, §4 C09"),
 "C11": dict(
   technique="abstract decision tables (SCCP over go/ssa per height class and per transaction-shape cell) + SSA provenance (backward slices: same Winners() element for amount, address and history row) + index-coverage comparison between the admission gate and the dependency's validators + per-loop-variable aliasing lint",
   text="Decides: the grader version and height handed to both graders for every height class; FCT burns applied only before 2.0, SPR winners paid only from 2.0; in both winner-payout functions exactly one PEG credit per element of Winners(), amount = Payout() and address = GetAddress() of the same element that is written to history; a factoid transaction is registered as a burn in exactly one of the 72 cells of its shape table (1 EC output to the burn address with amount 0, 1 FCT input, no FCT output) and the pFCT credit is that input's amount and address; previous winners are read for the block height and handed to the grader; no pointer to a per-loop variable is retained. Reports as a known genuine defect that the external id gating staking records (ExtIDs[1]) is never bound to the key the grader verifies (ExtIDs[2]). Does not decide the graders' verdicts or reward amounts (dependency).",
   note="Trusted: the pegnet grader modules, mainnet activation constants, go/ssa. Decision tables bind values by type-qualified field paths (e.g. factom.FactoidTransaction.ECOutputs); a binding that matches nothing makes the check fail as undecided rather than pass vacuously.",
   ref="DESIGN.md §2.6, §4 C11, Appendix B"),
 "C12": dict(
   technique="abstract decision tables (SCCP per height class; winner-presence scenarios; tolerance-band position table with a symbolic order oracle over derived symbols spr*k) + who-may-write over the SQL catalogue + schema rule + name-provenance check in InsertRates",
   text="Decides for every height class the PEG pricing phase and height passed to InsertRates and which rate-combination function runs; that with no graded block or no winners neither rates are inserted nor held conversions executed at any height, and with winners rates are inserted before conversions execute; for both band functions and every era the band constants (1%/0.1%, 10%, 25%), inclusive edges and the outcome in each of the five positions of the OPR rate relative to the band (in-band value from the OPR winner; outside: error before 2.0.2, SPR entry with rate 0 from it), and the pass-through when one side is absent; that pn_rate is UNIQUE(height, token) and written by exactly one plain INSERT reachable only through InsertRates from SyncBlock (no UPDATE/DELETE/REPLACE anywhere); the PEG phase table of InsertRates and that the recorded token name and the issuance-lookup name agree. Does not decide numeric equality of inserted values with the winners' values for all inputs.",
   note="Trusted: mainnet activation constants, SQLite UNIQUE, go/ssa; symbol order oracle assumes numeric conversions preserve order.",
   ref="DESIGN.md §2.6, §4 C12, Appendix B"),
 "C13": dict(
   technique="abstract decision table: SCCP over go/ssa of the admission loop of applyTransactionBatch for height class x destination ticker (62) x zero-rate pattern, reading the verdict off the executable exits of the loop body; same for ValidatePegTx gating, conversions.Convert zero patterns and IsRejectedTx codes",
   text="Decides the complete admission matrix: for every height class, every destination asset and every zero/non-zero pattern of the two rates, which exits of the checking loop are executable - ZeroRatesError iff a rate is zero, PFCTOneWayError iff height >= 220346 and destination pFCT, PSMALLOneWayError iff height >= 274036 and destination in the 15 small-cap assets or PEG, else proceed; conversions into PEG are rejected with status -2 and skipped from 2.0 on (ValidatePegTx consulted iff height >= activation, with the executing height); Convert rejects zero rates always and zero averages from PIP-10; every reject sentinel maps to a distinct negative code. 10k abstract scenarios enumerate the space the property quantifies over. 'Leaves balances untouched' is the write-before-reject rule claimed under C03. Does not decide that every admitted conversion then executes with the right amount (C07).",
   note="Trusted: mainnet activation constants; the expected one-way set was transcribed by hand from the doc comment of config.OneWaySmallAssetsConversions (not parsed at check time); go/ssa.",
   ref="DESIGN.md §2.6, §4 C13, Appendix B"),
 "C14": dict(
   technique="abstract decision tables (SCCP per height class, no-fault scenario with callee inlining, valuation-loop table with the induction variable bound) + execution-order query on the specialised CFG + SSA dominance/provenance in SnapshotPayouts + SQL catalogue sequence and join rules + Scan/column agreement",
   text="Decides: SnapshotPayouts is executable iff height >= 258796 and height % 144 == 0 with that height, the rate fallbacks by era (and reports the dead pre-2.0.2 fallback as a known genuine defect), no one-time adjustment at a snapshot height; at snapshot heights no balance-writing step can precede the snapshot; in SnapshotPayouts rotation dominates selection dominates credits on the block tx, cap = 4,500e8 x 144, credits are Payouts()[key] to addressMap[key] in PEG with history from the same map, valuation converts balance[i] at rates[i] into pUSD, PEG excluded, zero balances skipped, zero-rate assets skipped from 2.0.2; SnapshotCurrent is exactly delete-past, copy current->past, delete-current, copy pn_addresses->current as plain statements in order on the tx with errors propagated; the selection inner-joins past and current on address with MIN(current,past) generated for tickers 1..62; Scan slots of the four wide selects match the column order. Does not decide proportionality or the dust arithmetic (runtime values).",
   note="Trusted: mainnet activation constants, SQLite evaluation of MIN/JOIN, go/ssa.",
   ref="DESIGN.md §2.6, §4 C14, Appendix B"),
 "C15": dict(
   technique="abstract decision tables: sparse conditional constant propagation over go/ssa specialised per height class (all intervals/points of the activation constants x residue mod 144), must-pass-through and execution-order queries on the specialised CFG, constant evaluation of the reward arithmetic, who-may-call",
   text="Decides for every height class which scheduled-issuance function is executable and with which height: the 2.0.4 mint and its burn only at their activation heights, burn-address zeroing only at its two heights (right address, history rows only before 2.0.2), developer payouts iff height >= activation and height % 144 == 0; that at those heights the call lies on every non-failing path (cannot be skipped by unrelated conditions); that a step which debits amounts read from committed balances precedes every other balance write of the block; that each developer's credit equals percentage x total in both eras with totals 2,000 and 2,000x144 PEG, percentages summing to 100, history row = credit, ticker PEG; that these functions have no other caller; and mint-table sanity. The heights are enumerated exhaustively as equivalence classes, not sampled. Does not decide the mint amounts themselves (the table is the specification) nor behaviour under faults (C10).",
   note="Trusted: mainnet activation constants as initialised in source (no store to them is reachable from sync or API: C09/config-stable), go/ssa, go/constant with IEEE-double rounding for float64 expressions. The class argument assumes the height is only compared with activation constants (+-1) and tested mod 144.",
   ref="DESIGN.md §2.6, §4 C15, Appendix B"),
 "C18": dict(
   technique="who-may-write over call graph x SQL catalogue from the JSON-RPC method-map roots + per-root-context shared-location (static race footprint) analysis with lock sets + dominance of the height publication by Commit's nil edge",
   text="Decides that no API handler can reach an SQL write, BeginTx or *sql.Tx method (14 roots, all statements resolved), that the block transaction never escapes the sync goroutine, that no memory location reachable from the shared singletons or package variables is written by one of the two concurrently running roots and accessed by the other without a common mutex or atomic access, and that the sync height handlers read is advanced only after Commit succeeded. Covers every interleaving because it is a footprint argument, not a schedule sample. Does not decide linearisability of multi-statement reads or SQLite lock contention.",
   note="Trusted: database/sql pool reads never observe another connection's uncommitted transaction; go/ssa; call graph (static calls, module-interface CHA, closures, function values, json callbacks). Field-based abstraction: all objects of one struct type share one location per field; per-call objects (local allocations) are excluded per root context.",
   ref="DESIGN.md §2.7 E4/E5, §4 C18"),
}

PENDING_REASON = "not claimed at this commit: the engine for this property is not built yet (see DESIGN.md §8 build order); no verdict is given"

def main():
    props = [json.loads(l) for l in open(os.path.join(HERE, "properties.jsonl"))]
    checks, na = [], []
    for p in props:
        i = p["id"]
        if i in CLAIMED:
            c = CLAIMED[i]
            checks.append(dict(
                property_id=i,
                quick_cmd="bin/check %s quick" % i,
                thorough_cmd="bin/check %s thorough" % i,
                evidence_file="evidence/%s.json" % i,
                replay_cmd_template="cat {path}",
                engine="pegcheck",
                level_claimed=dict(category="other", text=c["text"], design_ref=c["ref"]),
                level_note=c["note"],
                technique=c["technique"]))
        else:
            na.append(dict(property_id=i, reason=NA.get(i, PENDING_REASON)))
    m = dict(
        version=1,
        setup_cmd="bin/build",
        hooks=dict(guard="verif", enable="none: nothing in /repo is instrumented or executed; the analyzer reads the source as built by default tags", baseline_off_cmd="cd /repo && GOFLAGS=-mod=mod GOPROXY=off GOSUMDB=off GOTOOLCHAIN=local go test -vet=off -count=1 ./...", source_commits=[], add_only=True),
        engines=[dict(name="pegcheck", path="checker/", serves_properties=sorted(CLAIMED), kind_free_text="repository-specific static analyzer over go/packages + go/ssa (x/tools v0.29.0): error-flow, order-taint, transaction typestate, who-may-write, shared-state footprint, abstract decision tables (SCCP), bounds/wedge obligations, dominance/provenance, table agreement")],
        checks=checks,
        notes="Static analysis only: no code of /repo is executed by any check. Known genuine defects are listed in known_findings.json and printed as KNOWN-FINDING lines. fix: commits in /repo repair the defects listed there with status=fixed.",
        not_applicable=na)
    json.dump(m, open(os.path.join(HERE, "MANIFEST.json"), "w"), indent=1)
    print("claimed", len(checks), "not_applicable", len(na))

NA = {}
if __name__ == "__main__":
    main()
