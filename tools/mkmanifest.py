#!/usr/bin/env python3
"""Regenerates /verif/MANIFEST.json from the table below (kept in one place so the
claims, techniques and not_applicable list stay consistent)."""
import json, os
HERE = os.path.dirname(os.path.dirname(os.path.abspath(__file__)))

CLAIMED = {
 "C10": dict(
   technique="static error-flow analysis over go/ssa: every storage/upstream-fallible call site reachable from the sync root is classified against the enumerated handling idioms on its dominated error region",
   text="Decides, for every call site reachable from DBlockSync whose callee can fail because of a database or factomd fault (212 sites today), that the returned error is propagated, retried without commit, tolerated as a named sentinel, or aborts; swallowed errors (unbound, never tested, log-only, nil/other variable returned, converted to a plain result, rows.Err missing) are reported by call site. This is the 'no block is committed with part of its effects missing because an error was ignored' clause for all fault positions at once, which no fault-injection sample reaches. It does not decide that the retried run reproduces the fault-free ledger.",
   note="Trusted: x/tools go/ssa; database/sql and the factom client report every fault as a non-nil error. Errors of pure callees (parsers, graders, Convert) are verdicts on chain content, not faults, and are outside the obligation set. Path-insensitive: an error tested on one path is taken as tested.",
   ref="DESIGN.md §2.5, §4 C10"),
}

PENDING_REASON = "not claimed at this commit: the engine for this property is not built yet (see DESIGN.md §8 build order); no verdict is given"

def main():
    props = [json.loads(l) for l in open(os.path.join(HERE, "properties.jsonl"))]
    checks, na = [], []
    for p in props:
        i = p["id"]
        if i in CLAIMED:
            c = CLAIMED[i]
            checks.append(dict(
                property_id=i,
                quick_cmd="bin/check %s quick" % i,
                thorough_cmd="bin/check %s thorough" % i,
                evidence_file="evidence/%s.json" % i,
                replay_cmd_template="cat {path}",
                engine="pegcheck",
                level_claimed=dict(category="other", text=c["text"], design_ref=c["ref"]),
                level_note=c["note"],
                technique=c["technique"]))
        else:
            na.append(dict(property_id=i, reason=NA.get(i, PENDING_REASON)))
    m = dict(
        version=1,
        setup_cmd="bin/build",
        hooks=dict(guard="verif", enable="none: nothing in /repo is instrumented or executed; the analyzer reads the source as built by default tags", baseline_off_cmd="cd /repo && GOFLAGS=-mod=mod GOPROXY=off GOSUMDB=off GOTOOLCHAIN=local go test -vet=off -count=1 ./...", source_commits=[], add_only=True),
        engines=[dict(name="pegcheck", path="checker/", serves_properties=sorted(CLAIMED), kind_free_text="repository-specific static analyzer over go/packages + go/ssa (x/tools v0.29.0): error-flow, order-taint, transaction typestate, who-may-write, shared-state footprint, abstract decision tables (SCCP), bounds/wedge obligations, dominance/provenance, table agreement")],
        checks=checks,
        notes="Static analysis only: no code of /repo is executed by any check. Known genuine defects are listed in known_findings.json and printed as KNOWN-FINDING lines. fix: commits in /repo repair the defects listed there with status=fixed.",
        not_applicable=na)
    json.dump(m, open(os.path.join(HERE, "MANIFEST.json"), "w"), indent=1)
    print("claimed", len(checks), "not_applicable", len(na))

NA = {}
if __name__ == "__main__":
    main()
