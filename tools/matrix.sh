#!/bin/bash
# runs every seeded change against every claimed check; prints one line per seed: which checks fire
cd /verif
ALL=$(python3 -c "import json;print(' '.join(c['property_id'] for c in json.load(open('MANIFEST.json'))['checks']))")
for d in seeded/C*-[AB]; do
  n=$(basename $d)
  P=$d/patch.diff; [ -f $d/patch.rebased.diff ] && P=$d/patch.rebased.diff
  OUT=$(tools/tryseed.sh /verif/$P $ALL 2>&1)
  if echo "$OUT" | grep -q "PATCH-DOES-NOT-APPLY"; then echo "$n NOAPPLY"; continue; fi
  FIRED=$(echo "$OUT" | grep "^== " | awk '$3!="exit=0"{print $2":"$3}' | tr '\n' ' ')
  echo "$n fired: ${FIRED:-NONE}"
done
