#!/usr/bin/env python3
"""Seed x check matrix: applies every seeded change to a scratch worktree of /repo's HEAD (never to /repo),
runs all checks on it in one analyzer process, and prints which checks fire. Maintainer tool, not a registered check."""
import json, os, subprocess, sys, shutil, concurrent.futures as cf
V = "/verif"; MX = "/tmp/mx"
def sh(c, **k): return subprocess.run(c, shell=True, capture_output=True, text=True, **k)
def one(seed):
    d = f"{V}/seeded/{seed}"
    patch = f"{d}/patch.rebased.diff" if os.path.exists(f"{d}/patch.rebased.diff") else f"{d}/patch.diff"
    wt = f"{MX}/{seed}"; vd = f"{MX}/verif-{seed}"
    sh(f"git -C /repo worktree remove --force {wt}"); shutil.rmtree(wt, ignore_errors=True); shutil.rmtree(vd, ignore_errors=True)
    r = sh(f"git -C /repo worktree add -q --detach {wt} HEAD")
    if r.returncode: return seed, "WORKTREE-FAILED " + r.stderr[:100], {}
    try:
        if sh(f"git -C {wt} apply {patch}").returncode: return seed, "NOAPPLY", {}
        os.makedirs(vd); shutil.copy(f"{V}/known_findings.json", vd)
        env = dict(os.environ, GOFLAGS="-mod=mod", GOPROXY="off", GOSUMDB="off", GOTOOLCHAIN="local", GOMAXPROCS=os.environ.get("PEG_GOMAXPROCS", "4"))
        b = sh(f"cd {wt} && go build ./... 2>&1 | grep -v sqlite | grep '\\.go:' | head -2", env=env).stdout.strip()
        out = sh(f"{V}/bin/pegcheck -repo {wt} -verif {vd} -property all", env=env).stdout
        res = {}; viols = {}
        cur = None
        for l in out.splitlines():
            if l.startswith("pegcheck property="): cur = l.split("property=",1)[1].split()[0]
            if l.startswith("  violation: ["):
                rule = l.split("[",1)[1].split("]",1)[0]
                viols.setdefault(cur or rule.split("/")[0].split("-")[0], []).append(rule)
            if l.startswith("RESULT "):
                _, pid, ex = l.split(); res[pid] = int(ex.split("=")[1])
        fired = {p: sorted(set(viols.get(p, []))) or ["(exit %d)" % c] for p, c in res.items() if c != 0}
        return seed, ("BUILD-FAILS " + b) if b else "ok", fired
    finally:
        sh(f"git -C /repo worktree remove --force {wt}"); shutil.rmtree(vd, ignore_errors=True)
def main():
    os.makedirs(MX, exist_ok=True)
    seeds = sorted(x for x in os.listdir(f"{V}/seeded") if os.path.isdir(f"{V}/seeded/{x}"))
    if len(sys.argv) > 1: seeds = [s for s in seeds if s in sys.argv[1:]]
    results = {}
    if len(sys.argv) > 1 and os.path.exists(f"{V}/seeded/MATRIX.json"):
        results = json.load(open(f"{V}/seeded/MATRIX.json"))  # partial run: keep the other rows
    with cf.ThreadPoolExecutor(max_workers=int(os.environ.get("WORKERS", "4"))) as ex:
        for seed, status, fired in ex.map(one, seeds):
            results[seed] = dict(status=status, fired=fired)
            own = seed.split("-")[0]
            # a check that only exits 2 (undecided / analysis error) has not detected anything
            det = {p: r for p, r in fired.items() if r != ["(exit 2)"]}
            print(seed, status, "OWN" if own in det else ("own-UNDECIDED" if own in fired else "own-miss"), json.dumps(fired), flush=True)
    json.dump(results, open(f"{V}/seeded/MATRIX.json", "w"), indent=1, sort_keys=True)
    shutil.rmtree(MX, ignore_errors=True)
main()
