#!/bin/bash
# usage: tools/mutate.sh <file-in-repo> <python-expr old=>new as two args> <prop...> : textual one-off mutation, run checks, revert
set -u
F="$1"; OLD="$2"; NEW="$3"; shift 3
cd /repo || exit 2
if ! git diff --quiet; then echo "repo dirty"; exit 2; fi
python3 - "$F" "$OLD" "$NEW" <<'PY'
import sys
f,old,new=sys.argv[1:4]
s=open(f).read()
if old not in s: print("MUTATION-TARGET-NOT-FOUND"); sys.exit(0)
open(f,'w').write(s.replace(old,new,1))
PY
export GOFLAGS=-mod=mod GOPROXY=off GOSUMDB=off GOTOOLCHAIN=local
go build ./... 2>/dev/null || echo "BUILD-FAILS"
rm -rf /tmp/.ev_backup && cp -r /verif/evidence /tmp/.ev_backup
for ID in "$@"; do
  OUT=$(cd /verif && bin/check $ID quick 2>&1)
  echo "== $ID exit=$? $(echo "$OUT" | grep -c '^VIOLATION') violations"
  echo "$OUT" | grep "^  violation\|^UNDECIDED\|^ANALYSIS-ERROR" | cut -c1-300 | head -4
done
git checkout -q -- . ; git clean -fdq
rm -rf /verif/evidence && mv /tmp/.ev_backup /verif/evidence
