#!/usr/bin/env python3
"""Maintainer helper for known_findings.json (never used by a check).
usage: kf.py known <prop> <rule> <construct> <what_fails> <demonstration>
       kf.py fixed <prop> <rule> <construct> <commit-prefix-of-subject> <what_failed>
       kf.py rm <prop> <rule> <construct>"""
import json, sys, subprocess, os
P = os.path.join(os.path.dirname(os.path.dirname(os.path.abspath(__file__))), "known_findings.json")
d = json.load(open(P))
F = d["findings"]
cmd = sys.argv[1]
if cmd == "known":
    _, _, prop, rule, cons, what, demo = sys.argv
    F[:] = [f for f in F if not (f["property"] == prop and f["rule"] == rule and f["construct"] == cons)]
    F.append(dict(property=prop, rule=rule, construct=cons, what_fails=what, demonstration=demo, status="known"))
elif cmd == "fixed":
    _, _, prop, rule, cons, subj, what = sys.argv
    log = subprocess.check_output("git -C /repo log --format='%h %s'", shell=True, text=True).splitlines()
    c = [l.split(" ", 1)[0] for l in log if l.split(" ", 1)[1].startswith(subj)]
    assert len(c) == 1, (subj, c)
    F[:] = [f for f in F if not (f["property"] == prop and f["rule"] == rule and f["construct"] == cons)]
    F.append(dict(property=prop, rule=rule, construct=cons, what_fails=what, status="fixed", commit=c[0], text="fixed: property=%s %s %s" % (prop, c[0], what)))
elif cmd == "rm":
    _, _, prop, rule, cons = sys.argv
    F[:] = [f for f in F if not (f["property"] == prop and f["rule"] == rule and f["construct"] == cons)]
json.dump(d, open(P, "w"), indent=1)
print(len(F), "entries")
