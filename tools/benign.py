#!/usr/bin/env python3
"""Behaviour-preserving refactorings x checks: applies every patch under /verif/benign to a scratch worktree of
/repo's HEAD (never to /repo), runs all checks in one analyzer process and lists every check that does NOT stay
silent (VIOLATION, UNDECIDED or analysis error = a false alarm of the checker). Maintainer tool, not a registered check."""
import json, os, subprocess, sys, shutil, concurrent.futures as cf
V = "/verif"; MX = "/tmp/bx"
def sh(c, **k): return subprocess.run(c, shell=True, capture_output=True, text=True, **k)
def one(name):
    d = f"{V}/benign/{name}"; wt = f"{MX}/{name}"; vd = f"{MX}/verif-{name}"
    sh(f"git -C /repo worktree remove --force {wt}"); shutil.rmtree(wt, ignore_errors=True); shutil.rmtree(vd, ignore_errors=True)
    if sh(f"git -C /repo worktree add -q --detach {wt} HEAD").returncode: return name, "WORKTREE-FAILED", {}
    try:
        if sh(f"git -C {wt} apply {d}/patch.diff").returncode: return name, "NOAPPLY", {}
        os.makedirs(vd); shutil.copy(f"{V}/known_findings.json", vd)
        env = dict(os.environ, GOFLAGS="-mod=mod", GOPROXY="off", GOSUMDB="off", GOTOOLCHAIN="local", GOMAXPROCS=os.environ.get("PEG_GOMAXPROCS", "4"))
        out = sh(f"{V}/bin/pegcheck -repo {wt} -verif {vd} -property all", env=env).stdout
        res = {}; why = {}
        cur = None
        for l in out.splitlines():
            if l.startswith("pegcheck property="): cur = l.split("property=",1)[1].split()[0]
            for tag in ("  violation: [", "  undecided: [", "ANALYSIS-ERROR"):
                if l.startswith(tag):
                    rule = l.split("[", 1)[1].split("]", 1)[0] if "[" in l else l
                    why.setdefault(cur or rule.split("/")[0].split("-")[0].replace("rule ", ""), []).append(l.strip()[:260])
            if l.startswith("RESULT "):
                _, pid, ex = l.split(); res[pid] = int(ex.split("=")[1])
        fired = {p: why.get(p, ["(exit %d)" % c]) for p, c in res.items() if c != 0}
        return name, "ok", fired
    finally:
        sh(f"git -C /repo worktree remove --force {wt}"); shutil.rmtree(vd, ignore_errors=True)
def main():
    os.makedirs(MX, exist_ok=True)
    names = sorted(x for x in os.listdir(f"{V}/benign") if os.path.isdir(f"{V}/benign/{x}"))
    if len(sys.argv) > 1: names = [s for s in names if s in sys.argv[1:]]
    results = {}
    if len(sys.argv) > 1 and os.path.exists(f"{V}/benign/RESULTS.json"): results = json.load(open(f"{V}/benign/RESULTS.json"))
    with cf.ThreadPoolExecutor(max_workers=int(os.environ.get("WORKERS", "4"))) as ex:
        for name, status, fired in ex.map(one, names):
            results[name] = dict(status=status, false_alarms=fired)
            print(name, status, "SILENT" if not fired else "FALSE-ALARM " + json.dumps(fired), flush=True)
    json.dump(results, open(f"{V}/benign/RESULTS.json", "w"), indent=1, sort_keys=True)
    shutil.rmtree(MX, ignore_errors=True)
main()
