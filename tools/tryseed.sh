#!/bin/bash
# usage: tools/tryseed.sh <patch.diff> <prop> [<prop>...]   — applies the patch to /repo, runs the quick checks, reverts.
set -u
P="$1"; shift
cd /repo || exit 2
if ! git diff --quiet; then echo "repo dirty"; exit 2; fi
if ! git apply --check "$P" 2>/dev/null; then echo "PATCH-DOES-NOT-APPLY $P"; exit 3; fi
git apply "$P"
rm -rf /tmp/.ev_backup && cp -r /verif/evidence /tmp/.ev_backup
export GOFLAGS=-mod=mod GOPROXY=off GOSUMDB=off GOTOOLCHAIN=local
if ! go build ./... 2>/dev/null; then echo "BUILD-FAILS"; fi
for ID in "$@"; do
  OUT=$(cd /verif && bin/check $ID quick 2>&1)
  echo "== $ID exit=$? $(echo "$OUT" | grep -c '^VIOLATION') violations"
  echo "$OUT" | grep "^  violation\|^UNDECIDED\|^ANALYSIS-ERROR" | cut -c1-400
done
git checkout -q -- . ; git clean -fdq
rm -rf /verif/evidence && mv /tmp/.ev_backup /verif/evidence
